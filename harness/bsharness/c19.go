package main

import (
	"context"
	"fmt"
	"runtime"
	"strings"
	"sync"
	"time"

	"github.com/grailbio/bigslice/exec"
)

// ---- C19: concurrent runs in one session
//
// case: "<config> [GMP<n>] ;; <phase> ;; <phase> …"; a phase is "<item> || <item> …", all items of a phase run
// concurrently (each in its own goroutine, started together); items:
//   run <program>      programs may refer to results R<k> of *earlier phases* (numbered in item order over the phases)
//   scan <k>           scan an earlier result
//   discard <k>        discard an earlier result
// Every `run` item yields a result number (nil if it failed).  observation: phases joined by " ## ", items by " || ".

func runC19(c string) string {
	e2eMu.Lock()
	defer e2eMu.Unlock()
	segs := strings.Split(c, ";;")
	cfgText := segs[0]
	cfg := parseConfig(cfgText)
	for _, t := range fields(cfgText) {
		if strings.HasPrefix(t, "GMP") {
			old := runtime.GOMAXPROCS(atoi(t[3:]))
			defer runtime.GOMAXPROCS(old)
		}
	}
	s := startSession(cfg)
	defer s.close()
	ctx := context.Background()
	var results []*exec.Result
	var phases []string
	for _, ph := range segs[1:] {
		items := strings.Split(ph, "||")
		outs := make([]string, len(items))
		newRes := make([]*exec.Result, len(items))
		isRun := make([]bool, len(items))
		var wg sync.WaitGroup
		start := make(chan struct{})
		for i, it := range items {
			it := strings.TrimSpace(it)
			f := fields(it)
			if len(f) == 0 {
				outs[i] = "bad-item"
				continue
			}
			wg.Add(1)
			go func(i int) {
				defer wg.Done()
				<-start
				switch f[0] {
				case "run":
					isRun[i] = true
					o, _ := s.runWithResults(ctx, strings.TrimSpace(it[3:]), results)
					if o.status == "ok" {
						newRes[i] = o.res
					}
					outs[i] = o.text
				case "scan":
					k := atoi(f[1])
					if k >= len(results) || results[k] == nil {
						outs[i] = "skipped"
						return
					}
					outs[i] = timedScan(ctx, results[k])
				case "discard":
					k := atoi(f[1])
					if k >= len(results) || results[k] == nil {
						outs[i] = "skipped"
						return
					}
					done := make(chan struct{})
					go func() { results[k].Discard(ctx); close(done) }()
					select {
					case <-done:
						outs[i] = "done"
					case <-time.After(60 * time.Second):
						outs[i] = "hang"
					}
				default:
					outs[i] = "bad-item"
				}
			}(i)
		}
		for _, it := range items {
			if f := fields(it); len(f) > 0 && f[0] == "run" {
				_ = f
			}
		}
		close(start)
		wg.Wait()
		for i := range items {
			if f := fields(items[i]); len(f) > 0 && f[0] == "run" {
				results = append(results, newRes[i])
			}
		}
		phases = append(phases, strings.Join(outs, " || "))
		hung := false
		for _, o := range outs {
			if strings.HasPrefix(o, "hang") || o == "scanhang" {
				hung = true
			}
		}
		if hung {
			break
		}
	}
	return strings.Join(phases, " ## ")
}

var _ = fmt.Sprint

func init() {
	runners["C19"] = runC19
}
