package main

import (
	"context"
	"fmt"
	"strings"

	"github.com/grailbio/bigslice/exec"
)

// C08: case "MC <0|1> ; [PRE <program> ;;] <program>"
//
//	PRE programs are run first (local executor) and their results are available as R0, R1
//
// obs: the task graph dump, lines joined by " || ", then " ## same=<repeat,gob>"
var c08sess *exec.Session

func runC08(c string) string {
	segs := strings.Split(c, ";;")
	head := fields(strings.SplitN(segs[0], ";", 2)[0])
	mc := head[1] == "1"
	first := strings.SplitN(segs[0], ";", 2)[1]
	progs := append([]string{first}, segs[1:]...)
	main := progs[len(progs)-1]
	var results []interface{}
	if len(progs) > 1 {
		if c08sess == nil {
			c08sess = exec.Start(exec.Local, exec.Parallelism(4))
		}
		for i, p := range progs[:len(progs)-1] {
			r, err := c08sess.Run(context.Background(), progFunc0, fmt.Sprintf("c08pre%d", i), p)
			if err != nil {
				return "preerr " + err.Error()
			}
			results = append(results, r)
			exec.VerifInvNames[exec.VerifResultInv(r)] = fmt.Sprintf("R%d", i)
			if exec.VerifTasksEnvWritable(r) {
				// a real Session.Run left tasks whose invocation copy a worker could still write to
				return "preerr envwritable"
			}
		}
	}
	fn := progFunc0
	args := []interface{}{"c08", main}
	switch len(results) {
	case 1:
		fn = progFunc1
	case 2:
		fn = progFunc2
	}
	args = append(args, results...)
	d1, err := exec.VerifCompile(fn, mc, args...)
	if err != nil {
		return "compileerr " + strings.ReplaceAll(err.Error(), "\n", " ")
	}
	d2, err := exec.VerifCompile(fn, mc, args...)
	if err != nil {
		return "compileerr2"
	}
	same := "1"
	if strings.Join(d1, "\n") != strings.Join(d2, "\n") {
		same = "0"
	}
	gobsame := "-"
	if len(results) == 0 {
		d3, envWritable, err := exec.VerifCompileEncoded(fn, mc, args...)
		switch {
		case err != nil:
			gobsame = "err"
		case envWritable:
			gobsame = "envwritable"
		case strings.Join(d1, "\n") == strings.Join(d3, "\n"):
			gobsame = "1"
		default:
			gobsame = "0"
		}
	}
	return strings.Join(d1, " || ") + fmt.Sprintf(" ## same=%s,%s", same, gobsame)
}

func init() { runners["C08"] = runC08 }
