package main

import (
	"encoding/hex"
	"fmt"
	"hash/crc32"
)

// C07crc: case "CRC <hex> ; DMG <pos> <hex>"  (the bytes at pos.. are replaced by the second string)
// obs: "<crc of the bytes> <crc of the damaged bytes>", computed the way sliceio/codec.go does (NewIEEE, Reset, Write, Sum32).
func runC07crc(c string) string {
	f := fields(c)
	if f[1] == "-" {
		f[1] = ""
	}
	data, err := hex.DecodeString(f[1])
	if err != nil {
		panic(err)
	}
	sum := func(b []byte) uint32 {
		h := crc32.NewIEEE()
		_, _ = h.Write([]byte("stale")) // the codec resets the hash before every batch
		h.Reset()
		// written in pieces, as gob writes a batch
		for i := 0; i < len(b); i += 3 {
			j := i + 3
			if j > len(b) {
				j = len(b)
			}
			_, _ = h.Write(b[i:j])
		}
		return h.Sum32()
	}
	dmg := append([]byte{}, data...)
	if len(f) >= 6 && f[3] == "DMG" {
		pos := atoi(f[4])
		w, err := hex.DecodeString(f[5])
		if err != nil {
			panic(err)
		}
		copy(dmg[pos:], w)
	}
	return fmt.Sprintf("%d %d", sum(data), sum(dmg))
}

func init() { runners["C07crc"] = runC07crc }
