package main

import (
	"context"
	"fmt"
	"sort"
	"strings"
	"sync"

	"github.com/grailbio/bigmachine/testsystem"
	"github.com/grailbio/bigslice/exec"
)

// ---- C02: machines lost at exact RPC boundaries
//
// case: "<bm config> ;; KILL <method> <n> <before|after> [; KILL …] ;; <program> [;; <program using R0>]"
// The machine serving the n-th call (1-based, counted per method over the whole case) of <method> is killed before the
// call runs, or after it ran but before its reply is delivered.  Methods: Worker.Compile, Worker.Run, Worker.Stat,
// Worker.Read, Worker.CommitCombiner, Supervisor.Keepalive, …
// observation: per program the outcome of runProgram, then " | kills=<performed>"; programs joined by " ## ".

type killSpec struct {
	method string
	n      int
	phase  string
	done   bool
}

func runC02(c string) string {
	e2eMu.Lock()
	defer e2eMu.Unlock()
	segs := strings.Split(c, ";;")
	cfg := parseConfig(segs[0])
	cfg.fastKeepalive = true
	var specs []*killSpec
	for _, k := range strings.Split(segs[1], ";") {
		f := fields(k)
		if len(f) == 4 && f[0] == "KILL" {
			specs = append(specs, &killSpec{method: f[1], n: atoi(f[2]), phase: f[3]})
		}
	}
	var mu sync.Mutex
	kills := 0
	testsystem.RPCHookReset()
	testsystem.RPCHook = func(addr, method, phase string, ordinal int) bool {
		mu.Lock()
		defer mu.Unlock()
		for _, s := range specs {
			if !s.done && s.method == method && s.phase == phase && ordinal == s.n {
				s.done = true
				kills++
				return true
			}
		}
		return false
	}
	defer func() { testsystem.RPCHook = nil }()
	s := startSession(cfg)
	defer s.close()
	ctx := context.Background()
	var results []*exec.Result
	var outs []string
	for _, prog := range segs[2:] {
		// the results a program mentions (R<k>, numbered over the case) are passed as its arguments
		o, _ := s.runWithResults(ctx, prog, results)
		mu.Lock()
		k := kills
		mu.Unlock()
		var cs []string
		for m, n := range testsystem.RPCCounts() {
			cs = append(cs, fmt.Sprintf("%s:%d", m, n))
		}
		sort.Strings(cs)
		outs = append(outs, fmt.Sprintf("%s | kills=%d | rpcs=%s", o.text, k, strings.Join(cs, ",")))
		if o.res != nil && o.status == "ok" {
			results = append(results, o.res)
		} else {
			break
		}
	}
	return strings.Join(outs, " ## ")
}

func init() {
	runners["C02"] = runC02
}
