package main

import (
	"bytes"
	"context"
	"fmt"
	"strings"
	"time"

	baseerrors "github.com/grailbio/base/errors"
	"github.com/grailbio/bigslice/frame"
	"github.com/grailbio/bigslice/sliceio"
)

// C07: case "K kinds ; B v,v|v,v ; B ; ... ; DEST k k ; DMG none|flip <bit>|trunc <byte>|allflips|alltruncs"
// A batch "B" lists rows separated by '|', values by ','.

func c07status(err error) string {
	switch {
	case err == nil:
		return "-"
	case err == sliceio.EOF:
		return "eof"
	case baseerrors.Is(baseerrors.Integrity, err):
		return "integ"
	default:
		return "err"
	}
}

// c07read drains the decoder over data with the destination sizes; returns rows (as text), per-call trace, final status
func c07read(kinds []string, data []byte, dest []int) (rows []string, calls []string, status string) {
	type res struct {
		rows   []string
		calls  []string
		status string
	}
	ch := make(chan res, 1)
	go func() {
		var r res
		defer func() {
			if e := recover(); e != nil {
				r.status = "panic"
				ch <- r
			}
		}()
		rd := sliceio.NewDecodingReader(bytes.NewReader(data))
		ts := make(c11types, len(kinds))
		for i, k := range kinds {
			ts[i] = kindType(k)
		}
		ctx := context.Background()
		for i := 0; i < 5000; i++ {
			k := dest[i%len(dest)]
			f := frame.Make(ts, k, k)
			n, err := rd.Read(ctx, f)
			if n < 0 || n > k {
				r.status = fmt.Sprintf("badn(%d)", n)
				ch <- r
				return
			}
			r.calls = append(r.calls, fmt.Sprintf("%d:%d", k, n))
			for j := 0; j < n; j++ {
				vs := make([]string, len(kinds))
				for c, kd := range kinds {
					vs[c] = itoa(toInt(kd, f.Index(c, j)))
				}
				r.rows = append(r.rows, strings.Join(vs, ","))
			}
			if err != nil {
				r.status = c07status(err)
				// end-of-stream and errors must be sticky
				n2, err2 := rd.Read(ctx, frame.Make(ts, 1, 1))
				if n2 != 0 || c07status(err2) != r.status {
					r.status += "!unsticky"
				}
				ch <- r
				return
			}
		}
		r.status = "noend"
		ch <- r
	}()
	select {
	case r := <-ch:
		return r.rows, r.calls, r.status
	case <-time.After(10 * time.Second):
		return nil, nil, "hang"
	}
}

func runC07(c string) string {
	parts := strings.Split(c, ";")
	kinds := strings.Split(fields(parts[0])[1], ",")
	var batches [][][]int
	dest := []int{4}
	dmg := []string{"none"}
	viewPad := -1
	for _, p := range parts[1:] {
		f := fields(p)
		if len(f) == 0 {
			continue
		}
		switch f[0] {
		case "B":
			var rows [][]int
			if len(f) > 1 {
				for _, r := range strings.Split(f[1], "|") {
					var vs []int
					for _, v := range strings.Split(r, ",") {
						vs = append(vs, atoi(v))
					}
					rows = append(rows, vs)
				}
			}
			batches = append(batches, rows)
		case "DEST":
			dest = nil
			for _, t := range f[1:] {
				dest = append(dest, atoi(t))
			}
		case "DMG":
			dmg = f[1:]
		case "VIEW":
			// the batches are written as views [start, end) of one frame that holds `pad` other rows in front of them
			viewPad = atoi(f[1])
		}
	}
	// encode
	var buf bytes.Buffer
	enc := sliceio.NewEncodingWriter(&buf)
	var offsets []string
	var written []string
	ts := make(c11types, len(kinds))
	for i, k := range kinds {
		ts[i] = kindType(k)
	}
	var big frame.Frame
	bigAt := 0
	if viewPad >= 0 {
		total := viewPad
		for _, b := range batches {
			total += len(b)
		}
		big = frame.Make(ts, total+viewPad, total+viewPad)
		for i := 0; i < total+viewPad; i++ {
			for cidx, k := range kinds {
				big.Index(cidx, i).Set(fromInt(k, 1+(77+i)%2))
			}
		}
		bigAt = viewPad
	}
	for _, b := range batches {
		f := frame.Make(ts, len(b), len(b))
		if viewPad >= 0 {
			f = big.Slice(bigAt, bigAt+len(b))
			bigAt += len(b)
		}
		for i, r := range b {
			for cidx, k := range kinds {
				f.Index(cidx, i).Set(fromInt(k, r[cidx]))
			}
			vs := make([]string, len(r))
			for j, v := range r {
				vs[j] = itoa(v)
			}
			written = append(written, strings.Join(vs, ","))
		}
		if err := enc.Write(context.Background(), f); err != nil {
			return "encerr " + err.Error()
		}
		offsets = append(offsets, itoa(buf.Len()))
	}
	data := buf.Bytes()
	isPrefix := func(rows []string) int {
		if len(rows) > len(written) {
			return 0
		}
		for i := range rows {
			if rows[i] != written[i] {
				return 0
			}
		}
		return 1
	}
	head := fmt.Sprintf("offsets=%s total=%d bytes=%d", strings.Join(offsets, ","), len(written), len(data))
	switch dmg[0] {
	case "none":
		rows, calls, st := c07read(kinds, data, dest)
		return fmt.Sprintf("%s | calls=%s | rows=%s | %s", head, strings.Join(calls, " "), strings.Join(rows, ";"), st)
	case "flip", "trunc":
		pos := atoi(dmg[1])
		d := append([]byte(nil), data...)
		if dmg[0] == "flip" {
			if pos/8 >= len(d) {
				return head + " | skip"
			}
			d[pos/8] ^= 1 << uint(pos%8)
		} else {
			if pos > len(d) {
				return head + " | skip"
			}
			d = d[:pos]
		}
		rows, _, st := c07read(kinds, d, dest)
		return fmt.Sprintf("%s | %d:%d:%s:%d", head, pos, len(rows), st, isPrefix(rows))
	case "burst":
		// xor <len> bytes starting at <byte> with a pattern
		pos, ln := atoi(dmg[1]), atoi(dmg[2])
		d := append([]byte(nil), data...)
		if pos+ln > len(d) || ln == 0 {
			return head + " | skip"
		}
		for i := 0; i < ln; i++ {
			d[pos+i] ^= byte(0x5b + 37*i)
			if d[pos+i] == data[pos+i] {
				d[pos+i] ^= 1
			}
		}
		rows, _, st := c07read(kinds, d, dest)
		return fmt.Sprintf("%s | %d:%d:%s:%d", head, pos*8, len(rows), st, isPrefix(rows))
	case "allflips", "alltruncs":
		var out []string
		limit := len(data) * 8
		if dmg[0] == "alltruncs" {
			limit = len(data)
		}
		for pos := 0; pos < limit; pos++ {
			d := append([]byte(nil), data...)
			if dmg[0] == "allflips" {
				d[pos/8] ^= 1 << uint(pos%8)
			} else {
				d = d[:pos]
			}
			rows, _, st := c07read(kinds, d, dest)
			out = append(out, fmt.Sprintf("%d:%d:%s:%d", pos, len(rows), st, isPrefix(rows)))
		}
		return head + " | " + strings.Join(out, " ")
	}
	panic("bad damage")
}

func init() { runners["C07"] = runC07 }
