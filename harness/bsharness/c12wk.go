package main

import (
	"context"
	"errors"
	"fmt"
	"sort"
	"strings"
	"sync"
	"time"

	"github.com/grailbio/bigslice"
	"github.com/grailbio/bigslice/exec"
	"github.com/grailbio/bigslice/sliceio"
)

// ---- C12wk: one task on one in-process worker under overlapping Worker.Run / Worker.Discard calls (model: BS.WorkerTask)
//
// case: ops separated by " ; " — every op names a call (a letter) or resolves the call that currently holds the task:
//   run X       start a Worker.Run call X (it executes the task, waits for it, or returns at once)
//   fin ok|err  the executing call's user function returns its rows / fails
//   discard X   start a Worker.Discard call X (the store's Discard is held at a gate)
//   dfin        release the Discard call held at the gate
//   cancel X    cancel the context of call X
// after every op the harness waits for the worker to come to rest and records
//   st=<task state> out=<0|1: the store holds the output> exec=<call executing|-> replies=<X:ok|X:err|X:none …>
// (replies: the calls that returned during this op, sorted).

var wkGate struct {
	mu      sync.Mutex
	entered chan struct{}
	outcome chan string
}

var errWkUser = errors.New("scripted user failure")

var wkFunc = bigslice.Func(func(n int) bigslice.Slice {
	type st struct{ done bool }
	return bigslice.ReaderFunc(1, func(shard int, s *st, out []int64) (int, error) {
		if s.done {
			return 0, sliceio.EOF
		}
		wkGate.mu.Lock()
		e, o := wkGate.entered, wkGate.outcome
		wkGate.mu.Unlock()
		e <- struct{}{}
		if <-o == "err" {
			return 0, errWkUser
		}
		s.done = true
		k := n
		if k > len(out) {
			k = len(out)
		}
		for i := 0; i < k; i++ {
			out[i] = int64(i)
		}
		return k, sliceio.EOF
	})
})

func runC12wk(c string) string {
	e2eMu.Lock()
	defer e2eMu.Unlock()
	wkGate.mu.Lock()
	wkGate.entered, wkGate.outcome = make(chan struct{}, 16), make(chan string, 16)
	wkGate.mu.Unlock()
	v, err := exec.VerifNewWorker(wkFunc, 3)
	if err != nil {
		return "setup-error " + err.Error()
	}
	defer v.Close()
	root := v.Roots()[0]
	release, dentered := v.HoldDiscards()
	defer func() { release() }()
	type reply struct{ who, what string }
	replies := make(chan reply, 64)
	ctx, cancel := context.WithCancel(context.Background())
	defer cancel()
	cancels := map[string]context.CancelFunc{}
	execCall := "-"   // the call whose user function is at the gate
	pendingRun := ""  // the most recently started Run call that has neither returned nor been seen executing
	var waiting []string
	var outs []string
	settle := func() []string {
		// the worker is at rest when nothing happens for a while: replies, gate entries
		var got []string
		idle := 0
		for idle < 4 {
			select {
			case r := <-replies:
				got = append(got, r.who+":"+r.what)
				for i, w := range waiting {
					if w == r.who {
						waiting = append(waiting[:i], waiting[i+1:]...)
						break
					}
				}
				if pendingRun == r.who {
					pendingRun = ""
				}
				idle = 0
			case <-wkGate.entered:
				// some Run call reached the user function: the pending one, or a waiter that took the task over
				if pendingRun != "" {
					execCall, pendingRun = pendingRun, ""
				} else if len(waiting) > 0 {
					execCall = "?" // one of the waiting calls (which one is the scheduler's choice)
				}
				idle = 0
			case <-time.After(15 * time.Millisecond):
				idle++
			}
		}
		if pendingRun != "" {
			waiting = append(waiting, pendingRun)
			pendingRun = ""
		}
		sort.Strings(got)
		return got
	}
	for _, op := range strings.Split(c, ";") {
		f := fields(op)
		if len(f) == 0 {
			continue
		}
		switch f[0] {
		case "run":
			who := f[1]
			pendingRun = who
			cctx, ccancel := context.WithCancel(ctx)
			cancels[who] = ccancel
			go func() {
				err := v.Run(cctx, root)
				what := "ok"
				if err != nil {
					what = "err"
				}
				replies <- reply{who, what}
			}()
		case "fin":
			if execCall == "-" {
				outs = append(outs, "noexec")
				continue
			}
			wkGate.outcome <- f[1]
			execCall = "-"
		case "discard":
			who := f[1]
			go func() {
				_ = v.Discard(ctx, root)
				replies <- reply{who, "none"}
			}()
		case "cancel":
			// the context of call X is cancelled (its client went away)
			if cf := cancels[f[1]]; cf != nil {
				cf()
			}
		case "dfin":
			release()
			release, dentered = v.HoldDiscards()
		default:
			outs = append(outs, "bad-op")
			continue
		}
		got := settle()
	drain:
		for {
			select {
			case <-dentered:
			default:
				break drain
			}
		}
		o := 0
		if v.HasOutput(root) {
			o = 1
		}
		ex := execCall
		if ex == "?" {
			ex = "w" // a waiting call took the task over
		}
		outs = append(outs, fmt.Sprintf("st=%v out=%d exec=%s replies=%s", v.State(root), o, ex, strings.Join(got, ",")))
	}
	// let every call return before the worker is shut down
	release()
	release = func() {}
	for i := 0; i < 8; i++ {
		select {
		case wkGate.outcome <- "err":
		default:
		}
	}
	cancel()
	time.Sleep(20 * time.Millisecond)
	return strings.Join(outs, " | ")
}

func init() { runners["C12wk"] = runC12wk }
