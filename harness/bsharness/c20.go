package main

import (
	"bytes"
	"encoding/gob"
	"fmt"
	"strings"

	"github.com/grailbio/bigslice/metrics"
)

// C20: op sequences over metric scopes.
// case: "new ; incr s c n ; value s c ; merge s u ; reset s u ; resetnil s ; gob s"
// obs : per-op results joined by " ", then "| <dump of every scope>"

var c20counters = func() []metrics.Counter {
	cs := make([]metrics.Counter, 6)
	for i := range cs {
		cs[i] = metrics.NewCounter()
	}
	return cs
}()

func runC20(c string) string {
	var scopes []*metrics.Scope
	var out []string
	for _, p := range strings.Split(c, ";") {
		op := fields(p)
		if len(op) == 0 {
			continue
		}
		sc := func(i int) *metrics.Scope {
			k := atoi(op[i])
			if k < 0 || k >= len(scopes) {
				return nil
			}
			return scopes[k]
		}
		switch op[0] {
		case "new":
			scopes = append(scopes, new(metrics.Scope))
			out = append(out, "ok")
		case "incr":
			if s := sc(1); s != nil {
				c20counters[atoi(op[2])].Incr(s, int64(atoi(op[3])))
				out = append(out, "ok")
			} else {
				out = append(out, "skip")
			}
		case "value":
			if s := sc(1); s != nil {
				out = append(out, fmt.Sprint(c20counters[atoi(op[2])].Value(s)))
			} else {
				out = append(out, "skip")
			}
		case "merge":
			s, u := sc(1), sc(2)
			if s == nil || u == nil {
				out = append(out, "skip")
				continue
			}
			s.Merge(u)
			out = append(out, "ok")
		case "reset":
			s, u := sc(1), sc(2)
			if s == nil || u == nil {
				out = append(out, "skip")
				continue
			}
			s.Reset(u)
			out = append(out, "ok")
		case "resetnil":
			if s := sc(1); s != nil {
				s.Reset(nil)
				out = append(out, "ok")
			} else {
				out = append(out, "skip")
			}
		case "gob":
			s := sc(1)
			if s == nil {
				out = append(out, "skip")
				continue
			}
			var b bytes.Buffer
			if err := gob.NewEncoder(&b).Encode(s); err != nil {
				out = append(out, "encerr")
				continue
			}
			t := new(metrics.Scope)
			if err := gob.NewDecoder(&b).Decode(t); err != nil {
				out = append(out, "decerr")
				continue
			}
			scopes = append(scopes, t)
			out = append(out, "ok")
		default:
			panic("bad op " + op[0])
		}
	}
	var d []string
	for _, s := range scopes {
		vs := make([]string, len(c20counters))
		for i, ctr := range c20counters {
			vs[i] = fmt.Sprint(ctr.Value(s))
		}
		d = append(d, strings.Join(vs, ","))
	}
	return strings.Join(out, " ") + " | " + strings.Join(d, " ")
}

func init() { runners["C20"] = runC20 }
