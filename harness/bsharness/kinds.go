package main

import (
	"fmt"
	"reflect"

	"github.com/grailbio/bigslice/frame"
)

// Column kinds of the harness's type universe.  Every value is the image of a
// small non-negative integer under an injective map that sends 0 to the zero
// value and is monotone for the kinds that have a registered Less.

type stKind struct {
	A int
	B string
}

// s3Kind is a pointer-free struct of 12 bytes (not a multiple of the word size): zeroed by internal/zero's generic path.
// Values are partially zero (gob omits zero fields, so a decoder that reuses memory must have cleared every byte).
type s3Kind struct {
	A, B, C int32
}

// ccKind has a custom frame codec (registered below): Encode/Decode of the column go through
// frame.Ops rather than gob's value encoding.
type ccKind struct{ V int }

var ccKey = frame.FreshKey()

func init() {
	frame.RegisterOps(func(slice []ccKind) frame.Ops {
		return frame.Ops{
			Encode: func(e frame.Encoder, i, j int) error {
				vs := make([]int, 0, j-i)
				for _, c := range slice[i:j] {
					vs = append(vs, c.V*3+1)
				}
				return e.Encode(vs)
			},
			Decode: func(d frame.Decoder, i, j int) error {
				var calls *int
				if d.State(ccKey, &calls) {
					*calls = 0
				}
				*calls++
				var vs []int
				if err := d.Decode(&vs); err != nil {
					return err
				}
				if len(vs) != j-i {
					return fmt.Errorf("custom codec: %d values for %d rows", len(vs), j-i)
				}
				for k, v := range vs {
					slice[i+k] = ccKind{(v - 1) / 3}
				}
				return nil
			},
		}
	})
}

var kindTypes = map[string]reflect.Type{
	"cc":    reflect.TypeOf(ccKind{}),
	"i64":   reflect.TypeOf(int64(0)),
	"i32":   reflect.TypeOf(int32(0)),
	"i16":   reflect.TypeOf(int16(0)),
	"i8":    reflect.TypeOf(int8(0)),
	"u8":    reflect.TypeOf(uint8(0)),
	"u16":   reflect.TypeOf(uint16(0)),
	"u32":   reflect.TypeOf(uint32(0)),
	"u64":   reflect.TypeOf(uint64(0)),
	"int":   reflect.TypeOf(int(0)),
	"uint":  reflect.TypeOf(uint(0)),
	"uptr":  reflect.TypeOf(uintptr(0)),
	"str":   reflect.TypeOf(""),
	"f64":   reflect.TypeOf(float64(0)),
	"f32":   reflect.TypeOf(float32(0)),
	"bool":  reflect.TypeOf(false),
	"bytes": reflect.TypeOf([]byte(nil)),
	"st":    reflect.TypeOf(stKind{}),
	"pt":    reflect.TypeOf((*int64)(nil)),
	"sl":    reflect.TypeOf([]int32(nil)),
	"arr":   reflect.TypeOf([3]int16{}),
	"s3":    reflect.TypeOf(s3Kind{}),
	"mp":    reflect.TypeOf(map[string]int(nil)),
}

func kindType(k string) reflect.Type {
	t, ok := kindTypes[k]
	if !ok {
		panic("unknown kind " + k)
	}
	return t
}

// kindScale spreads the small naturals of the cases over every byte of a wider integer type (v ↦ v·scale, injective and
// monotone for 0 ≤ v ≤ 90), so that an operation that moves or compares only some of a value's bytes is visible.
func kindScale(k string) int {
	switch k {
	case "i16":
		return 257
	case "u16":
		return 701
	case "i32", "u32":
		return 16843009
	case "i64", "u64", "int", "uint", "uptr":
		return 72340172838076673
	}
	return 1
}

func fromInt(k string, v int) reflect.Value {
	v *= kindScale(k)
	switch k {
	case "i64":
		return reflect.ValueOf(int64(v))
	case "i32":
		return reflect.ValueOf(int32(v))
	case "i16":
		return reflect.ValueOf(int16(v))
	case "i8":
		return reflect.ValueOf(int8(v))
	case "u8":
		return reflect.ValueOf(uint8(v))
	case "u16":
		return reflect.ValueOf(uint16(v))
	case "u32":
		return reflect.ValueOf(uint32(v))
	case "u64":
		return reflect.ValueOf(uint64(v))
	case "int":
		return reflect.ValueOf(v)
	case "uint":
		return reflect.ValueOf(uint(v))
	case "uptr":
		return reflect.ValueOf(uintptr(v))
	case "str":
		if v == 0 {
			return reflect.ValueOf("")
		}
		return reflect.ValueOf(fmt.Sprintf("k%04d", v))
	case "f64":
		return reflect.ValueOf(float64(v))
	case "f32":
		return reflect.ValueOf(float32(v))
	case "bool":
		return reflect.ValueOf(v != 0)
	case "bytes":
		if v == 0 {
			return reflect.ValueOf([]byte(nil))
		}
		return reflect.ValueOf([]byte(fmt.Sprintf("b%04d", v)))
	case "st":
		if v == 0 {
			return reflect.ValueOf(stKind{})
		}
		// partially zero structs: gob omits zero fields, so a decoder that reuses memory must have cleared it
		switch v % 3 {
		case 1:
			return reflect.ValueOf(stKind{A: v})
		case 2:
			return reflect.ValueOf(stKind{B: fmt.Sprint(v)})
		}
		return reflect.ValueOf(stKind{A: v, B: fmt.Sprint(v)})
	case "pt":
		if v == 0 {
			return reflect.ValueOf((*int64)(nil))
		}
		x := int64(v)
		return reflect.ValueOf(&x)
	case "sl":
		if v == 0 {
			return reflect.ValueOf([]int32(nil))
		}
		return reflect.ValueOf([]int32{int32(v), int32(v)})
	case "arr":
		return reflect.ValueOf([3]int16{int16(v), int16(v), int16(v)})
	case "s3":
		// v = 0: zero; otherwise the fields hold v except one (chosen by v mod 3) that is left zero
		s := s3Kind{int32(v), int32(v), int32(v)}
		if v != 0 {
			switch v % 3 {
			case 0:
				s.C = 0
			case 1:
				s.A = 0
			case 2:
				s.B = 0
			}
		}
		return reflect.ValueOf(s)
	case "cc":
		return reflect.ValueOf(ccKind{v})
	case "mp":
		if v == 0 {
			return reflect.ValueOf(map[string]int(nil))
		}
		return reflect.ValueOf(map[string]int{fmt.Sprintf("k%d", v): v})
	}
	panic("unknown kind " + k)
}

// unscale inverts kindScale; a value that is not a multiple of the scale (a torn or truncated value) is shown as -(raw value)-1000
func unscale(k string, x int) int {
	s := kindScale(k)
	if x%s != 0 {
		if x > 0 {
			return -x - 1000
		}
		return x - 1000
	}
	return x / s
}

func toInt(k string, v reflect.Value) int {
	switch k {
	case "i64", "i32", "i16", "i8", "int":
		return unscale(k, int(v.Int()))
	case "u8", "u16", "u32", "u64", "uint", "uptr":
		return unscale(k, int(v.Uint()))
	case "str":
		s := v.String()
		if s == "" {
			return 0
		}
		if len(s) != 5 || s[0] != 'k' {
			return -999
		}
		return atoi(s[1:])
	case "f64", "f32":
		return int(v.Float())
	case "bool":
		if v.Bool() {
			return 1
		}
		return 0
	case "bytes":
		b := v.Bytes()
		if len(b) == 0 {
			return 0
		}
		if len(b) != 5 || b[0] != 'b' {
			return -999
		}
		return atoi(string(b[1:]))
	case "st":
		s := v.Interface().(stKind)
		if s.A == 0 && s.B == "" {
			return 0
		}
		switch {
		case s.B == "":
			if s.A%3 != 1 {
				return -999
			}
			return s.A
		case s.A == 0:
			if atoi(s.B)%3 != 2 {
				return -999
			}
			return atoi(s.B)
		}
		if s.B != fmt.Sprint(s.A) || s.A%3 != 0 {
			return -999
		}
		return s.A
	case "pt":
		if v.IsNil() {
			return 0
		}
		return int(v.Elem().Int())
	case "sl":
		if v.Len() == 0 {
			return 0
		}
		if v.Len() != 2 || v.Index(0).Int() != v.Index(1).Int() {
			return -999
		}
		return int(v.Index(0).Int())
	case "cc":
		return v.Interface().(ccKind).V
	case "mp":
		m := v.Interface().(map[string]int)
		if len(m) == 0 {
			return 0
		}
		if len(m) != 1 {
			return -999
		}
		for k, x := range m {
			if k != fmt.Sprintf("k%d", x) {
				return -999
			}
			return x
		}
		return -999
	case "arr":
		a := v.Interface().([3]int16)
		if a[0] != a[1] || a[1] != a[2] {
			return -999
		}
		return int(a[0])
	case "s3":
		s := v.Interface().(s3Kind)
		if s == (s3Kind{}) {
			return 0
		}
		x := int(s.A)
		if x == 0 {
			x = int(s.B)
		}
		if x == 0 || fromInt("s3", x).Interface().(s3Kind) != s {
			return -999
		}
		return x
	}
	panic("unknown kind " + k)
}
