package main

import (
	"context"
	"errors"
	"fmt"
	"io"
	"os"
	"path/filepath"
	"strings"
	"time"

	"github.com/grailbio/base/file"
	"github.com/grailbio/base/retry"
	"github.com/grailbio/bigslice/exec"
)

// ---- a fault-injecting file.Implementation ("verif://<local path>")

type faultFS struct {
	local  file.Implementation
	ops    int // operations performed in this case
	failAt int // ordinal (1-based) of the operation that fails; 0 = none
	failFrom int // every operation from this ordinal on fails; 0 = none
	failKind string // if set, failFrom applies to operations of this kind only
	log    []string
}

var ffs = &faultFS{local: file.NewLocalImplementation()}

var c15seq int

var errFault = errors.New("injected file-operation failure")

func (f *faultFS) step(name string) error {
	f.ops++
	f.log = append(f.log, name)
	if f.failAt == f.ops || (f.failFrom > 0 && f.ops >= f.failFrom && (f.failKind == "" || f.failKind == name)) {
		return errFault
	}
	return nil
}

func (f *faultFS) lpath(p string) string { return strings.TrimPrefix(p, "verif://") }
func (f *faultFS) String() string        { return "verif" }
func (f *faultFS) List(ctx context.Context, p string, r bool) file.Lister {
	return f.local.List(ctx, f.lpath(p), r)
}
func (f *faultFS) Presign(ctx context.Context, p, m string, e time.Duration) (string, error) {
	return "", errors.New("not supported")
}
func (f *faultFS) Open(ctx context.Context, p string, opts ...file.Opts) (file.File, error) {
	if err := f.step("open"); err != nil {
		return nil, err
	}
	ff, err := f.local.Open(ctx, f.lpath(p), opts...)
	if err != nil {
		return nil, err
	}
	return &faultFile{File: ff, fs: f}, nil
}
func (f *faultFS) Create(ctx context.Context, p string, opts ...file.Opts) (file.File, error) {
	if err := f.step("create"); err != nil {
		return nil, err
	}
	ff, err := f.local.Create(ctx, f.lpath(p), opts...)
	if err != nil {
		return nil, err
	}
	return &faultFile{File: ff, fs: f, writing: true}, nil
}
func (f *faultFS) Stat(ctx context.Context, p string, opts ...file.Opts) (file.Info, error) {
	if err := f.step("statpath"); err != nil {
		return nil, err
	}
	return f.local.Stat(ctx, f.lpath(p), opts...)
}
func (f *faultFS) Remove(ctx context.Context, p string) error {
	if err := f.step("remove"); err != nil {
		return err
	}
	return f.local.Remove(ctx, f.lpath(p))
}

type faultFile struct {
	file.File
	fs      *faultFS
	writing bool
}

func (f *faultFile) Stat(ctx context.Context) (file.Info, error) {
	if err := f.fs.step("stat"); err != nil {
		return nil, err
	}
	return f.File.Stat(ctx)
}
func (f *faultFile) Reader(ctx context.Context) io.ReadSeeker {
	return &faultRS{f.File.Reader(ctx), f.fs}
}
func (f *faultFile) Writer(ctx context.Context) io.Writer { return &faultW{f.File.Writer(ctx), f.fs} }
func (f *faultFile) Close(ctx context.Context) error {
	name := "closer"
	if f.writing {
		name = "closew"
	}
	if err := f.fs.step(name); err != nil {
		// a failed close of a file being written does not publish it
		if f.writing {
			f.File.Discard(ctx)
		} else {
			_ = f.File.Close(ctx)
		}
		return err
	}
	return f.File.Close(ctx)
}

type faultRS struct {
	io.ReadSeeker
	fs *faultFS
}

func (r *faultRS) Read(p []byte) (int, error) {
	if err := r.fs.step("read"); err != nil {
		return 0, err
	}
	return r.ReadSeeker.Read(p)
}
func (r *faultRS) Seek(off int64, whence int) (int64, error) {
	if err := r.fs.step("seek"); err != nil {
		return 0, err
	}
	return r.ReadSeeker.Seek(off, whence)
}

type faultW struct {
	io.Writer
	fs *faultFS
}

func (w *faultW) Write(p []byte) (int, error) {
	if err := w.fs.step("write"); err != nil {
		return 0, err
	}
	return w.Writer.Write(p)
}

func init() {
	file.RegisterImplementation("verif", func() file.Implementation { return ffs })
}

// C15 (stores): case "<mem|file> FAIL <k> ; create t p ; write <id> <text> ; commit <id> <n> ; discardw <id> ;
//
//	open t p off ; stat t p ; discard t p"
//
// writers are numbered in creation order. obs: one token per op.
func runC15(c string) string {
	parts := strings.Split(c, ";")
	h := fields(parts[0])
	var st exec.VerifStore
	ffs.ops, ffs.failAt, ffs.log = 0, atoi(h[2]), nil
	var dir string
	if h[0] == "mem" {
		st = exec.VerifNewMemoryStore()
	} else if h[0] == "lfile" {
		// the file store on the real local file system (as on a bigmachine worker): no injected failures, but the
		// directory can be removed under live writers ("breakdir"), which makes the final close/rename of a commit fail
		c15seq++
		dir = fmt.Sprintf("%s/c15lstore-%d-%d", os.TempDir(), os.Getpid(), c15seq)
		if err := os.Mkdir(dir, 0o755); err != nil {
			panic(err)
		}
		defer os.RemoveAll(dir)
		st = exec.VerifNewFileStore(dir)
	} else {
		var err error
		// a fresh, never reused name (MkdirTemp draws 32-bit random names, which do repeat over 10^5 cases)
		c15seq++
		dir = fmt.Sprintf("%s/c15store-%d-%d", os.TempDir(), os.Getpid(), c15seq)
		err = os.Mkdir(dir, 0o755)
		if err != nil {
			panic(err)
		}
		defer os.RemoveAll(dir)
		st = exec.VerifNewFileStore("verif://" + dir)
	}
	ctx := context.Background()
	var writers []exec.VerifWriteCommitter
	var out []string
	tn := func(s string) exec.TaskName { return exec.TaskName{Op: "op" + s, Shard: 0, NumShard: 1} }
	for _, p := range parts[1:] {
		op := fields(p)
		if len(op) == 0 {
			continue
		}
		before := ffs.ops
		res := func() (res string) {
			defer func() {
				if e := recover(); e != nil {
					res = "panic"
				}
			}()
			switch op[0] {
			case "create":
				w, err := st.Create(ctx, tn(op[1]), atoi(op[2]))
				if err != nil {
					writers = append(writers, nil)
					return "err"
				}
				writers = append(writers, w)
				return "ok"
			case "write":
				w := writers[atoi(op[1])]
				if w == nil {
					return "skip"
				}
				if _, err := w.Write([]byte(op[2])); err != nil {
					return "err"
				}
				return "ok"
			case "commit":
				w := writers[atoi(op[1])]
				if w == nil {
					return "skip"
				}
				writers[atoi(op[1])] = nil
				if err := w.Commit(ctx, int64(atoi(op[2]))); err != nil {
					return "err"
				}
				return "ok"
			case "discardw":
				w := writers[atoi(op[1])]
				if w == nil {
					return "skip"
				}
				writers[atoi(op[1])] = nil
				w.Discard(ctx)
				return "ok"
			case "open":
				rc, err := st.Open(ctx, tn(op[1]), atoi(op[2]), int64(atoi(op[3])))
				if err != nil {
					return "err"
				}
				b, rerr := io.ReadAll(rc)
				cerr := rc.Close()
				if rerr != nil || cerr != nil {
					return "readerr"
				}
				return "data:" + string(b)
			case "stat":
				size, recs, err := exec.VerifStat(st, tn(op[1]), atoi(op[2]))
				if err != nil {
					return "err"
				}
				return fmt.Sprintf("stat:%d:%d", size, recs)
			case "breakdir":
				if err := os.RemoveAll(dir); err != nil {
					return "err"
				}
				if err := os.Mkdir(dir, 0o755); err != nil {
					return "err"
				}
				return "ok"
			case "discard":
				if err := st.Discard(ctx, tn(op[1]), atoi(op[2])); err != nil {
					return "err"
				}
				return "ok"
			}
			panic("bad op")
		}()
		if ffs.failAt > before && ffs.failAt <= ffs.ops {
			res += "!" // the injected failure hit an underlying operation of this op
		}
		out = append(out, res)
	}
	// no temp files may survive under the prefix
	left := 0
	if dir != "" {
		_ = filepath.Walk(dir, func(p string, info os.FileInfo, err error) error {
			if err == nil && !info.IsDir() && strings.Contains(filepath.Base(p), ".tmp") {
				left++
			}
			return nil
		})
	}
	failed := "-"
	if ffs.failAt > 0 && ffs.failAt <= len(ffs.log) {
		failed = ffs.log[ffs.failAt-1]
	}
	return strings.Join(out, " ") + fmt.Sprintf(" | failed=%s nops=%d", failed, ffs.ops)
}

// ---- retrying reader over a scripted opener

type c15conn struct {
	data   []byte
	pos    int
	script *[]string
	closed *int
}

func (c *c15conn) Read(p []byte) (int, error) {
	ev := "full"
	for len(*c.script) > 0 && (*c.script)[0] == "of" {
		*c.script = (*c.script)[1:] // not an event for a read
	}
	if len(*c.script) > 0 {
		ev = (*c.script)[0]
		*c.script = (*c.script)[1:]
	}
	switch {
	case ev == "rf":
		return 0, errors.New("injected read failure")
	case strings.HasPrefix(ev, "rp"):
		// partial bytes delivered together with an error: they must not be counted
		n := atoi(ev[2:])
		if n > len(p) {
			n = len(p)
		}
		if n > len(c.data)-c.pos {
			n = len(c.data) - c.pos
		}
		copy(p, c.data[c.pos:c.pos+n])
		return n, io.ErrUnexpectedEOF
	}
	n := len(p)
	if strings.HasPrefix(ev, "s") {
		n = atoi(ev[1:])
		if n > len(p) {
			n = len(p)
		}
	}
	if n > len(c.data)-c.pos {
		n = len(c.data) - c.pos
	}
	copy(p, c.data[c.pos:c.pos+n])
	c.pos += n
	if c.pos == len(c.data) {
		if ev == "eoflater" && n > 0 {
			return n, nil
		}
		return n, io.EOF
	}
	return n, nil
}
func (c *c15conn) Close() error { *c.closed++; return nil }

// C15retry: case "DATA <text> BUF <k> SCRIPT ev ev ..."  ev: of (open fails) | oo (open ok) | rf | rp<n> | s<n> | full | eoflater
// Events are consumed in order by opens and reads (an open consumes the next event only if it is of/oo).
func runC15retry(c string) string {
	f := fields(c)
	data := []byte(f[1])
	if f[1] == "-" {
		data = nil
	}
	bufk := atoi(f[3])
	script := append([]string(nil), f[5:]...)
	old := exec.VerifSetRetryPolicy(retry.MaxRetries(retry.Backoff(0, 0, 1), 5))
	defer exec.VerifSetRetryPolicy(old)
	opens, closed := 0, 0
	var offsets []string
	opener := exec.VerifOpenerFunc(func(ctx context.Context, off int64) (io.ReadCloser, error) {
		opens++
		offsets = append(offsets, fmt.Sprint(off))
		if len(script) > 0 && script[0] == "of" {
			script = script[1:]
			return nil, errors.New("injected open failure")
		}
		if off < 0 || int(off) > len(data) {
			return nil, fmt.Errorf("bad offset %d", off)
		}
		return &c15conn{data: data, pos: int(off), script: &script, closed: &closed}, nil
	})
	r := exec.VerifNewRetryReader(context.Background(), opener)
	var got []byte
	status := "noend"
	for i := 0; i < 1000; i++ {
		buf := make([]byte, bufk)
		n, err := r.Read(buf)
		got = append(got, buf[:n]...)
		if err == io.EOF {
			status = "eof"
			break
		}
		if err != nil {
			status = "err"
			break
		}
	}
	r.Close()
	return fmt.Sprintf("%s got=%s opens=%d offsets=%s", status, string(got), opens, strings.Join(offsets, ","))
}

func init() {
	runners["C15"] = runC15
	runners["C15retry"] = runC15retry
}
