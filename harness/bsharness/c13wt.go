package main

import (
	"context"
	"errors"
	"fmt"
	"os"
	"path/filepath"
	"reflect"
	"strings"

	"github.com/grailbio/bigslice/frame"
	"github.com/grailbio/bigslice/internal/slicecache"
	"github.com/grailbio/bigslice/sliceio"
	"github.com/grailbio/bigslice/slicetype"
)

// ---- C13wt: the write-through reader of one cache shard, call by call (model: BS.WT)
//
// case: "U <n><s> <n><s> … ; F none | F at <k> | F from <k> [kind] ; STOP <k> ; D <size>"
//   U     the upstream's script: call i returns n rows (numbered 1,2,3… over the script) with status s = m (nil error),
//         e (EOF) or x (an error of the upstream)
//   F     the file operation (1-based ordinal over create/write/closew) that fails once, or from which every
//         operation [of that kind] fails
//   STOP  the consumer abandons the reader after k calls (0: it reads until a call returns a status other than nil)
//   D     rows of the consumer's destination frame (at least the largest n)
// observation: "calls=<n>:<st> … | file=absent|rows:<v,v,…>|unreadable:<st> | fileops=<log>"

var errUpstreamWT = errors.New("scripted upstream error")

type wtUp struct {
	steps []struct {
		n  int
		st byte
	}
	i, next int
}

func (u *wtUp) Read(ctx context.Context, out frame.Frame) (int, error) {
	if u.i >= len(u.steps) {
		return 0, sliceio.EOF
	}
	s := u.steps[u.i]
	u.i++
	n := s.n
	if n > out.Len() {
		n = out.Len()
	}
	for j := 0; j < n; j++ {
		u.next++
		out.Index(0, j).SetInt(int64(u.next))
	}
	switch s.st {
	case 'e':
		return n, sliceio.EOF
	case 'x':
		return n, errUpstreamWT
	}
	return n, nil
}

// wtRanges prints a list of integers as its maximal runs of consecutive values, "a-b,c-d" (a singleton as "a-a")
func wtRanges(vs []int64) string {
	var out []string
	for i := 0; i < len(vs); {
		j := i
		for j+1 < len(vs) && vs[j+1] == vs[j]+1 {
			j++
		}
		out = append(out, fmt.Sprintf("%d-%d", vs[i], vs[j]))
		i = j + 1
	}
	return strings.Join(out, ",")
}

func runC13wt(c string) string {
	e2eMu.Lock()
	defer e2eMu.Unlock()
	up := &wtUp{}
	stop, dsize := 0, 16
	failAt, failFrom, failKind := 0, 0, ""
	for _, p := range strings.Split(c, ";") {
		f := fields(p)
		if len(f) == 0 {
			continue
		}
		switch f[0] {
		case "U":
			for _, t := range f[1:] {
				up.steps = append(up.steps, struct {
					n  int
					st byte
				}{atoi(t[:len(t)-1]), t[len(t)-1]})
			}
		case "F":
			if len(f) >= 3 && f[1] == "at" {
				failAt = atoi(f[2])
			} else if len(f) >= 3 && f[1] == "from" {
				failFrom = atoi(f[2])
				if len(f) >= 4 {
					failKind = f[3]
				}
			}
		case "STOP":
			stop = atoi(f[1])
		case "D":
			dsize = atoi(f[1])
		}
	}
	dir, err := os.MkdirTemp("", "c13wt")
	if err != nil {
		panic(err)
	}
	defer os.RemoveAll(dir)
	local := filepath.Join(dir, "shard")
	ffs.ops, ffs.log = 0, nil
	ffs.failAt, ffs.failFrom, ffs.failKind = failAt, failFrom, failKind
	defer func() { ffs.failAt, ffs.failFrom, ffs.failKind = 0, 0, "" }()
	typ := slicetype.New(reflect.TypeOf(int64(0)))
	r := slicecache.VerifWritethrough(up, "verif://"+local)
	ctx := context.Background()
	var calls []string
	for k := 0; stop == 0 || k < stop; k++ {
		if k > 200 {
			calls = append(calls, "noend")
			break
		}
		dst := frame.Make(typ, dsize, dsize)
		n, err := r.Read(ctx, dst)
		st := "ok"
		switch {
		case err == nil:
		case err == sliceio.EOF:
			st = "eof"
		case err == errUpstreamWT:
			st = "uerr"
		case errors.Is(err, errFault) || strings.Contains(err.Error(), errFault.Error()):
			st = "ioerr"
		default:
			st = "othererr(" + strings.ReplaceAll(err.Error(), " ", "_") + ")"
		}
		var vs []int64
		for j := 0; j < n; j++ {
			vs = append(vs, dst.Index(0, j).Int())
		}
		calls = append(calls, fmt.Sprintf("%d:%s:%s", n, st, wtRanges(vs)))
		if err != nil {
			break
		}
	}
	log := strings.Join(ffs.log, ",")
	// what a later run finds at the path (no faults while looking)
	ffs.failAt, ffs.failFrom, ffs.failKind = 0, 0, ""
	fileObs := "absent"
	if _, err := os.Stat(local); err == nil {
		rd := slicecache.VerifFileReader("verif://" + local)
		var vs []int64
		fileObs = ""
		for k := 0; k < 100000; k++ {
			dst := frame.Make(typ, 1000, 1000)
			n, err := rd.Read(ctx, dst)
			for j := 0; j < n; j++ {
				vs = append(vs, dst.Index(0, j).Int())
			}
			if err == sliceio.EOF {
				break
			}
			if err != nil {
				fileObs = "unreadable(" + strings.ReplaceAll(err.Error(), " ", "_") + ")after:"
				break
			}
		}
		if fileObs == "" {
			fileObs = "rows:"
		}
		fileObs += wtRanges(vs)
	}
	return fmt.Sprintf("calls=%s | file=%s | fileops=%s", strings.Join(calls, " "), fileObs, log)
}

func init() { runners["C13wt"] = runC13wt }
