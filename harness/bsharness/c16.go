package main

import (
	"context"
	"fmt"
	"strings"
	"time"

	"encoding/gob"

	"github.com/grailbio/bigslice"
	"github.com/grailbio/bigslice/exec"
)

// C16 (diff): case "L a,b,c R a,c" ; obs: "nil" or lines joined with "|"
func runC16diff(c string) string {
	f := fields(c)
	split := func(s string) []string {
		if s == "-" {
			return nil
		}
		return strings.Split(s, ",")
	}
	d := bigslice.FuncLocationsDiff(split(f[1]), split(f[3]))
	if d == nil {
		return "nil"
	}
	return strings.Join(d, "|")
}

type c16Iface interface{ M() int }
type c16Impl struct{ X int }

func (c c16Impl) M() int { return c.X }

type c16St struct {
	A int
	B string
	C []int
}

var c16funcs = []*bigslice.FuncValue{
	bigslice.Func(func(a int, b string) bigslice.Slice { return bigslice.Const(1, []int{a}) }),
	bigslice.Func(func(a []int, m map[string]int) bigslice.Slice { return bigslice.Const(1, []int{len(a) + len(m)}) }),
	bigslice.Func(func(s c16St, p *c16St) bigslice.Slice { return bigslice.Const(1, []int{s.A}) }),
	bigslice.Func(func(x interface{}, y c16Iface) bigslice.Slice { return bigslice.Const(1, []int{1}) }),
	bigslice.Func(func(r *exec.Result, s bigslice.Slice, n int64) bigslice.Slice { return bigslice.Const(1, []int{1}) }),
	bigslice.Func(func(f float64, b bool, u uint8, bs []byte) bigslice.Slice { return bigslice.Const(1, []int{1}) }),
	// several parameters of one composite type (a decoder must not let one argument show through another)
	bigslice.Func(func(a, b, c []int) bigslice.Slice { return bigslice.Const(1, []int{len(a) + len(b) + len(c)}) }),
	bigslice.Func(func(s, t c16St, m, n map[string]int) bigslice.Slice { return bigslice.Const(1, []int{s.A + t.A}) }),
	bigslice.Func(func(p, q *c16St, bs, cs []byte) bigslice.Slice { return bigslice.Const(1, []int{1}) }),
}

// paramKinds[f][i]: the dispatch class the model needs: o(ther) | i(face) | r(esultptr)
var c16params = []string{"oo", "oo", "oo", "ii", "rio", "oooo", "ooo", "oooo", "oooo"}

func init() {
	gob.Register(c16Impl{})
	gob.Register(c16St{})
	gob.Register(map[string]int{})
}

func c16arg(spec string) interface{} {
	k, v := spec, ""
	if i := strings.IndexByte(spec, ':'); i >= 0 {
		k, v = spec[:i], spec[i+1:]
	}
	ints := func() []int {
		if v == "" {
			return []int{}
		}
		var r []int
		for _, t := range strings.Split(v, ",") {
			r = append(r, atoi(t))
		}
		return r
	}
	switch k {
	case "int":
		return atoi(v)
	case "i64":
		return int64(atoi(v))
	case "str":
		return v
	case "ints":
		return ints()
	case "nilints":
		return []int(nil)
	case "map":
		m := map[string]int{}
		for _, t := range ints() {
			m[fmt.Sprint("k", t)] = t
		}
		return m
	case "nilmap":
		return map[string]int(nil)
	case "st":
		return c16St{A: atoi(v), B: "b" + v, C: []int{atoi(v)}}
	case "pst":
		return &c16St{A: atoi(v), B: "p" + v}
	case "nilpst":
		return (*c16St)(nil)
	case "impl":
		return c16Impl{atoi(v)}
	case "nil":
		return nil
	case "res":
		return exec.VerifResultWithIndex(uint64(atoi(v)))
	case "f64":
		return float64(atoi(v)) / 4
	case "bool":
		return v == "1"
	case "u8":
		return uint8(atoi(v))
	case "bytes":
		return []byte(v)
	}
	panic("bad arg " + spec)
}

func c16show(v interface{}) string {
	if idx, ok := exec.VerifInvocationRef(v); ok {
		return fmt.Sprintf("ref(%d)", idx)
	}
	switch x := v.(type) {
	case nil:
		return "nil"
	case *c16St:
		if x == nil {
			return "nilpst"
		}
		return fmt.Sprintf("pst(%d,%s)", x.A, x.B)
	case []int:
		if len(x) == 0 {
			return "ints()" // gob does not distinguish nil and empty slices
		}
		return strings.ReplaceAll(fmt.Sprintf("ints%v", x), " ", ",")
	case map[string]int:
		if len(x) == 0 {
			return "map()"
		}
		return strings.ReplaceAll(fmt.Sprintf("%v", x), " ", ",")
	case []byte:
		return "bytes(" + string(x) + ")"
	case *exec.Result:
		return "result"
	}
	return strings.ReplaceAll(fmt.Sprintf("%T(%v)", v, v), " ", ",")
}

// C16inv: case "F <k> <arg> <arg> ..." ; obs: "func=k excl=.. loc=.. args=a;b;c" | "encerr" | "typeerr"
func runC16inv(c string) (obs string) {
	f := fields(c)
	k := atoi(f[1])
	args := make([]interface{}, 0, len(f)-2)
	for _, s := range f[2:] {
		args = append(args, c16arg(s))
	}
	var inv bigslice.Invocation
	func() {
		defer func() {
			if e := recover(); e != nil {
				obs = "typeerr"
			}
		}()
		inv = c16funcs[k].Invocation("loc.go:7", args...)
	}()
	if obs != "" {
		return obs
	}
	shown := make([]string, len(args))
	for i, a := range exec.VerifSubstResults(inv).Args {
		shown[i] = c16show(a)
	}
	p, err := exec.VerifEncodeInvocation(exec.VerifSubstResults(inv))
	if err != nil {
		return "encerr"
	}
	got, err := exec.VerifDecodeInvocation(p)
	if err != nil {
		return "decerr " + strings.ReplaceAll(err.Error(), "\t", " ")
	}
	dec := make([]string, len(got.Args))
	for i, a := range got.Args {
		dec[i] = c16show(a)
	}
	return fmt.Sprintf("sent=%s|func=%d idx=%v excl=%v loc=%s args=%s", strings.Join(shown, ";"),
		int(got.Func)-c16base(), got.Index == inv.Index, got.Exclusive, got.Location, strings.Join(dec, ";"))
}

func c16base() int {
	// index of c16funcs[0] in the registry
	inv := c16funcs[0].Invocation("x", 0, "")
	return int(inv.Func)
}

func init() {
	runners["C16"] = runC16diff
	runners["C16inv"] = runC16inv
}

// ---- C16e2e: arguments of every encodability through a real session
//
// case: "<config> ;; <func> <arg> …"   funcs:  E0 <pst|nilpst|nil> <map|nilmap|nil> <ints|nil>   E1 fn   E2 ch
// observation: "ok rows=…" | "err:…" | "fatal:…" | "hang"
var (
	c16E0 = bigslice.Func(func(p *c16St, m map[string]int, xs []int) bigslice.Slice {
		a := int64(-1)
		if p != nil {
			a = int64(p.A)
		}
		return bigslice.Const(1, []int64{a}, []int64{int64(100*len(m) + len(xs))})
	})
	c16E1 = bigslice.Func(func(f func() int) bigslice.Slice {
		return bigslice.Const(1, []int64{int64(f())}, []int64{0})
	})
	c16E2 = bigslice.Func(func(c chan int) bigslice.Slice {
		return bigslice.Const(1, []int64{int64(cap(c))}, []int64{0})
	})
)

// c16Ver encodes on the driver whatever it holds but decodes, on a worker, only payload version 1: an argument problem that
// only the receiving side can see.
type c16Ver struct{ Version int }

func (v c16Ver) MarshalBinary() ([]byte, error) { return []byte{byte(v.Version)}, nil }
func (v *c16Ver) UnmarshalBinary(b []byte) error {
	if len(b) != 1 || b[0] != 1 {
		return fmt.Errorf("c16Ver: unsupported payload version")
	}
	v.Version = int(b[0])
	return nil
}

var c16E3 = bigslice.Func(func(v c16Ver) bigslice.Slice {
	return bigslice.Const(1, []int64{int64(v.Version)}, []int64{0})
})

func runC16e2e(c string) string {
	e2eMu.Lock()
	defer e2eMu.Unlock()
	segs := strings.Split(c, ";;")
	cfg := parseConfig(segs[0])
	s := startSession(cfg)
	defer s.close()
	f := fields(segs[1])
	var fn *bigslice.FuncValue
	var args []interface{}
	switch f[0] {
	case "E0":
		fn = c16E0
		for _, a := range f[1:] {
			args = append(args, c16arg(a))
		}
	case "E1":
		fn = c16E1
		args = []interface{}{func() int { return 7 }}
	case "E2":
		fn = c16E2
		args = []interface{}{make(chan int, 3)}
	case "E3":
		fn = c16E3
		args = []interface{}{c16Ver{Version: atoi(strings.TrimPrefix(f[1], "ver:"))}}
	}
	type rr struct {
		res *exec.Result
		err error
	}
	ch := make(chan rr, 1)
	ctx := context.Background()
	if cfg.nomach {
		// no machine will ever come: whatever the invocation needs a machine for never happens
		var cancel context.CancelFunc
		ctx, cancel = context.WithTimeout(ctx, 6*time.Second)
		defer cancel()
	}
	go func() {
		defer func() {
			if e := recover(); e != nil {
				ch <- rr{nil, fmt.Errorf("PANIC in Run: %v", e)}
			}
		}()
		res, err := s.sess.Run(ctx, fn, args...)
		ch <- rr{res, err}
	}()
	select {
	case o := <-ch:
		if o.err != nil {
			return errText(o.err)
		}
		return "ok " + timedScan(ctx, o.res)
	case <-time.After(45 * time.Second):
		dumpStacks("hang")
		return "hang"
	}
}

func init() {
	runners["C16e2e"] = runC16e2e
}
