// Command bsharness runs the real bigslice code on cases given in the line
// protocol of /verif (DESIGN.md §3.3).  It is copied into a work copy of /repo
// (cmd/zz_bsharness) by tools/vlib.py and built with -tags verif.
//
//	bsharness run <property>     stdin: "<id> <case text>" per line
//	                              stdout: "<id>\t<observation>" per line
package main

import (
	"bufio"
	"fmt"
	"os"
	"strconv"
	"strings"
	"time"
)

type runner func(caseText string) string

var runners = map[string]runner{}

func safeRun(r runner, c string) (obs string) {
	defer func() {
		if e := recover(); e != nil {
			msg := fmt.Sprint(e)
			if len(msg) > 200 {
				msg = msg[:200]
			}
			obs = "PANIC " + strings.ReplaceAll(strings.ReplaceAll(msg, "\n", " "), "\t", " ")
		}
	}()
	return r(c)
}

func main() {
	if len(os.Args) < 3 || os.Args[1] != "run" {
		fmt.Fprintln(os.Stderr, "usage: bsharness run <property>")
		os.Exit(2)
	}
	r, ok := runners[os.Args[2]]
	if !ok {
		fmt.Fprintln(os.Stderr, "unknown property", os.Args[2])
		os.Exit(2)
	}
	in := bufio.NewScanner(os.Stdin)
	in.Buffer(make([]byte, 1<<20), 1<<26)
	out := bufio.NewWriter(os.Stdout)
	defer out.Flush()
	for in.Scan() {
		line := in.Text()
		if line == "" {
			continue
		}
		sp := strings.IndexByte(line, ' ')
		id, c := line, ""
		if sp >= 0 {
			id, c = line[:sp], line[sp+1:]
		}
		// a case that does not come back (an endless loop in the code under test) is reported as such and the process
		// ends, so that the runner restarts it with the next case instead of waiting for the whole batch's timeout
		done := make(chan string, 1)
		go func() { done <- safeRun(r, c) }()
		var obs string
		select {
		case obs = <-done:
		case <-time.After(caseLimit()):
			fmt.Fprintf(out, "%s\tHANG the case did not return within %v\n", id, caseLimit())
			out.Flush()
			os.Exit(3)
		}
		fmt.Fprintf(out, "%s\t%s\n", id, obs)
		out.Flush()
	}
}

// caseLimit is the wall-clock limit of one case ($VERIF_CASE_LIMIT seconds; the end-to-end runners have their own
// shorter limits inside).
func caseLimit() time.Duration {
	if s := os.Getenv("VERIF_CASE_LIMIT"); s != "" {
		if n, err := strconv.Atoi(s); err == nil && n > 0 {
			return time.Duration(n) * time.Second
		}
	}
	return 240 * time.Second
}

// ---- small helpers shared by the per-property files

func fields(s string) []string { return strings.Fields(s) }

func atoi(s string) int {
	n := 0
	neg := false
	for i, c := range s {
		if i == 0 && c == '-' {
			neg = true
			continue
		}
		if c < '0' || c > '9' {
			panic("bad int " + s)
		}
		n = n*10 + int(c-'0')
	}
	if neg {
		return -n
	}
	return n
}

func itoa(n int) string { return fmt.Sprint(n) }
