package main

import (
	"github.com/grailbio/bigslice/slicetype"
	"reflect"
	"context"
	"fmt"
	"os"
	"sort"
	"strings"

	"github.com/grailbio/bigslice/exec"
	"github.com/grailbio/bigslice/frame"
	"github.com/grailbio/bigslice/internal/defaultsize"
	"github.com/grailbio/bigslice/slicefunc"
	"github.com/grailbio/bigslice/sliceio"
	"github.com/grailbio/bigslice/sortio"
)

var addComb = func() slicefunc.Func {
	f, _ := slicefunc.Of(func(a, b int64) int64 { return a + b })
	return f
}()

func frameOfRows(rows [][2]int64) frame.Frame {
	ks := make([]int64, len(rows))
	vs := make([]int64, len(rows))
	for i, r := range rows {
		ks[i], vs[i] = r[0], r[1]
	}
	return frame.Slices(ks, vs)
}

func parseKV(toks []string) [][2]int64 {
	var rows [][2]int64
	for _, t := range toks {
		ab := strings.Split(t, ":")
		rows = append(rows, [2]int64{int64(atoi(ab[0])), int64(atoi(ab[1]))})
	}
	return rows
}

func sortedRows(f frame.Frame) string {
	type kv struct{ k, v int64 }
	var xs []kv
	for i := 0; i < f.Len(); i++ {
		xs = append(xs, kv{f.Index(0, i).Int(), f.Index(1, i).Int()})
	}
	sort.Slice(xs, func(i, j int) bool {
		if xs[i].k != xs[j].k {
			return xs[i].k < xs[j].k
		}
		return xs[i].v < xs[j].v
	})
	ss := make([]string, len(xs))
	for i, x := range xs {
		ss[i] = fmt.Sprintf("%d,%d", x.k, x.v)
	}
	return strings.Join(ss, ";")
}

func tmpEntries(prefix string) int {
	es, _ := os.ReadDir(os.TempDir())
	n := 0
	for _, e := range es {
		if strings.HasPrefix(e.Name(), prefix) {
			n++
		}
	}
	return n
}

// C09: "CF <init> <scratch> ; combine k:v ... ; compact ; ..."   (combining frame)
//
//	"CB <chunk> <target> ; combine k:v ... ; ... ; reader DEST k k"   (spilling combiner)
func runC09(c string) string {
	parts := strings.Split(c, ";")
	h := fields(parts[0])
	var out []string
	switch h[0] {
	case "CF":
		cf := exec.VerifMakeCombiningFrame(typ2, addComb, atoi(h[1]), atoi(h[2]))
		out = append(out, fmt.Sprintf("thr=%d", exec.VerifThreshold(cf)))
		for _, p := range parts[1:] {
			op := fields(p)
			if len(op) == 0 {
				continue
			}
			switch op[0] {
			case "combine":
				cf.Combine(frameOfRows(parseKV(op[1:])))
				// the hash table slot by slot (compared with the table model BS.Table)
				idx, data := exec.VerifCFSlots(cf)
				ks, vs := data.Interface(0).([]int64), data.Interface(1).([]int64)
				slots := make([]string, len(idx))
				for j, i := range idx {
					slots[j] = fmt.Sprintf("%d:%d:%d", i, ks[i], vs[i])
				}
				out = append(out, fmt.Sprintf("len=%d cap=%d thr=%d slots=%s", cf.Len(), cf.Cap(), exec.VerifThreshold(cf), strings.Join(slots, ",")))
			case "compact":
				f := cf.Compact()
				out = append(out, fmt.Sprintf("rows=%s len=%d", sortedRows(f), cf.Len()))
			}
		}
	case "CBV":
		// the combiner over a value column that has a custom codec (frame.Ops Encode/Decode): "CBV <chunk> <target>"; spilled
		// runs are written batch by batch through Frame.Encode on views of the sorted frame
		save := defaultsize.Chunk
		defaultsize.Chunk = atoi(h[1])
		defer func() { defaultsize.Chunk = save }()
		before := tmpEntries("spiller-")
		typV := slicetype.New(reflect.TypeOf(int64(0)), reflect.TypeOf(ccKind{}))
		combV, _ := slicefunc.Of(func(a, b ccKind) ccKind { return ccKind{a.V + b.V} })
		cb, err := exec.VerifNewCombiner(typV, "verif", combV, atoi(h[2]))
		if err != nil {
			return "newerr"
		}
		ctx := context.Background()
		for _, p := range parts[1:] {
			op := fields(p)
			if len(op) == 0 {
				continue
			}
			switch op[0] {
			case "combine":
				rows := parseKV(op[1:])
				ks := make([]int64, len(rows))
				vs := make([]ccKind, len(rows))
				for i, r := range rows {
					ks[i], vs[i] = r[0], ccKind{int(r[1])}
				}
				if err := cb.Combine(ctx, frame.Slices(ks, vs)); err != nil {
					out = append(out, "combineerr")
				}
			case "reader":
				var dest []int
				for _, t := range op[2:] {
					dest = append(dest, atoi(t))
				}
				r, err := cb.Reader()
				if err != nil {
					out = append(out, "readererr")
					continue
				}
				var rows []string
				res := "NOEND"
				for i := 0; i < 4000; i++ {
					k := dest[i%len(dest)]
					f := frame.Make(typV, k, k)
					n, err := r.Read(ctx, f)
					for j := 0; j < n && j < k; j++ {
						rows = append(rows, fmt.Sprintf("%d,%d", f.Index(0, j).Int(), f.Index(1, j).Interface().(ccKind).V))
					}
					if err != nil {
						res = errClass(err)
						break
					}
				}
				out = append(out, fmt.Sprintf("end calls=0:0:%s:0 | rows=%s | altered=0", res, strings.Join(rows, ";")))
			case "discard":
				if err := cb.Discard(); err != nil {
					out = append(out, "discarderr")
				}
			}
		}
		out = append(out, fmt.Sprintf("spilldirs=%d", tmpEntries("spiller-")-before))
	case "CBT":
		// the combiner over another key type: "CBT <kind> <chunk> <target>"; keys are the typed images (kinds.go) of the
		// case's small naturals, shown converted back
		kind := h[1]
		save := defaultsize.Chunk
		defaultsize.Chunk = atoi(h[2])
		defer func() { defaultsize.Chunk = save }()
		before := tmpEntries("spiller-")
		typT := slicetype.New(kindType(kind), reflect.TypeOf(int64(0)))
		cb, err := exec.VerifNewCombiner(typT, "verif", addComb, atoi(h[3]))
		if err != nil {
			return "newerr"
		}
		ctx := context.Background()
		mk := func(rows [][2]int64) frame.Frame {
			ks := reflect.MakeSlice(reflect.SliceOf(kindType(kind)), len(rows), len(rows))
			vs := make([]int64, len(rows))
			for i, r := range rows {
				ks.Index(i).Set(fromInt(kind, int(r[0])))
				vs[i] = r[1]
			}
			return frame.Slices(ks.Interface(), vs)
		}
		for _, p := range parts[1:] {
			op := fields(p)
			if len(op) == 0 {
				continue
			}
			switch op[0] {
			case "combine":
				if err := cb.Combine(ctx, mk(parseKV(op[1:]))); err != nil {
					out = append(out, "combineerr")
				}
			case "reader":
				var dest []int
				for _, t := range op[2:] {
					dest = append(dest, atoi(t))
				}
				r, err := cb.Reader()
				if err != nil {
					out = append(out, "readererr")
					continue
				}
				var rows []string
				res := "NOEND"
				for i := 0; i < 4000; i++ {
					k := dest[i%len(dest)]
					f := frame.Make(typT, k, k)
					n, err := r.Read(ctx, f)
					for j := 0; j < n && j < k; j++ {
						rows = append(rows, fmt.Sprintf("%d,%d", toInt(kind, f.Index(0, j)), f.Index(1, j).Int()))
					}
					if err != nil {
						res = errClass(err)
						break
					}
				}
				out = append(out, fmt.Sprintf("end calls=0:0:%s:0 | rows=%s | altered=0", res, strings.Join(rows, ";")))
			case "discard":
				if err := cb.Discard(); err != nil {
					out = append(out, "discarderr")
				}
			}
		}
		out = append(out, fmt.Sprintf("spilldirs=%d", tmpEntries("spiller-")-before))
	case "CB", "CBS":
		if h[0] == "CBS" {
			// "CBS <spill batch size> <chunk> <target>": spilled frames are written in batches of that many rows (the merge
			// buffers that read them back hold 128)
			sb := sliceio.SpillBatchSize
			sliceio.SpillBatchSize = atoi(h[1])
			defer func() { sliceio.SpillBatchSize = sb }()
			h = append([]string{"CB"}, h[2:]...)
		}
		save := defaultsize.Chunk
		defaultsize.Chunk = atoi(h[1])
		defer func() { defaultsize.Chunk = save }()
		before := tmpEntries("spiller-")
		cb, err := exec.VerifNewCombiner(typ2, "verif", addComb, atoi(h[2]))
		if err != nil {
			return "newerr"
		}
		ctx := context.Background()
		for _, p := range parts[1:] {
			op := fields(p)
			if len(op) == 0 {
				continue
			}
			switch op[0] {
			case "combine":
				if err := cb.Combine(ctx, frameOfRows(parseKV(op[1:]))); err != nil {
					out = append(out, "combineerr")
				}
			case "reader":
				var dest []int
				for _, t := range op[2:] {
					dest = append(dest, atoi(t))
				}
				r, err := cb.Reader()
				if err != nil {
					out = append(out, "readererr")
					continue
				}
				out = append(out, drain(r, typ2, dest, 2))
			case "discard":
				if err := cb.Discard(); err != nil {
					out = append(out, "discarderr")
				}
			}
		}
		out = append(out, fmt.Sprintf("spilldirs=%d", tmpEntries("spiller-")-before))
	}
	return strings.Join(out, " # ")
}

// C10: "sort <canary> <spilltarget> <batch> ; IN ... SCRIPT ... ; DEST ..."
//
//	"merge <batch> ; IN ... ; IN ... ; DEST ..."        (inputs must be sorted by key)
//	"reduce ; IN ... ; IN ... ; DEST ..."               (inputs sorted with unique keys)
func runC10(c string) string {
	injectedFailures = 0
	parts := strings.Split(c, ";")
	h := fields(parts[0])
	ups := parseUps(parts[1:])
	var dest []int
	for _, p := range parts[1:] {
		f := fields(p)
		if len(f) > 0 && f[0] == "DEST" {
			for _, t := range f[1:] {
				dest = append(dest, atoi(t))
			}
		}
	}
	if len(dest) == 0 {
		dest = []int{3}
	}
	rs := make([]sliceio.Reader, len(ups))
	for i, u := range ups {
		rs[i] = u
	}
	ctx := context.Background()
	before := tmpEntries("spiller-")
	var res string
	// "K=<kind>": the same over another key type — the inputs' keys are converted to their typed images (kinds.go,
	// monotone), the readers run on (kind, int64) frames, and the output keys are converted back
	typ := slicetype.Type(typ2)
	untyped := func(r sliceio.Reader) sliceio.Reader { return r }
	if len(h) > 1 && strings.HasPrefix(h[1], "K=") {
		kind := h[1][2:]
		h = append([]string{h[0]}, h[2:]...)
		typT := slicetype.New(kindType(kind), reflect.TypeOf(int64(0)))
		typ = typT
		for i := range rs {
			rs[i] = &c10conv{r: rs[i], inner: typ2, toTyped: true, kind: kind}
		}
		untyped = func(r sliceio.Reader) sliceio.Reader { return &c10conv{r: r, inner: typT, toTyped: false, kind: kind} }
	}
	switch h[0] {
	case "sort":
		sc, sb := defaultsize.SortCanary, sliceio.SpillBatchSize
		defaultsize.SortCanary, sliceio.SpillBatchSize = atoi(h[1]), atoi(h[3])
		defer func() { defaultsize.SortCanary, sliceio.SpillBatchSize = sc, sb }()
		r, err := sortio.SortReader(ctx, atoi(h[2]), typ, rs[0])
		if err != nil {
			res = "end calls=0:0:" + errClass(err) + ":0 | rows= | altered=0"
		} else {
			res = drain(untyped(r), typ2, dest, 2)
		}
	case "merge":
		sb := sliceio.SpillBatchSize
		sliceio.SpillBatchSize = atoi(h[1])
		defer func() { sliceio.SpillBatchSize = sb }()
		r, err := sortio.NewMergeReader(ctx, typ, rs)
		if err != nil {
			res = "end calls=0:0:" + errClass(err) + ":0 | rows= | altered=0"
		} else {
			res = drain(untyped(r), typ2, dest, 2)
		}
	case "reduce":
		res = drain(untyped(sortio.Reduce(typ, "verif", rs, addComb)), typ2, dest, 2)
	default:
		panic("bad kind")
	}
	return res + fmt.Sprintf(" | spilldirs=%d | injected=%d", tmpEntries("spiller-")-before, injectedFailures)
}

// c10conv reads rows from r through a frame of type inner and hands them on with the key column converted to (toTyped) or
// from the typed image of the small natural it stands for.  It writes only the rows it returns.
type c10conv struct {
	r       sliceio.Reader
	inner   slicetype.Type
	toTyped bool
	kind    string
}

func (c *c10conv) Read(ctx context.Context, out frame.Frame) (int, error) {
	tmp := frame.Make(c.inner, out.Len(), out.Len())
	n, err := c.r.Read(ctx, tmp)
	for i := 0; i < n && i < out.Len(); i++ {
		if c.toTyped {
			out.Index(0, i).Set(fromInt(c.kind, int(tmp.Index(0, i).Int())))
		} else {
			out.Index(0, i).SetInt(int64(toInt(c.kind, tmp.Index(0, i))))
		}
		out.Index(1, i).Set(tmp.Index(1, i))
	}
	return n, err
}

func init() {
	runners["C09"] = runC09
	runners["C10"] = runC10
	runners["C17red"] = runC10
}
