package main

import (
	"github.com/grailbio/bigslice/sliceio"
	"context"
	"bytes"
	"fmt"
	"reflect"
	"sort"
	"strings"
	"unsafe"

	"github.com/grailbio/bigslice/frame"
)

// C11: op sequences over a pool of frames and views; after every op every
// root allocation and every frame (read through the frame itself) is dumped.
//
// case:  K <kind,kind,..> N <nrows> V <v..row-major..> ; op ; op ...
// obs :  <ret> | s0=[..] s1=[..] | f0=(sid,off,len,cap,pfx)[rows] ... # (per op)

type c11root struct {
	f    frame.Frame // covers the whole allocation, off 0
	base uintptr
	size uintptr
	n    int
}

type c11st struct {
	kinds  []string
	roots  []c11root
	frames []frame.Frame
}

func (s *c11st) addRoot(f frame.Frame) {
	r := f.Slice(0, f.Cap())
	sz := f.Out(0).Size()
	s.roots = append(s.roots, c11root{f: r, base: uintptr(r.UnsafeIndexPointer(0, 0)), size: sz, n: r.Cap()})
}

// locate returns (sid, off) of a frame by address arithmetic on column 0.
func (s *c11st) locate(f frame.Frame) (int, int, bool) {
	if f.Cap() == 0 {
		return -1, -1, true
	}
	p := uintptr(f.UnsafeIndexPointer(0, 0))
	for i, r := range s.roots {
		if r.n > 0 && p >= r.base && p < r.base+uintptr(r.n)*r.size {
			return i, int((p - r.base) / r.size), true
		}
	}
	return -1, -1, false
}

func (s *c11st) push(f frame.Frame) {
	if _, _, ok := s.locate(f); !ok {
		s.addRoot(f)
	}
	s.frames = append(s.frames, f)
}

func rowsOf(kinds []string, f frame.Frame, how int) string {
	var b strings.Builder
	b.WriteByte('[')
	for i := 0; i < f.Len(); i++ {
		if i > 0 {
			b.WriteByte(';')
		}
		for c, k := range kinds {
			if c > 0 {
				b.WriteByte(',')
			}
			var v reflect.Value
			switch (how + c + i) % 3 {
			case 0:
				v = f.Index(c, i)
			case 1:
				v = f.Value(c).Index(i)
			default:
				v = reflect.ValueOf(f.Interface(c)).Index(i)
			}
			b.WriteString(itoa(toInt(k, v)))
		}
	}
	b.WriteByte(']')
	return b.String()
}

func (s *c11st) dump(step int) string {
	var b strings.Builder
	for i, r := range s.roots {
		fmt.Fprintf(&b, "s%d=%s ", i, rowsOf(s.kinds, r.f, 0))
	}
	b.WriteString("|")
	for i, f := range s.frames {
		sid, off, _ := s.locate(f)
		loc := fmt.Sprintf("%d,%d", sid, off)
		if sid < 0 {
			loc = "-,-"
		}
		fmt.Fprintf(&b, " f%d=(%s,%d,%d,%d)%s", i, loc, f.Len(), f.Cap(), f.Prefix(), rowsOf(s.kinds, f, step))
	}
	return b.String()
}

func c11mk(kinds []string, n int, vals []int) frame.Frame {
	cols := make([]interface{}, len(kinds))
	for c, k := range kinds {
		sl := reflect.MakeSlice(reflect.SliceOf(kindType(k)), n, n)
		for i := 0; i < n; i++ {
			sl.Index(i).Set(fromInt(k, vals[i*len(kinds)+c]))
		}
		cols[c] = sl.Interface()
	}
	return frame.Slices(cols...)
}

type c11types []reflect.Type

func (t c11types) NumOut() int            { return len(t) }
func (t c11types) Out(i int) reflect.Type { return t[i] }
func (t c11types) Prefix() int            { return 1 }

func keyDup(kinds []string, f frame.Frame) bool {
	// true iff two rows have equal keys (so that sort order is not determined)
	for i := 0; i < f.Len(); i++ {
		for j := i + 1; j < f.Len(); j++ {
			if !f.Less(i, j) && !f.Less(j, i) {
				return true
			}
		}
	}
	return false
}

func c11op(s *c11st, op []string) (ret string) {
	defer func() {
		if e := recover(); e != nil {
			ret = "panic"
		}
	}()
	fr := func(i int) frame.Frame {
		a := atoi(op[i])
		if a < 0 || a >= len(s.frames) {
			panic("no such frame")
		}
		return s.frames[a]
	}
	switch op[0] {
	case "slice":
		g := fr(1).Slice(atoi(op[2]), atoi(op[3]))
		s.push(g)
		return "ok"
	case "pfx":
		g := fr(1).Prefixed(atoi(op[2]))
		s.push(g)
		return "ok"
	case "grow":
		g := fr(1).Grow(atoi(op[2]))
		s.push(g)
		return "ok"
	case "ensure":
		g := fr(1).Ensure(atoi(op[2]))
		s.push(g)
		return "ok"
	case "make":
		ts := make(c11types, len(s.kinds))
		for i, k := range s.kinds {
			ts[i] = kindType(k)
		}
		g := frame.Make(ts, atoi(op[1]), atoi(op[2]))
		s.push(g)
		return "ok"
	case "copy":
		n := frame.Copy(fr(1), fr(2))
		return itoa(n)
	case "codec":
		// the view's rows written by the row-stream encoder (custom-codec columns through Frame.Encode with the view's
		// range, the others through Frame.Value) and decoded into a fresh frame
		f := fr(1)
		var buf bytes.Buffer
		if err := sliceio.NewEncodingWriter(&buf).Write(context.Background(), f); err != nil {
			return "encerr"
		}
		ts := make(c11types, len(s.kinds))
		for i, k := range s.kinds {
			ts[i] = kindType(k)
		}
		g := frame.Make(ts, f.Len(), f.Len())
		if f.Len() > 0 {
			n, err := sliceio.NewDecodingReader(&buf).Read(context.Background(), g)
			if err != nil || n != f.Len() {
				return fmt.Sprintf("decerr(%d,%v)", n, err)
			}
		}
		s.push(g)
		return "ok"
	case "append":
		g := frame.AppendFrame(fr(1), fr(2))
		s.push(g)
		return "ok"
	case "swap":
		f := fr(1)
		i, j := atoi(op[2]), atoi(op[3])
		if i < 0 || j < 0 || i >= f.Len() || j >= f.Len() {
			return "skip" // outside the view: not a legal use; both sides skip
		}
		f.Swap(i, j)
		return "ok"
	case "zero":
		fr(1).Zero()
		return "ok"
	case "less":
		f := fr(1)
		i, j := atoi(op[2]), atoi(op[3])
		if i < 0 || j < 0 || i >= f.Len() || j >= f.Len() {
			return "skip"
		}
		if f.Less(i, j) {
			return "1"
		}
		return "0"
	case "hash":
		f := fr(1)
		i := atoi(op[2])
		if i < 0 || i >= f.Len() {
			return "skip"
		}
		return fmt.Sprint(f.HashWithSeed(i, uint32(atoi(op[3]))))
	case "sort":
		f := fr(1)
		if keyDup(s.kinds, f) {
			return "skip"
		}
		sort.Sort(f)
		return "ok"
	case "ptr":
		// UnsafeIndexPointer must address row off+i of column col
		f := fr(1)
		col, i := atoi(op[2]), atoi(op[3])
		if i < 0 || i >= f.Len() || col < 0 || col >= len(s.kinds) {
			return "skip"
		}
		p := f.UnsafeIndexPointer(col, i)
		v := reflect.NewAt(kindType(s.kinds[col]), unsafe.Pointer(p)).Elem()
		return itoa(toInt(s.kinds[col], v))
	}
	panic("bad op " + op[0])
}

func runC11(c string) string {
	parts := strings.Split(c, ";")
	h := fields(parts[0])
	// K kinds N n V vals...
	kinds := strings.Split(h[1], ",")
	n := atoi(h[3])
	vals := make([]int, 0, n*len(kinds))
	for _, t := range h[5:] {
		vals = append(vals, atoi(t))
	}
	s := &c11st{kinds: kinds}
	s.push(c11mk(kinds, n, vals))
	var out []string
	out = append(out, "init|"+s.dump(0))
	for k, p := range parts[1:] {
		op := fields(p)
		if len(op) == 0 {
			continue
		}
		ret := c11op(s, op)
		out = append(out, ret+"|"+s.dump(k+1))
	}
	return strings.Join(out, " # ")
}

func init() { runners["C11"] = runC11 }
