package main

import (
	"sync/atomic"
	"sort"
	"context"
	"fmt"
	"regexp"
	"strings"
	"time"

	"github.com/grailbio/bigslice/exec"
)

// ---- C12: histories of run / scan / run-with-result / discard in one session
//
// case: "<config> ;; <op> ;; <op> …"      results are numbered by the `run` ops, from 0
//   run <program>            the program may refer to earlier results as R<k> (at most two distinct ones)
//   scan <k>                 scan result k                      -> "rows=r;r;…" | "err:…" | "hang"
//   scan2 <k>                two concurrent scans of result k   -> "<scan> ~~ <scan>"
//   discard <k>              Result.Discard                     -> "done"
//   rundiscard <k> <program> run the program while result k is being discarded concurrently
// observation: per op, joined by " ## "

var reResultRef = regexp.MustCompile(`\bR(\d+)\b`)

func (s *e2eSession) runWithResults(ctx context.Context, prog string, results []*exec.Result) (runOutcome, bool) {
	var used []int
	idx := map[int]int{}
	for _, m := range reResultRef.FindAllStringSubmatch(prog, -1) {
		k := atoi(m[1])
		if _, ok := idx[k]; !ok {
			idx[k] = len(used)
			used = append(used, k)
		}
	}
	var args []*exec.Result
	for _, k := range used {
		if k >= len(results) || results[k] == nil {
			return runOutcome{nil, "skip", "skipped"}, false
		}
		args = append(args, results[k])
	}
	renamed := reResultRef.ReplaceAllStringFunc(prog, func(t string) string { return fmt.Sprintf("R%d", idx[atoi(t[1:])]) })
	return s.runProgram(ctx, renamed, args, 60*time.Second), true
}

func timedScan(ctx context.Context, r *exec.Result) string {
	type sr struct {
		rows []string
		err  error
	}
	ch := make(chan sr, 1)
	go func() {
		rows, err := scanAll(ctx, r, 2)
		ch <- sr{rows, err}
	}()
	select {
	case x := <-ch:
		if x.err != nil {
			return errText(x.err)
		}
		return "rows=" + strings.Join(x.rows, ";")
	case <-time.After(60 * time.Second):
		dumpStacks("scanhang")
		return "hang"
	}
}

func runC12(c string) string {
	e2eMu.Lock()
	defer e2eMu.Unlock()
	segs := strings.Split(c, ";;")
	cfg := parseConfig(segs[0])
	s := startSession(cfg)
	defer s.close()
	atomic.StoreInt64(&xMax, 0)
	ctx := context.Background()
	var results []*exec.Result
	var outs []string
	for _, op := range segs[1:] {
		op = strings.TrimSpace(op)
		f := fields(op)
		if len(f) == 0 {
			continue
		}
		out := ""
		switch f[0] {
		case "run":
			o, _ := s.runWithResults(ctx, strings.TrimSpace(op[3:]), results)
			if o.status == "ok" {
				results = append(results, o.res)
			} else {
				results = append(results, nil)
			}
			out = o.text
		case "scan", "scan2":
			k := atoi(f[1])
			if k >= len(results) || results[k] == nil {
				out = "skipped"
				break
			}
			if f[0] == "scan" {
				out = timedScan(ctx, results[k])
			} else {
				ch := make(chan string, 2)
				for i := 0; i < 2; i++ {
					go func() { ch <- timedScan(ctx, results[k]) }()
				}
				out = <-ch + " ~~ " + <-ch
			}
		case "discard":
			k := atoi(f[1])
			if k >= len(results) || results[k] == nil {
				out = "skipped"
				break
			}
			done := make(chan struct{})
			go func() { results[k].Discard(ctx); close(done) }()
			select {
			case <-done:
				out = "done"
			case <-time.After(60 * time.Second):
				out = "hang"
			}
		case "rundiscard":
			k := atoi(f[1])
			if k >= len(results) || results[k] == nil {
				out = "skipped"
				results = append(results, nil)
				break
			}
			prog := strings.TrimSpace(strings.Join(strings.SplitN(op, " ", 3)[2:], " "))
			dd := make(chan struct{})
			go func() {
				time.Sleep(time.Duration(len(prog)%7) * 300 * time.Microsecond)
				results[k].Discard(ctx)
				close(dd)
			}()
			o, _ := s.runWithResults(ctx, prog, results)
			select {
			case <-dd:
			case <-time.After(60 * time.Second):
				o.text = "hang(discard)"
				o.status = "hang"
			}
			if o.status == "ok" {
				results = append(results, o.res)
			} else {
				results = append(results, nil)
			}
			out = o.text
		case "kill":
			// lose a machine right now (bigmachine sessions; the driver learns of it later, through its keepalive)
			if s.sys == nil || s.sys.N() == 0 {
				out = "skipped"
				break
			}
			if s.sys.Kill(s.sys.Index(0)) {
				out = "killed"
			} else {
				out = "skipped"
			}
		case "xconc":
			out = fmt.Sprintf("xconc=%d", atomic.LoadInt64(&xMax))
		case "procs":
			// the cluster manager's accounting once nothing runs: procs booked per machine (C14)
			var last string
			stable := 0
			for i := 0; i < 100 && stable < 5; i++ {
				time.Sleep(20 * time.Millisecond)
				var ms []string
				for _, mu := range exec.VerifMachineProcs(s.sess, results) {
					ms = append(ms, fmt.Sprintf("%d:%d", mu[0], mu[1]))
				}
				sort.Strings(ms)
				cur := "procs=" + strings.Join(ms, ",")
				if cur == last {
					stable++
				} else {
					stable = 0
				}
				last = cur
			}
			out = last
		default:
			out = "bad-op"
		}
		outs = append(outs, out)
		if strings.HasPrefix(out, "hang") || out == "scanhang" {
			break
		}
	}
	return strings.Join(outs, " ## ")
}

func init() {
	runners["C12"] = runC12
	runners["C20e2e"] = runC12
	runners["C16res"] = runC12
	runners["C05e2e"] = runC12
	runners["C14e2e"] = runC12
}
