package main

import (
	"errors"
	"fmt"
	"sort"
	"strings"
	"sync"
	"time"

	baseerrors "github.com/grailbio/base/errors"
	"github.com/grailbio/bigslice/exec"
)

// C14 (schedule): case "R p:n p:n ... M max:used max:used ..." ; obs "none" | "prio procs free"
func runC14(c string) string {
	var reqs, machs [][2]int
	mode := ""
	for _, t := range fields(c) {
		if t == "R" || t == "M" {
			mode = t
			continue
		}
		ab := strings.Split(t, ":")
		v := [2]int{atoi(ab[0]), atoi(ab[1])}
		if mode == "R" {
			reqs = append(reqs, v)
		} else {
			machs = append(machs, v)
		}
	}
	ok, prio, procs, max, used := exec.VerifSchedule(reqs, machs)
	if !ok {
		return "none"
	}
	return fmt.Sprintf("%d %d %d", prio, procs, max-used)
}

// C14live: a live machineManager on testsystem.
// case: "P <machinep> MAXP <maxp> LOAD <percent> ; offer <rid> <prio> <procs> ; cancel <rid> ; done <rid> ok|remote|transport ; kill <mid>"
// obs : per op, after quiescence: "granted=rid@mach,... machines=n info=mach:max:used:health,..."
type c14grant struct {
	rid  int
	m    *exec.VerifSliceMachine
	name string
}

func runC14live(c string) string {
	parts := strings.Split(c, ";")
	h := fields(parts[0])
	machinep, maxp, load := atoi(h[1]), atoi(h[3]), atoi(h[5])
	mgr := exec.VerifNewManager(machinep, maxp, float64(load)/100, strings.Contains(c, "kill "))
	defer mgr.Close()
	var (
		mu      sync.Mutex
		granted = map[int]*c14grant{}
		names   = map[*exec.VerifSliceMachine]string{}
		cancels = map[int]func(){}
		procsOf = map[int]int{}
		stopc   = map[int]chan struct{}{}
	)
	name := func(m *exec.VerifSliceMachine) string {
		if n, ok := names[m]; ok {
			return n
		}
		n := fmt.Sprintf("m%d", len(names))
		names[m] = n
		return n
	}
	snapshot := func() string {
		mu.Lock()
		defer mu.Unlock()
		var gs []string
		rids := make([]int, 0, len(granted))
		for rid := range granted {
			rids = append(rids, rid)
		}
		sort.Ints(rids)
		for _, rid := range rids {
			gs = append(gs, fmt.Sprintf("%d@%s", rid, granted[rid].name))
		}
		var ms []string
		type kv struct {
			n string
			m *exec.VerifSliceMachine
		}
		var all []kv
		for m, n := range names {
			all = append(all, kv{n, m})
		}
		sort.Slice(all, func(i, j int) bool { return all[i].n < all[j].n })
		for _, e := range all {
			_, max, used, health := exec.VerifMachInfo(e.m)
			ms = append(ms, fmt.Sprintf("%s:%d:%d:%d", e.n, max, used, health))
		}
		return fmt.Sprintf("granted=%s machines=%d info=%s", strings.Join(gs, ","), mgr.Sys.N(), strings.Join(ms, ","))
	}
	waiting := func() (bool, bool) {
		mu.Lock()
		defer mu.Unlock()
		n := 0
		for rid := range cancels {
			if _, ok := granted[rid]; !ok {
				n++
			}
		}
		return n > 0, mgr.Sys.N() > len(names)
	}
	quiesce := func() string {
		// The snapshot must be stable for 60ms; while requests are waiting for 200ms, and
		// while a started machine has not been used yet for 800ms (it is still booting).
		last := ""
		stable := 0
		for i := 0; i < 600; i++ {
			time.Sleep(10 * time.Millisecond)
			s := snapshot()
			if s != last {
				stable = 0
				last = s
				continue
			}
			stable++
			need := 6
			if w, booting := waiting(); w {
				need = 20
				if booting {
					need = 80
				}
			}
			if stable >= need {
				return s
			}
		}
		return last
	}
	var out []string
	out = append(out, fmt.Sprintf("machprocs=%d", mgr.Machprocs()))
	for _, p := range parts[1:] {
		op := fields(p)
		if len(op) == 0 {
			continue
		}
		switch op[0] {
		case "offer":
			rid, prio, procs := atoi(op[1]), atoi(op[2]), atoi(op[3])
			offerc, cancel := mgr.Offer(prio, procs)
			stop := make(chan struct{})
			mu.Lock()
			cancels[rid] = cancel
			procsOf[rid] = procs
			stopc[rid] = stop
			mu.Unlock()
			go func() {
				select {
				case m := <-offerc:
					mu.Lock()
					granted[rid] = &c14grant{rid: rid, m: m, name: name(m)}
					mu.Unlock()
				case <-stop:
				}
			}()
		case "cancel":
			rid := atoi(op[1])
			mu.Lock()
			_, isGranted := granted[rid]
			cancel := cancels[rid]
			stop := stopc[rid]
			mu.Unlock()
			if cancel != nil && !isGranted {
				close(stop)
				cancel()
				mu.Lock()
				delete(cancels, rid)
				mu.Unlock()
			}
		case "kill":
			// kill the machine with the given name (as assigned by first grant) and wait until the manager has noticed
			mu.Lock()
			var victim *exec.VerifSliceMachine
			for m, n := range names {
				if n == op[1] {
					victim = m
				}
			}
			mu.Unlock()
			if victim != nil {
				mgr.Sys.Kill(victim.Machine)
				for i := 0; i < 1500; i++ {
					if _, _, _, h := exec.VerifMachInfo(victim); h == 2 {
						break
					}
					time.Sleep(10 * time.Millisecond)
				}
			}
		case "done":
			rid := atoi(op[1])
			mu.Lock()
			g := granted[rid]
			delete(granted, rid)
			delete(cancels, rid)
			mu.Unlock()
			if g != nil {
				var err error
				switch op[2] {
				case "remote":
					err = baseerrors.E(baseerrors.Remote, "remote application error")
				case "transport":
					err = errors.New("connection refused")
				}
				g.m.Done(procsOf[rid], err)
			}
		}
		out = append(out, quiesce())
	}
	// cancel whatever is still queued so that the manager can shut down
	mu.Lock()
	for rid, cancel := range cancels {
		if _, ok := granted[rid]; !ok {
			close(stopc[rid])
			go cancel()
		}
	}
	mu.Unlock()
	time.Sleep(5 * time.Millisecond)
	return strings.Join(out, " # ")
}

func init() {
	runners["C14"] = runC14
	runners["C14live"] = runC14live
}
