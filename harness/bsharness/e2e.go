package main

import (
	"context"
	"fmt"
	"os"
	"runtime/pprof"
	"sort"
	"strings"
	"sync"
	"sync/atomic"
	"time"

	baseerrors "github.com/grailbio/base/errors"
	"github.com/grailbio/base/retry"
	"github.com/grailbio/bigmachine"
	"github.com/grailbio/bigmachine/testsystem"
	"github.com/grailbio/bigslice"
	"github.com/grailbio/bigslice/exec"
	"github.com/grailbio/bigslice/internal/defaultsize"
	"github.com/grailbio/bigslice/sliceio"
	"github.com/grailbio/bigslice/sortio"
)

var _ = sortio.Reduce

// ---- end-to-end runs of programs in sessions (C01, C04, C05, C12, C20 …)
//
// case: "<config> ;; <program> ;; <program> …"      later programs may use R0, R1 (results of earlier ones)
// config tokens: local | bm   P<n> (parallelism)  M<n> (machines' procs)  L<percent> (max load)  MC (machine combiners)
//                CH<n> (vector size)  NOSHUF (no reader shuffling)

type e2eConfig struct {
	bm      bool
	p       int
	procs   int
	load    int
	mc      bool
	chunk   int
	noshuf  bool
	canary  int
	spill   int
	fastKeepalive bool
	delayMethod string // DLY<ms>:<Method>: every call of that worker RPC is held back for <ms> before it is served
	delayMs     int
	nomach      bool // NOMACH: the cluster never delivers a machine (System.Start blocks)
}

func parseConfig(s string) e2eConfig {
	c := e2eConfig{p: 4, procs: 2, load: 95, chunk: 128}
	for _, t := range fields(s) {
		switch {
		case t == "local":
		case t == "bm":
			c.bm = true
		case t == "MC":
			c.mc = true
		case t == "NOSHUF":
			c.noshuf = true
		case t == "NOMACH":
			c.nomach = true
		case t == "KA":
			c.fastKeepalive = true
		case strings.HasPrefix(t, "DLY"):
			if i := strings.Index(t, ":"); i > 3 {
				c.delayMs, c.delayMethod = atoi(t[3:i]), t[i+1:]
			}
		case strings.HasPrefix(t, "CH"):
			c.chunk = atoi(t[2:])
		case strings.HasPrefix(t, "CA"):
			c.canary = atoi(t[2:])
		case strings.HasPrefix(t, "SB"):
			c.spill = atoi(t[2:])
		case strings.HasPrefix(t, "P"):
			c.p = atoi(t[1:])
		case strings.HasPrefix(t, "M"):
			c.procs = atoi(t[1:])
		case strings.HasPrefix(t, "L"):
			c.load = atoi(t[1:])
		}
	}
	return c
}

var runSeq int64

type e2eSession struct {
	sess *exec.Session
	sys  *testsystem.System
	cfg  e2eConfig
	undo func()
}

func startSession(cfg e2eConfig) *e2eSession {
	oldChunk, oldCanary, oldSpill, oldShuf := defaultsize.Chunk, defaultsize.SortCanary, sliceio.SpillBatchSize, exec.DoShuffleReaders
	defaultsize.Chunk = cfg.chunk
	if cfg.canary > 0 {
		defaultsize.SortCanary = cfg.canary
	}
	if cfg.spill > 0 {
		sliceio.SpillBatchSize = cfg.spill
	}
	exec.DoShuffleReaders = !cfg.noshuf
	// the production retry policy waits 5s..60s between the 5 attempts to read a task output; the same number of
	// attempts with short waits keeps runs that legitimately retry (discarded or lost outputs) within the time limit
	oldRetry := exec.VerifSetRetryPolicy(retry.MaxRetries(retry.Backoff(20*time.Millisecond, 200*time.Millisecond, 2), 5))
	s := &e2eSession{cfg: cfg}
	s.undo = func() {
		defaultsize.Chunk, defaultsize.SortCanary, sliceio.SpillBatchSize, exec.DoShuffleReaders = oldChunk, oldCanary, oldSpill, oldShuf
		exec.VerifSetRetryPolicy(oldRetry)
	}
	opts := []exec.Option{exec.Parallelism(cfg.p)}
	if cfg.bm {
		s.sys = testsystem.New()
		s.sys.Machineprocs = cfg.procs
		if cfg.delayMs > 0 && testsystem.RPCHook == nil {
			// a slow network for one RPC: nothing is lost or faked, the call is only served later
			dm, dd := cfg.delayMethod, time.Duration(cfg.delayMs)*time.Millisecond
			testsystem.RPCHook = func(addr, method, phase string, ordinal int) bool {
				if method == dm && phase == "before" {
					time.Sleep(dd)
				}
				return false
			}
			undo0 := s.undo
			s.undo = func() { testsystem.RPCHook = nil; undo0() }
		}
		if cfg.fastKeepalive {
			// machine-loss cases: a killed machine must be noticed quickly
			s.sys.KeepalivePeriod = 500 * time.Millisecond
			s.sys.KeepaliveTimeout = 2 * time.Second
			s.sys.KeepaliveRpcTimeout = 500 * time.Millisecond
		} else {
			// failure-free cases: a loaded sandbox must not make a machine look lost
			s.sys.KeepalivePeriod = 5 * time.Second
			s.sys.KeepaliveTimeout = 120 * time.Second
			s.sys.KeepaliveRpcTimeout = 60 * time.Second
		}
		var system bigmachine.System = s.sys
		if cfg.nomach {
			system = &stalledSystem{s.sys}
		}
		opts = append(opts, exec.Bigmachine(system), exec.MaxLoad(float64(cfg.load)/100))
		if cfg.mc {
			opts = append(opts, exec.MachineCombiners)
		}
	} else {
		opts = append(opts, exec.Local)
		if cfg.mc {
			// the local executor with the machine-combiner compilation option (shared combine keys in one process)
			opts = append(opts, exec.MachineCombiners)
		}
	}
	s.sess = exec.Start(opts...)
	return s
}

// stalledSystem is a cluster that is out of capacity: Start never delivers a machine.
type stalledSystem struct{ *testsystem.System }

func (s *stalledSystem) Start(ctx context.Context, n int) ([]*bigmachine.Machine, error) {
	<-ctx.Done()
	return nil, ctx.Err()
}

func (s *e2eSession) close() {
	done := make(chan struct{})
	go func() { s.sess.Shutdown(); close(done) }()
	select {
	case <-done:
	case <-time.After(5 * time.Second):
	}
	s.undo()
}

func errText(err error) string {
	if err == nil {
		return "ok"
	}
	cls := "err"
	if baseerrors.Match(baseerrors.E(baseerrors.Fatal), err) {
		cls = "fatal"
	}
	msg := strings.ReplaceAll(strings.ReplaceAll(err.Error(), "\n", " "), "\t", " ")
	msg = strings.ReplaceAll(msg, "|", "/")
	if len(msg) > 400 {
		msg = msg[:400]
	}
	return cls + ":" + msg
}

// scanAll scans a result: rows in scan order.
func scanAll(ctx context.Context, r *exec.Result, cols int) (rows []string, err error) {
	sc := r.Scanner()
	defer sc.Close()
	if cols == 0 {
		for sc.Scan(ctx) {
		}
		return nil, sc.Err()
	}
	var k, v int64
	for sc.Scan(ctx, &k, &v) {
		rows = append(rows, fmt.Sprintf("%d,%d", k, v))
	}
	return rows, sc.Err()
}

type runOutcome struct {
	res    *exec.Result
	status string
	text   string
}

// runProgram runs prog (with results of earlier runs as R0…) and renders the observation.
func (s *e2eSession) runProgram(ctx context.Context, prog string, results []*exec.Result, timeout time.Duration) runOutcome {
	run := fmt.Sprintf("run%d", atomic.AddInt64(&runSeq, 1))
	// wrap the program's output in a WriterFunc (node name OUTW) to observe shard boundaries,
	// unless the output is a unit slice (scan)
	stmts := strings.Split(prog, ";")
	outRef := ""
	isScan := false
	var kept []string
	for _, st := range stmts {
		f := fields(st)
		if len(f) == 0 {
			continue
		}
		if f[0] == "OUT" {
			outRef = f[1]
			continue
		}
		kept = append(kept, strings.TrimSpace(st))
	}
	for _, st := range kept {
		if strings.HasPrefix(st, outRef+"=scan ") {
			isScan = true
		}
	}
	full := strings.Join(kept, " ; ")
	if isScan || outRef == "" {
		full += " ; OUT " + outRef
	} else {
		if full != "" {
			full += " ; "
		}
		full += "OUTW=writer " + outRef + " ; OUT OUTW"
	}
	fn := progFunc0
	args := []interface{}{run, full}
	excl := strings.Contains(prog, "EXCLUSIVE")
	if excl {
		fn = progFunc0x
	}
	switch len(results) {
	case 1:
		fn = progFunc1
		if excl {
			fn = progFunc1x
		}
	case 2:
		fn = progFunc2
		if excl {
			fn = progFunc2x
		}
	}
	for _, r := range results {
		args = append(args, r)
	}
	type rr struct {
		res *exec.Result
		err error
	}
	ch := make(chan rr, 1)
	go func() {
		defer func() {
			if e := recover(); e != nil {
				ch <- rr{nil, fmt.Errorf("PANIC in Run: %v", e)}
			}
		}()
		res, err := s.sess.Run(ctx, fn, args...)
		ch <- rr{res, err}
	}()
	var out rr
	select {
	case out = <-ch:
	case <-time.After(timeout):
		dumpStacks("hang")
		return runOutcome{nil, "hang", "hang"}
	}
	if out.err != nil {
		return runOutcome{nil, "err", errText(out.err)}
	}
	cols := 2
	if isScan {
		cols = 0
	}
	type sr struct {
		rows []string
		err  error
	}
	sch := make(chan sr, 1)
	go func() {
		rows, err := scanAll(ctx, out.res, cols)
		sch <- sr{rows, err}
	}()
	var scanned sr
	select {
	case scanned = <-sch:
	case <-time.After(timeout):
		dumpStacks("scanhang")
		return runOutcome{out.res, "hang", "scanhang"}
	}
	if scanned.err != nil {
		return runOutcome{out.res, "err", "scan" + errText(scanned.err)}
	}
	fx := effectsFor(run)
	fx.mu.Lock()
	var parts []string
	parts = append(parts, "ok", "scan="+strings.Join(scanned.rows, ";"))
	nshard := out.res.NumShard()
	shardRows := make([]string, nshard)
	for i := 0; i < nshard; i++ {
		shardRows[i] = strings.Join(fx.writer[fmt.Sprintf("OUTW/%d", i)], " ")
	}
	parts = append(parts, "shards="+strings.Join(shardRows, " / "))
	var ws []string
	for _, k := range sortedKeys(fx.writer) {
		if strings.HasPrefix(k, "OUTW/") {
			continue
		}
		ws = append(ws, k+"="+strings.Join(fx.writer[k], " "))
	}
	parts = append(parts, "writers="+strings.Join(ws, " ~ "))
	var ss []string
	for _, k := range sortedKeys(fx.scan) {
		ss = append(ss, k+"="+strings.Join(fx.scan[k], " "))
	}
	parts = append(parts, "scans="+strings.Join(ss, " ~ "))
	fx.mu.Unlock()
	cs := make([]string, len(progCounters))
	scope := out.res.Scope()
	for i, c := range progCounters {
		cs[i] = fmt.Sprint(c.Value(scope))
	}
	parts = append(parts, "counters="+strings.Join(cs, ","))
	return runOutcome{out.res, "ok", strings.Join(parts, " | ")}
}

var e2eMu sync.Mutex

// C01: run the programs in one session; observation = per-program outcome joined by " ## "
func runE2E(c string) string {
	e2eMu.Lock()
	defer e2eMu.Unlock()
	segs := strings.Split(c, ";;")
	cfg := parseConfig(segs[0])
	s := startSession(cfg)
	defer s.close()
	ctx := context.Background()
	var results []*exec.Result
	var outs []string
	for _, prog := range segs[1:] {
		o := s.runProgram(ctx, prog, results, 60*time.Second)
		outs = append(outs, o.text)
		if o.res != nil && o.status == "ok" {
			results = append(results, o.res)
		} else {
			break
		}
	}
	return strings.Join(outs, " ## ")
}

var _ = sort.Strings
var _ = bigslice.Const

func init() {
	runners["C01"] = runE2E
	runners["C04"] = runE2E
}

// dumpStacks writes all goroutine stacks to $VERIF_HANGDIR (diagnosing hangs); the file is named in the replay.
func dumpStacks(what string) {
	dir := os.Getenv("VERIF_HANGDIR")
	if dir == "" {
		return
	}
	os.MkdirAll(dir, 0o755)
	f, err := os.Create(fmt.Sprintf("%s/%s-%d-%d.txt", dir, what, os.Getpid(), time.Now().UnixNano()))
	if err != nil {
		return
	}
	defer f.Close()
	pprof.Lookup("goroutine").WriteTo(f, 1)
}
