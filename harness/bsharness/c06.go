package main

import (
	"context"
	"fmt"
	"strings"
	"sync/atomic"
	"time"

	baseerrors "github.com/grailbio/base/errors"
	"github.com/grailbio/bigslice"
	"github.com/grailbio/bigslice/exec"
	"github.com/grailbio/bigslice/frame"
	"github.com/grailbio/bigslice/sliceio"
)

// ---- C06: user errors and panics surface as errors from Run
//
// case: "<config> ;; FAULT <node> <mode> <k> <once|always> ; <program> ;; <healthy program>"
// observation per program: the outcome of runProgram ("ok | …", "err:…", "fatal:…", "hang", "scanhang") followed by
// " | fired=<n>" (how many calls of the faulty function failed); programs joined by " ## ".
// Every program runs even when an earlier one failed ("the session remains usable"), except after a hang.

func runC06(c string) string {
	e2eMu.Lock()
	defer e2eMu.Unlock()
	segs := strings.Split(c, ";;")
	cfg := parseConfig(segs[0])
	s := startSession(cfg)
	defer s.close()
	ctx := context.Background()
	var outs []string
	for _, prog := range segs[1:] {
		before := atomic.LoadInt64(&runSeq)
		o := s.runProgram(ctx, prog, []*exec.Result{}, 45*time.Second)
		run := fmt.Sprintf("run%d", before+1)
		fired := int64(0)
		if v, ok := faults.Load(run); ok {
			fired = atomic.LoadInt64(&v.(*faultSpec).fired)
		}
		outs = append(outs, fmt.Sprintf("%s | fired=%d", o.text, fired))
		if o.status == "hang" {
			break
		}
	}
	return strings.Join(outs, " ## ")
}

func init() {
	runners["C06"] = runC06
}

// ---- C06sev: the severity classifiers, one case per line
//   revise <app:0|1> <sev>      exec.reviseSeverity
//   reader <sev|plain>          the ReaderFunc wrapper (slice.go)
//   writer <sev|plain>          the WriterFunc wrapper (slice.go)
// observation: the resulting severity (-2 retriable, -1 temporary, 0 unknown, 1 fatal)
func runC06sev(c string) string {
	f := fields(c)
	mkErr := func(tok string) error {
		if tok == "plain" {
			return fmt.Errorf("plain")
		}
		return baseerrors.E(baseerrors.Severity(atoi(tok)), "verif")
	}
	ctx := context.Background()
	switch f[0] {
	case "revise":
		return fmt.Sprint(exec.VerifReviseSeverity(f[1] == "1", atoi(f[2])))
	case "reader":
		uerr := mkErr(f[1])
		s := bigslice.ReaderFunc(1, func(shard int, state *int, out []int64) (int, error) { return 0, uerr })
		_, err := s.Reader(0, nil).Read(ctx, frame.Make(s, 4, 4))
		return fmt.Sprint(int(baseerrors.Recover(err).Severity))
	case "writer":
		uerr := mkErr(f[1])
		src := bigslice.Const(1, []int64{1, 2, 3})
		s := bigslice.WriterFunc(src, func(shard int, st int, err error, xs []int64) error { return uerr })
		_, err := s.Reader(0, []sliceio.Reader{src.Reader(0, nil)}).Read(ctx, frame.Make(s, 4, 4))
		return fmt.Sprint(int(baseerrors.Recover(err).Severity))
	}
	return "bad-case"
}

func init() {
	runners["C06sev"] = runC06sev
}
