package main

import (
	"time"
	"bufio"
	"context"
	"fmt"
	"io"
	"sort"
	"strings"
	"sync"
	"sync/atomic"

	baseerrors "github.com/grailbio/base/errors"
	"github.com/grailbio/bigslice"
	"github.com/grailbio/bigslice/metrics"
	"github.com/grailbio/bigslice/sliceio"
)

// ---- the program language shared with the Lean model (DESIGN.md §7 C01)
//
//   N0=const 3 1:1 2:2 ; N1=map N0 inc ; N2=reduce N1 add ; OUT N2
//
// Every node is a slice of two int64 columns (key, value), except `scan`, which is a unit slice.

type progEffects struct {
	mu     sync.Mutex
	writer map[string][]string // "node/shard" -> entries "err(rows)"
	scan   map[string][]string // "node/shard" -> rows
	calls  map[string]int      // user-function call counters by name
}

var (
	effectsMu sync.Mutex
	effects   = map[string]*progEffects{}
)

func effectsFor(run string) *progEffects {
	effectsMu.Lock()
	defer effectsMu.Unlock()
	e, ok := effects[run]
	if !ok {
		e = &progEffects{writer: map[string][]string{}, scan: map[string][]string{}, calls: map[string]int{}}
		effects[run] = e
	}
	return e
}

// ---- fault injection into user functions (C06): "FAULT <node> <mode> <k> <once|always>"
// mode: err | tmp | panic | oob | neg.  The k-th call (0-based, counted over all shards and attempts) of the
// node's user function fails; "always": every call from the k-th on fails.
type faultSpec struct {
	node, mode string
	k          int64
	once       bool
	calls      int64
	fired      int64
}

var faults sync.Map // run -> *faultSpec

func faultFor(run, node string) *faultSpec {
	v, ok := faults.Load(run)
	if !ok {
		return nil
	}
	f := v.(*faultSpec)
	if f.node != node {
		return nil
	}
	return f
}

// lineFaultReader serves a text one line per Read call; the fault hook runs before every Read.
type lineFaultReader struct {
	br *bufio.Reader
	ft *faultSpec
}

func (l *lineFaultReader) Read(p []byte) (int, error) {
	if err := l.ft.failure(); err != nil {
		return 0, err
	}
	line, err := l.br.ReadString('\n')
	n := copy(p, line)
	if n < len(line) {
		panic("lineFaultReader: short buffer")
	}
	return n, err
}

// calls of Exclusive Maps in progress, and the most seen at once since the last reset
var xActive, xMax int64

func faultMarker(node string) string { return "injected-fault-" + node }

// hit reports whether this call of the user function must fail.
func (f *faultSpec) hit() bool {
	if f == nil {
		return false
	}
	n := atomic.AddInt64(&f.calls, 1) - 1
	if f.once {
		if n == f.k {
			atomic.AddInt64(&f.fired, 1)
			return true
		}
		return false
	}
	if n >= f.k {
		atomic.AddInt64(&f.fired, 1)
		return true
	}
	return false
}

// maybePanic is the hook of user functions that cannot return an error.
func (f *faultSpec) maybePanic() {
	if f.hit() {
		panic(faultMarker(f.node))
	}
}

// failure is the hook of user functions that return an error: nil, or the injected failure (may panic).
func (f *faultSpec) failure() error {
	if !f.hit() {
		return nil
	}
	switch f.mode {
	case "tmp":
		return baseerrors.E(baseerrors.Temporary, faultMarker(f.node))
	case "panic":
		panic(faultMarker(f.node))
	}
	return fmt.Errorf("%s", faultMarker(f.node))
}

// cacheDir is the directory of the cache files of the current case (set by the C13 runner).
var cacheDir string

func cachePrefix(name string) string { return "verif://" + cacheDir + "/" + name }

var progCounters = []metrics.Counter{metrics.NewCounter(), metrics.NewCounter(), metrics.NewCounter()}

// mapSrc is the argument of a Map: with a function name "p…" it is Prefixed(src, 2) (and the function is the one named
// by the rest); with "q…" it is Prefixed(src, 1).
func (e *progEnv) mapSrc(tok, fn string) bigslice.Slice {
	if strings.HasPrefix(fn, "p") {
		return bigslice.Prefixed(e.ref(tok), 2)
	}
	if strings.HasPrefix(fn, "q") {
		return bigslice.Prefixed(e.ref(tok), 1)
	}
	return e.ref(tok)
}

func mapFn(name string) func(k, v int64) (int64, int64) {
	name = strings.TrimPrefix(strings.TrimPrefix(name, "p"), "q")
	switch {
	case name == "inc":
		return func(k, v int64) (int64, int64) { return k + 1, v * 2 }
	case name == "swap":
		return func(k, v int64) (int64, int64) { return v, k }
	case name == "id":
		return func(k, v int64) (int64, int64) { return k, v }
	case strings.HasPrefix(name, "mod"):
		m := int64(atoi(name[3:]))
		return func(k, v int64) (int64, int64) { return ((k % m) + m) % m, v }
	}
	panic("bad map fn " + name)
}

func predFn(name string) func(k, v int64) bool {
	switch name {
	case "kmod3":
		return func(k, v int64) bool { return k%3 != 0 }
	case "vodd":
		return func(k, v int64) bool { return v%2 != 0 }
	case "none":
		return func(k, v int64) bool { return false }
	case "all":
		return func(k, v int64) bool { return true }
	}
	panic("bad pred " + name)
}

func combFn(name string) func(a, b int64) int64 {
	switch name {
	case "add":
		return func(a, b int64) int64 { return a + b }
	case "max":
		return func(a, b int64) int64 {
			if a > b {
				return a
			}
			return b
		}
	}
	panic("bad combiner " + name)
}

type progEnv struct {
	run     string
	results []bigslice.Slice
	nodes   map[string]bigslice.Slice
	ctx     context.Context
}

func parseRows(toks []string) ([]int64, []int64) {
	var ks, vs []int64
	for _, t := range toks {
		ab := strings.Split(t, ":")
		ks = append(ks, int64(atoi(ab[0])))
		vs = append(vs, int64(atoi(ab[1])))
	}
	return ks, vs
}

func (e *progEnv) ref(tok string) bigslice.Slice {
	if strings.HasPrefix(tok, "R") {
		return e.results[atoi(tok[1:])]
	}
	s, ok := e.nodes[tok]
	if !ok {
		panic("undefined node " + tok)
	}
	return s
}

func (e *progEnv) build(name string, op []string) bigslice.Slice {
	fx := effectsFor(e.run)
	switch op[0] {
	case "const":
		ks, vs := parseRows(op[2:])
		if ks == nil {
			ks, vs = []int64{}, []int64{}
		}
		return bigslice.Const(atoi(op[1]), ks, vs)
	case "reader":
		nshard, chunk := atoi(op[1]), atoi(op[2])
		ks, vs := parseRows(op[3:])
		ft := faultFor(e.run, name)
		// chunk >= 10: the reader also makes idle reads — every other call returns no rows and a nil error, as the
		// ReaderFunc contract allows — and delivers chunk%10 rows in the calls between
		idle := chunk >= 10
		if idle {
			chunk = chunk%10 + 1
		}
		type rstate struct{ pos, calls int }
		return bigslice.ReaderFunc(nshard, func(shard int, st *rstate, ok, ov []int64) (int, error) {
			if err := ft.failure(); err != nil {
				return 0, err
			}
			st.calls++
			if idle && st.calls%2 == 0 {
				return 0, nil
			}
			pos := &st.pos
			n := 0
			for n < len(ok) && n < chunk {
				i := shard + *pos*nshard
				if i >= len(ks) {
					return n, sliceio.EOF
				}
				ok[n], ov[n] = ks[i], vs[i]
				n++
				*pos++
			}
			return n, nil
		})
	case "lines":
		nshard, n := atoi(op[1]), atoi(op[2])
		var b strings.Builder
		for i := 0; i < n; i++ {
			fmt.Fprintf(&b, "%d\n", i)
		}
		text := b.String()
		ftl := faultFor(e.run, name)
		s := bigslice.ScanReader(nshard, func() (io.ReadCloser, error) {
			if ftl != nil {
				// the user's stream hands out one line per Read and may fail between two lines (or before the first)
				return io.NopCloser(&lineFaultReader{br: bufio.NewReader(strings.NewReader(text)), ft: ftl}), nil
			}
			return io.NopCloser(strings.NewReader(text)), nil
		})
		return bigslice.Map(s, func(line string) (int64, int64) {
			if line == "" {
				return -1, 1
			}
			return int64(atoi(line)), 1
		})
	case "map":
		if ft := faultFor(e.run, name); ft != nil {
			fn := mapFn(op[2])
			return bigslice.Map(e.mapSrc(op[1], op[2]), func(k, v int64) (int64, int64) { ft.maybePanic(); return fn(k, v) })
		}
		return bigslice.Map(e.mapSrc(op[1], op[2]), mapFn(op[2]))
	case "mapc":
		// a Map whose calls are counted (C13: was the upstream of a cached shard executed?)
		fn := mapFn(op[2])
		ftc := faultFor(e.run, name)
		// … and reported through user counter 0 as well: what the result's scope reports must be what was executed
		return bigslice.Map(e.mapSrc(op[1], op[2]), func(ctx context.Context, k, v int64) (int64, int64) {
			fx.mu.Lock()
			fx.calls[name]++
			fx.mu.Unlock()
			progCounters[0].Incr(metrics.ContextScope(ctx), 1)
			ftc.maybePanic()
			return fn(k, v)
		})
	case "cache":
		return bigslice.Cache(context.Background(), e.ref(op[1]), cachePrefix(op[2]))
	case "cachepartial":
		return bigslice.CachePartial(context.Background(), e.ref(op[1]), cachePrefix(op[2]))
	case "readcache":
		return bigslice.ReadCache(context.Background(), typ2, atoi(op[1]), cachePrefix(op[2]))
	case "mapm":
		return bigslice.Map(e.mapSrc(op[1], op[2]), mapFn(op[2]), bigslice.ExperimentalMaterialize)
	case "mapp":
		return bigslice.Map(e.mapSrc(op[1], op[2]), mapFn(op[2]), bigslice.Procs(atoi(op[3])))
	case "mapx":
		// an Exclusive Map; its calls record how many of them are in progress at once (tasks of an exclusive operator must
		// have the executor's procs to themselves)
		fnx := mapFn(op[2])
		return bigslice.Map(e.mapSrc(op[1], op[2]), func(k, v int64) (int64, int64) {
			n := atomic.AddInt64(&xActive, 1)
			for {
				m := atomic.LoadInt64(&xMax)
				if n <= m || atomic.CompareAndSwapInt64(&xMax, m, n) {
					break
				}
			}
			time.Sleep(300 * time.Microsecond)
			atomic.AddInt64(&xActive, -1)
			return fnx(k, v)
		}, bigslice.Exclusive)
	case "count", "countm":
		c := progCounters[atoi(op[2])]
		var opts []bigslice.Pragma
		if op[0] == "countm" {
			opts = append(opts, bigslice.ExperimentalMaterialize)
		}
		return bigslice.Map(e.ref(op[1]), func(ctx context.Context, k, v int64) (int64, int64) {
			c.Incr(metrics.ContextScope(ctx), 1)
			return k, v
		}, opts...)
	case "filter":
		if ft := faultFor(e.run, name); ft != nil {
			fn := predFn(op[2])
			return bigslice.Filter(e.ref(op[1]), func(k, v int64) bool { ft.maybePanic(); return fn(k, v) })
		}
		return bigslice.Filter(e.ref(op[1]), predFn(op[2]))
	case "flatmap":
		switch op[2] {
		case "dup":
			return bigslice.Flatmap(e.ref(op[1]), func(k, v int64) ([]int64, []int64) {
				n := int(((k % 3) + 3) % 3)
				ks, vs := make([]int64, n), make([]int64, n)
				for j := range ks {
					ks[j], vs[j] = k, v+int64(j)
				}
				return ks, vs
			})
		case "two":
			ft := faultFor(e.run, name)
			return bigslice.Flatmap(e.ref(op[1]), func(k, v int64) ([]int64, []int64) {
				ft.maybePanic()
				return []int64{k, k + 1}, []int64{v, v}
			})
		}
		panic("bad flatmap " + op[2])
	case "fold":
		ftf := faultFor(e.run, name)
		return bigslice.Fold(e.ref(op[1]), func(acc, v int64) int64 { ftf.maybePanic(); return acc + v })
	case "head":
		return bigslice.Head(e.ref(op[1]), atoi(op[2]))
	case "reduce":
		if ft := faultFor(e.run, name); ft != nil {
			fn := combFn(op[2])
			return bigslice.Reduce(e.ref(op[1]), func(a, b int64) int64 { ft.maybePanic(); return fn(a, b) })
		}
		return bigslice.Reduce(e.ref(op[1]), combFn(op[2]))
	case "cogroup":
		cg := bigslice.Cogroup(e.ref(op[1]), e.ref(op[2]))
		return bigslice.Map(cg, func(k int64, as, bs []int64) (int64, int64) {
			var sa, sb int64
			for _, a := range as {
				sa += a
			}
			for _, b := range bs {
				sb += b
			}
			return k, sa + 1000*sb + 1000000*int64(len(as)) + 100000000*int64(len(bs))
		})
	case "reshuffle":
		return bigslice.Reshuffle(e.ref(op[1]))
	case "reshuffle2":
		return bigslice.Reshuffle(bigslice.Prefixed(e.ref(op[1]), 2))
	case "repartition":
		switch op[2] {
		case "byval":
			ft := faultFor(e.run, name)
			return bigslice.Repartition(e.ref(op[1]), func(nshard int, k, v int64) int {
				if ft != nil && ft.hit() {
					switch ft.mode {
					case "oob":
						return nshard
					case "neg":
						return -1
					}
					panic(faultMarker(name))
				}
				return int(((v % int64(nshard)) + int64(nshard)) % int64(nshard))
			})
		case "zero":
			return bigslice.Repartition(e.ref(op[1]), func(nshard int, k, v int64) int { return 0 })
		}
		panic("bad partition fn")
	case "reshard":
		return bigslice.Reshard(e.ref(op[1]), atoi(op[2]))
	case "scan":
		fts := faultFor(e.run, name)
		return bigslice.Scan(e.ref(op[1]), func(shard int, sc *sliceio.Scanner) error {
			var k, v int64
			var rows []string
			for sc.Scan(context.Background(), &k, &v) {
				rows = append(rows, fmt.Sprintf("%d,%d", k, v))
			}
			if err := fts.failure(); err != nil {
				return err
			}
			fx.mu.Lock()
			key := fmt.Sprintf("%s/%d", name, shard)
			fx.scan[key] = append(fx.scan[key], strings.Join(rows, ";")+"$")
			fx.mu.Unlock()
			return sc.Err()
		})
	case "writer":
		ftw := faultFor(e.run, name)
		return bigslice.WriterFunc(e.ref(op[1]), func(shard int, st int, err error, ks, vs []int64) error {
			if ferr := ftw.failure(); ferr != nil {
				return ferr
			}
			rows := make([]string, len(ks))
			for i := range ks {
				rows[i] = fmt.Sprintf("%d,%d", ks[i], vs[i])
			}
			tag := "-"
			if err == sliceio.EOF {
				tag = "eof"
			} else if err != nil {
				tag = "err"
			}
			fx.mu.Lock()
			key := fmt.Sprintf("%s/%d", name, shard)
			fx.writer[key] = append(fx.writer[key], tag+"("+strings.Join(rows, ";")+")")
			fx.mu.Unlock()
			return nil
		})
	}
	panic("bad op " + op[0])
}

func buildProgram(run, prog string, results ...bigslice.Slice) bigslice.Slice {
	e := &progEnv{run: run, results: results, nodes: map[string]bigslice.Slice{}}
	var out bigslice.Slice
	for _, st := range strings.Split(prog, ";") {
		f := fields(st)
		if len(f) == 0 {
			continue
		}
		if f[0] == "OUT" {
			out = e.ref(f[1])
			continue
		}
		if f[0] == "EXCLUSIVE" {
			// the program is run through an exclusive Func (its own cluster of machines): chosen by runProgram
			continue
		}
		if f[0] == "FAULT" {
			faults.LoadOrStore(run, &faultSpec{node: f[1], mode: f[2], k: int64(atoi(f[3])), once: f[4] == "once"})
			continue
		}
		eq := strings.IndexByte(f[0], '=')
		name, op0 := f[0][:eq], f[0][eq+1:]
		op := append([]string{op0}, f[1:]...)
		e.nodes[name] = e.build(name, op)
	}
	if out == nil {
		panic("program without OUT")
	}
	return out
}

// the registered Funcs: the program text is the argument, so the same Func serves every program
var (
	progFunc0 = bigslice.Func(func(run, prog string) bigslice.Slice { return buildProgram(run, prog) })
	progFunc1 = bigslice.Func(func(run, prog string, r0 bigslice.Slice) bigslice.Slice { return buildProgram(run, prog, r0) })
	progFunc2 = bigslice.Func(func(run, prog string, r0, r1 bigslice.Slice) bigslice.Slice {
		return buildProgram(run, prog, r0, r1)
	})
	// the same as exclusive Funcs: each invocation gets machines of its own (bigmachine executor)
	progFunc0x = bigslice.Func(func(run, prog string) bigslice.Slice { return buildProgram(run, prog) }).Exclusive()
	progFunc1x = bigslice.Func(func(run, prog string, r0 bigslice.Slice) bigslice.Slice { return buildProgram(run, prog, r0) }).Exclusive()
	progFunc2x = bigslice.Func(func(run, prog string, r0, r1 bigslice.Slice) bigslice.Slice {
		return buildProgram(run, prog, r0, r1)
	}).Exclusive()
)

func sortedKeys(m map[string][]string) []string {
	ks := make([]string, 0, len(m))
	for k := range m {
		ks = append(ks, k)
	}
	sort.Strings(ks)
	return ks
}
