package main

import (
	"context"
	"fmt"
	"io"
	"os"
	"path/filepath"
	"sort"
	"strings"
	"time"

	"github.com/grailbio/base/compress/zstd"
	"github.com/grailbio/bigslice/exec"
	"github.com/grailbio/bigslice/frame"
	"github.com/grailbio/bigslice/sliceio"
)

// ---- C13: caching.  case: "<config> ;; <op> ;; <op> …"
//   run <program>          run it (cache, cachepartial, readcache, mapc ops allowed)
//   runfail <k> <program>  run it with the k-th file operation of the cache layer failing
//   runfailp <k> <program> … with every file operation from the k-th on failing
//   runfailw <k> <program> … with every write from the k-th file operation on failing
//   runx <program>         run a program that contains a FAULT statement (a failing user function, see C06)
//   rm <name> <shard>      remove a cache shard file
// observation per run: "<outcome> | calls=<node>:<n>,… | files=<name>/<shard>=<rows|BAD:why> …", ops joined by " ## "
// (files: every cache file present after the op, decoded)

func decodeCacheFile(path string) string {
	f, err := os.Open(path)
	if err != nil {
		return "BAD:open"
	}
	defer f.Close()
	zr, err := zstd.NewReader(f)
	if err != nil {
		return "BAD:zstd"
	}
	defer zr.Close()
	dec := sliceio.NewDecodingReader(zr)
	var rows []string
	ctx := context.Background()
	for {
		fr := frame.Make(typ2, 16, 16)
		n, err := dec.Read(ctx, fr)
		ks, vs := fr.Interface(0).([]int64), fr.Interface(1).([]int64)
		for i := 0; i < n; i++ {
			rows = append(rows, fmt.Sprintf("%d,%d", ks[i], vs[i]))
		}
		if err == sliceio.EOF {
			break
		}
		if err != nil {
			return "BAD:" + strings.ReplaceAll(strings.ReplaceAll(err.Error(), " ", "_"), "\t", "_")
		}
	}
	return strings.Join(rows, ";")
}

func listCacheFiles(dir string) string {
	ents, _ := os.ReadDir(dir)
	var out []string
	for _, e := range ents {
		name := e.Name() // <name>-SSSS-of-NNNN
		i := strings.Index(name, "-")
		if i < 0 || strings.Contains(name, ".tmp") {
			out = append(out, "STRAY:"+name)
			continue
		}
		shard := atoi(strings.TrimLeft(name[i+1:i+5], "0") + "")
		if strings.TrimLeft(name[i+1:i+5], "0") == "" {
			shard = 0
		}
		out = append(out, fmt.Sprintf("%s/%d=%s", name[:i], shard, decodeCacheFile(filepath.Join(dir, name))))
	}
	sort.Strings(out)
	return strings.Join(out, " ")
}

func runC13(c string) string {
	e2eMu.Lock()
	defer e2eMu.Unlock()
	segs := strings.Split(c, ";;")
	cfg := parseConfig(segs[0])
	dir, err := os.MkdirTemp("", "c13cache")
	if err != nil {
		panic(err)
	}
	defer os.RemoveAll(dir)
	cacheDir = dir
	s := startSession(cfg)
	defer s.close()
	ctx := context.Background()
	var outs []string
	for _, op := range segs[1:] {
		op = strings.TrimSpace(op)
		f := fields(op)
		if len(f) == 0 {
			continue
		}
		switch f[0] {
		case "run", "runfail", "runfailp", "runfailw", "runx":
			prog := strings.TrimSpace(op[len(f[0]):])
			ffs.ops, ffs.failAt, ffs.log = 0, 0, nil
			if f[0] == "runfail" || f[0] == "runfailp" || f[0] == "runfailw" {
				if f[0] == "runfail" {
					ffs.failAt = atoi(f[1])
				} else {
					ffs.failFrom = atoi(f[1])
					if f[0] == "runfailw" {
						ffs.failKind = "write"
					}
				}
				prog = strings.TrimSpace(prog[len(f[1])+1:])
			}
			before := runSeq
			o := s.runProgram(ctx, prog, []*exec.Result{}, 60*time.Second)
			if o.status != "ok" {
				// Run returns at the first fatal task error while other tasks of the invocation may still be
				// running: let them finish, so that the files listed below are what the failed run leaves behind
				last, stable := listCacheFiles(dir), 0
				for i := 0; i < 60 && stable < 6; i++ {
					time.Sleep(100 * time.Millisecond)
					if cur := listCacheFiles(dir); cur == last {
						stable++
					} else {
						last, stable = cur, 0
					}
				}
			}
			ffs.failAt, ffs.failFrom, ffs.failKind = 0, 0, ""
			fx := effectsFor(fmt.Sprintf("run%d", before+1))
			fx.mu.Lock()
			var cs []string
			for k, v := range fx.calls {
				cs = append(cs, fmt.Sprintf("%s:%d", k, v))
			}
			fx.mu.Unlock()
			sort.Strings(cs)
			outs = append(outs, fmt.Sprintf("%s | calls=%s | fileops=%d | files=%s", o.text, strings.Join(cs, ","), ffs.ops, listCacheFiles(dir)))
			if o.status == "hang" {
				return strings.Join(outs, " ## ")
			}
		case "rm":
			ents, _ := os.ReadDir(dir)
			for _, e := range ents {
				if strings.HasPrefix(e.Name(), fmt.Sprintf("%s-%04d-of-", f[1], atoi(f[2]))) {
					os.Remove(filepath.Join(dir, e.Name()))
				}
			}
			outs = append(outs, "done | files="+listCacheFiles(dir))
		default:
			outs = append(outs, "bad-op")
		}
	}
	return strings.Join(outs, " ## ")
}

var _ = io.EOF

func init() {
	runners["C13"] = runC13
}
