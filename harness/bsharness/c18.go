package main

import (
	"context"
	"fmt"
	"path/filepath"
	"reflect"
	"strings"

	"github.com/grailbio/bigslice"
	"github.com/grailbio/bigslice/frame"
	"github.com/grailbio/bigslice/typecheck"
)

type c18S struct{ A, B int }
type c18I interface{ M() int }
type c18T struct{ X int }

func (c c18T) M() int { return c.X }

// key types registered with only one of the two operations a key column needs
type c18H struct{ X int }
type c18L struct{ X int }

func init() {
	frame.RegisterOps(func(slice []c18H) frame.Ops {
		return frame.Ops{HashWithSeed: func(i int, seed uint32) uint32 { return uint32(slice[i].X) ^ seed }}
	})
	frame.RegisterOps(func(slice []c18L) frame.Ops {
		return frame.Ops{Less: func(i, j int) bool { return slice[i].X < slice[j].X }}
	})
}

var c18types = map[string]reflect.Type{
	"int": reflect.TypeOf(0), "i64": reflect.TypeOf(int64(0)), "str": reflect.TypeOf(""), "bool": reflect.TypeOf(false),
	"f64": reflect.TypeOf(float64(0)), "err": reflect.TypeOf((*error)(nil)).Elem(), "S": reflect.TypeOf(c18S{}),
	"I": reflect.TypeOf((*c18I)(nil)).Elem(), "T": reflect.TypeOf(c18T{}),
	"H": reflect.TypeOf(c18H{}), "L": reflect.TypeOf(c18L{}),
}

func c18type(tok string) reflect.Type {
	if strings.HasPrefix(tok, "[]") {
		return reflect.SliceOf(c18type(tok[2:]))
	}
	t, ok := c18types[tok]
	if !ok {
		panic("bad type " + tok)
	}
	return t
}

func c18name(t reflect.Type) string {
	if t.Kind() == reflect.Slice {
		return "[]" + c18name(t.Elem())
	}
	for k, v := range c18types {
		if v == t {
			return k
		}
	}
	return t.String()
}

func c18list(s string) []reflect.Type {
	if s == "" || s == "-" {
		return nil
	}
	var ts []reflect.Type
	for _, t := range strings.Split(s, ",") {
		ts = append(ts, c18type(t))
	}
	return ts
}

func c18slice(cols []reflect.Type, prefix, nshard int) bigslice.Slice {
	args := make([]interface{}, len(cols))
	for i, t := range cols {
		args[i] = reflect.MakeSlice(reflect.SliceOf(t), 0, 0).Interface()
	}
	s := bigslice.Const(nshard, args...)
	if prefix > 1 {
		s = bigslice.Prefixed(s, prefix)
	}
	return s
}

var typeOfCtx = reflect.TypeOf((*context.Context)(nil)).Elem()

func c18func(in, out []reflect.Type, variadic, ctx bool) interface{} {
	if ctx {
		in = append([]reflect.Type{typeOfCtx}, in...)
	}
	ft := reflect.FuncOf(in, out, variadic)
	return reflect.MakeFunc(ft, func(args []reflect.Value) []reflect.Value {
		rs := make([]reflect.Value, len(out))
		for i, t := range out {
			rs[i] = reflect.Zero(t)
		}
		return rs
	}).Interface()
}

// case: "<ctor> [arg] ; S t,t P p N n ; [S ...] ; F in=t,t out=t,t var=0 ctx=0"
func runC18(c string) (obs string) {
	parts := strings.Split(c, ";")
	head := fields(parts[0])
	var slices []bigslice.Slice
	var fn interface{}
	for _, p := range parts[1:] {
		f := fields(p)
		if len(f) == 0 {
			continue
		}
		switch f[0] {
		case "S":
			cols := c18list(f[1])
			slices = append(slices, c18slice(cols, atoi(f[3]), atoi(f[5])))
		case "F":
			kv := map[string]string{}
			for _, t := range f[1:] {
				ab := strings.SplitN(t, "=", 2)
				kv[ab[0]] = ab[1]
			}
			fn = c18func(c18list(kv["in"]), c18list(kv["out"]), kv["var"] == "1", kv["ctx"] == "1")
		case "NF":
			fn = 42 // not a function
		}
	}
	defer func() {
		if e := recover(); e != nil {
			if te, ok := e.(*typecheck.Error); ok {
				here := 0
				if filepath.Base(te.File) == "c18.go" {
					here = 1
				}
				obs = fmt.Sprintf("typeerr here=%d", here)
				return
			}
			msg := fmt.Sprint(e)
			if len(msg) > 80 {
				msg = msg[:80]
			}
			obs = "panic " + strings.ReplaceAll(msg, "\t", " ")
		}
	}()
	var r bigslice.Slice
	switch head[0] {
	case "map":
		r = bigslice.Map(slices[0], fn)
	case "filter":
		r = bigslice.Filter(slices[0], fn)
	case "flatmap":
		r = bigslice.Flatmap(slices[0], fn)
	case "fold":
		r = bigslice.Fold(slices[0], fn)
	case "reduce":
		r = bigslice.Reduce(slices[0], fn)
	case "readerfunc":
		r = bigslice.ReaderFunc(atoi(head[1]), fn)
	case "writerfunc":
		r = bigslice.WriterFunc(slices[0], fn)
	case "repartition":
		r = bigslice.Repartition(slices[0], fn)
	case "reshuffle":
		r = bigslice.Reshuffle(slices[0])
	case "reshard":
		r = bigslice.Reshard(slices[0], atoi(head[1]))
	case "prefixed":
		r = bigslice.Prefixed(slices[0], atoi(head[1]))
	case "cogroup":
		r = bigslice.Cogroup(slices...)
	case "head":
		r = bigslice.Head(slices[0], atoi(head[1]))
	default:
		panic("bad ctor")
	}
	ts := make([]string, r.NumOut())
	for i := range ts {
		ts[i] = c18name(r.Out(i))
	}
	return fmt.Sprintf("accept out=%s prefix=%d shards=%d", strings.Join(ts, ","), r.Prefix(), r.NumShard())
}

func init() { runners["C18"] = runC18 }
