package main

import (
	"context"
	"errors"
	"fmt"
	"reflect"
	"sort"
	"strings"

	baseerrors "github.com/grailbio/base/errors"
	"github.com/grailbio/bigslice"
	"github.com/grailbio/bigslice/exec"
	"github.com/grailbio/bigslice/frame"
	"github.com/grailbio/bigslice/sliceio"
	"github.com/grailbio/bigslice/slicetype"
)

// ---- scripted upstream (the Go twin of BS.Reader.Up)

type upStep struct {
	max  int
	eof  bool   // deliver EOF together with the last rows
	fail string // "" | "err" | "tmp"
}

type upReader struct {
	rows   [][2]int64
	script []upStep
	calls  int
	ended  bool
}

// injectedFailures counts failing steps actually returned by scripted upstreams (per case).
var injectedFailures int

var errInjected = errors.New("injected upstream error")

func (u *upReader) Read(ctx context.Context, out frame.Frame) (int, error) {
	u.calls++
	if u.ended {
		return 0, sliceio.EOF
	}
	k := out.Len()
	keys := out.Interface(0).([]int64)
	vals := out.Interface(1).([]int64)
	// a contract-abiding reader writes only the rows it returns
	if len(u.script) == 0 {
		n := k
		if n > len(u.rows) {
			n = len(u.rows)
		}
		for i := 0; i < n; i++ {
			keys[i], vals[i] = u.rows[i][0], u.rows[i][1]
		}
		u.rows = u.rows[n:]
		if len(u.rows) == 0 {
			u.ended = true
			return n, sliceio.EOF
		}
		return n, nil
	}
	st := u.script[0]
	u.script = u.script[1:]
	switch st.fail {
	case "err":
		injectedFailures++
		return 0, errInjected
	case "tmp":
		injectedFailures++
		return 0, baseerrors.E(baseerrors.Temporary, "injected temporary error")
	}
	n := st.max
	if n > k {
		n = k
	}
	if n > len(u.rows) {
		n = len(u.rows)
	}
	for i := 0; i < n; i++ {
		keys[i], vals[i] = u.rows[i][0], u.rows[i][1]
	}
	u.rows = u.rows[n:]
	if len(u.rows) == 0 && st.eof {
		u.ended = true
		return n, sliceio.EOF
	}
	return n, nil
}

func (u *upReader) Close() error { return nil }

var typ2 = slicetype.New(reflect.TypeOf(int64(0)), reflect.TypeOf(int64(0)))

// parseUps parses " IN k:v k:v ... SCRIPT m[e] m ... " sections (one per upstream)
func parseUps(sections []string) []*upReader {
	var ups []*upReader
	for _, s := range sections {
		f := fields(s)
		if len(f) == 0 || f[0] != "IN" {
			continue
		}
		u := &upReader{}
		mode := "IN"
		for _, t := range f[1:] {
			if t == "SCRIPT" {
				mode = t
				continue
			}
			if mode == "IN" {
				ab := strings.Split(t, ":")
				u.rows = append(u.rows, [2]int64{int64(atoi(ab[0])), int64(atoi(ab[1]))})
			} else {
				st := upStep{}
				switch {
				case t == "err" || t == "tmp":
					st.fail = t
				case strings.HasSuffix(t, "e"):
					st.max, st.eof = atoi(t[:len(t)-1]), true
				default:
					st.max = atoi(t)
				}
				u.script = append(u.script, st)
			}
		}
		ups = append(ups, u)
	}
	return ups
}

const poison = int64(-777)

// showVal prints an output column value; list columns (cogroup) as [a b c] sorted.
func showVal(v reflect.Value) string {
	switch v.Kind() {
	case reflect.Slice:
		var xs []int
		for i := 0; i < v.Len(); i++ {
			xs = append(xs, int(v.Index(i).Int()))
		}
		sort.Ints(xs)
		ss := make([]string, len(xs))
		for i, x := range xs {
			ss[i] = itoa(x)
		}
		return "[" + strings.Join(ss, " ") + "]"
	default:
		return itoa(int(v.Int()))
	}
}

func isPoison(v reflect.Value) bool {
	switch v.Kind() {
	case reflect.Slice:
		return v.Len() == 1 && v.Index(0).Int() == poison
	default:
		return v.Int() == poison
	}
}

func poisonFrame(t slicetype.Type, k int) frame.Frame {
	f := frame.Make(t, k, k)
	for c := 0; c < f.NumOut(); c++ {
		for i := 0; i < k; i++ {
			v := f.Index(c, i)
			if v.Kind() == reflect.Slice {
				s := reflect.MakeSlice(v.Type(), 1, 1)
				s.Index(0).SetInt(poison)
				v.Set(s)
			} else {
				v.SetInt(poison)
			}
		}
	}
	return f
}

func rowText(f frame.Frame, i int) string {
	cs := make([]string, f.NumOut())
	for c := range cs {
		cs[c] = showVal(f.Index(c, i))
	}
	return strings.Join(cs, ",")
}

func errClass(err error) string {
	switch {
	case err == nil:
		return "-"
	case err == sliceio.EOF:
		return "eof"
	case baseerrors.IsTemporary(err):
		return "tmp"
	case baseerrors.Match(baseerrors.E(baseerrors.Fatal), err):
		return "fatal"
	default:
		return "err"
	}
}

// drain reads r to EOF with the given destination sizes (cycled), into poisoned
// frames, and reports per-call (k:n:err:dirty), all rows, and whether rows
// delivered earlier were altered by later calls.
func drain(r sliceio.Reader, t slicetype.Type, dest []int, extra int) string {
	ctx := context.Background()
	type held struct {
		f    frame.Frame
		n    int
		rows []string
	}
	var (
		calls []string
		rows  []string
		hs    []held
	)
	done := false
	after := 0
	for i := 0; i < 4000; i++ {
		k := dest[i%len(dest)]
		f := poisonFrame(t, k)
		n, err := r.Read(ctx, f)
		dirty := 0
		if n < 0 || n > k {
			calls = append(calls, fmt.Sprintf("%d:%d:%s:0", k, n, errClass(err)))
			done = true
			break
		}
		for j := n; j < k; j++ {
			for c := 0; c < f.NumOut(); c++ {
				if !isPoison(f.Index(c, j)) {
					dirty = 1
				}
			}
		}
		calls = append(calls, fmt.Sprintf("%d:%d:%s:%d", k, n, errClass(err), dirty))
		h := held{f: f, n: n}
		for j := 0; j < n; j++ {
			rt := rowText(f, j)
			h.rows = append(h.rows, rt)
			rows = append(rows, rt)
		}
		hs = append(hs, h)
		if err != nil && err != sliceio.EOF {
			// a failed stream: nothing after the error is part of the observation
			done = true
			break
		}
		if err != nil {
			// after the end: a few more reads to observe stickiness
			after++
			if after > extra {
				done = true
				break
			}
		}
	}
	altered := 0
	for _, h := range hs {
		for j := 0; j < h.n; j++ {
			if rowText(h.f, j) != h.rows[j] {
				altered = 1
			}
		}
	}
	end := "end"
	if !done {
		end = "NOEND"
	}
	return fmt.Sprintf("%s calls=%s | rows=%s | altered=%d", end, strings.Join(calls, " "), strings.Join(rows, ";"), altered)
}

func constOf(rows [][2]int64, nshard int) bigslice.Slice {
	ks := make([]int64, len(rows))
	vs := make([]int64, len(rows))
	for i, r := range rows {
		ks[i], vs[i] = r[0], r[1]
	}
	return bigslice.Const(nshard, ks, vs)
}

var c17typed = constOf(nil, 1)

// case: "<kind> [args] ; IN ... SCRIPT ... ; IN ... ; DEST k k k"
func runC17(c string) string {
	injectedFailures = 0
	return runC17x(c) + fmt.Sprintf(" | injected=%d", injectedFailures)
}

func runC17x(c string) string {
	parts := strings.Split(c, ";")
	head := fields(parts[0])
	ups := parseUps(parts[1:])
	var dest []int
	for _, p := range parts[1:] {
		f := fields(p)
		if len(f) > 0 && f[0] == "DEST" {
			for _, t := range f[1:] {
				dest = append(dest, atoi(t))
			}
		}
	}
	if len(dest) == 0 {
		dest = []int{3}
	}
	readers := func() []sliceio.Reader {
		rs := make([]sliceio.Reader, len(ups))
		for i, u := range ups {
			rs[i] = u
		}
		return rs
	}
	switch head[0] {
	case "map":
		s := bigslice.Map(c17typed, func(k, v int64) (int64, int64) { return k + 1, v * 2 })
		return drain(s.Reader(0, readers()), s, dest, 2)
	case "filter":
		s := bigslice.Filter(c17typed, func(k, v int64) bool { return k%3 != 0 })
		return drain(s.Reader(0, readers()), s, dest, 2)
	case "flatmap":
		s := bigslice.Flatmap(c17typed, func(k, v int64) ([]int64, []int64) {
			n := int(k % 4)
			ks, vs := make([]int64, n), make([]int64, n)
			for j := 0; j < n; j++ {
				ks[j], vs[j] = k, v+int64(j)
			}
			return ks, vs
		})
		return drain(s.Reader(0, readers()), s, dest, 2)
	case "head":
		s := bigslice.Head(c17typed, atoi(head[1]))
		return drain(s.Reader(0, readers()), s, dest, 2)
	case "fold":
		s := bigslice.Fold(c17typed, func(acc, v int64) int64 { return acc + v })
		return drain(s.Reader(0, readers()), s, dest, 2)
	case "foldint", "foldstr":
		// Fold over other key types (accum.go has an accumulator per key kind): keys mapped to int / string and back
		var keyed, back bigslice.Slice
		var folded bigslice.Slice
		if head[0] == "foldint" {
			keyed = bigslice.Map(c17typed, func(k, v int64) (int, int64) { return int(k), v })
			folded = bigslice.Fold(keyed, func(acc, v int64) int64 { return acc + v })
			back = bigslice.Map(folded, func(k int, v int64) (int64, int64) { return int64(k), v })
		} else {
			keyed = bigslice.Map(c17typed, func(k, v int64) (string, int64) { return fmt.Sprintf("k%05d", k), v })
			folded = bigslice.Fold(keyed, func(acc, v int64) int64 { return acc + v })
			back = bigslice.Map(folded, func(k string, v int64) (int64, int64) { return int64(atoi(strings.TrimLeft(k[1:], "0") + "")), v })
		}
		r1 := keyed.Reader(0, readers())
		r2 := folded.Reader(0, []sliceio.Reader{r1})
		return drain(back.Reader(0, []sliceio.Reader{r2}), back, dest, 2)
	case "writer":
		var log []string
		s := bigslice.WriterFunc(c17typed, func(shard int, state int, err error, ks, vs []int64) error {
			var rs []string
			for i := range ks {
				rs = append(rs, fmt.Sprintf("%d,%d", ks[i], vs[i]))
			}
			log = append(log, fmt.Sprintf("%s(%s)", errClass(err), strings.Join(rs, ";")))
			return nil
		})
		out := drain(s.Reader(0, readers()), s, dest, 0)
		return out + " | writer=" + strings.Join(log, " ")
	case "scan":
		var got []string
		s := bigslice.Scan(c17typed, func(shard int, sc *sliceio.Scanner) error {
			var k, v int64
			for sc.Scan(context.Background(), &k, &v) {
				got = append(got, fmt.Sprintf("%d,%d", k, v))
			}
			return sc.Err()
		})
		r := s.Reader(0, readers())
		n, err := r.Read(context.Background(), frame.Make(s, 0, 0))
		return fmt.Sprintf("end calls=0:%d:%s:0 | rows=%s | altered=0", n, errClass(err), strings.Join(got, ";"))
	case "const":
		nshard, shard := atoi(head[1]), atoi(head[2])
		s := constOf(ups[0].rows, nshard)
		return drain(s.Reader(shard, nil), s, dest, 2)
	case "readerfunc":
		// the script of the first upstream drives the user function
		u := ups[0]
		s := bigslice.ReaderFunc(1, func(shard int, state *int, ks, vs []int64) (int, error) {
			f := frame.Slices(ks, vs)
			n, err := u.Read(context.Background(), f)
			// a user function leaves rows beyond n as it found them (zeroed)
			for i := n; i < len(ks); i++ {
				ks[i], vs[i] = 0, 0
			}
			return n, err
		})
		return drain(s.Reader(0, nil), s, dest, 2)
	case "multi":
		rcs := make([]sliceio.ReadCloser, len(ups))
		for i, u := range ups {
			rcs[i] = u
		}
		return drain(sliceio.MultiReader(rcs...), typ2, dest, 2)
	case "emulti":
		return drain(exec.VerifMultiReader(readers()), typ2, dest, 2)
	case "frame":
		f := frame.Make(typ2, len(ups[0].rows), len(ups[0].rows))
		for i, r := range ups[0].rows {
			f.Index(0, i).SetInt(r[0])
			f.Index(1, i).SetInt(r[1])
		}
		return drain(sliceio.FrameReader(f), typ2, dest, 0)
	case "taskbuf":
		// each upstream is one frame of partition 0..; head[1] = number of partitions, head[2] = partition read;
		// upstream i belongs to partition i % nparts
		nparts, part := atoi(head[1]), atoi(head[2])
		pp := make([][]frame.Frame, nparts)
		for i, u := range ups {
			f := frame.Make(typ2, len(u.rows), len(u.rows))
			for j, r := range u.rows {
				f.Index(0, j).SetInt(r[0])
				f.Index(1, j).SetInt(r[1])
			}
			pp[i%nparts] = append(pp[i%nparts], f)
		}
		return drain(exec.VerifTaskBufferReader(pp, part), typ2, dest, 2)
	case "readfull":
		// every DEST entry is one ReadFull call
		ctx := context.Background()
		var calls, rows []string
		for i := 0; i < 400; i++ {
			k := dest[i%len(dest)]
			f := poisonFrame(typ2, k)
			n, err := sliceio.ReadFull(ctx, ups[0], f)
			dirty := 0
			for j := n; j < k && n >= 0 && n <= k; j++ {
				if !isPoison(f.Index(0, j)) || !isPoison(f.Index(1, j)) {
					dirty = 1
				}
			}
			calls = append(calls, fmt.Sprintf("%d:%d:%s:%d", k, n, errClass(err), dirty))
			for j := 0; j < n && j < k; j++ {
				rows = append(rows, rowText(f, j))
			}
			if err != nil {
				return fmt.Sprintf("end calls=%s | rows=%s | altered=0", strings.Join(calls, " "), strings.Join(rows, ";"))
			}
		}
		return fmt.Sprintf("NOEND calls=%s | rows=%s | altered=0", strings.Join(calls, " "), strings.Join(rows, ";"))
	case "scanner":
		sc := sliceio.NewScanner(typ2, ups[0])
		ctx := context.Background()
		var rows []string
		var k, v int64
		for i := 0; i < 100000 && sc.Scan(ctx, &k, &v); i++ {
			rows = append(rows, fmt.Sprintf("%d,%d", k, v))
		}
		res := errClass(sc.Err())
		// wrong arity / wrong type must be rejected with an error
		sc2 := sliceio.NewScanner(typ2, &upReader{rows: [][2]int64{{1, 2}}})
		var s string
		bad1 := sc2.Scan(ctx, &k)
		e1 := sc2.Err() != nil
		sc3 := sliceio.NewScanner(typ2, &upReader{rows: [][2]int64{{1, 2}}})
		bad2 := sc3.Scan(ctx, &k, &s)
		e2 := sc3.Err() != nil
		// … also on a scanner that has already served a good Scan
		later := func(bad func(sc *sliceio.Scanner) bool) (res string) {
			defer func() {
				if e := recover(); e != nil {
					res = "panic"
				}
			}()
			sc := sliceio.NewScanner(typ2, &upReader{rows: [][2]int64{{1, 2}, {3, 4}, {5, 6}}})
			if !sc.Scan(ctx, &k, &v) {
				return "firstfailed"
			}
			ok := bad(sc)
			return fmt.Sprintf("%v,%v", ok, sc.Err() != nil)
		}
		l1 := later(func(sc *sliceio.Scanner) bool { return sc.Scan(ctx, &k) })
		l2 := later(func(sc *sliceio.Scanner) bool { return sc.Scan(ctx, &k, &s) })
		l3 := later(func(sc *sliceio.Scanner) bool { return sc.Scan(ctx, &k, &v, &k) })
		return fmt.Sprintf("end calls=0:0:%s:0 | rows=%s | altered=0 | arity=%v,%v type=%v,%v later=%s;%s;%s", res, strings.Join(rows, ";"), bad1, e1, bad2, e2, l1, l2, l3)
	case "scannerv":
		// vector scans: every DEST entry is the length of the column vectors of one Scanv call
		sc := sliceio.NewScanner(typ2, ups[0])
		ctx := context.Background()
		var rows []string
		for i := 0; i < 100000; i++ {
			k := dest[i%len(dest)]
			ks, vs := make([]int64, k), make([]int64, k)
			n, ok := sc.Scanv(ctx, ks, vs)
			if n < 0 || n > k {
				return fmt.Sprintf("end calls=%d:%d:-:0 | rows= | altered=0", k, n)
			}
			for j := 0; j < n; j++ {
				rows = append(rows, fmt.Sprintf("%d,%d", ks[j], vs[j]))
			}
			if !ok {
				break
			}
		}
		res := errClass(sc.Err())
		if res == "-" {
			res = "eof"
		}
		return fmt.Sprintf("end calls=0:0:%s:0 | rows=%s | altered=0", res, strings.Join(rows, ";"))
	case "readall":
		var ks, vs []int64
		err := sliceio.ReadAll(context.Background(), ups[0], &ks, &vs)
		var rows []string
		for j := range ks {
			rows = append(rows, fmt.Sprintf("%d,%d", ks[j], vs[j]))
		}
		res := errClass(err)
		if res == "-" {
			res = "eof"
		}
		return fmt.Sprintf("end calls=0:0:%s:0 | rows=%s | altered=0", res, strings.Join(rows, ";"))
	case "closing":
		return drain(sliceio.NewClosingReader(ups[0]), typ2, dest, 2)
	case "cogroup":
		ss := make([]bigslice.Slice, len(ups))
		for i := range ups {
			ss[i] = c17typed
		}
		s := bigslice.Cogroup(ss...)
		return drain(s.Reader(0, readers()), s, dest, 2)
	}
	panic("unknown reader kind " + head[0])
}

func init() { runners["C17"] = runC17 }
