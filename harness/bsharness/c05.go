package main

import (
	"fmt"
	"math"
	"reflect"
	"strings"

	"github.com/grailbio/bigslice/exec"
	"github.com/grailbio/bigslice/frame"
)

// key values: ints in decimal; s:<text>; b:<text>; q:<±m> (= ±m/4, q:-0 is negative zero); bool 0/1
func c05val(kind, tok string) reflect.Value {
	switch kind {
	case "str":
		return reflect.ValueOf(strings.TrimPrefix(tok, "s:"))
	case "bytes":
		return reflect.ValueOf([]byte(strings.TrimPrefix(tok, "b:")))
	case "f64", "f32":
		t := strings.TrimPrefix(tok, "q:")
		neg := strings.HasPrefix(t, "-")
		m := atoi(strings.TrimLeft(t, "+-"))
		v := float64(m) / 4
		if neg {
			v = math.Copysign(v, -1)
		}
		if kind == "f32" {
			return reflect.ValueOf(float32(v))
		}
		return reflect.ValueOf(v)
	case "bool":
		return reflect.ValueOf(tok == "1")
	case "unit":
		return reflect.ValueOf(struct{}{})
	case "uint":
		return reflect.ValueOf(uint(atoi(tok)))
	case "uptr":
		return reflect.ValueOf(uintptr(atoi(tok)))
	}
	v := atoi(tok)
	return reflect.ValueOf(v).Convert(kindType(kind))
}

func c05type(kind string) reflect.Type {
	switch kind {
	case "unit":
		return reflect.TypeOf(struct{}{})
	case "uint":
		return reflect.TypeOf(uint(0))
	case "uptr":
		return reflect.TypeOf(uintptr(0))
	}
	return kindType(kind)
}

// case: "K kinds P pfx N nshard OFF off S seed ; v,v ; v,v ..."
func runC05(c string) string {
	parts := strings.Split(c, ";")
	h := fields(parts[0])
	kinds := strings.Split(h[1], ",")
	pfx, nshard, off, seed := atoi(h[3]), atoi(h[5]), atoi(h[7]), atoi(h[9])
	var rows [][]string
	for _, p := range parts[1:] {
		p = strings.TrimSpace(p)
		if p == "" {
			continue
		}
		rows = append(rows, strings.Split(p, ","))
	}
	n := len(rows)
	cols := make([]interface{}, len(kinds))
	for ci, k := range kinds {
		sl := reflect.MakeSlice(reflect.SliceOf(c05type(k)), off+n+1, off+n+1)
		for i, r := range rows {
			sl.Index(off + i).Set(c05val(k, r[ci]))
		}
		cols[ci] = sl.Interface()
	}
	f := frame.Slices(cols...).Slice(off, off+n).Prefixed(pfx)
	shards := exec.VerifDefaultPartition(f, nshard)
	ss := make([]string, n)
	hs := make([]string, n)
	for i := range ss {
		ss[i] = itoa(shards[i])
		hs[i] = fmt.Sprint(f.HashWithSeed(i, uint32(seed)))
	}
	return "shards=" + strings.Join(ss, ",") + " hashes=" + strings.Join(hs, ",")
}

// case: "R kind lo hi N nshard": all integer keys lo..hi
func runC05range(c string) string {
	h := fields(c)
	kind, lo, hi, nshard := h[1], atoi(h[2]), atoi(h[3]), atoi(h[5])
	n := hi - lo + 1
	sl := reflect.MakeSlice(reflect.SliceOf(c05type(kind)), n, n)
	for i := 0; i < n; i++ {
		sl.Index(i).Set(reflect.ValueOf(lo + i).Convert(c05type(kind)))
	}
	f := frame.Slices(sl.Interface())
	shards := exec.VerifDefaultPartition(f, nshard)
	var b strings.Builder
	for i, s := range shards {
		if i > 0 {
			b.WriteByte(',')
		}
		b.WriteString(itoa(s))
	}
	return b.String()
}

func init() {
	runners["C05"] = runC05
	runners["C05range"] = runC05range
}
