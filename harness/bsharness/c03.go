package main

import (
	"context"
	"fmt"
	"net/http"
	"sort"
	"strings"
	"sync"
	"time"

	"github.com/grailbio/base/eventlog"
	"github.com/grailbio/base/status"
	"github.com/grailbio/bigslice/exec"
	"github.com/grailbio/bigslice/sliceio"
)

// graph spec tokens:  N <n>  D t:h,h ...  G a,b,c ...   (G lists one group; its first member is the head)
type c03graph struct {
	tasks []*exec.Task
	id    map[*exec.Task]int
}

func c03build(spec []string) *c03graph {
	g := &c03graph{id: map[*exec.Task]int{}}
	mode := ""
	for _, t := range spec {
		switch t {
		case "N", "D", "G":
			mode = t
			continue
		}
		switch mode {
		case "N":
			n := atoi(t)
			for i := 0; i < n; i++ {
				task := &exec.Task{Name: exec.TaskName{Op: fmt.Sprintf("t%d", i), Shard: 0, NumShard: 1}}
				task.Status = nil
				g.tasks = append(g.tasks, task)
				g.id[task] = i
			}
		case "D":
			ab := strings.Split(t, ":")
			dst := g.tasks[atoi(ab[0])]
			for _, h := range strings.Split(ab[1], ",") {
				dst.Deps = append(dst.Deps, exec.TaskDep{Head: g.tasks[atoi(h)]})
			}
		case "G":
			var grp []*exec.Task
			for _, m := range strings.Split(t, ",") {
				grp = append(grp, g.tasks[atoi(m)])
			}
			for _, m := range grp {
				m.Group = grp
			}
		}
	}
	return g
}

var c03states = map[string]exec.TaskState{"i": exec.TaskInit, "w": exec.TaskWaiting, "r": exec.TaskRunning,
	"o": exec.TaskOk, "e": exec.TaskErr, "l": exec.TaskLost}

func (g *c03graph) ids(ts []*exec.Task) string {
	var is []int
	for _, t := range ts {
		is = append(is, g.id[t])
	}
	sort.Ints(is)
	ss := make([]string, len(is))
	for i, v := range is {
		ss[i] = itoa(v)
	}
	return strings.Join(ss, ",")
}

// C03 (state machine): case "<graph> ; set t s ; enq t ; ret t ; run"
func runC03(c string) string {
	parts := strings.Split(c, ";")
	g := c03build(fields(parts[0]))
	st := exec.VerifNewState()
	var out []string
	for _, p := range parts[1:] {
		op := fields(p)
		if len(op) == 0 {
			continue
		}
		ret := "-"
		func() {
			defer func() {
				if e := recover(); e != nil {
					ret = "panic"
				}
			}()
			switch op[0] {
			case "set":
				exec.VerifSetState(g.tasks[atoi(op[1])], c03states[op[2]])
			case "enq":
				ret = itoa(st.Enqueue(g.tasks[atoi(op[1])]))
			case "ret":
				st.Return(g.tasks[atoi(op[1])])
			case "retp":
				// return the k-th pending task (in id order) after giving it state s
				ps := st.VerifPending()
				if len(ps) == 0 {
					ret = "skip"
					break
				}
				sort.Slice(ps, func(i, j int) bool { return g.id[ps[i]] < g.id[ps[j]] })
				t := ps[atoi(op[1])%len(ps)]
				exec.VerifSetState(t, c03states[op[2]])
				st.Return(t)
				ret = itoa(g.id[t])
			case "run":
				ret = "[" + g.ids(st.Runnable()) + "]"
			}
		}()
		done, err := 0, 0
		if st.Done() {
			done = 1
		}
		if st.Err() != nil {
			err = 1
		}
		out = append(out, fmt.Sprintf("%s todo=[%s] pending=[%s] done=%d err=%d", ret, g.ids(st.VerifTodo()), g.ids(st.VerifPending()), done, err))
	}
	return strings.Join(out, " # ")
}

// ---- Eval level: the real exec.Eval against a scripted executor

type c03exec struct {
	mu       sync.Mutex
	g        *c03graph
	script   map[int][]string // per task: outcomes of successive runs: o|l|e ; default o
	runs     map[int]int
	inflight map[int]bool
	log      []string
	lose     map[int][]int // after the k-th Run call overall: lose these tasks (if OK)
	calls    int
}

func (e *c03exec) Name() string                              { return "scripted" }
func (e *c03exec) Start(*exec.Session) (shutdown func())     { return func() {} }
func (e *c03exec) Reader(*exec.Task, int) sliceio.ReadCloser { panic("not implemented") }
func (e *c03exec) Discard(context.Context, *exec.Task)       {}
func (e *c03exec) Eventer() eventlog.Eventer                 { return eventlog.Nop{} }
func (e *c03exec) HandleDebug(handler *http.ServeMux)        {}

func (e *c03exec) Run(task *exec.Task) {
	id := e.g.id[task]
	e.mu.Lock()
	var deps []string
	for _, d := range task.Deps {
		for i := 0; i < d.NumTask(); i++ {
			dt := d.Task(i)
			deps = append(deps, fmt.Sprintf("%d=%s", e.g.id[dt], strings.ToLower(dt.State().String()[:1])))
		}
	}
	dbl := ""
	if e.inflight[id] {
		dbl = " DOUBLE"
	}
	e.inflight[id] = true
	k := e.runs[id]
	e.runs[id]++
	e.calls++
	call := e.calls
	outcome := "o"
	if k < len(e.script[id]) {
		outcome = e.script[id][k]
	}
	e.log = append(e.log, fmt.Sprintf("run %d state=%s deps=%s%s", id, strings.ToLower(task.State().String()[:1]), strings.Join(deps, ","), dbl))
	e.mu.Unlock()
	time.Sleep(time.Duration(id%3) * 100 * time.Microsecond)
	task.Set(exec.TaskRunning)
	// later loss of completed tasks
	e.mu.Lock()
	victims := e.lose[call]
	e.mu.Unlock()
	for _, v := range victims {
		vt := e.g.tasks[v]
		if vt.State() == exec.TaskOk {
			e.mu.Lock()
			e.log = append(e.log, fmt.Sprintf("lose %d", v))
			e.mu.Unlock()
			vt.Set(exec.TaskLost)
		}
	}
	e.mu.Lock()
	e.inflight[id] = false
	e.log = append(e.log, fmt.Sprintf("end %d %s", id, outcome))
	e.mu.Unlock()
	switch outcome {
	case "s":
		// a slow success: other evaluations come and go while the task runs
		time.Sleep(60 * time.Millisecond)
		task.Set(exec.TaskOk)
	case "o":
		task.Set(exec.TaskOk)
	case "l":
		task.Set(exec.TaskLost)
	case "e":
		task.Error(fmt.Errorf("scripted fatal error"))
	}
}

// C03eval: case "<graph> ; init t=s ... ; script t=olo ... ; lose k=t,t ... ; roots a,b [| c,d]"
// obs: "events... | result=ok|err|hang [| result2=..] | final t=s ..."
func runC03eval(c string) string {
	parts := strings.Split(c, ";")
	g := c03build(fields(parts[0]))
	e := &c03exec{g: g, script: map[int][]string{}, runs: map[int]int{}, inflight: map[int]bool{}, lose: map[int][]int{}}
	var rootsets [][]*exec.Task
	for _, p := range parts[1:] {
		f := fields(p)
		if len(f) == 0 {
			continue
		}
		switch f[0] {
		case "init":
			for _, kv := range f[1:] {
				ab := strings.Split(kv, "=")
				exec.VerifSetState(g.tasks[atoi(ab[0])], c03states[ab[1]])
			}
		case "script":
			for _, kv := range f[1:] {
				ab := strings.Split(kv, "=")
				e.script[atoi(ab[0])] = strings.Split(ab[1], "")
			}
		case "lose":
			for _, kv := range f[1:] {
				ab := strings.Split(kv, "=")
				for _, v := range strings.Split(ab[1], ",") {
					e.lose[atoi(ab[0])] = append(e.lose[atoi(ab[0])], atoi(v))
				}
			}
		case "roots":
			for _, set := range strings.Split(strings.Join(f[1:], ""), "|") {
				var rs []*exec.Task
				for _, r := range strings.Split(set, ",") {
					rs = append(rs, g.tasks[atoi(r)])
				}
				rootsets = append(rootsets, rs)
			}
		}
	}
	var st status.Status
	results := make([]string, len(rootsets))
	var wg sync.WaitGroup
	ctx, cancel := context.WithCancel(context.Background())
	defer cancel()
	for i, rs := range rootsets {
		i, rs := i, rs
		wg.Add(1)
		go func() {
			defer wg.Done()
			donec := make(chan error, 1)
			go func() { donec <- exec.Eval(ctx, e, rs, st.Group(fmt.Sprint("eval", i))) }()
			select {
			case err := <-donec:
				if err == nil {
					results[i] = "ok"
				} else {
					results[i] = "err"
				}
			case <-time.After(5 * time.Second):
				results[i] = "hang"
			}
		}()
	}
	wg.Wait()
	cancel()
	e.mu.Lock()
	log := strings.Join(e.log, " / ")
	e.mu.Unlock()
	var fin []string
	for i, t := range g.tasks {
		fin = append(fin, fmt.Sprintf("%d=%s", i, strings.ToLower(t.State().String()[:1])))
	}
	return log + " | " + strings.Join(results, ",") + " | " + strings.Join(fin, " ")
}

func init() {
	runners["C03"] = runC03
	runners["C03eval"] = runC03eval
}
