//go:build verif

package exec

// Accessors for /verif's harness.  Added to a work copy of /repo only; they
// re-export unexported identifiers and contain no logic of their own.

import (
	"bytes"
	"container/heap"
	"context"
	"encoding/gob"
	"fmt"
	"io"
	"reflect"
	"sort"
	"strings"
	"sync"
	"time"

	"github.com/grailbio/base/errors"
	"github.com/grailbio/base/retry"
	"github.com/grailbio/bigmachine"
	"github.com/grailbio/bigmachine/testsystem"
	"github.com/grailbio/bigslice"
	"github.com/grailbio/bigslice/frame"
	"github.com/grailbio/bigslice/slicefunc"
	"github.com/grailbio/bigslice/sliceio"
	"github.com/grailbio/bigslice/slicetype"
)

// VerifEncodeInvocation gob-encodes inv exactly as the executor does (bigmachine.go:195-204).
func VerifEncodeInvocation(inv bigslice.Invocation) ([]byte, error) {
	var b bytes.Buffer
	err := gob.NewEncoder(&b).Encode(makeExecInvocation(inv))
	return b.Bytes(), err
}

// VerifEncodeInvocationWithRefs substitutes *Result args as addInvocation does.
func VerifSubstResults(inv bigslice.Invocation) bigslice.Invocation {
	args := make([]interface{}, len(inv.Args))
	copy(args, inv.Args)
	for i, arg := range args {
		if r, ok := arg.(*Result); ok {
			args[i] = invocationRef{r.invIndex}
		}
	}
	inv.Args = args
	return inv
}

// VerifDecodeInvocation decodes as (*worker).Compile does (bigmachine.go:622-625).
func VerifDecodeInvocation(p []byte) (bigslice.Invocation, error) {
	var inv execInvocation
	err := gob.NewDecoder(bytes.NewReader(p)).Decode(&inv)
	return inv.Invocation, err
}

func VerifInvocationRef(v interface{}) (uint64, bool) {
	r, ok := v.(invocationRef)
	return r.Index, ok
}

func VerifResultWithIndex(i uint64) *Result { return &Result{invIndex: i} }

// ---- C14: cluster manager

type VerifSliceMachine = sliceMachine

// VerifSchedule runs schedule() on queues built by heap.Push in the given order.
// reqs: (priority, procs); machs: (maxTaskProcs, taskProcs).
func VerifSchedule(reqs [][2]int, machs [][2]int) (ok bool, prio, procs, max, used int) {
	var sq scheduleRequestQ
	var mq machineQ
	for _, r := range reqs {
		heap.Push(&sq, &scheduleRequest{priority: r[0], procs: r[1]})
	}
	for _, m := range machs {
		heap.Push(&mq, &sliceMachine{maxTaskProcs: m[0], taskProcs: m[1]})
	}
	r, m := schedule(&sq, &mq)
	if len(sq) != len(reqs) || len(mq) != len(machs) {
		panic("schedule lost queue entries")
	}
	if r == nil || m == nil {
		return false, 0, 0, 0, 0
	}
	return true, r.priority, r.procs, m.maxTaskProcs, m.taskProcs
}

type VerifManager struct {
	Sys    *testsystem.System
	B      *bigmachine.B
	M      *machineManager
	cancel func()
}

func VerifNewManager(machinep, maxp int, maxLoad float64, fastKeepalive ...bool) *VerifManager {
	system := testsystem.New()
	system.Machineprocs = machinep
	system.KeepalivePeriod = time.Second
	system.KeepaliveTimeout = 5 * time.Second
	system.KeepaliveRpcTimeout = time.Second
	if len(fastKeepalive) > 0 && fastKeepalive[0] {
		// cases that kill machines: the loss must be noticed quickly
		// (but a loaded sandbox must not make a live machine miss its keepalives: 200ms / 1s did, in a thorough-tier run
		// that shared the sandbox with other sweeps)
		system.KeepalivePeriod = 300 * time.Millisecond
		system.KeepaliveTimeout = 4 * time.Second
		system.KeepaliveRpcTimeout = 1500 * time.Millisecond
	}
	b := bigmachine.Start(system)
	ctx, ctxcancel := context.WithCancel(context.Background())
	m := newMachineManager(b, nil, nil, maxp, maxLoad, &worker{MachineCombiners: false})
	var wg sync.WaitGroup
	wg.Add(1)
	go func() {
		m.Do(ctx)
		wg.Done()
	}()
	return &VerifManager{Sys: system, B: b, M: m, cancel: func() {
		ctxcancel()
		b.Shutdown()
		wg.Wait()
	}}
}

func (v *VerifManager) Close()         { v.cancel() }
func (v *VerifManager) Machprocs() int { return v.M.machprocs }
func (v *VerifManager) Offer(prio, procs int) (<-chan *VerifSliceMachine, func()) {
	return v.M.Offer(prio, procs)
}

// VerifMachInfo reads manager-owned fields; call only at quiescence.
func VerifMachInfo(m *VerifSliceMachine) (addr string, max, used, health int) {
	return m.Addr, m.maxTaskProcs, m.taskProcs, int(m.health)
}

// ---- C03: evaluator state

type VerifState = state

func VerifNewState() *VerifState { return newState() }

func VerifTasksOf(m map[*Task]bool) []*Task {
	var ts []*Task
	for t := range m {
		ts = append(ts, t)
	}
	return ts
}
func (s *state) VerifTodo() []*Task    { return VerifTasksOf(s.todo) }
func (s *state) VerifPending() []*Task { return VerifTasksOf(s.pending) }

// VerifSetState sets a task's state directly (as an executor or a previous
// evaluation would have left it).
func VerifSetState(t *Task, st TaskState) {
	t.Lock()
	t.state = st
	if st == TaskErr {
		t.err = fmt.Errorf("injected error")
	} else {
		t.err = nil
	}
	t.Broadcast()
	t.Unlock()
}

func VerifConsecutiveLost(t *Task) int {
	t.Lock()
	defer t.Unlock()
	return t.consecutiveLost
}

const VerifMaxConsecutiveLost = maxConsecutiveLost

// ---- C17: executor-side readers

// VerifTaskBufferReader builds a taskBuffer from partitions of frames and returns its reader.
func VerifTaskBufferReader(parts [][]frame.Frame, partition int) sliceio.ReadCloser {
	return taskBuffer(parts).Reader(partition)
}

// VerifMultiReader returns the executor's sequential multi-reader (local.go).
func VerifMultiReader(rs []sliceio.Reader) sliceio.Reader { return &multiReader{q: rs} }

// ---- C05: the default partitioner

func VerifDefaultPartition(f frame.Frame, nshard int) []int {
	shards := make([]int, f.Len())
	defaultPartitioner(context.Background(), f, nshard, shards)
	return shards
}

// ---- C15: task stores and the retrying reader

type VerifStore = Store
type VerifWriteCommitter = writeCommitter

func VerifNewMemoryStore() Store            { return newMemoryStore() }
func VerifNewFileStore(prefix string) Store { return &fileStore{Prefix: prefix} }
func VerifStat(s Store, t TaskName, p int) (size, records int64, err error) {
	info, err := s.Stat(context.Background(), t, p)
	return info.Size, info.Records, err
}

type VerifOpenerFunc func(ctx context.Context, offset int64) (io.ReadCloser, error)

func (f VerifOpenerFunc) OpenAt(ctx context.Context, offset int64) (io.ReadCloser, error) {
	return f(ctx, offset)
}

func VerifNewRetryReader(ctx context.Context, f VerifOpenerFunc) io.ReadCloser {
	return newRetryReader(ctx, f)
}

// VerifSetRetryPolicy replaces the package's retry policy (zero backoff in the harness) and returns the old one.
func VerifSetRetryPolicy(p retry.Policy) retry.Policy {
	old := retryPolicy
	retryPolicy = p
	return old
}

// ---- C09: combining frames and combiners

type VerifCombiningFrame = combiningFrame
type VerifCombiner = combiner

func VerifMakeCombiningFrame(typ slicetype.Type, comb slicefunc.Func, n, nscratch int) *VerifCombiningFrame {
	return makeCombiningFrame(typ, comb, n, nscratch)
}
func VerifNewCombiner(typ slicetype.Type, name string, comb slicefunc.Func, targetSize int) (*VerifCombiner, error) {
	return newCombiner(typ, name, comb, targetSize)
}
func VerifThreshold(c *VerifCombiningFrame) int { return c.threshold }

// ---- C08: compilation

// VerifCompile compiles the invocation of fn on args exactly as Session.run does and returns
// a canonical dump of the reachable task graph (one line per task, sorted by name).
func VerifCompile(fn *bigslice.FuncValue, machineCombiners bool, args ...interface{}) (dump []string, err error) {
	inv := makeExecInvocation(fn.Invocation("verif", args...))
	slice := inv.Invoke()
	tasks, err := compile(inv, slice, machineCombiners)
	if err != nil {
		return nil, err
	}
	return VerifDumpTasks(tasks, inv.Index), nil
}

// VerifCompileEncoded does the same after a gob round trip of the invocation, as a worker would: the driver compiles (marking
// cached ops in the environment) and freezes its environment as Session.run does, and what is shipped is the copy of the
// invocation that the compiled tasks carry (bigmachineExecutor.Run: addInvocation(task.Invocation)).  It also reports whether
// the environment the worker compiles with may still be written (it must not: the worker would record its own view of the
// cache files and compile another graph than the driver).
func VerifCompileEncoded(fn *bigslice.FuncValue, machineCombiners bool, args ...interface{}) (dump []string, envWritable bool, err error) {
	inv0 := makeExecInvocation(fn.Invocation("verif", args...))
	tasks0, err := compile(inv0, inv0.Invoke(), machineCombiners)
	if err != nil {
		return nil, false, err
	}
	// as Session.run does after compile (tie: C08 T2 `env_frozen_in_task_copies`, and the real sessions of C08's result
	// programs, whose tasks are inspected by VerifTasksEnvWritable)
	inv0.Env.Freeze()
	_ = iterTasks(tasks0, func(task *Task) error {
		if task.Invocation.Env.IsWritable() {
			task.Invocation.Env.Freeze()
		}
		return nil
	})
	shipped := inv0
	if len(tasks0) > 0 {
		shipped = tasks0[0].Invocation
	}
	var b bytes.Buffer
	if err := gob.NewEncoder(&b).Encode(shipped); err != nil {
		return nil, false, err
	}
	var inv execInvocation
	if err := gob.NewDecoder(&b).Decode(&inv); err != nil {
		return nil, false, err
	}
	envWritable = inv.Env.IsWritable()
	tasks, err := compile(inv, inv.Invoke(), machineCombiners)
	if err != nil {
		return nil, envWritable, err
	}
	return VerifDumpTasks(tasks, inv.Index), envWritable, nil
}

func VerifResultTasks(r *Result) []*Task { return r.tasks }

// VerifTasksEnvWritable tells whether any task of the result's graph carries an invocation whose compile environment may
// still be written (what a worker would receive): after Session.Run none may.
func VerifTasksEnvWritable(r *Result) bool {
	w := false
	_ = iterTasks(r.tasks, func(task *Task) error {
		if task.Invocation.Env.IsWritable() {
			w = true
		}
		return nil
	})
	return w
}

// VerifInvNames maps invocation indices to stable tags in dumps ("X" for the compiled invocation,
// "R0", "R1" for the invocations whose results are its arguments).
var VerifInvNames = map[uint64]string{}

func VerifResultInv(r *Result) uint64 { return r.invIndex }

func VerifDumpTasks(roots []*Task, invIndex uint64) []string {
	all := make(map[*Task]bool)
	for _, t := range roots {
		t.all(all)
	}
	norm := func(s string) string {
		s = strings.ReplaceAll(s, fmt.Sprintf("inv%d_", invIndex), "invX_")
		for idx, tag := range VerifInvNames {
			s = strings.ReplaceAll(s, fmt.Sprintf("inv%d_", idx), "inv"+tag+"_")
		}
		return s
	}
	isRoot := make(map[*Task]int)
	for i, t := range roots {
		isRoot[t] = i + 1
	}
	var lines []string
	for t := range all {
		var deps []string
		for _, d := range t.Deps {
			e := 0
			if d.Expand {
				e = 1
			}
			deps = append(deps, fmt.Sprintf("%s@%d:%d/p%d/e%d/k%s/n%d", norm(d.Head.Name.Op), d.Head.Name.NumShard, d.Head.Name.Shard,
				d.Partition, e, norm(d.CombineKey), d.NumTask()))
		}
		group := "-"
		if len(t.Group) > 0 {
			group = fmt.Sprintf("%s@%d:%d+%d", norm(t.Group[0].Name.Op), t.Group[0].Name.NumShard, t.Group[0].Name.Shard, len(t.Group))
		}
		var ops []string
		for _, s := range t.Slices {
			ops = append(ops, s.Name().Op)
		}
		custom := 0
		if t.Partitioner != nil && reflect.ValueOf(t.Partitioner).Pointer() != reflect.ValueOf(bigslice.Partitioner(defaultPartitioner)).Pointer() {
			custom = 1
		}
		comb := 0
		if !t.Combiner.IsNil() {
			comb = 1
		}
		hasPart := 0
		if t.Partitioner != nil {
			hasPart = 1
		}
		lines = append(lines, fmt.Sprintf("%s@%d:%d root=%d np=%d part=%d custom=%d comb=%d ck=%s group=%s mat=%v deps=[%s] ops=[%s]",
			norm(t.Name.Op), t.Name.NumShard, t.Name.Shard, isRoot[t], t.NumPartition, hasPart, custom, comb, norm(t.CombineKey), group,
			t.Pragma != nil && t.Pragma.Materialize(), strings.Join(deps, " "), strings.Join(ops, ",")))
	}
	sort.Strings(lines)
	return lines
}

// VerifReviseSeverity runs an error of the given severity (wrapped as an application error if app) through
// reviseSeverity and returns the resulting severity.
func VerifReviseSeverity(app bool, sev int) int {
	var err error = errors.E(errors.Severity(sev), "verif")
	if app {
		err = maybeTaskFatalErr{err}
	}
	return int(errors.Recover(reviseSeverity(err)).Severity)
}

// VerifCFSlots returns the occupied slots of a combining frame's hash table: index, and the data frame to read
// the rows from (slot i is row i of the frame).
func VerifCFSlots(c *VerifCombiningFrame) (idx []int, data frame.Frame) {
	for i, n := range c.hits {
		if n > 0 {
			idx = append(idx, i)
		}
	}
	return idx, c.data
}

// ---- C14 (end to end): the cluster manager's accounting of the machines that hold the tasks of the given results,
// as (maxTaskProcs, taskProcs) per machine.  The fields are owned by the manager goroutine: call at quiescence.
func VerifMachineProcs(sess *Session, rs []*Result) [][2]int {
	b, ok := sess.executor.(*bigmachineExecutor)
	if !ok {
		return nil
	}
	seen := map[*sliceMachine]bool{}
	var out [][2]int
	for _, r := range rs {
		if r == nil {
			continue
		}
		_ = iterTasks(r.tasks, func(task *Task) error {
			if m := b.location(task); m != nil && !seen[m] {
				seen[m] = true
				out = append(out, [2]int{m.maxTaskProcs, m.taskProcs})
			}
			return nil
		})
	}
	return out
}

// ---- an in-process worker (C12wk): the worker's own Compile/Run/Discard/Stat methods, called directly, with a task store
// whose Discard can be held at a gate so that calls overlap in a controlled way.

type verifGateStore struct {
	Store
	mu      sync.Mutex
	hold    chan struct{} // when non-nil, Discard waits for it to be closed before it acts
	entered chan struct{}
}

func (g *verifGateStore) Discard(ctx context.Context, task TaskName, partition int) error {
	g.mu.Lock()
	h, e := g.hold, g.entered
	g.mu.Unlock()
	if h != nil {
		select {
		case e <- struct{}{}:
		default:
		}
		<-h
	}
	return g.Store.Discard(ctx, task, partition)
}

type VerifWorker struct {
	w    *worker
	b    *bigmachine.B
	inv  uint64
	gate *verifGateStore
}

// VerifNewWorker builds a worker as bigmachine would (Init), gives it a gated memory store and compiles the invocation
// of fn on it through (*worker).Compile.
func VerifNewWorker(fn *bigslice.FuncValue, args ...interface{}) (*VerifWorker, error) {
	b := bigmachine.Start(testsystem.New())
	w := &worker{}
	if err := w.Init(b); err != nil {
		b.Shutdown()
		return nil, err
	}
	gate := &verifGateStore{Store: newMemoryStore(), entered: make(chan struct{}, 16)}
	w.store = gate
	inv := makeExecInvocation(fn.Invocation("verif", args...))
	var buf bytes.Buffer
	if err := gob.NewEncoder(&buf).Encode(inv); err != nil {
		b.Shutdown()
		return nil, err
	}
	if err := w.Compile(context.Background(), &buf, nil); err != nil {
		b.Shutdown()
		return nil, err
	}
	return &VerifWorker{w: w, b: b, inv: inv.Index, gate: gate}, nil
}

func (v *VerifWorker) Close() { v.b.Shutdown() }

// Roots returns the names of the invocation's root tasks.
func (v *VerifWorker) Roots() []TaskName {
	v.w.mu.Lock()
	defer v.w.mu.Unlock()
	r := v.w.slices[v.inv].(*Result)
	var names []TaskName
	for _, t := range r.tasks {
		names = append(names, t.Name)
	}
	return names
}

func (v *VerifWorker) task(name TaskName) *Task {
	v.w.mu.Lock()
	defer v.w.mu.Unlock()
	return v.w.tasks[v.inv][name]
}

// Run is (*worker).Run, as the RPC layer calls it.
func (v *VerifWorker) Run(ctx context.Context, name TaskName) error {
	var reply taskRunReply
	return v.w.Run(ctx, taskRunRequest{Invocation: v.inv, Name: name}, &reply)
}

// Discard is (*worker).Discard.
func (v *VerifWorker) Discard(ctx context.Context, name TaskName) error {
	return v.w.Discard(ctx, name, nil)
}

func (v *VerifWorker) State(name TaskName) TaskState { return v.task(name).State() }

// HasOutput reports whether the store holds partition 0 of the task's output.
func (v *VerifWorker) HasOutput(name TaskName) bool {
	_, err := v.gate.Store.Stat(context.Background(), name, 0)
	return err == nil
}

// HoldDiscards makes every store Discard wait until release is called; entered receives a token per waiting Discard.
func (v *VerifWorker) HoldDiscards() (release func(), entered <-chan struct{}) {
	h := make(chan struct{})
	v.gate.mu.Lock()
	v.gate.hold = h
	v.gate.mu.Unlock()
	return func() {
		v.gate.mu.Lock()
		if v.gate.hold == h {
			v.gate.hold = nil
		}
		v.gate.mu.Unlock()
		close(h)
	}, v.gate.entered
}
