//go:build verif

package exec

// Accessors for /verif's harness.  Added to a work copy of /repo only; they
// re-export unexported identifiers and contain no logic of their own.

import (
	"bytes"
	"encoding/gob"

	"github.com/grailbio/bigslice"
)

// VerifEncodeInvocation gob-encodes inv exactly as the executor does (bigmachine.go:195-204).
func VerifEncodeInvocation(inv bigslice.Invocation) ([]byte, error) {
	var b bytes.Buffer
	err := gob.NewEncoder(&b).Encode(makeExecInvocation(inv))
	return b.Bytes(), err
}

// VerifEncodeInvocationWithRefs substitutes *Result args as addInvocation does.
func VerifSubstResults(inv bigslice.Invocation) bigslice.Invocation {
	args := make([]interface{}, len(inv.Args))
	copy(args, inv.Args)
	for i, arg := range args {
		if r, ok := arg.(*Result); ok {
			args[i] = invocationRef{r.invIndex}
		}
	}
	inv.Args = args
	return inv
}

// VerifDecodeInvocation decodes as (*worker).Compile does (bigmachine.go:622-625).
func VerifDecodeInvocation(p []byte) (bigslice.Invocation, error) {
	var inv execInvocation
	err := gob.NewDecoder(bytes.NewReader(p)).Decode(&inv)
	return inv.Invocation, err
}

func VerifInvocationRef(v interface{}) (uint64, bool) {
	r, ok := v.(invocationRef)
	return r.Index, ok
}

func VerifResultWithIndex(i uint64) *Result { return &Result{invIndex: i} }
