//go:build verif

package slicecache

import "github.com/grailbio/bigslice/sliceio"

// Added by /verif's work copy only: the cache shard readers, for the function-level check of C13 (sub-check C13wt).

// VerifWritethrough is newWritethroughReader.
func VerifWritethrough(r sliceio.Reader, path string) sliceio.Reader {
	return newWritethroughReader(r, path)
}

// VerifFileReader is newFileReader.
func VerifFileReader(path string) sliceio.Reader { return newFileReader(path) }
