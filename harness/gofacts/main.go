// Command gofacts extracts control-flow facts and small integer kernels from Go
// source for /verif's tie T2 (DESIGN.md §3.4).  Standard library only.
//
//	gofacts paths <file.go> <Func|Recv.Method> <marker-stmt|-> <call-text>
//	    every exit path of the function after the marker statement, with the number of
//	    calls whose printed callee is <call-text> on that path:  JSON [{line,kind,started,count}]
//	gofacts exprs <file.go> <Func|Recv.Method>
//	    every index/offset expression of the function body, printed (for kernel ties)
package main

import (
	"bytes"
	"encoding/json"
	"fmt"
	"go/ast"
	"go/parser"
	"go/printer"
	"go/token"
	"os"
	"sort"
	"strings"
)

type state struct {
	started bool
	count   int
}

type states map[state]bool

func (s states) union(t states) states {
	r := states{}
	for k := range s {
		r[k] = true
	}
	for k := range t {
		r[k] = true
	}
	return r
}

func (s states) equal(t states) bool {
	if len(s) != len(t) {
		return false
	}
	for k := range s {
		if !t[k] {
			return false
		}
	}
	return true
}

type exit struct {
	Line    int    `json:"line"`
	Kind    string `json:"kind"`
	Started bool   `json:"started"`
	Count   int    `json:"count"`
}

type frame struct {
	label  string
	isLoop bool
	breaks states
	conts  states
}

type analyzer struct {
	fset   *token.FileSet
	marker string
	call   string
	exits  []exit
	stack  []*frame
	err    error
}

func (a *analyzer) text(n ast.Node) string {
	var b bytes.Buffer
	printer.Fprint(&b, a.fset, n)
	return b.String()
}

// countCalls counts matching calls in n, not descending into function literals.
func (a *analyzer) countCalls(n ast.Node) (cnt int, terminates bool) {
	if n == nil {
		return 0, false
	}
	ast.Inspect(n, func(x ast.Node) bool {
		switch c := x.(type) {
		case *ast.FuncLit:
			return false
		case *ast.CallExpr:
			callee := a.text(c.Fun)
			if callee == a.call {
				cnt++
			}
			if callee == "panic" || callee == "log.Panicf" || callee == "log.Panic" || callee == "log.Fatal" || callee == "log.Fatalf" || callee == "os.Exit" {
				terminates = true
			}
		}
		return true
	})
	return
}

func (a *analyzer) apply(in states, n ast.Node) states {
	cnt, term := a.countCalls(n)
	out := states{}
	for s := range in {
		t := s
		if t.started {
			t.count += cnt
			if t.count > 3 {
				t.count = 3
			}
		}
		out[t] = true
	}
	if n != nil && a.marker != "-" {
		if as, ok := n.(*ast.AssignStmt); ok && a.text(as) == a.marker {
			o2 := states{}
			for s := range out {
				if !s.started {
					o2[state{true, 0}] = true
				} else {
					o2[s] = true
				}
			}
			out = o2
		}
	}
	if term {
		for s := range out {
			a.exits = append(a.exits, exit{a.fset.Position(n.Pos()).Line, "panic", s.started, s.count})
		}
		return states{}
	}
	return out
}

func (a *analyzer) find(label string, loopOnly bool) *frame {
	for i := len(a.stack) - 1; i >= 0; i-- {
		f := a.stack[i]
		if label != "" {
			if f.label == label {
				return f
			}
			continue
		}
		if loopOnly && !f.isLoop {
			continue
		}
		return f
	}
	return nil
}

func (a *analyzer) block(in states, list []ast.Stmt) states {
	cur := in
	for _, s := range list {
		cur = a.stmt(cur, s, "")
	}
	return cur
}

func (a *analyzer) stmt(in states, s ast.Stmt, label string) states {
	if len(in) == 0 {
		return in
	}
	switch n := s.(type) {
	case nil:
		return in
	case *ast.BlockStmt:
		return a.block(in, n.List)
	case *ast.LabeledStmt:
		return a.stmt(in, n.Stmt, n.Label.Name)
	case *ast.ReturnStmt:
		out := a.apply(in, n)
		for st := range out {
			a.exits = append(a.exits, exit{a.fset.Position(n.Pos()).Line, "return", st.started, st.count})
		}
		return states{}
	case *ast.BranchStmt:
		lab := ""
		if n.Label != nil {
			lab = n.Label.Name
		}
		switch n.Tok {
		case token.BREAK:
			f := a.find(lab, false)
			if f == nil {
				a.err = fmt.Errorf("break without target at line %d", a.fset.Position(n.Pos()).Line)
				return states{}
			}
			f.breaks = f.breaks.union(in)
			return states{}
		case token.CONTINUE:
			f := a.find(lab, true)
			if f == nil {
				a.err = fmt.Errorf("continue without target")
				return states{}
			}
			f.conts = f.conts.union(in)
			return states{}
		case token.FALLTHROUGH:
			// handled by the switch: mark with a pseudo-frame
			f := a.find("", false)
			f.conts = f.conts.union(in) // for a switch frame, conts = fallthrough states
			return states{}
		default:
			a.err = fmt.Errorf("unsupported branch %v", n.Tok)
			return states{}
		}
	case *ast.IfStmt:
		cur := in
		if n.Init != nil {
			cur = a.stmt(cur, n.Init, "")
		}
		cur = a.apply(cur, n.Cond)
		thenOut := a.block(cur, n.Body.List)
		elseOut := cur
		if n.Else != nil {
			elseOut = a.stmt(cur, n.Else, "")
		}
		return thenOut.union(elseOut)
	case *ast.ForStmt:
		cur := in
		if n.Init != nil {
			cur = a.stmt(cur, n.Init, "")
		}
		f := &frame{label: label, isLoop: true, breaks: states{}, conts: states{}}
		a.stack = append(a.stack, f)
		head := cur
		exitByCond := states{}
		for iter := 0; iter < 50; iter++ {
			h := head
			if n.Cond != nil {
				h = a.apply(h, n.Cond)
				exitByCond = exitByCond.union(h)
			}
			f.conts = states{}
			body := a.block(h, n.Body.List)
			next := body.union(f.conts)
			if n.Post != nil {
				next = a.stmt(next, n.Post, "")
			}
			nh := head.union(next)
			if nh.equal(head) {
				break
			}
			head = nh
		}
		a.stack = a.stack[:len(a.stack)-1]
		return f.breaks.union(exitByCond)
	case *ast.RangeStmt:
		cur := a.apply(in, n.X)
		f := &frame{label: label, isLoop: true, breaks: states{}, conts: states{}}
		a.stack = append(a.stack, f)
		head := cur
		for iter := 0; iter < 50; iter++ {
			f.conts = states{}
			body := a.block(head, n.Body.List)
			nh := head.union(body).union(f.conts)
			if nh.equal(head) {
				break
			}
			head = nh
		}
		a.stack = a.stack[:len(a.stack)-1]
		return head.union(f.breaks)
	case *ast.SwitchStmt:
		cur := in
		if n.Init != nil {
			cur = a.stmt(cur, n.Init, "")
		}
		cur = a.apply(cur, n.Tag)
		return a.clauses(cur, n.Body.List, label, true)
	case *ast.TypeSwitchStmt:
		cur := in
		if n.Init != nil {
			cur = a.stmt(cur, n.Init, "")
		}
		cur = a.stmt(cur, n.Assign, "")
		return a.clauses(cur, n.Body.List, label, true)
	case *ast.SelectStmt:
		return a.clauses(in, n.Body.List, label, false)
	case *ast.DeferStmt, *ast.GoStmt:
		// deferred / spawned calls are not on this path
		return in
	default:
		return a.apply(in, s)
	}
}

func (a *analyzer) clauses(in states, list []ast.Stmt, label string, mayskip bool) states {
	f := &frame{label: label, breaks: states{}, conts: states{}}
	a.stack = append(a.stack, f)
	out := states{}
	hasDefault := false
	fall := states{}
	for _, c := range list {
		var body []ast.Stmt
		entry := in
		switch cc := c.(type) {
		case *ast.CaseClause:
			if cc.List == nil {
				hasDefault = true
			}
			for _, e := range cc.List {
				entry = a.apply(entry, e)
			}
			body = cc.Body
		case *ast.CommClause:
			if cc.Comm == nil {
				hasDefault = true
			} else {
				entry = a.stmt(entry, cc.Comm, "")
			}
			body = cc.Body
		}
		entry = entry.union(fall)
		f.conts = states{}
		o := a.block(entry, body)
		fall = f.conts
		out = out.union(o)
	}
	a.stack = a.stack[:len(a.stack)-1]
	if mayskip && !hasDefault {
		out = out.union(in)
	}
	return out.union(f.breaks)
}

// ---- Go integer/boolean expressions -> Lean text (tie T2 kernels)

type xlat struct {
	a      *analyzer
	params map[string]bool
	lets   map[string]bool
	env    map[string]string
	tuple  int
	err    error
}

func mangle(s string) string {
	r := strings.NewReplacer("(*", "", ")", "", "(", "", "[", "_", "]", "", ".", "_", " ", "", "*", "")
	return r.Replace(s)
}

func (x *xlat) v(name string) string {
	if x.env != nil {
		if e, ok := x.env[name]; ok {
			return e
		}
	}
	if !x.lets[name] {
		x.params[name] = true
	}
	return name
}

func isBoolOp(op token.Token) bool {
	switch op {
	case token.LSS, token.LEQ, token.GTR, token.GEQ, token.EQL, token.NEQ, token.LAND, token.LOR:
		return true
	}
	return false
}

func (x *xlat) expr(e ast.Expr) string {
	switch n := e.(type) {
	case *ast.ParenExpr:
		return "(" + x.expr(n.X) + ")"
	case *ast.BasicLit:
		if n.Kind == token.INT {
			return "(" + n.Value + " : Int)"
		}
	case *ast.Ident:
		if n.Name == "true" || n.Name == "false" {
			return n.Name
		}
		return x.v(n.Name)
	case *ast.SelectorExpr, *ast.IndexExpr, *ast.StarExpr:
		return x.v(mangle(x.a.text(n)))
	case *ast.UnaryExpr:
		switch n.Op {
		case token.SUB:
			return "(-" + x.expr(n.X) + ")"
		case token.NOT:
			return "(!" + x.expr(n.X) + ")"
		}
	case *ast.CallExpr:
		callee := x.a.text(n.Fun)
		switch callee {
		case "int", "int64", "uintptr", "uint64", "uint32", "uint":
			if len(n.Args) == 1 {
				return x.expr(n.Args[0])
			}
		case "len":
			return x.v("len_" + mangle(x.a.text(n.Args[0])))
		}
		if len(n.Args) == 0 {
			return x.v(mangle(callee) + "_call")
		}
	case *ast.BinaryExpr:
		l, r := x.expr(n.X), x.expr(n.Y)
		switch n.Op {
		case token.ADD:
			return "(" + l + " + " + r + ")"
		case token.SUB:
			return "(" + l + " - " + r + ")"
		case token.MUL:
			return "(" + l + " * " + r + ")"
		case token.QUO:
			return "(Int.tdiv " + l + " " + r + ")"
		case token.REM:
			return "(Int.tmod " + l + " " + r + ")"
		case token.LSS:
			return "(decide (" + l + " < " + r + "))"
		case token.LEQ:
			return "(decide (" + l + " ≤ " + r + "))"
		case token.GTR:
			return "(decide (" + l + " > " + r + "))"
		case token.GEQ:
			return "(decide (" + l + " ≥ " + r + "))"
		case token.EQL:
			return "(decide (" + l + " = " + r + "))"
		case token.NEQ:
			return "(decide (" + l + " ≠ " + r + "))"
		case token.LAND:
			return "(" + l + " && " + r + ")"
		case token.LOR:
			return "(" + l + " || " + r + ")"
		}
	}
	x.err = fmt.Errorf("unsupported expression %q", x.a.text(e))
	return "0"
}

// exec symbolically executes a statement list over an environment of local
// variables (name -> Lean expression).  It returns the returned expression (or
// "" if control falls through) and the environment at fall-through.
func (x *xlat) exec(list []ast.Stmt, env map[string]string) (string, map[string]string) {
	cp := func(m map[string]string) map[string]string {
		r := map[string]string{}
		for k, v := range m {
			r[k] = v
		}
		return r
	}
	for idx, s := range list {
		rest := list[idx+1:]
		x.env = env
		switch n := s.(type) {
		case *ast.ReturnStmt:
			if len(n.Results) == 0 {
				x.err = fmt.Errorf("bare return")
				return "0", env
			}
			var parts []string
			for _, r := range n.Results {
				parts = append(parts, x.expr(r))
			}
			if len(parts) == 1 {
				return parts[0], env
			}
			x.tuple = len(parts)
			return "(" + strings.Join(parts, ", ") + ")", env
		case *ast.IncDecStmt:
			id, ok := n.X.(*ast.Ident)
			if !ok {
				x.err = fmt.Errorf("unsupported %q", x.a.text(n))
				return "0", env
			}
			op := " + "
			if n.Tok == token.DEC {
				op = " - "
			}
			env[id.Name] = "(" + x.expr(id) + op + "(1 : Int))"
		case *ast.AssignStmt:
			if len(n.Lhs) != len(n.Rhs) {
				x.err = fmt.Errorf("unsupported assignment %q", x.a.text(n))
				return "0", env
			}
			vals := make([]string, len(n.Rhs))
			for i := range n.Rhs {
				vals[i] = x.expr(n.Rhs[i])
			}
			for i := range n.Lhs {
				id, ok := n.Lhs[i].(*ast.Ident)
				if !ok {
					x.err = fmt.Errorf("unsupported assignment %q", x.a.text(n))
					return "0", env
				}
				switch n.Tok {
				case token.DEFINE, token.ASSIGN:
					env[id.Name] = vals[i]
				case token.ADD_ASSIGN:
					env[id.Name] = "(" + x.expr(id) + " + " + vals[i] + ")"
				case token.SUB_ASSIGN:
					env[id.Name] = "(" + x.expr(id) + " - " + vals[i] + ")"
				default:
					x.err = fmt.Errorf("unsupported assignment %q", x.a.text(n))
					return "0", env
				}
			}
		case *ast.DeclStmt:
			gd, ok := n.Decl.(*ast.GenDecl)
			if !ok || gd.Tok != token.VAR {
				x.err = fmt.Errorf("unsupported decl")
				return "0", env
			}
			for _, sp := range gd.Specs {
				vs := sp.(*ast.ValueSpec)
				for i := range vs.Names {
					if i < len(vs.Values) {
						env[vs.Names[i].Name] = x.expr(vs.Values[i])
					} else {
						env[vs.Names[i].Name] = "(0 : Int)"
					}
				}
			}
		case *ast.IfStmt:
			if n.Init != nil {
				x.err = fmt.Errorf("if with init")
				return "0", env
			}
			c := x.expr(n.Cond)
			var elseList []ast.Stmt
			switch el := n.Else.(type) {
			case *ast.BlockStmt:
				elseList = el.List
			case *ast.IfStmt:
				elseList = []ast.Stmt{el}
			}
			r1, e1 := x.exec(n.Body.List, cp(env))
			r2, e2 := x.exec(elseList, cp(env))
			switch {
			case r1 != "" && r2 != "":
				return "(if " + c + " then " + r1 + " else " + r2 + ")", env
			case r1 != "":
				r, e := x.exec(rest, e2)
				if r == "" {
					x.err = fmt.Errorf("path without return")
				}
				return "(if " + c + " then " + r1 + " else " + r + ")", e
			case r2 != "":
				r, e := x.exec(rest, e1)
				if r == "" {
					x.err = fmt.Errorf("path without return")
				}
				return "(if " + c + " then " + r + " else " + r2 + ")", e
			default:
				for k := range e1 {
					if e1[k] != e2[k] {
						a, b := e1[k], e2[k]
						if b == "" {
							b = a
						}
						env[k] = "(if " + c + " then " + a + " else " + b + ")"
					}
				}
				for k := range e2 {
					if _, ok := e1[k]; !ok {
						env[k] = e2[k]
					}
				}
			}
		case *ast.SwitchStmt:
			if n.Tag != nil || n.Init != nil {
				x.err = fmt.Errorf("unsupported switch")
				return "0", env
			}
			// desugar into an if-chain
			var chain ast.Stmt
			for i := len(n.Body.List) - 1; i >= 0; i-- {
				cc := n.Body.List[i].(*ast.CaseClause)
				if cc.List == nil {
					chain = &ast.BlockStmt{List: cc.Body}
					continue
				}
				var cond ast.Expr = cc.List[0]
				for _, e := range cc.List[1:] {
					cond = &ast.BinaryExpr{X: cond, Op: token.LOR, Y: e}
				}
				chain = &ast.IfStmt{Cond: cond, Body: &ast.BlockStmt{List: cc.Body}, Else: chain}
			}
			if chain != nil {
				if b, ok := chain.(*ast.BlockStmt); ok {
					return x.exec(append(append([]ast.Stmt{}, b.List...), rest...), env)
				}
				return x.exec(append([]ast.Stmt{chain}, rest...), env)
			}
		default:
			x.err = fmt.Errorf("unsupported statement %q", x.a.text(s))
			return "0", env
		}
	}
	return "", env
}

func (x *xlat) body(list []ast.Stmt) string {
	r, _ := x.exec(list, map[string]string{})
	if r == "" && x.err == nil {
		x.err = fmt.Errorf("path without return")
	}
	return r
}

func (x *xlat) def(name, rhs string, isBool bool) string {
	var ps []string
	for p := range x.params {
		ps = append(ps, p)
	}
	sort.Strings(ps)
	ty := "Int"
	if isBool {
		ty = "Bool"
	}
	if x.tuple > 1 {
		ty = strings.TrimSuffix(strings.Repeat("Int × ", x.tuple), " × ")
	}
	sig := ""
	if len(ps) > 0 {
		sig = " (" + strings.Join(ps, " ") + " : Int)"
	}
	return fmt.Sprintf("def %s%s : %s := %s\n-- params: %s", name, sig, ty, rhs, strings.Join(ps, " "))
}

func exprIsBool(e ast.Expr) bool {
	switch n := e.(type) {
	case *ast.ParenExpr:
		return exprIsBool(n.X)
	case *ast.BinaryExpr:
		return isBoolOp(n.Op)
	case *ast.UnaryExpr:
		return n.Op == token.NOT
	case *ast.Ident:
		return n.Name == "true" || n.Name == "false"
	}
	return false
}

func funcReturnsBool(fd *ast.FuncDecl) bool {
	if fd.Type.Results == nil || len(fd.Type.Results.List) != 1 {
		return false
	}
	id, ok := fd.Type.Results.List[0].Type.(*ast.Ident)
	return ok && id.Name == "bool"
}

func findFunc(file *ast.File, name string) *ast.FuncDecl {
	recv, fn := "", name
	if i := strings.IndexByte(name, '.'); i >= 0 {
		recv, fn = name[:i], name[i+1:]
	}
	for _, d := range file.Decls {
		fd, ok := d.(*ast.FuncDecl)
		if !ok || fd.Name.Name != fn {
			continue
		}
		r := ""
		if fd.Recv != nil && len(fd.Recv.List) == 1 {
			t := fd.Recv.List[0].Type
			if s, ok := t.(*ast.StarExpr); ok {
				t = s.X
			}
			if id, ok := t.(*ast.Ident); ok {
				r = id.Name
			}
		}
		if r == recv {
			return fd
		}
	}
	return nil
}

func main() {
	if len(os.Args) < 4 {
		fmt.Fprintln(os.Stderr, "usage: gofacts paths|exprs|const ...")
		os.Exit(2)
	}
	fset := token.NewFileSet()
	file, err := parser.ParseFile(fset, os.Args[2], nil, 0)
	if err != nil {
		fmt.Fprintln(os.Stderr, err)
		os.Exit(1)
	}
	switch os.Args[1] {
	case "paths":
		fd := findFunc(file, os.Args[3])
		if fd == nil {
			fmt.Fprintln(os.Stderr, "function not found:", os.Args[3])
			os.Exit(3)
		}
		a := &analyzer{fset: fset, marker: os.Args[4], call: os.Args[5]}
		start := states{state{a.marker == "-", 0}: true}
		out := a.block(start, fd.Body.List)
		for s := range out {
			a.exits = append(a.exits, exit{fset.Position(fd.Body.Rbrace).Line, "end", s.started, s.count})
		}
		if a.err != nil {
			fmt.Fprintln(os.Stderr, "unsupported:", a.err)
			os.Exit(4)
		}
		sort.Slice(a.exits, func(i, j int) bool {
			x, y := a.exits[i], a.exits[j]
			if x.Line != y.Line {
				return x.Line < y.Line
			}
			if x.Started != y.Started {
				return !x.Started
			}
			return x.Count < y.Count
		})
		// dedupe
		var ex []exit
		for i, e := range a.exits {
			if i == 0 || e != a.exits[i-1] {
				ex = append(ex, e)
			}
		}
		json.NewEncoder(os.Stdout).Encode(ex)
	case "exprs":
		fd := findFunc(file, os.Args[3])
		if fd == nil {
			fmt.Fprintln(os.Stderr, "function not found:", os.Args[3])
			os.Exit(3)
		}
		a := &analyzer{fset: fset}
		var out []string
		ast.Inspect(fd.Body, func(x ast.Node) bool {
			switch e := x.(type) {
			case *ast.CallExpr:
				for _, arg := range e.Args {
					out = append(out, a.text(e.Fun)+"("+a.text(arg)+")")
				}
			case *ast.IndexExpr:
				out = append(out, "index["+a.text(e.Index)+"]")
			}
			return true
		})
		json.NewEncoder(os.Stdout).Encode(out)
	case "kernel":
		// gofacts kernel <file> <Func> <leanName>: the whole body as one Lean def
		fd := findFunc(file, os.Args[3])
		if fd == nil {
			fmt.Fprintln(os.Stderr, "function not found:", os.Args[3])
			os.Exit(3)
		}
		x := &xlat{a: &analyzer{fset: fset}, params: map[string]bool{}, lets: map[string]bool{}}
		rhs := x.body(fd.Body.List)
		if x.err != nil {
			fmt.Fprintln(os.Stderr, "unsupported:", x.err)
			os.Exit(4)
		}
		fmt.Println(x.def(os.Args[4], rhs, funcReturnsBool(fd)))
	case "callargs":
		// gofacts callargs <file> <Func> <callee> <leanPrefix>: each argument of each call of callee
		fd := findFunc(file, os.Args[3])
		if fd == nil {
			fmt.Fprintln(os.Stderr, "function not found:", os.Args[3])
			os.Exit(3)
		}
		a := &analyzer{fset: fset}
		k := 0
		ast.Inspect(fd.Body, func(nn ast.Node) bool {
			c, ok := nn.(*ast.CallExpr)
			if !ok || a.text(c.Fun) != os.Args[4] {
				return true
			}
			for i, arg := range c.Args {
				x := &xlat{a: a, params: map[string]bool{}, lets: map[string]bool{}}
				rhs := x.expr(arg)
				if x.err != nil {
					fmt.Printf("-- unsupported: %v\n", x.err)
					continue
				}
				fmt.Println(x.def(fmt.Sprintf("%s_%d_%d", os.Args[5], k, i), rhs, exprIsBool(arg)))
			}
			k++
			return true
		})
	case "fields":
		// gofacts fields <file> <Func> <leanPrefix>: elements of the composite literal returned by Func
		fd := findFunc(file, os.Args[3])
		if fd == nil {
			os.Exit(3)
		}
		a := &analyzer{fset: fset}
		ast.Inspect(fd.Body, func(nn ast.Node) bool {
			r, ok := nn.(*ast.ReturnStmt)
			if !ok || len(r.Results) != 1 {
				return true
			}
			cl, ok := r.Results[0].(*ast.CompositeLit)
			if !ok {
				return true
			}
			for i, el := range cl.Elts {
				name := fmt.Sprint(i)
				if kv, ok := el.(*ast.KeyValueExpr); ok {
					name = a.text(kv.Key)
					el = kv.Value
				}
				x := &xlat{a: a, params: map[string]bool{}, lets: map[string]bool{}}
				rhs := x.expr(el)
				if x.err != nil {
					fmt.Printf("-- unsupported: %v\n", x.err)
					continue
				}
				fmt.Println(x.def(os.Args[4]+"_"+name, rhs, exprIsBool(el)))
			}
			return true
		})
	case "stmts":
		// gofacts stmts <file> <Func>: the top-level statements of the body, in order, as JSON
		// [{line, kind, text, returns}] (text on one line; returns = the statement contains a return or a panic-like call)
		fd := findFunc(file, os.Args[3])
		if fd == nil {
			fmt.Fprintln(os.Stderr, "function not found:", os.Args[3])
			os.Exit(3)
		}
		a := &analyzer{fset: fset}
		type st struct {
			Line    int    `json:"line"`
			Kind    string `json:"kind"`
			Text    string `json:"text"`
			Returns bool   `json:"returns"`
		}
		var out []st
		for _, s := range fd.Body.List {
			kind := strings.TrimPrefix(fmt.Sprintf("%T", s), "*ast.")
			txt := strings.Join(strings.Fields(a.text(s)), " ")
			rets := false
			ast.Inspect(s, func(nn ast.Node) bool {
				switch x := nn.(type) {
				case *ast.ReturnStmt:
					rets = true
				case *ast.FuncLit:
					return false
				case *ast.CallExpr:
					f := a.text(x.Fun)
					if f == "panic" || strings.HasSuffix(f, "Panicf") || strings.HasSuffix(f, "Panic") || strings.HasSuffix(f, "Fatalf") || strings.HasSuffix(f, "Fatal") {
						rets = true
					}
				}
				return true
			})
			out = append(out, st{fset.Position(s.Pos()).Line, kind, txt, rets})
		}
		json.NewEncoder(os.Stdout).Encode(out)
	case "const":
		// gofacts const <file> <name>: the literal value of a package-level const/var
		for _, d := range file.Decls {
			gd, ok := d.(*ast.GenDecl)
			if !ok {
				continue
			}
			for _, sp := range gd.Specs {
				vs, ok := sp.(*ast.ValueSpec)
				if !ok {
					continue
				}
				for i, n := range vs.Names {
					if n.Name == os.Args[3] && i < len(vs.Values) {
						var b bytes.Buffer
						printer.Fprint(&b, fset, vs.Values[i])
						fmt.Println(b.String())
						return
					}
				}
			}
		}
		os.Exit(3)
	}
}
