module gofacts

go 1.17
