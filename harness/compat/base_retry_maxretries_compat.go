package retry

// MaxRetries exists in newer grailbio/base.
func MaxRetries(policy Policy, n int) Policy {
	if n < 1 {
		panic("retry.MaxRetries: n < 1")
	}
	return &maxtries{policy, n}
}
