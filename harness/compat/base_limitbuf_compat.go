package limitbuf

// LoggerOption and LogIfTruncatingMaxMultiple exist in newer grailbio/base; options are ignored here.
type LoggerOption func(*Logger)

func LogIfTruncatingMaxMultiple(m float64) LoggerOption { return func(*Logger) {} }
