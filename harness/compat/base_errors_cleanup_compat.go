package errors

import "context"

// CleanUp and CleanUpCtx exist in newer grailbio/base; bigslice at this commit
// uses them.  Added to a private copy of base v0.0.9 (never to /repo).

func CleanUp(cleanUp func() error, dst *error) {
	if err := cleanUp(); err != nil && *dst == nil {
		*dst = err
	}
}

func CleanUpCtx(ctx context.Context, cleanUp func(context.Context) error, dst *error) {
	if err := cleanUp(ctx); err != nil && *dst == nil {
		*dst = err
	}
}
