package testsystem

// Added by /verif (harness shim, never part of /repo): a hook around every RPC a test machine serves, so that a
// machine can be lost at an exact RPC boundary (C02).

import (
	"net/http"
	"net/http/httptest"
	"strings"
	"sync"

	"github.com/grailbio/bigmachine"
)

// RPCHook, if set, is called before ("before") and after ("after") every RPC served by a test machine with the
// machine's address and the method ("Worker.Run", …).  If it returns true the machine is killed at that point:
// a "before" kill means the call never ran, an "after" kill means it ran but its reply is never delivered, a "mid"
// kill means it ran and half of its reply was delivered.
// ordinal is the 1-based number of the call among all calls of the method since RPCHookReset.
var RPCHook func(addr, method, phase string, ordinal int) bool

var (
	rpcSeqMu sync.Mutex
	rpcSeq   = map[string]int{}
)

// RPCHookReset restarts the per-method call numbering.
func RPCHookReset() {
	rpcSeqMu.Lock()
	rpcSeq = map[string]int{}
	rpcSeqMu.Unlock()
}

// RPCCounts returns the number of calls served per method since RPCHookReset.
func RPCCounts() map[string]int {
	rpcSeqMu.Lock()
	defer rpcSeqMu.Unlock()
	m := map[string]int{}
	for k, v := range rpcSeq {
		m[k] = v
	}
	return m
}

// A killed test machine keeps its listening port (so that neither another test machine nor another process can be
// handed the same address while the driver still holds the old one) but aborts every connection.
var (
	deadMu sync.Mutex
	dead   = map[string]bool{}
)

func markDead(addr string) {
	deadMu.Lock()
	dead[addr] = true
	deadMu.Unlock()
}

func isDead(addr string) bool {
	deadMu.Lock()
	defer deadMu.Unlock()
	return dead[addr]
}

type hookHandler struct {
	s *System
	m **bigmachine.Machine
	h http.Handler
}

func (h hookHandler) ServeHTTP(w http.ResponseWriter, r *http.Request) {
	if isDead((*h.m).Addr) {
		panic(http.ErrAbortHandler)
	}
	hook := RPCHook
	if hook == nil {
		h.h.ServeHTTP(w, r)
		return
	}
	method := strings.TrimPrefix(r.URL.Path, bigmachine.RpcPrefix)
	rpcSeqMu.Lock()
	rpcSeq[method]++
	ord := rpcSeq[method]
	rpcSeqMu.Unlock()
	if hook((*h.m).Addr, method, "before", ord) {
		go h.s.Kill(*h.m)
		panic(http.ErrAbortHandler)
	}
	rec := httptest.NewRecorder()
	h.h.ServeHTTP(rec, r)
	if hook((*h.m).Addr, method, "after", ord) {
		go h.s.Kill(*h.m)
		panic(http.ErrAbortHandler)
	}
	if hook((*h.m).Addr, method, "mid", ord) {
		// the machine dies while the reply is being streamed: half of the body is delivered
		for k, v := range rec.Header() {
			if k != "Content-Length" {
				w.Header()[k] = v
			}
		}
		w.WriteHeader(rec.Code)
		body := rec.Body.Bytes()
		_, _ = w.Write(body[:len(body)/2])
		if f, ok := w.(http.Flusher); ok {
			f.Flush()
		}
		go h.s.Kill(*h.m)
		panic(http.ErrAbortHandler)
	}
	for k, v := range rec.Header() {
		w.Header()[k] = v
	}
	w.WriteHeader(rec.Code)
	_, _ = w.Write(rec.Body.Bytes())
}
