import BS.Model.Hash
import BS.Model.Frame
