import BS.Proofs.Merge
/-! Proofs about the plain merge reader machine `BS.Merge.mrun`: for every legal choice of the cursor to pop, the output is
sorted by key and a permutation of everything the (sorted) streams hold. -/
namespace BS.Merge
open BS.KV

def AllSorted (ss : List (List KV)) : Prop := ∀ s ∈ ss, Sorted s

theorem minKey_none_all {ss : List (List KV)} (h : minKey ss = none) : ∀ s ∈ ss, s = [] := by
  have := minKey_none h
  intro s hs
  exact List.flatten_eq_nil_iff.mp this s hs

theorem minKey_le_heads {ss : List (List KV)} {k : Int} (h : minKey ss = some k) :
    ∀ s ∈ ss, ∀ r t, s = r :: t → k ≤ r.1 := by
  induction ss generalizing k with
  | nil => intro s hs; simp at hs
  | cons s0 ss ih =>
    intro s hs r t hst
    match s0, h with
    | [], h =>
      simp only [minKey] at h
      rcases List.mem_cons.mp hs with rfl | hs'
      · cases hst
      · exact ih h s hs' r t hst
    | (k0, v0) :: t0, h =>
      simp only [minKey] at h
      cases hm : minKey ss with
      | none =>
        rw [hm] at h
        simp only [Option.some.injEq] at h
        rcases List.mem_cons.mp hs with rfl | hs'
        · cases hst; simp [← h]
        · have := minKey_none_all hm s hs'
          rw [this] at hst; cases hst
      | some k' =>
        rw [hm] at h
        simp only [Option.some.injEq] at h
        rcases List.mem_cons.mp hs with rfl | hs'
        · cases hst
          subst h
          show (if k' < k0 then k' else k0) ≤ k0
          split <;> omega
        · have := ih hm s hs' r t hst
          subst h
          show (if k' < k0 then k' else k0) ≤ r.1
          split <;> omega

theorem sorted_head_le {r : KV} {t : List KV} (h : Sorted (r :: t)) : ∀ x ∈ r :: t, r.1 ≤ x.1 := by
  unfold Sorted at h
  rw [List.pairwise_cons] at h
  intro x hx
  rcases List.mem_cons.mp hx with rfl | hx'
  · exact Int.le_refl _
  · exact h.1 x hx'

theorem minKey_le_all {ss : List (List KV)} (hs : AllSorted ss) {k : Int} (h : minKey ss = some k) :
    ∀ x ∈ ss.flatten, k ≤ x.1 := by
  intro x hx
  obtain ⟨s, hs', hxs⟩ := List.mem_flatten.mp hx
  match s, hxs with
  | r :: t, hxs =>
    have h1 := minKey_le_heads h (r :: t) hs' r t rfl
    have h2 := sorted_head_le (hs _ hs') x hxs
    omega

theorem popAt_perm : ∀ (ss : List (List KV)) (i : Nat) (r : KV) (t : List KV), ss[i]? = some (r :: t) →
    ss.flatten.Perm (r :: (ss.set i t).flatten) := by
  intro ss
  induction ss with
  | nil => intro i r t h; simp at h
  | cons s ss ih =>
    intro i r t h
    cases i with
    | zero =>
      simp only [List.getElem?_cons_zero, Option.some.injEq] at h
      subst h
      simp
    | succ i =>
      simp only [List.getElem?_cons_succ] at h
      have := ih i r t h
      simp only [List.set_cons_succ, List.flatten_cons]
      exact (List.Perm.append_left s this).trans List.perm_middle

theorem set_sorted {ss : List (List KV)} (hs : AllSorted ss) {i : Nat} {r : KV} {t : List KV}
    (h : ss[i]? = some (r :: t)) : AllSorted (ss.set i t) := by
  intro s hsm
  rcases List.mem_or_eq_of_mem_set hsm with h1 | h1
  · exact hs s h1
  · subst h1
    have : (r :: s) ∈ ss := List.mem_of_getElem? h
    have := hs _ this
    unfold Sorted at this ⊢
    exact (List.pairwise_cons.mp this).2

theorem mrun_spec (choose : List (List KV) → Nat) (hch : ∀ ss, minKey ss ≠ none → Legal ss (choose ss)) :
    ∀ (fuel : Nat) (ss : List (List KV)), AllSorted ss → ss.flatten.length ≤ fuel →
      (mrun choose fuel ss).Perm ss.flatten ∧ Sorted (mrun choose fuel ss) := by
  intro fuel
  induction fuel with
  | zero =>
    intro ss _ hl
    have : ss.flatten = [] := List.eq_nil_of_length_eq_zero (by omega)
    simp [mrun, this, Sorted]
  | succ fuel ih =>
    intro ss hs hl
    cases hm : minKey ss with
    | none =>
      have := minKey_none hm
      simp [mrun, hm, this, Sorted]
    | some k =>
      obtain ⟨r, t, hget, hmin⟩ := hch ss (by rw [hm]; simp)
      have hpop : popAt ss (choose ss) = some (r, ss.set (choose ss) t) := by simp [popAt, hget]
      have hperm := popAt_perm ss _ r t hget
      have hs' := set_sorted hs hget
      have hlen : (ss.set (choose ss) t).flatten.length ≤ fuel := by
        have := hperm.length_eq
        simp only [List.length_cons] at this
        omega
      obtain ⟨ihp, ihs⟩ := ih _ hs' hlen
      have hrun : mrun choose (fuel + 1) ss = r :: mrun choose fuel (ss.set (choose ss) t) := by
        simp [mrun, hm, hpop]
      rw [hrun]
      refine ⟨(List.Perm.cons r ihp).trans hperm.symm, ?_⟩
      unfold Sorted
      rw [List.pairwise_cons]
      refine ⟨?_, ihs⟩
      intro x hx
      have hx1 : x ∈ (ss.set (choose ss) t).flatten := ihp.subset hx
      have hx2 : x ∈ ss.flatten := hperm.symm.subset (List.mem_cons_of_mem _ hx1)
      have hk : k = r.1 := by rw [hm] at hmin; exact Option.some.inj hmin
      have := minKey_le_all hs hm x hx2
      omega

end BS.Merge

namespace BS.Merge
open BS.KV

theorem minKey_attained {ss : List (List KV)} {k : Int} (h : minKey ss = some k) :
    ∃ s ∈ ss, ∃ v t, s = (k, v) :: t := by
  induction ss generalizing k with
  | nil => simp [minKey] at h
  | cons s0 ss ih =>
    match s0, h with
    | [], h =>
      simp only [minKey] at h
      obtain ⟨s, hs, v, t, rfl⟩ := ih h
      exact ⟨_, List.mem_cons_of_mem _ hs, v, t, rfl⟩
    | (k0, v0) :: t0, h =>
      simp only [minKey] at h
      cases hm : minKey ss with
      | none =>
        rw [hm] at h
        simp only [Option.some.injEq] at h
        subst h
        exact ⟨_, List.mem_cons_self, v0, t0, rfl⟩
      | some k' =>
        rw [hm] at h
        simp only [Option.some.injEq] at h
        by_cases hlt : k' < k0
        · rw [if_pos hlt] at h
          subst h
          obtain ⟨s, hs, v, t, rfl⟩ := ih hm
          exact ⟨_, List.mem_cons_of_mem _ hs, v, t, rfl⟩
        · rw [if_neg hlt] at h
          subst h
          exact ⟨_, List.mem_cons_self, v0, t0, rfl⟩

theorem leftmost_legal (ss : List (List KV)) (h : minKey ss ≠ none) : Legal ss (leftmost ss) := by
  cases hm : minKey ss with
  | none => exact absurd hm h
  | some k =>
    obtain ⟨s, hs, v, t, rfl⟩ := minKey_attained hm
    let p : List KV → Bool := fun s => match s with | (k', _) :: _ => k' == k | [] => false
    have hex : ∃ x ∈ ss, p x = true := ⟨_, hs, by simp [p]⟩
    cases hf : ss.findIdx? p with
    | none =>
      rw [List.findIdx?_eq_none_iff] at hf
      obtain ⟨x, hx, hpx⟩ := hex
      have := hf x hx
      simp [hpx] at this
    | some i =>
      obtain ⟨hi, hpi, _⟩ := List.findIdx?_eq_some_iff_getElem.mp hf
      have hl : leftmost ss = i := by
        simp only [leftmost, hm]
        show ((ss.findIdx? p).getD 0) = i
        rw [hf]; rfl
      rw [hl]
      match hsi : ss[i], hpi with
      | (k', v') :: t', hpi =>
        have hk : k' = k := by simpa [p, hsi] using hpi
        subst hk
        exact ⟨(k', v'), t', by rw [List.getElem?_eq_getElem hi, hsi], hm⟩
      | [], hpi => simp [p, hsi] at hpi

end BS.Merge
