import BS.Model.Eval
/-! Helper lemmas for C03: what `schedule`/`clear`/`add` leave untouched, association lists. -/
namespace BS.Eval

theorem lookup_upsert_same {β} (k : Nat) (v : β) (l : List (Nat × β)) : lookup k (upsert k v l) = some v := by
  induction l with
  | nil => simp [upsert, lookup]
  | cons p ps ih =>
    obtain ⟨a, b⟩ := p
    simp only [upsert]
    split
    · rename_i h; simp [lookup, h]
    · rename_i h; simp [lookup, h, ih]

theorem lookup_upsert_other {β} (k k' : Nat) (v : β) (l : List (Nat × β)) (h : k ≠ k') :
    lookup k' (upsert k v l) = lookup k' l := by
  induction l with
  | nil => simp [upsert, lookup, h]
  | cons p ps ih =>
    obtain ⟨a, b⟩ := p
    simp only [upsert]
    split
    · rename_i e; subst e; simp [lookup, h]
    · rename_i e
      simp only [lookup]
      split <;> simp [ih]

@[simp] theorem schedule_wait (s : EState) (t : Nat) : (s.schedule t).wait = s.wait := by
  unfold EState.schedule; (repeat' split) <;> rfl
@[simp] theorem schedule_pending (s : EState) (t : Nat) : (s.schedule t).pending = s.pending := by
  unfold EState.schedule; (repeat' split) <;> rfl
@[simp] theorem schedule_err (s : EState) (t : Nat) : (s.schedule t).err = s.err := by
  unfold EState.schedule; (repeat' split) <;> rfl

theorem schedule_todo_mono (s : EState) (t x : Nat) (h : x ∈ s.todo) : x ∈ (s.schedule t).todo := by
  unfold EState.schedule; (repeat' split) <;> simp [h]

theorem schedule_todo_mem (s : EState) (t x : Nat) (h : x ∈ (s.schedule t).todo) :
    x ∈ s.todo ∨ (x = t ∧ t ∉ s.pending) := by
  unfold EState.schedule at h
  split at h
  · exact Or.inl h
  · split at h
    · exact Or.inl h
    · rename_i hp _
      simp only [List.mem_cons] at h
      rcases h with rfl | h
      · exact Or.inr ⟨rfl, hp⟩
      · exact Or.inl h

theorem schedule_nodup (s : EState) (t : Nat) (h : s.todo.Nodup) : (s.schedule t).todo.Nodup := by
  unfold EState.schedule
  split
  · exact h
  · split
    · exact h
    · rename_i _ hn; exact List.nodup_cons.mpr ⟨hn, h⟩

theorem schedule_scheduled (s : EState) (t : Nat) : t ∈ (s.schedule t).todo ∨ t ∈ s.pending := by
  unfold EState.schedule
  split
  · rename_i h; exact Or.inr h
  · split
    · rename_i h; exact Or.inl h
    · left; simp

@[simp] theorem clear_wait (g : Graph) (s : EState) (t : Nat) : (s.clear g t).wait = s.wait := rfl
@[simp] theorem clear_pending (g : Graph) (s : EState) (t : Nat) : (s.clear g t).pending = s.pending := rfl
@[simp] theorem clear_todo (g : Graph) (s : EState) (t : Nat) : (s.clear g t).todo = s.todo := rfl
@[simp] theorem clear_err (g : Graph) (s : EState) (t : Nat) : (s.clear g t).err = s.err := rfl

@[simp] theorem add_wait (s : EState) (a b n : Nat) : (s.add a b n).wait = s.wait := by
  unfold EState.add; (repeat' split) <;> rfl
@[simp] theorem add_pending (s : EState) (a b n : Nat) : (s.add a b n).pending = s.pending := by
  unfold EState.add; (repeat' split) <;> rfl
@[simp] theorem add_todo (s : EState) (a b n : Nat) : (s.add a b n).todo = s.todo := by
  unfold EState.add; (repeat' split) <;> rfl
@[simp] theorem add_err (s : EState) (a b n : Nat) : (s.add a b n).err = s.err := by
  unfold EState.add; (repeat' split) <;> rfl

end BS.Eval
