import BS.Proofs.MergeSort
/-! Proofs about the cogroup reader machine `BS.Merge.cgRun` over sorted inputs. -/
namespace BS.Merge
open BS.KV

/-- rows whose key is not `k` -/
def neKey (k : Int) (r : KV) : Bool := r.1 != k

theorem sorted_tail {a : KV} {t : List KV} (h : Sorted (a :: t)) : Sorted t := by
  unfold Sorted at h ⊢
  exact (List.pairwise_cons.mp h).2

/-- on a sorted stream whose keys are all ≥ k, `takeKey k` splits off exactly the rows with key `k` -/
theorem takeKey_spec (k : Int) : ∀ (s : List KV), Sorted s → (∀ x ∈ s, k ≤ x.1) →
    (takeKey k s).1 = (s.filter fun r => r.1 = k).map (·.2) ∧
    (takeKey k s).2 = s.filter (neKey k) ∧
    (∀ x ∈ (takeKey k s).2, k < x.1) := by
  intro s
  induction s with
  | nil => intro _ _; simp [takeKey]
  | cons a t ih =>
    intro hs hk
    obtain ⟨k', v⟩ := a
    have hst := sorted_tail hs
    have hkt : ∀ x ∈ t, k ≤ x.1 := fun x hx => hk x (List.mem_cons_of_mem _ hx)
    simp only [takeKey]
    by_cases he : k' = k
    · subst he
      obtain ⟨h1, h2, h3⟩ := ih hst hkt
      have hn : neKey k' (k', v) = false := by simp [neKey]
      simp only [if_true, List.filter_cons, decide_true, List.map_cons, hn, Bool.false_eq_true, if_false]
      exact ⟨by rw [h1], h2, h3⟩
    · have hlt : k < k' := by
        have := hk (k', v) List.mem_cons_self
        simp only at this
        omega
      -- every later key is ≥ k' > k: nothing with key k follows
      have hall : ∀ x ∈ t, k < x.1 := by
        intro x hx
        have := sorted_head_le hs x (List.mem_cons_of_mem _ hx)
        simp only at this
        omega
      have hf1 : (t.filter fun r => r.1 = k) = [] := by
        apply List.filter_eq_nil_iff.mpr
        intro x hx
        have := hall x hx
        simp only [decide_eq_true_eq]
        omega
      have hf2 : t.filter (neKey k) = t := by
        apply List.filter_eq_self.mpr
        intro x hx
        have := hall x hx
        simp only [neKey, bne_iff_ne, ne_eq]
        omega
      have hn : neKey k (k', v) = true := by simp [neKey, he]
      simp only [he, if_false, List.filter_cons, decide_false, Bool.false_eq_true, hn,
        if_true, hf1, hf2, List.map_nil, true_and]
      intro x hx
      rcases List.mem_cons.mp hx with rfl | hx'
      · exact hlt
      · exact hall x hx'

theorem filter_sorted {s : List KV} (h : Sorted s) (p : KV → Bool) : Sorted (s.filter p) := by
  unfold Sorted at h ⊢
  exact List.Pairwise.sublist List.filter_sublist h

/-- what the rows of one round look like, and what is left -/
theorem cgStep_spec {ss : List (List KV)} (hs : AllSorted ss) {k : Int} (hm : minKey ss = some k) :
    cgStep ss = some ((k, groupsOf k ss), ss.map fun s => s.filter (neKey k)) := by
  have hle := minKey_le_all hs hm
  simp only [cgStep, hm, groupsOf]
  congr 1
  have key : ∀ s ∈ ss, (takeKey k s).1 = (s.filter fun r => r.1 = k).map (·.2) ∧ (takeKey k s).2 = s.filter (neKey k) := by
    intro s hsm
    have := takeKey_spec k s (hs s hsm) (fun x hx => hle x (List.mem_flatten.mpr ⟨s, hsm, hx⟩))
    exact ⟨this.1, this.2.1⟩
  congr 1
  · congr 1
    exact List.map_congr_left fun s hsm => (key s hsm).1
  · exact List.map_congr_left fun s hsm => (key s hsm).2

def restOf (k : Int) (ss : List (List KV)) : List (List KV) := ss.map fun s => s.filter (neKey k)

theorem restOf_sorted {ss : List (List KV)} (hs : AllSorted ss) (k : Int) : AllSorted (restOf k ss) := by
  intro s hsm
  obtain ⟨s0, hs0, rfl⟩ := List.mem_map.mp hsm
  exact filter_sorted (hs s0 hs0) _

theorem mem_restOf {k : Int} {ss : List (List KV)} {x : KV} : x ∈ (restOf k ss).flatten ↔ x ∈ ss.flatten ∧ x.1 ≠ k := by
  simp only [restOf, List.mem_flatten, List.mem_map]
  constructor
  · rintro ⟨l, ⟨s, hs, rfl⟩, hx⟩
    have := List.mem_filter.mp hx
    exact ⟨⟨s, hs, this.1⟩, by simpa [neKey] using this.2⟩
  · rintro ⟨⟨s, hs, hx⟩, hne⟩
    exact ⟨_, ⟨s, hs, rfl⟩, List.mem_filter.mpr ⟨hx, by simpa [neKey] using hne⟩⟩

theorem groupsOf_restOf {k k' : Int} (h : k' ≠ k) (ss : List (List KV)) : groupsOf k' (restOf k ss) = groupsOf k' ss := by
  simp only [groupsOf, restOf, List.map_map]
  apply List.map_congr_left
  intro s _
  simp only [Function.comp, List.filter_filter]
  congr 1
  apply List.filter_congr
  intro x _
  by_cases hx : x.1 = k' <;> simp [hx, h, neKey]

theorem restOf_length_le (k : Int) (ss : List (List KV)) : (restOf k ss).flatten.length ≤ ss.flatten.length := by
  induction ss with
  | nil => simp [restOf]
  | cons a ss ih =>
    have h1 : (a.filter (neKey k)).length ≤ a.length := List.length_filter_le _ _
    simp only [restOf, List.map_cons, List.flatten_cons, List.length_append] at ih ⊢
    omega

theorem filter_head_lt (k v : Int) (t : List KV) :
    (((k, v) :: t).filter (neKey k)).length < ((k, v) :: t).length := by
  have hneg : ¬ (neKey k (k, v) = true) := by simp [neKey]
  rw [List.filter_cons_of_neg hneg]
  have : (t.filter (neKey k)).length ≤ t.length := List.length_filter_le _ _
  simp only [List.length_cons]
  omega

theorem restOf_length_lt_of_mem (k v : Int) (t : List KV) : ∀ (ss : List (List KV)), ((k, v) :: t) ∈ ss →
    (restOf k ss).flatten.length < ss.flatten.length := by
  intro ss
  induction ss with
  | nil => intro h; simp at h
  | cons a ss ih =>
    intro h
    have hle := restOf_length_le k ss
    have ha : (a.filter (neKey k)).length ≤ a.length := List.length_filter_le _ _
    rcases List.mem_cons.mp h with h0 | h1
    · subst h0
      have := filter_head_lt k v t
      simp only [restOf, List.map_cons, List.flatten_cons, List.length_append] at hle ⊢
      omega
    · have := ih h1
      simp only [restOf, List.map_cons, List.flatten_cons, List.length_append] at this ⊢
      omega

theorem restOf_length_lt {ss : List (List KV)} {k : Int} (hm : minKey ss = some k) :
    (restOf k ss).flatten.length < ss.flatten.length := by
  obtain ⟨s, hs, v, t, rfl⟩ := minKey_attained hm
  exact restOf_length_lt_of_mem k v t ss hs

/-- **cogroup machine**: over sorted inputs the rounds emit, for every number of inputs and every length,
(1) strictly ascending keys, (2) under each key exactly the values each input holds for it, in the input's order,
(3) a row for every key that occurs — hence one row per distinct key, each complete. -/
theorem cgRun_spec : ∀ (fuel : Nat) (ss : List (List KV)), AllSorted ss → ss.flatten.length < fuel →
    (cgRun fuel ss).Pairwise (fun a b => a.1 < b.1) ∧
    (∀ row ∈ cgRun fuel ss, row.2 = groupsOf row.1 ss ∧ ∃ x ∈ ss.flatten, x.1 = row.1) ∧
    (∀ x ∈ ss.flatten, ∃ row ∈ cgRun fuel ss, row.1 = x.1) := by
  intro fuel
  induction fuel with
  | zero => intro ss _ h; omega
  | succ fuel ih =>
    intro ss hs hl
    cases hm : minKey ss with
    | none =>
      have hnil := minKey_none hm
      simp [cgRun, cgStep, hm, hnil]
    | some k =>
      have hstep := cgStep_spec hs hm
      have hrun : cgRun (fuel + 1) ss = (k, groupsOf k ss) :: cgRun fuel (restOf k ss) := by
        simp only [cgRun, hstep]; rfl
      have hlen := restOf_length_lt hm
      obtain ⟨ih1, ih2, ih3⟩ := ih (restOf k ss) (restOf_sorted hs k) (by omega)
      have hle := minKey_le_all hs hm
      obtain ⟨s, hsm, v, t, rfl⟩ := minKey_attained hm
      rw [hrun]
      refine ⟨?_, ?_, ?_⟩
      · rw [List.pairwise_cons]
        refine ⟨?_, ih1⟩
        intro row hrow
        obtain ⟨_, x, hx, hxk⟩ := ih2 row hrow
        have hx' := mem_restOf.mp hx
        have := hle x hx'.1
        show k < row.1
        rw [← hxk]
        have hne := hx'.2
        omega
      · intro row hrow
        rcases List.mem_cons.mp hrow with rfl | hrow'
        · exact ⟨rfl, (k, v), List.mem_flatten.mpr ⟨_, hsm, List.mem_cons_self⟩, rfl⟩
        · obtain ⟨hg, x, hx, hxk⟩ := ih2 row hrow'
          have hx' := mem_restOf.mp hx
          have hne : row.1 ≠ k := by rw [← hxk]; exact hx'.2
          exact ⟨by rw [hg, groupsOf_restOf hne], x, hx'.1, hxk⟩
      · intro x hx
        by_cases hxk : x.1 = k
        · exact ⟨(k, groupsOf k ss), List.mem_cons_self, hxk.symm⟩
        · obtain ⟨row, hrow, hr⟩ := ih3 x (mem_restOf.mpr ⟨hx, hxk⟩)
          exact ⟨row, List.mem_cons_of_mem _ hrow, hr⟩

end BS.Merge
