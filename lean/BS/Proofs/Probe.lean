import Mathlib.Data.Nat.GCD.Basic
import Mathlib.Tactic.Ring
import Mathlib.Tactic.Linarith
/-!
Triangular probing (`idx ← (idx + try) & mask`, exec/combiner.go:147-160) visits
every slot of a power-of-two table: the first `2^k` probe offsets `i(i+1)/2` are
pairwise distinct modulo `2^k`.  (Proof module: imports three Mathlib modules.)
-/
namespace BS.Probe

/-- twice the i-th triangular number -/
def tri2 (i : Nat) : Nat := i * (i + 1)

theorem odd_coprime_two_pow (a n : Nat) (h : a % 2 = 1) : Nat.Coprime (2 ^ n) a := by
  apply Nat.Coprime.pow_left
  rw [Nat.coprime_comm]
  unfold Nat.Coprime
  rw [Nat.gcd_comm, Nat.gcd_rec, h]; simp

/-- Triangular probing is injective modulo a power of two: two distinct probe numbers below
`2^k` never differ by a multiple of `2^(k+1)` in their doubled offsets, i.e. their offsets
`i(i+1)/2` differ modulo `2^k`. -/
theorem tri_inj (k i j : Nat) (hi : i < 2 ^ k) (hj : j < 2 ^ k) (hij : j < i)
    (h : 2 ^ (k + 1) ∣ tri2 i - tri2 j) : False := by
  have hfac : tri2 i - tri2 j = (i - j) * (i + j + 1) := by
    unfold tri2
    obtain ⟨d, rfl⟩ : ∃ d, i = j + d := ⟨i - j, by omega⟩
    have : (j + d) * (j + d + 1) = j * (j + 1) + d * (j + d + j + 1) := by ring
    rw [this]; simp
  rw [hfac] at h
  have hpow : 2 ^ (k + 1) = 2 * 2 ^ k := by ring
  by_cases hpar : (i - j) % 2 = 1
  · have := (odd_coprime_two_pow (i - j) (k + 1) hpar).dvd_of_dvd_mul_left h
    have := Nat.le_of_dvd (by omega) this
    omega
  · have hodd : (i + j + 1) % 2 = 1 := by omega
    have := (odd_coprime_two_pow (i + j + 1) (k + 1) hodd).dvd_of_dvd_mul_right h
    have := Nat.le_of_dvd (by omega) this
    omega

end BS.Probe
