import BS.Model.Frame
/-! Helper lemmas for C11 (core-only). -/
namespace BS.Frame

theorem storeOf_setStore_same (m : Mem) (sid : Nat) (s : Store) (h : sid < m.length) :
    storeOf (setStore m sid s) sid = s := by
  simp [storeOf, setStore, List.getD, h]

theorem storeOf_setStore_other (m : Mem) (sid sid' : Nat) (s : Store) (h : sid ≠ sid') :
    storeOf (setStore m sid s) sid' = storeOf m sid' := by
  simp [storeOf, setStore, List.getD, List.getElem?_set_ne h]

theorem length_setStore (m : Mem) (sid : Nat) (s : Store) : (setStore m sid s).length = m.length := by
  simp [setStore]

theorem length_swapRows (s : List Row) (a b : Nat) : (swapRows s a b).length = s.length := by
  simp [swapRows]

theorem getD_swapRows (s : List Row) (a b k : Nat) (ha : a < s.length) (hb : b < s.length) :
    (swapRows s a b).getD k [] =
      if k = b then s.getD a [] else if k = a then s.getD b [] else s.getD k [] := by
  unfold swapRows
  simp only [List.getD_eq_getElem?_getD, List.getElem?_set, List.length_set]
  by_cases hkb : k = b
  · subst hkb; simp [hb]
  · by_cases hka : k = a
    · subst hka; simp [hkb, ha, Ne.symm hkb]
    · simp [hkb, hka, Ne.symm hkb, Ne.symm hka]

theorem view_length (m : Mem) (f : Frame) (h : WF m f) : (view m f).length = f.len := by
  unfold view
  simp only [List.length_take, List.length_drop]
  have := h.2.1; have := h.2.2; omega

theorem view_getD (m : Mem) (f : Frame) (i : Nat) (hi : i < f.len) :
    (view m f).getD i [] = rowAt m f.sid (idx f.off i) := by
  unfold view rowAt idx
  simp [List.getD_eq_getElem?_getD, List.getElem?_take, hi]

theorem view_getElem? (m : Mem) (f : Frame) (k : Nat) (hk : k < f.len) :
    (view m f)[k]? = (storeOf m f.sid)[f.off + k]? := by
  simp [view, List.getElem?_take, hk]

/-- extensionality for lists through `getD` -/
theorem ext_getD {l₁ l₂ : List Row} (hl : l₁.length = l₂.length)
    (h : ∀ k, k < l₁.length → l₁.getD k [] = l₂.getD k []) : l₁ = l₂ := by
  apply List.ext_getElem hl
  intro k h1 h2
  have := h k h1
  simpa [List.getD_eq_getElem?_getD, h1, h2] using this

theorem take_drop_getD (s : List Row) (off len k : Nat) (hk : k < len) :
    ((s.drop off).take len).getD k [] = s.getD (off + k) [] := by
  simp [List.getD_eq_getElem?_getD, List.getElem?_take, hk]

/-- `s[:off] ++ rows ++ s[off+n:]` with `rows.length = n`. -/
theorem length_splice (s rows : List Row) (off n : Nat) (hn : rows.length = n) (h : off + n ≤ s.length) :
    (s.take off ++ rows ++ s.drop (off + n)).length = s.length := by
  simp [hn]; omega

theorem getD_splice (s rows : List Row) (off n k : Nat) (hn : rows.length = n) (h : off + n ≤ s.length) :
    (s.take off ++ rows ++ s.drop (off + n)).getD k [] =
      if k < off then s.getD k [] else if k < off + n then rows.getD (k - off) [] else s.getD k [] := by
  simp only [List.getD_eq_getElem?_getD]
  by_cases h1 : k < off
  · rw [List.append_assoc, List.getElem?_append_left (by simp; omega)]
    simp [h1]
  · by_cases h2 : k < off + n
    · rw [List.getElem?_append_left (by simp; omega), List.getElem?_append_right (by simp; omega)]
      simp only [h1, h2, if_false, if_true, List.length_take]
      congr 2; omega
    · rw [List.getElem?_append_right (by simp; omega)]
      simp only [h1, h2, if_false, List.length_append, List.length_take, List.getElem?_drop, hn]
      congr 2; omega

end BS.Frame
