import BS.Model.Exec
import BS.Properties.C09
import BS.Properties.C10
import BS.Properties.C17
/-!
Simulation between `Exec` (any valid strategy) and `Sem`: helper relations and the
per-operator lemmas.  The statements users rely on are in `BS.Properties.C01`/`C04`.
-/
namespace BS.Exec
open BS.Prog BS.KV BS.Part BS.Sem BS.Reader

/-! ### lists related element-wise -/

inductive All2 {α β} (R : α → β → Prop) : List α → List β → Prop
  | nil : All2 R [] []
  | cons {a b as bs} : R a b → All2 R as bs → All2 R (a :: as) (b :: bs)

theorem All2.length_eq {α β} {R : α → β → Prop} {xs ys} (h : All2 R xs ys) : xs.length = ys.length := by
  induction h with
  | nil => rfl
  | cons _ _ ih => simp [ih]

theorem All2.refl {α} {R : α → α → Prop} (hr : ∀ x, R x x) : ∀ xs, All2 R xs xs
  | [] => .nil
  | x :: xs => .cons (hr x) (All2.refl hr xs)

theorem All2.imp {α β} {R S : α → β → Prop} (hi : ∀ x y, R x y → S x y) {xs ys} (h : All2 R xs ys) : All2 S xs ys := by
  induction h with
  | nil => exact .nil
  | cons h _ ih => exact .cons (hi _ _ h) ih

theorem All2.map {α β γ δ} {R : α → β → Prop} {S : γ → δ → Prop} (f : α → γ) (g : β → δ)
    (hi : ∀ x y, R x y → S (f x) (g y)) {xs ys} (h : All2 R xs ys) : All2 S (xs.map f) (ys.map g) := by
  induction h with
  | nil => exact .nil
  | cons h _ ih => exact .cons (hi _ _ h) ih

theorem All2.append {α β} {R : α → β → Prop} {xs ys xs' ys'} (h : All2 R xs ys) (h' : All2 R xs' ys') :
    All2 R (xs ++ xs') (ys ++ ys') := by
  induction h with
  | nil => exact h'
  | cons h _ ih => exact .cons h ih

theorem All2.range_map {β γ} {R : β → γ → Prop} (f : Nat → β) (g : Nat → γ) :
    ∀ n, (∀ p, p < n → R (f p) (g p)) → All2 R ((List.range n).map f) ((List.range n).map g) := by
  intro n
  induction n with
  | zero => intro _; exact .nil
  | succ n ih =>
    intro h
    rw [List.range_succ, List.map_append, List.map_append]
    exact (ih fun p hp => h p (by omega)).append (.cons (h n (by omega)) .nil)

theorem All2.getD {α β} {R : α → β → Prop} {xs ys} (h : All2 R xs ys) (a : α) (b : β) (hd : R a b) :
    ∀ p, R (xs.getD p a) (ys.getD p b) := by
  induction h with
  | nil => intro p; simpa using hd
  | cons h _ ih =>
    intro p
    cases p with
    | zero => simpa using h
    | succ p => simpa using ih p

theorem All2.flatten_perm {α} {xs ys : List (List α)} (h : All2 List.Perm xs ys) : xs.flatten.Perm ys.flatten := by
  induction h with
  | nil => exact List.Perm.refl _
  | cons h _ ih => simpa using List.Perm.append h ih

theorem All2.zipIdx {α β} {R : α → β → Prop} {xs ys} (h : All2 R xs ys) :
    ∀ k, All2 (fun x y => R x.1 y.1 ∧ x.2 = y.2) (xs.zipIdx k) (ys.zipIdx k) := by
  induction h with
  | nil => intro k; exact .nil
  | cons h _ ih => intro k; simp only [List.zipIdx_cons]; exact .cons ⟨h, rfl⟩ (ih (k + 1))

theorem imap_const (h : List KV → List KV) (l : List (List KV)) : imap (fun _ => h) l = l.map h := by
  unfold imap
  rw [show (fun x : List KV × Nat => h x.1) = h ∘ Prod.fst from rfl, ← List.map_map, List.zipIdx_map_fst]

/-! ### the pipelined operators drain to their list meaning -/

theorem upFuel_ok (s : Up KV) : Up.mu s + (Up.rem s).length + 3 ≤ upFuel s := by
  unfold Up.mu Up.rem upFuel
  split <;> simp <;> omega

theorem runMap_eq (σ : Strategy) (hσ : σ.Valid) (i p : Nat) (f : KV → KV) (rows : List KV) :
    runMap σ i p f rows = rows.map f := by
  have hM := map_lawful (upRd KV) f Up.rem Up.mu (up_lawful KV)
  have := drain_spec (mapRd (upRd KV) f) _ _ hM (σ.dest i p) (hσ.1 i p) (upFuel (upOf σ i p rows)) 0 (upOf σ i p rows)
    (by have := upFuel_ok (upOf σ i p rows); simp only [List.length_map]; omega)
  unfold runMap
  rw [this]; simp [Up.rem, upOf]

theorem runFilter_eq (σ : Strategy) (hσ : σ.Valid) (i p : Nat) (pr : KV → Bool) (rows : List KV) :
    runFilter σ i p pr rows = rows.filter pr := by
  have hF := filter_lawful (upRd KV) pr Up.rem Up.mu (up_lawful KV) upFuel
    (by intro s; have := upFuel_ok s; omega)
  have := drain_spec (filterRd (upRd KV) pr upFuel) _ _ hF (σ.dest i p) (hσ.1 i p)
    (2 * upFuel (upOf σ i p rows)) 0 ⟨upOf σ i p rows, false⟩
    (by
      have := upFuel_ok (upOf σ i p rows)
      have hl : (List.filter pr (Up.rem (upOf σ i p rows))).length ≤ (Up.rem (upOf σ i p rows)).length :=
        List.length_filter_le _ _
      simp only [Bool.false_eq_true, if_false]
      omega)
  unfold runFilter
  rw [this]; simp [Up.rem, upOf]

theorem runFlat_eq (σ : Strategy) (hσ : σ.Valid) (i p : Nat) (g : KV → List KV) (rows : List KV) :
    runFlat σ i p g rows = rows.flatMap g := by
  have hF := flat_lawful (upRd KV) g Up.rem Up.mu (up_lawful KV) upFuel upFuel_ok
  have := drain_spec (flatRd (upRd KV) g upFuel) _ _ hF (σ.dest i p) (hσ.1 i p)
    ((rows.flatMap g).length + 1) 0 ⟨upOf σ i p rows, [], [], false⟩ (by simp [Up.rem, upOf])
  unfold runFlat
  rw [this]; simp [Up.rem, upOf]

theorem runHead_eq (σ : Strategy) (hσ : σ.Valid) (i p n : Nat) (rows : List KV) :
    runHead σ i p n rows = rows.take n := by
  have hH := head_lawful (upRd KV) Up.rem Up.mu (up_lawful KV)
  have := drain_spec (headRd (upRd KV)) _ _ hH (σ.dest i p) (hσ.1 i p) (upFuel (upOf σ i p rows)) 0
    ⟨upOf σ i p rows, n⟩
    (by
      have := upFuel_ok (upOf σ i p rows)
      have hl : ((Up.rem (upOf σ i p rows)).take n).length ≤ (Up.rem (upOf σ i p rows)).length := by
        rw [List.length_take]; omega
      simp only
      omega)
  unfold runHead
  rw [this]; simp [Up.rem, upOf]

/-! ### the combine functions of the program language are commutative and associative -/

theorem combFn_cases (c : String) :
    combFn c = (fun a b => if a > b then a else b) ∨ combFn c = (fun a b => a + b) := by
  unfold combFn; split
  · exact Or.inl rfl
  · exact Or.inr rfl

theorem combFn_comm (c : String) (a b : Int) : combFn c a b = combFn c b a := by
  rcases combFn_cases c with h | h <;> rw [h] <;> simp only
  · split <;> split <;> omega
  · omega

theorem combFn_assoc (c : String) (a b d : Int) : combFn c (combFn c a b) d = combFn c a (combFn c b d) := by
  rcases combFn_cases c with h | h <;> rw [h] <;> simp only
  · split <;> split <;> (try split) <;> (try split) <;> omega
  · omega

/-! ### shuffles -/

theorem partsOf_flatten (f : KV → Nat) (s : List (List KV)) (p : Nat) : (partsOf f s p).flatten = partOf f s p := by
  unfold partsOf partOf
  rw [List.filter_flatten]

theorem arrive_perm (σ : Strategy) (hσ : σ.Valid) (i d : Nat) (f : KV → Nat) (s s' : List (List KV)) (p : Nat)
    (h : All2 List.Perm s s') : (arrive σ i d f s p).flatten.Perm (partOf f s' p) := by
  unfold arrive
  refine (hσ.2 i d p _).trans ?_
  rw [partsOf_flatten]
  unfold partOf
  exact List.Perm.filter _ h.flatten_perm

end BS.Exec

namespace BS.Exec
open BS.Prog BS.KV BS.Part BS.Sem BS.Reader

/-! ### the simulation relation -/

/-- two shards agree: identical where the program fixes the order, equal as multisets otherwise -/
def RowsSim (o : Bool) (x y : List KV) : Prop := if o then x = y else x.Perm y

theorem RowsSim.perm {o x y} (h : RowsSim o x y) : x.Perm y := by
  unfold RowsSim at h; split at h
  · rw [h]
  · exact h

theorem RowsSim.rfl' (o : Bool) (x : List KV) : RowsSim o x x := by
  unfold RowsSim; split
  · rfl
  · exact List.Perm.refl _

theorem RowsSim.of_eq {o x y} (h : x = y) : RowsSim o x y := h ▸ RowsSim.rfl' o x

structure Sim (a b : Shards) : Prop where
  ord : a.ordered = b.ordered
  rows : All2 (RowsSim a.ordered) a.rows b.rows

theorem Sim.rfl' (a : Shards) : Sim a a := ⟨rfl, All2.refl (RowsSim.rfl' _) _⟩

theorem Sim.perms {a b} (h : Sim a b) : All2 List.Perm a.rows b.rows := h.rows.imp fun _ _ => RowsSim.perm

theorem Sim.len {a b} (h : Sim a b) : a.rows.length = b.rows.length := h.rows.length_eq

theorem getRef_sim {env env' res res' : List Shards} (he : All2 Sim env env') (hr : All2 Sim res res') (r : Ref) :
    Sim (getRef env res r) (getRef env' res' r) := by
  cases r with
  | node i => exact he.getD default default (Sim.rfl' _) i
  | result i => exact hr.getD default default (Sim.rfl' _) i

/-- a per-shard operator that respects multiset equality lifts to `Sim` -/
theorem sim_lift (F : List KV → List KV) (hF : ∀ x y, x.Perm y → (F x).Perm (F y)) {a b : Shards} (h : Sim a b) :
    Sim { a with rows := a.rows.map F } { b with rows := b.rows.map F } := by
  refine ⟨h.ord, ?_⟩
  refine h.rows.map F F ?_
  intro x y hxy
  show RowsSim a.ordered (F x) (F y)
  unfold RowsSim at hxy ⊢
  split
  · rename_i ho; rw [if_pos ho] at hxy; rw [hxy]
  · rename_i ho; rw [if_neg ho] at hxy; exact hF x y hxy

/-- any per-shard operator lifts where the order is fixed -/
theorem sim_lift_ordered (F : List KV → List KV) {a b : Shards} (h : Sim a b) (ho : a.ordered = true) :
    Sim { a with rows := a.rows.map F } { b with rows := b.rows.map F } := by
  refine ⟨h.ord, ?_⟩
  refine h.rows.map F F ?_
  intro x y hxy
  show RowsSim a.ordered (F x) (F y)
  unfold RowsSim at hxy ⊢
  rw [if_pos ho] at hxy ⊢
  rw [hxy]

theorem shuffled_sim (σ : Strategy) (hσ : σ.Valid) (i n : Nat) (f : KV → Nat) {s s' : List (List KV)}
    (h : All2 List.Perm s s') :
    All2 (RowsSim false) (shuffled σ i n f s) (redistribute n f s') := by
  unfold shuffled redistribute
  exact All2.range_map _ _ n fun p _ => arrive_perm σ hσ i 0 f s s' p h

end BS.Exec
