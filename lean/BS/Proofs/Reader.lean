import BS.Model.Reader
/-!
Refinement framework for readers: a reader is *lawful* for an abstraction
`rem : σ → List α` (the rows still to be delivered) and a measure `mu` when every
`read` (i) returns at most `k` rows, (ii) returns a prefix of `rem`, (iii) has
nothing left at EOF, (iv) never increases `mu` and strictly decreases it on an
unproductive non-final read, (v) stays at EOF.  Lawful readers drain to exactly
`rem`, for every sequence of destination sizes ≥ 1.
-/
namespace BS.Reader

structure Lawful {α} (R : Rd α) (rem : R.σ → List α) (mu : R.σ → Nat) : Prop where
  len : ∀ s k, (R.read s k).2.1.length ≤ k
  split : ∀ s k, (R.read s k).2.1 ++ rem (R.read s k).1 = rem s
  eof : ∀ s k, (R.read s k).2.2 = .eof → rem (R.read s k).1 = []
  mono : ∀ s k, mu (R.read s k).1 ≤ mu s
  prog : ∀ s k, 0 < k → (R.read s k).2.1 = [] → (R.read s k).2.2 = .more → mu (R.read s k).1 < mu s
  sticky : ∀ s k, (R.read s k).2.2 = .eof → ∀ k', R.read (R.read s k).1 k' = ((R.read s k).1, [], .eof)

/-- **Drain theorem**: with `mu s + |rem s| + 1` calls a lawful reader delivers exactly `rem s`. -/
theorem drain_spec {α} (R : Rd α) (rem : R.σ → List α) (mu : R.σ → Nat) (h : Lawful R rem mu)
    (dest : Nat → Nat) (hd : ∀ i, 0 < dest i) :
    ∀ (fuel i : Nat) (s : R.σ), mu s + (rem s).length < fuel → drain R dest fuel i s = rem s := by
  intro fuel
  induction fuel with
  | zero => intro i s hf; omega
  | succ fuel ih =>
    intro i s hf
    simp only [drain]
    have hsplit := h.split s (dest i)
    have hmono := h.mono s (dest i)
    cases hst : (R.read s (dest i)).2.2 with
    | eof =>
      simp only
      have := h.eof s (dest i) hst
      rw [this, List.append_nil] at hsplit
      exact hsplit
    | more =>
      simp only
      have hlen : (rem s).length = (R.read s (dest i)).2.1.length + (rem (R.read s (dest i)).1).length := by
        rw [← hsplit, List.length_append]
      rw [ih (i + 1) (R.read s (dest i)).1 ?_]
      · exact hsplit
      · by_cases he : (R.read s (dest i)).2.1 = []
        · have := h.prog s (dest i) (hd i) he hst
          rw [he] at hlen; simp at hlen; omega
        · have : 0 < (R.read s (dest i)).2.1.length := List.length_pos_iff.mpr he
          omega

/-- every call returns at most the requested number of rows -/
theorem drain_calls_bounded {α} (R : Rd α) (rem : R.σ → List α) (mu : R.σ → Nat) (h : Lawful R rem mu)
    (s : R.σ) (k : Nat) : (R.read s k).2.1.length ≤ k := h.len s k

/-! ### the scripted upstream is lawful -/

def Up.rem {α} (u : Up α) : List α := if u.ended then [] else u.rest
def Up.mu {α} (u : Up α) : Nat := if u.ended then 0 else u.script.length + 1

theorem take_of_drop_nil {α} (l : List α) (n : Nat) (h : l.drop n = []) : l.take n = l := by
  have := List.take_append_drop n l
  rw [h, List.append_nil] at this
  exact this

theorem up_read_ended {α} (u : Up α) (k : Nat) (h : u.ended = true) : u.read k = (u, [], .eof) := by
  simp [Up.read, h]

theorem up_read_plain {α} (u : Up α) (k : Nat) (h : u.ended = false) (hs : u.script = []) :
    u.read k = if (u.rest.drop k).isEmpty then ({ rest := [], script := [], ended := true }, u.rest.take k, .eof)
      else ({ u with rest := u.rest.drop k }, u.rest.take k, .more) := by
  simp [Up.read, h, hs]

theorem up_read_step {α} (u : Up α) (k m : Nat) (e : Bool) (sc : List (Nat × Bool)) (h : u.ended = false)
    (hs : u.script = (m, e) :: sc) :
    u.read k = if (u.rest.drop (min m k)).isEmpty && e
      then ({ rest := [], script := sc, ended := true }, u.rest.take (min m k), .eof)
      else ({ rest := u.rest.drop (min m k), script := sc, ended := false }, u.rest.take (min m k), .more) := by
  simp [Up.read, h, hs]

/-- case analysis on the three branches of `Up.read` -/
theorem up_cases {α} (u : Up α) (k : Nat) (P : Up α × List α × St → Prop)
    (h1 : u.ended = true → P (u, [], .eof))
    (h2 : u.ended = false → u.script = [] → (u.rest.drop k).isEmpty = true →
      P ({ rest := [], script := [], ended := true }, u.rest.take k, .eof))
    (h3 : u.ended = false → u.script = [] → (u.rest.drop k).isEmpty = false →
      P ({ u with rest := u.rest.drop k }, u.rest.take k, .more))
    (h4 : ∀ m e sc, u.ended = false → u.script = (m, e) :: sc → ((u.rest.drop (min m k)).isEmpty && e) = true →
      P ({ rest := [], script := sc, ended := true }, u.rest.take (min m k), .eof))
    (h5 : ∀ m e sc, u.ended = false → u.script = (m, e) :: sc → ((u.rest.drop (min m k)).isEmpty && e) = false →
      P ({ rest := u.rest.drop (min m k), script := sc, ended := false }, u.rest.take (min m k), .more)) :
    P (u.read k) := by
  cases he : u.ended
  · cases hs : u.script with
    | nil =>
      rw [up_read_plain u k he hs]
      cases hc : (u.rest.drop k).isEmpty
      · simp only [Bool.false_eq_true, if_false]; exact h3 he hs hc
      · simp only [if_true]; exact h2 he hs hc
    | cons p sc =>
      obtain ⟨m, e⟩ := p
      rw [up_read_step u k m e sc he hs]
      cases hc : ((u.rest.drop (min m k)).isEmpty && e)
      · simp only [Bool.false_eq_true, if_false]; exact h5 m e sc he hs hc
      · simp only [if_true]; exact h4 m e sc he hs hc
  · rw [up_read_ended u k he]; exact h1 he

theorem up_lawful (α : Type) : Lawful (upRd α) Up.rem Up.mu := by
  refine ⟨?_, ?_, ?_, ?_, ?_, ?_⟩
  · intro u k
    apply up_cases u k (fun r => r.2.1.length ≤ k)
    · intro _; simp
    · intro _ _ _; simp; omega
    · intro _ _ _; simp; omega
    · intro m e sc _ _ _; simp; omega
    · intro m e sc _ _ _; simp; omega
  · intro u k
    apply up_cases u k (fun r => r.2.1 ++ Up.rem r.1 = Up.rem u)
    · intro h; simp [Up.rem, h]
    · intro h _ hc
      simp only [Up.rem, h, if_true, List.append_nil, Bool.false_eq_true, if_false]
      exact take_of_drop_nil _ _ (by simpa using hc)
    · intro h _ _; simp [Up.rem, h]
    · intro m e sc h _ hc
      simp only [Up.rem, h, if_true, List.append_nil, Bool.false_eq_true, if_false]
      simp only [Bool.and_eq_true, List.isEmpty_iff] at hc
      exact take_of_drop_nil _ _ hc.1
    · intro m e sc h _ _; simp [Up.rem, h]
  · intro u k
    apply up_cases u k (fun r => r.2.2 = .eof → Up.rem r.1 = [])
    · intro h _; simp [Up.rem, h]
    · intro _ _ _ _; simp [Up.rem]
    · intro _ _ _ h; cases h
    · intro m e sc _ _ _ _; simp [Up.rem]
    · intro m e sc _ _ _ h; cases h
  · intro u k
    apply up_cases u k (fun r => Up.mu r.1 ≤ Up.mu u)
    · intro _; exact Nat.le_refl _
    · intro h hs _; simp [Up.mu, h, hs]
    · intro h hs _; simp [Up.mu, h, hs]
    · intro m e sc h hs _; simp [Up.mu, h, hs]
    · intro m e sc h hs _; simp [Up.mu, h, hs]
  · intro u k hk
    apply up_cases u k (fun r => r.2.1 = [] → r.2.2 = .more → Up.mu r.1 < Up.mu u)
    · intro _ _ h; cases h
    · intro _ _ _ _ h; cases h
    · intro _ _ hc he _
      -- without a script a read of k > 0 rows is empty only when nothing is left, which ends the stream
      exfalso
      have hr : u.rest = [] := by
        cases hrest : u.rest with
        | nil => rfl
        | cons a as =>
          rw [hrest] at he
          cases k with
          | zero => omega
          | succ k => simp at he
      simp [hr] at hc
    · intro m e sc _ _ _ _ h; cases h
    · intro m e sc h hs _ _ _; simp [Up.mu, h, hs]
  · intro u k
    apply up_cases u k (fun r => r.2.2 = .eof → ∀ k', Up.read r.1 k' = (r.1, [], .eof))
    · intro h _ k'; exact up_read_ended u k' h
    · intro _ _ _ _ k'; exact up_read_ended _ k' rfl
    · intro _ _ _ h; cases h
    · intro m e sc _ _ _ _ k'; exact up_read_ended _ k' rfl
    · intro m e sc _ _ _ h; cases h

end BS.Reader
