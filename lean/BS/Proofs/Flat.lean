import BS.Proofs.Reader
/-!
flatmapReader: the inner loop, the outer loop and the refinement `flat_lawful`
(the rows still to be delivered are the stash, then the images of the buffered
inputs, then the images of what the upstream still holds).
-/
namespace BS.Reader

theorem flatInner_spec {α β} (g : α → List β) :
    ∀ (inb : List α) (room : Nat) (acc outb : List β), (outb = [] ∨ room = 0) →
      let i := flatInner g inb room acc outb
      i.2.1 ++ i.2.2 ++ i.1.flatMap g = acc ++ outb ++ inb.flatMap g ∧
      acc.length ≤ i.2.1.length ∧ i.2.1.length ≤ acc.length + room ∧
      (i.1 = [] ∨ i.2.1.length = acc.length + room) ∧
      (i.2.2 ≠ [] → i.2.1.length = acc.length + room) := by
  intro inb
  induction inb with
  | nil =>
    intro room acc outb h
    simp only [flatInner, List.flatMap_nil, List.append_nil, ne_eq, true_and, Nat.le_refl, true_or,
      Nat.le_add_right]
    intro hne
    rcases h with h | h
    · exact absurd h hne
    · omega
  | cons x xs ih =>
    intro room acc outb h
    simp only [flatInner]
    split
    · rename_i hr
      dsimp only
      refine ⟨rfl, Nat.le_refl _, by omega, Or.inr (by omega), fun _ => by omega⟩
    · rename_i hr
      have ho : outb = [] := by
        rcases h with h | h
        · exact h
        · exact absurd h hr
      subst ho
      split
      · rename_i hfit
        obtain ⟨a, b, c, d, e⟩ := ih (room - (g x).length) (acc ++ g x) [] (Or.inl rfl)
        simp only [List.length_append] at b c d e
        refine ⟨?_, by omega, by omega, ?_, ?_⟩
        · rw [a]; simp
        · rcases d with d | d
          · exact Or.inl d
          · exact Or.inr (by omega)
        · intro hne; have := e hne; omega
      · rename_i hfit
        have hlen : ((g x).take room).length = room := by
          rw [List.length_take]; omega
        refine ⟨?_, by simp, by simp only [List.length_append, hlen]; omega,
          Or.inr (by simp only [List.length_append, hlen]), fun _ => by simp only [List.length_append, hlen]⟩
        simp only [List.append_nil, List.flatMap_cons, List.append_assoc]
        rw [← List.append_assoc ((g x).take room), List.take_append_drop]

/-- rows still owed by a flatmap reader state -/
def flatRem {α β} {σ : Type} (g : α → List β) (rem : σ → List α) (s : FlatS σ α β) : List β :=
  s.outb ++ s.inb.flatMap g ++ (if s.eof then [] else (rem s.up).flatMap g)

def flatDone {α β} {σ : Type} (s : FlatS σ α β) : Prop := s.eof = true ∧ s.outb = [] ∧ s.inb = []

theorem flatLoop_spec {α β} (U : Rd α) (g : α → List β) (rem : U.σ → List α) (mu : U.σ → Nat)
    (h : Lawful U rem mu) :
    ∀ (fuel k : Nat) (s : U.σ) (inb : List α) (outb : List β) (eof : Bool) (acc : List β),
      (outb = [] ∨ k ≤ acc.length) →
      let r := flatLoop U g fuel k s inb outb eof acc
      r.2 ++ flatRem g rem r.1 = acc ++ flatRem g rem ⟨s, inb, outb, eof⟩ ∧
      (acc.length ≤ k → r.2.length ≤ k) ∧ acc.length ≤ r.2.length ∧
      (((k ≤ acc.length ∧ 1 ≤ fuel) ∨
          1 + (if inb = [] then 0 else 1) + (if eof then 0 else mu s + (rem s).length + 1) ≤ fuel) →
        r.2.length < k → flatDone r.1) := by
  intro fuel
  induction fuel with
  | zero =>
    intro k s inb outb eof acc _
    simp only [flatLoop]
    refine ⟨trivial, fun x => x, Nat.le_refl _, ?_⟩
    intro hf; rcases hf with hf | hf <;> omega
  | succ fuel ih =>
    intro k s inb outb eof acc hpre
    simp only [flatLoop]
    split
    · rename_i hexit
      dsimp only
      refine ⟨rfl, fun x => x, Nat.le_refl _, ?_⟩
      intro _ hlt
      simp only [Bool.or_eq_true, decide_eq_true_eq, Bool.and_eq_true, List.isEmpty_iff] at hexit
      rcases hexit with hx | hx
      · omega
      · rcases hpre with hp | hp
        · exact ⟨hx.1, hp, hx.2⟩
        · omega
    · rename_i hexit
      simp only [Bool.or_eq_true, decide_eq_true_eq, Bool.and_eq_true, List.isEmpty_iff, not_or, not_and] at hexit
      obtain ⟨hroom, hlive⟩ := hexit
      have ho : outb = [] := by
        rcases hpre with hp | hp
        · exact hp
        · omega
      subst ho
      by_cases hin : inb = []
      · -- read the upstream
        subst hin
        simp only [List.isEmpty_nil, if_true]
        have heof : eof = false := by
          cases eof
          · rfl
          · exact absurd rfl (hlive rfl)
        subst heof
        have hsp := h.split s k
        have hmo := h.mono s k
        have hlen : (rem s).length = (U.read s k).2.1.length + (rem (U.read s k).1).length := by
          rw [← hsp, List.length_append]
        obtain ⟨ia, ib, ic, id, ie⟩ := flatInner_spec g (U.read s k).2.1 (k - acc.length) acc [] (Or.inl rfl)
        have hpre' : (flatInner g (U.read s k).2.1 (k - acc.length) acc []).2.2 = [] ∨
            k ≤ (flatInner g (U.read s k).2.1 (k - acc.length) acc []).2.1.length := by
          by_cases hne : (flatInner g (U.read s k).2.1 (k - acc.length) acc []).2.2 = []
          · exact Or.inl hne
          · have := ie hne; exact Or.inr (by omega)
        obtain ⟨ra, rb, rc, rd⟩ := ih k (U.read s k).1 (flatInner g (U.read s k).2.1 (k - acc.length) acc []).1
          (flatInner g (U.read s k).2.1 (k - acc.length) acc []).2.2 ((U.read s k).2.2 == .eof)
          (flatInner g (U.read s k).2.1 (k - acc.length) acc []).2.1 hpre'
        refine ⟨?_, ?_, by omega, ?_⟩
        · rw [ra]
          simp only [flatRem, List.flatMap_nil, List.append_nil, List.nil_append, Bool.false_eq_true, if_false]
          rw [← List.append_assoc, ← List.append_assoc, ia, List.append_nil, ← hsp, List.flatMap_append, List.append_assoc]
          congr 2
          cases hst : (U.read s k).2.2 with
          | eof => simp [h.eof s k hst]
          | more => simp
        · intro hk; exact rb (by omega)
        · intro hf hlt
          apply rd _ hlt
          rcases hf with hf | hf
          · omega
          · simp only [Bool.false_eq_true, if_false] at hf
            rcases id with id | id
            · right
              rw [id]
              simp only [if_true]
              cases hst : (U.read s k).2.2 with
              | eof => simp; omega
              | more =>
                simp only [show (St.more == St.eof) = false from rfl, Bool.false_eq_true, if_false]
                by_cases hem : (U.read s k).2.1 = []
                · have := h.prog s k (by omega) hem hst
                  rw [hem] at hlen; simp at hlen; omega
                · have : 0 < (U.read s k).2.1.length := List.length_pos_iff.mpr hem
                  omega
            · left; omega
      · -- consume buffered input
        have hie : inb.isEmpty = false := by
          cases inb with
          | nil => exact absurd rfl hin
          | cons _ _ => rfl
        simp only [hie, Bool.false_eq_true, if_false]
        obtain ⟨ia, ib, ic, id, ie⟩ := flatInner_spec g inb (k - acc.length) acc [] (Or.inl rfl)
        have hpre' : (flatInner g inb (k - acc.length) acc []).2.2 = [] ∨
            k ≤ (flatInner g inb (k - acc.length) acc []).2.1.length := by
          by_cases hne : (flatInner g inb (k - acc.length) acc []).2.2 = []
          · exact Or.inl hne
          · have := ie hne; exact Or.inr (by omega)
        obtain ⟨ra, rb, rc, rd⟩ := ih k s (flatInner g inb (k - acc.length) acc []).1
          (flatInner g inb (k - acc.length) acc []).2.2 eof
          (flatInner g inb (k - acc.length) acc []).2.1 hpre'
        refine ⟨?_, ?_, by omega, ?_⟩
        · rw [ra]
          simp only [flatRem, List.nil_append]
          rw [← List.append_assoc, ← List.append_assoc, ia]
          simp
        · intro hk; exact rb (by omega)
        · intro hf hlt
          apply rd _ hlt
          rcases hf with hf | hf
          · omega
          · simp only [hin, if_false] at hf
            rcases id with id | id
            · right; rw [id]; simp only [if_true]; omega
            · left; omega

end BS.Reader

namespace BS.Reader

/-- flatmapReader refines `List.flatMap` (for any fuel function that covers the upstream's measure):
a non-final read with room never comes back empty, so the measure is constant. -/
theorem flat_lawful' {α β} (U : Rd α) (g : α → List β) (rem : U.σ → List α) (mu : U.σ → Nat)
    (h : Lawful U rem mu) (fuelOf : U.σ → Nat) (hf : ∀ s, mu s + (rem s).length + 3 ≤ fuelOf s) :
    Lawful (flatRd U g fuelOf) (flatRem g rem) (fun _ => 0) := by
  have hpre : ∀ (s : FlatS U.σ α β) (k : Nat), s.outb.drop k = [] ∨ k ≤ (s.outb.take k).length := by
    intro s k
    by_cases hd : s.outb.drop k = []
    · exact Or.inl hd
    · right
      rw [List.length_take]
      have : k < s.outb.length := by
        rcases Nat.lt_or_ge k s.outb.length with hlt | hge
        · exact hlt
        · exact absurd (List.drop_eq_nil_of_le hge) hd
      omega
  have hfuel : ∀ (s : FlatS U.σ α β),
      1 + (if s.inb = [] then 0 else 1) + (if s.eof then 0 else mu s.up + (rem s.up).length + 1) ≤ fuelOf s.up := by
    intro s
    have := hf s.up
    split <;> split <;> omega
  refine ⟨?_, ?_, ?_, ?_, ?_, ?_⟩
  · intro (s : FlatS U.σ α β) k
    obtain ⟨_, b, _, _⟩ := flatLoop_spec U g rem mu h (fuelOf s.up) k s.up s.inb (s.outb.drop k) s.eof (s.outb.take k) (hpre s k)
    exact b (by rw [List.length_take]; omega)
  · intro (s : FlatS U.σ α β) k
    obtain ⟨a, _, _, _⟩ := flatLoop_spec U g rem mu h (fuelOf s.up) k s.up s.inb (s.outb.drop k) s.eof (s.outb.take k) (hpre s k)
    simp only [flatRd]
    rw [a]
    simp only [flatRem]
    rw [← List.append_assoc, ← List.append_assoc, List.take_append_drop]
  · intro (s : FlatS U.σ α β) k he
    simp only [flatRd] at he ⊢
    split at he
    · rename_i hd
      simp only [Bool.and_eq_true, List.isEmpty_iff] at hd
      simp [flatRem, hd.1.1, hd.1.2, hd.2]
    · cases he
  · intro s k; exact Nat.le_refl _
  · intro (s : FlatS U.σ α β) k hk he hm
    exfalso
    obtain ⟨_, _, _, d⟩ := flatLoop_spec U g rem mu h (fuelOf s.up) k s.up s.inb (s.outb.drop k) s.eof (s.outb.take k) (hpre s k)
    simp only [flatRd] at he hm
    have hdone := d (Or.inr (hfuel s)) (by rw [he]; exact hk)
    obtain ⟨d1, d2, d3⟩ := hdone
    simp [d1, d2, d3] at hm
  · intro (s : FlatS U.σ α β) k he k'
    simp only [flatRd] at he
    split at he
    · rename_i hd
      simp only [Bool.and_eq_true, List.isEmpty_iff] at hd
      obtain ⟨⟨d1, d2⟩, d3⟩ := hd
      simp only [flatRd]
      generalize flatLoop U g (fuelOf s.up) k s.up s.inb (List.drop k s.outb) s.eof (List.take k s.outb) = r at d1 d2 d3
      obtain ⟨⟨up, inb, outb, eof⟩, acc⟩ := r
      simp only at d1 d2 d3
      subst d1 d2 d3
      cases hfu : fuelOf up <;> simp [flatLoop]
    · cases he

end BS.Reader
