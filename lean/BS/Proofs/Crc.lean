import BS.Model.Crc
/-! Proofs about the CRC-32 register (`BS.Crc`): the shift is linear and injective, a single set bit travels down one
place per shift, hence at most 32 message bits fed into equal registers leave them different unless the bits are equal;
equal suffixes keep different registers different. -/
namespace BS.Crc

theorem f_zero : f 0#32 = 0#32 := by decide

theorem xor_cancel (a b p : BitVec 32) : a ^^^ p ^^^ (b ^^^ p) = a ^^^ b := by
  ext i hi
  simp only [BitVec.getElem_xor]
  cases a[i] <;> cases b[i] <;> cases p[i] <;> rfl

theorem f_xor (x y : BitVec 32) : f (x ^^^ y) = f x ^^^ f y := by
  unfold f
  rw [BitVec.getLsbD_xor]
  cases hx : x.getLsbD 0 <;> cases hy : y.getLsbD 0 <;> simp [BitVec.ushiftRight_xor_distrib]
  · ac_rfl
  · ac_rfl
  · exact (xor_cancel _ _ _).symm

theorem f_inj0 (x : BitVec 32) (h : f x = 0#32) : x = 0#32 := by
  unfold f at h
  by_cases hl : x.getLsbD 0 = true
  · rw [if_pos hl] at h
    have h31 : ((x >>> 1) ^^^ P).getLsbD 31 = true := by
      rw [BitVec.getLsbD_xor, BitVec.getLsbD_ushiftRight]
      have : x.getLsbD (1 + 31) = false := BitVec.getLsbD_of_ge _ _ (by omega)
      rw [this]; decide
    rw [h] at h31
    simp at h31
  · rw [if_neg hl] at h
    ext i hi
    cases i with
    | zero =>
      have : x.getLsbD 0 = false := by simpa using hl
      simpa [BitVec.getLsbD_eq_getElem hi] using this
    | succ i =>
      have : (x >>> 1).getLsbD i = false := by rw [h]; simp
      rw [BitVec.getLsbD_ushiftRight] at this
      have h2 : x.getLsbD (i + 1) = false := by rw [Nat.add_comm]; exact this
      simpa [BitVec.getLsbD_eq_getElem hi] using h2

def iter (k : Nat) (x : BitVec 32) : BitVec 32 :=
  match k with
  | 0 => x
  | k+1 => f (iter k x)

theorem iter_xor (k : Nat) (x y : BitVec 32) : iter k (x ^^^ y) = iter k x ^^^ iter k y := by
  induction k with
  | zero => rfl
  | succ k ih => simp only [iter, ih, f_xor]

theorem iter_zero (k : Nat) : iter k 0#32 = 0#32 := by
  induction k with
  | zero => rfl
  | succ k ih => simp only [iter, ih, f_zero]

theorem iter_inj0 (k : Nat) (x : BitVec 32) (h : iter k x = 0#32) : x = 0#32 := by
  induction k with
  | zero => exact h
  | succ k ih => exact ih (f_inj0 _ h)

/-- `f` moves a single set bit one place down (until it reaches place 0) -/
theorem f_twoPow : ∀ j : Fin 32, 1 ≤ j.val → f (BitVec.twoPow 32 j.val) = BitVec.twoPow 32 (j.val - 1) := by decide

theorem iter_succ' (k : Nat) (x : BitVec 32) : iter (k + 1) x = iter k (f x) := by
  induction k with
  | zero => rfl
  | succ k ih => simp only [iter] at ih ⊢; rw [ih]

theorem iter_twoPow (j : Nat) (hj : j < 32) : iter j (BitVec.twoPow 32 j) = 1#32 := by
  induction j with
  | zero => decide
  | succ j ih =>
    rw [iter_succ', f_twoPow ⟨j + 1, hj⟩ (by simp)]
    exact ih (by omega)

/-! ### the difference of two runs -/

theorem bit_xor (a b : Bool) : bit (a ^^ b) = bit a ^^^ bit b := by
  cases a <;> cases b <;> decide

theorem run_xor (m m' : List Bool) (h : m.length = m'.length) (a b : BitVec 32) :
    run a m ^^^ run b m' = run (a ^^^ b) (List.zipWith (· ^^ ·) m m') := by
  induction m generalizing m' a b with
  | nil => cases m' with
    | nil => rfl
    | cons _ _ => simp at h
  | cons x m ih =>
    cases m' with
    | nil => simp at h
    | cons y m' =>
      simp only [run, List.foldl_cons, List.zipWith_cons_cons] at ih ⊢
      rw [ih m' (by simpa using h)]
      congr 1
      simp only [step, bit_xor, ← f_xor]
      congr 1
      ext i hi
      simp only [BitVec.getElem_xor]
      cases a[i] <;> cases b[i] <;> cases (bit x)[i] <;> cases (bit y)[i] <;> rfl

/-- the word whose bit `j + i` is `es[i]` -/
def wordAt (j : Nat) : List Bool → BitVec 32
  | [] => 0#32
  | e :: es => (if e then BitVec.twoPow 32 j else 0#32) ^^^ wordAt (j + 1) es

/-- feeding at most 32 bits into a register that is `j` steps past `X` -/
theorem run_window : ∀ (es : List Bool) (j : Nat) (X : BitVec 32), j + es.length ≤ 32 →
    run (iter j X) es = iter (j + es.length) (X ^^^ wordAt j es) := by
  intro es
  induction es with
  | nil => intro j X _; simp [run, wordAt]
  | cons e es ih =>
    intro j X h
    simp only [List.length_cons] at h
    have hb : bit e = iter j (if e then BitVec.twoPow 32 j else 0#32) := by
      cases e with
      | false => simp [bit, iter_zero]
      | true => simp [bit, iter_twoPow j (by omega)]
    have : run (iter j X) (e :: es) = run (iter (j + 1) (X ^^^ (if e then BitVec.twoPow 32 j else 0#32))) es := by
      simp only [run, List.foldl_cons, step, iter, hb, ← iter_xor]
    rw [this, ih (j + 1) _ (by omega)]
    simp only [wordAt, List.length_cons]
    congr 1
    · omega
    · ac_rfl

theorem wordAt_low (es : List Bool) : ∀ (j n : Nat), n < j → (wordAt j es).getLsbD n = false := by
  induction es with
  | nil => intro j n _; simp [wordAt]
  | cons e es ih =>
    intro j n hn
    simp only [wordAt, BitVec.getLsbD_xor]
    rw [ih (j + 1) n (by omega)]
    cases e <;> simp [BitVec.getLsbD_twoPow]
    omega

theorem wordAt_eq_zero : ∀ (es : List Bool) (j : Nat), j + es.length ≤ 32 → wordAt j es = 0#32 → ∀ e ∈ es, e = false := by
  intro es
  induction es with
  | nil => intro j _ _ e he; simp at he
  | cons e es ih =>
    intro j hl h
    simp only [List.length_cons] at hl
    have hbit : (wordAt j (e :: es)).getLsbD j = false := by rw [h]; simp
    simp only [wordAt, BitVec.getLsbD_xor, wordAt_low es (j + 1) j (by omega), Bool.xor_false] at hbit
    have he : e = false := by
      cases e with
      | false => rfl
      | true => simp [BitVec.getLsbD_twoPow] at hbit; omega
    subst he
    have h' : wordAt (j + 1) es = 0#32 := by simpa [wordAt] using h
    intro x hx
    rcases List.mem_cons.mp hx with rfl | hx
    · rfl
    · exact ih (j + 1) (by omega) h' x hx

end BS.Crc

namespace BS.Crc

theorem step_false (D : BitVec 32) : step D false = f D := by simp [step, bit]

theorem run_falses (n : Nat) (D : BitVec 32) : run D (List.replicate n false) = iter n D := by
  induction n generalizing D with
  | zero => rfl
  | succ n ih =>
    simp only [List.replicate_succ, run, List.foldl_cons, step_false] at ih ⊢
    rw [ih, ← iter_succ']

theorem zip_self (l : List Bool) : List.zipWith (· ^^ ·) l l = List.replicate l.length false := by
  induction l with
  | nil => rfl
  | cons a l ih =>
    rw [List.zipWith_cons_cons, ih, List.length_cons, List.replicate_succ, Bool.xor_self]

theorem xor_eq_zero {a b : BitVec 32} (h : a ^^^ b = 0#32) : a = b := by
  ext i hi
  have : (a ^^^ b)[i] = false := by rw [h]; simp
  simp only [BitVec.getElem_xor] at this
  cases ha : a[i] <;> cases hb : b[i] <;> simp_all

theorem run_ne_of_ne (a b : BitVec 32) (suf : List Bool) (h : a ≠ b) : run a suf ≠ run b suf := by
  intro he
  have h0 : run a suf ^^^ run b suf = 0#32 := by rw [he]; exact BitVec.xor_self
  rw [run_xor suf suf rfl, zip_self, run_falses] at h0
  exact h (xor_eq_zero (iter_inj0 _ _ h0))

theorem zip_false {w w' : List Bool} (hl : w.length = w'.length)
    (h : ∀ e ∈ List.zipWith (· ^^ ·) w w', e = false) : w = w' := by
  induction w generalizing w' with
  | nil => cases w' with
    | nil => rfl
    | cons _ _ => simp at hl
  | cons a w ih =>
    cases w' with
    | nil => simp at hl
    | cons b w' =>
      simp only [List.zipWith_cons_cons, List.mem_cons, forall_eq_or_imp] at h
      have hab : a = b := by cases a <;> cases b <;> simp_all
      rw [hab, ih (by simpa using hl) h.2]

/-- two equally long windows of at most 32 bits, fed from the same state, leave different states unless they are equal -/
theorem window_ne (t : BitVec 32) (w w' : List Bool) (hl : w.length = w'.length) (h32 : w.length ≤ 32) (hne : w ≠ w') :
    run t w ≠ run t w' := by
  intro he
  have h0 : run t w ^^^ run t w' = 0#32 := by rw [he]; exact BitVec.xor_self
  rw [run_xor w w' hl, BitVec.xor_self] at h0
  have hlen : (List.zipWith (· ^^ ·) w w').length ≤ 32 := by simp [List.length_zipWith]; omega
  have := run_window (List.zipWith (· ^^ ·) w w') 0 0#32 (by omega)
  simp only [iter] at this
  rw [this] at h0
  have hw := iter_inj0 _ _ h0
  rw [BitVec.zero_xor] at hw
  exact hne (zip_false hl (wordAt_eq_zero _ 0 (by omega) hw))

/-- **burst detection at the bit level**: two messages that agree outside a window of at most 32 bits and differ inside
it leave the register in different states, from every start state and for every prefix and suffix -/
theorem burst_detected (s : BitVec 32) (pre suf w w' : List Bool) (hl : w.length = w'.length) (h32 : w.length ≤ 32)
    (hne : w ≠ w') : run s (pre ++ w ++ suf) ≠ run s (pre ++ w' ++ suf) := by
  simp only [run, List.foldl_append]
  exact run_ne_of_ne _ _ suf (window_ne _ w w' hl h32 hne)

/-! ### bytes -/

theorem bitsOfByte_length (b : BitVec 8) : (bitsOfByte b).length = 8 := by simp [bitsOfByte]

theorem bitsOfByte_inj {a b : BitVec 8} (h : bitsOfByte a = bitsOfByte b) : a = b := by
  apply BitVec.eq_of_getLsbD_eq
  intro i hi
  have : (bitsOfByte a)[i]? = (bitsOfByte b)[i]? := by rw [h]
  simpa [bitsOfByte, hi] using this

theorem bits_length (w : List (BitVec 8)) : (w.flatMap bitsOfByte).length = 8 * w.length := by
  induction w with
  | nil => rfl
  | cons a w ih => simp [List.flatMap_cons, bitsOfByte_length, ih]; omega

theorem bits_inj : ∀ {w w' : List (BitVec 8)}, w.length = w'.length → w.flatMap bitsOfByte = w'.flatMap bitsOfByte → w = w' := by
  intro w
  induction w with
  | nil => intro w' hl _; cases w' with
    | nil => rfl
    | cons _ _ => simp at hl
  | cons a w ih =>
    intro w' hl h
    cases w' with
    | nil => simp at hl
    | cons b w' =>
      simp only [List.flatMap_cons] at h
      have := List.append_inj h (by simp [bitsOfByte_length])
      rw [bitsOfByte_inj this.1, ih (by simpa using hl) this.2]

/-- **burst detection at the byte level**: damage confined to at most four consecutive bytes changes the checksum -/
theorem crc32_burst (pre suf w w' : List (BitVec 8)) (hl : w.length = w'.length) (h4 : w.length ≤ 4) (hne : w ≠ w') :
    crc32 (pre ++ w ++ suf) ≠ crc32 (pre ++ w' ++ suf) := by
  unfold crc32
  intro h
  have h' := BitVec.not_inj.mp h
  simp only [List.flatMap_append] at h'
  refine burst_detected _ _ _ _ _ ?_ ?_ ?_ h'
  · rw [bits_length, bits_length, hl]
  · rw [bits_length]; omega
  · intro hb; exact hne (bits_inj hl hb)

end BS.Crc
