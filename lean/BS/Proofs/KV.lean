import BS.Model.KV
namespace BS.KV

theorem insertKV_keys (comb) (k v : Int) (m : List KV) (x : KV) (h : x ∈ insertKV comb k v m) :
    x.1 = k ∨ ∃ y ∈ m, y.1 = x.1 := by
  induction m with
  | nil => simp [insertKV] at h; exact Or.inl (by rw [h])
  | cons p ps ih =>
    obtain ⟨k', v'⟩ := p
    simp only [insertKV] at h
    split at h
    · rcases List.mem_cons.mp h with rfl | h
      · exact Or.inl rfl
      · exact Or.inr ⟨x, h, rfl⟩
    · split at h
      · rename_i _ he
        rcases List.mem_cons.mp h with rfl | h
        · exact Or.inr ⟨(k', v'), by simp, rfl⟩
        · exact Or.inr ⟨x, by simp [h], rfl⟩
      · rcases List.mem_cons.mp h with rfl | h
        · exact Or.inr ⟨(k', v'), by simp, rfl⟩
        · rcases ih h with e | ⟨y, hy, e⟩
          · exact Or.inl e
          · exact Or.inr ⟨y, by simp [hy], e⟩

/-- inserting keeps the list strictly sorted by key (one row per key) -/
theorem insertKV_strict (comb) (k v : Int) (m : List KV) (h : StrictSorted m) :
    StrictSorted (insertKV comb k v m) := by
  induction m with
  | nil => simp [insertKV, StrictSorted]
  | cons p ps ih =>
    obtain ⟨k', v'⟩ := p
    unfold StrictSorted at h ⊢
    rw [List.pairwise_cons] at h
    simp only [insertKV]
    split
    · rename_i hlt
      rw [List.pairwise_cons]
      refine ⟨?_, List.pairwise_cons.mpr h⟩
      intro a ha
      rcases List.mem_cons.mp ha with rfl | ha
      · exact hlt
      · have := h.1 a ha; simp only at this ⊢; omega
    · split
      · rw [List.pairwise_cons]; exact ⟨h.1, h.2⟩
      · rename_i hnlt hne
        rw [List.pairwise_cons]
        refine ⟨?_, ih h.2⟩
        intro a ha
        rcases insertKV_keys comb k v ps a ha with e | ⟨y, hy, e⟩
        · simp only; omega
        · have := h.1 y hy; simp only at this ⊢; omega

theorem foldl_insert_strict (comb) (rows : List KV) (m : List KV) (h : StrictSorted m) :
    StrictSorted (rows.foldl (fun m r => insertKV comb r.1 r.2 m) m) := by
  induction rows generalizing m with
  | nil => exact h
  | cons r rs ih => exact ih _ (insertKV_strict comb r.1 r.2 m h)

theorem ins_lt (comb) (k v k' v' : Int) (r : List KV) (h : k < k') :
    insertKV comb k v ((k', v') :: r) = (k, v) :: (k', v') :: r := by simp [insertKV, h]
theorem ins_eq (comb) (v k' v' : Int) (r : List KV) :
    insertKV comb k' v ((k', v') :: r) = (k', comb v' v) :: r := by simp [insertKV]
theorem ins_gt (comb) (k v k' v' : Int) (r : List KV) (h : k' < k) :
    insertKV comb k v ((k', v') :: r) = (k', v') :: insertKV comb k v r := by
  have h1 : ¬ k < k' := by omega
  have h2 : ¬ k = k' := by omega
  simp [insertKV, h1, h2]

/-- for a commutative, associative combine function two insertions commute -/
theorem insertKV_comm (comb : Int → Int → Int) (hc : ∀ a b, comb a b = comb b a)
    (ha : ∀ a b c, comb (comb a b) c = comb a (comb b c)) (k₁ v₁ k₂ v₂ : Int) (m : List KV) :
    insertKV comb k₁ v₁ (insertKV comb k₂ v₂ m) = insertKV comb k₂ v₂ (insertKV comb k₁ v₁ m) := by
  induction m with
  | nil =>
    rcases Int.lt_trichotomy k₁ k₂ with h | h | h
    · have n1 : ¬ k₂ < k₁ := by omega
      have n2 : ¬ k₂ = k₁ := by omega
      simp [insertKV, h, n1, n2]
    · subst h; simp [insertKV, hc]
    · have n1 : ¬ k₁ < k₂ := by omega
      have n2 : ¬ k₁ = k₂ := by omega
      simp [insertKV, h, n1, n2]
  | cons p ps ih =>
    obtain ⟨k', v'⟩ := p
    have key : comb (comb v' v₂) v₁ = comb (comb v' v₁) v₂ := by rw [ha, ha, hc v₂ v₁]
    rcases Int.lt_trichotomy k₁ k' with a | a | a <;> rcases Int.lt_trichotomy k₂ k' with b | b | b
    · rw [ins_lt _ _ _ _ _ _ b, ins_lt _ _ _ _ _ _ a]
      rcases Int.lt_trichotomy k₁ k₂ with c | c | c
      · rw [ins_lt _ _ _ _ _ _ c, ins_gt _ _ _ _ _ _ c, ins_lt _ _ _ _ _ _ b]
      · subst c; rw [ins_eq, ins_eq, hc]
      · rw [ins_gt _ _ _ _ _ _ c, ins_lt _ _ _ _ _ _ c, ins_lt _ _ _ _ _ _ a]
    · subst b
      rw [ins_eq, ins_lt _ _ _ _ _ _ a, ins_lt _ _ _ _ _ _ a, ins_gt _ _ _ _ _ _ a, ins_eq]
    · rw [ins_gt _ _ _ _ _ _ b, ins_lt _ _ _ _ _ _ a, ins_lt _ _ _ _ _ _ a,
        ins_gt _ _ _ _ _ _ (show k₁ < k₂ by omega), ins_gt _ _ _ _ _ _ b]
    · subst a
      rw [ins_lt _ _ _ _ _ _ b, ins_eq, ins_gt _ _ _ _ _ _ b, ins_eq, ins_lt _ _ _ _ _ _ b]
    · subst a; subst b
      rw [ins_eq, ins_eq, ins_eq, ins_eq, key]
    · subst a
      rw [ins_gt _ _ _ _ _ _ b, ins_eq, ins_eq, ins_gt _ _ _ _ _ _ b]
    · rw [ins_lt _ _ _ _ _ _ b, ins_gt _ _ _ _ _ _ a, ins_gt _ _ _ _ _ _ (show k₂ < k₁ by omega),
        ins_gt _ _ _ _ _ _ a, ins_lt _ _ _ _ _ _ b]
    · subst b
      rw [ins_eq, ins_gt _ _ _ _ _ _ a, ins_gt _ _ _ _ _ _ a, ins_eq]
    · rw [ins_gt _ _ _ _ _ _ b, ins_gt _ _ _ _ _ _ a, ins_gt _ _ _ _ _ _ a, ins_gt _ _ _ _ _ _ b, ih]

theorem foldl_insert_comm (comb) (hc : ∀ a b, comb a b = comb b a) (ha : ∀ a b c, comb (comb a b) c = comb a (comb b c))
    (rows : List KV) (k v : Int) (m : List KV) :
    rows.foldl (fun m r => insertKV comb r.1 r.2 m) (insertKV comb k v m)
      = insertKV comb k v (rows.foldl (fun m r => insertKV comb r.1 r.2 m) m) := by
  induction rows generalizing m with
  | nil => rfl
  | cons r rs ih =>
    simp only [List.foldl_cons]
    rw [insertKV_comm comb hc ha, ih]

end BS.KV
