import BS.Model.Table
import BS.Proofs.Probe
import BS.Proofs.KV
import Mathlib.Data.Fintype.Card
import Mathlib.Data.Fintype.EquivFin
import Mathlib.Data.Nat.ModEq
import Mathlib.Tactic.Ring
import Mathlib.Tactic.Linarith
/-!
Proofs about the combining frame's hash table (BS.Model.Table): the probe sequence visits every slot, so the probe
loop terminates at the key's slot or at an empty slot; `insert` maintains the table invariant and acts on the
key ↦ value map like `insertKV` acts on the keyed fold.  (Proof module: imports Mathlib.)
-/
namespace BS.Table
open BS.KV

theorem tri_even (t : Nat) : 2 ∣ t * (t + 1) := by
  rcases Nat.even_or_odd t with ⟨a, ha⟩ | ⟨a, ha⟩
  · exact ⟨a * (t + 1), by rw [ha]; ring⟩
  · exact ⟨t * (a + 1), by rw [ha]; ring⟩

theorem tri_succ (t : Nat) : (t + 1) * (t + 1 + 1) / 2 = t * (t + 1) / 2 + (t + 1) := by
  have : (t + 1) * (t + 1 + 1) = t * (t + 1) + 2 * (t + 1) := by ring
  rw [this, Nat.add_mul_div_left _ _ (by norm_num)]

/-- the closed form is what the code's recurrence computes -/
theorem pidxRec_eq (h : Int → Nat) (cap : Nat) (k : Int) (t : Nat) : pidxRec h cap k t = pidx h cap k t := by
  induction t with
  | zero => simp [pidxRec, pidx]
  | succ t ih =>
    simp only [pidxRec, ih, pidx]
    rw [tri_succ, Nat.add_mod, Nat.mod_mod, ← Nat.add_mod, Nat.add_assoc]

/-- distinct tries below the capacity probe distinct slots (capacity a power of two) -/
theorem pidx_inj (h : Int → Nat) (m : Nat) (k : Int) (i j : Nat) (hi : i < 2 ^ m) (hj : j < 2 ^ m)
    (he : pidx h (2 ^ m) k i = pidx h (2 ^ m) k j) : i = j := by
  by_contra hne
  -- wlog j < i
  have key : ∀ i j : Nat, i < 2 ^ m → j < 2 ^ m → j < i → pidx h (2 ^ m) k i = pidx h (2 ^ m) k j → False := by
    intro i j hi hj hji he
    unfold pidx at he
    have hmono : j * (j + 1) / 2 ≤ i * (i + 1) / 2 := by
      apply Nat.div_le_div_right
      exact Nat.mul_le_mul (by omega) (by omega)
    have hd : 2 ^ m ∣ (h k + i * (i + 1) / 2) - (h k + j * (j + 1) / 2) :=
      Nat.dvd_of_mod_eq_zero (Nat.sub_mod_eq_zero_of_mod_eq he)
    have hsub : (h k + i * (i + 1) / 2) - (h k + j * (j + 1) / 2) = i * (i + 1) / 2 - j * (j + 1) / 2 := by omega
    rw [hsub] at hd
    obtain ⟨a, ha⟩ := tri_even i
    obtain ⟨b, hb⟩ := tri_even j
    have hia : i * (i + 1) / 2 = a := by rw [ha]; simp
    have hjb : j * (j + 1) / 2 = b := by rw [hb]; simp
    rw [hia, hjb] at hd hmono
    have h2 : 2 ^ (m + 1) ∣ BS.Probe.tri2 i - BS.Probe.tri2 j := by
      unfold BS.Probe.tri2
      rw [ha, hb, ← Nat.mul_sub, pow_succ, Nat.mul_comm (2 ^ m) 2]
      exact Nat.mul_dvd_mul_left 2 hd
    exact BS.Probe.tri_inj m i j hi hj hji h2
  rcases Nat.lt_or_gt_of_ne hne with hlt | hgt
  · exact key j i hj hi hlt he.symm
  · exact key i j hi hj hgt he

/-- … hence every slot is probed within `cap` tries -/
theorem pidx_surj (h : Int → Nat) (m : Nat) (k : Int) (e : Nat) (he : e < 2 ^ m) : ∃ t, t < 2 ^ m ∧ pidx h (2 ^ m) k t = e := by
  have hpos : 0 < 2 ^ m := Nat.two_pow_pos m
  let f : Fin (2 ^ m) → Fin (2 ^ m) := fun t => ⟨pidx h (2 ^ m) k t, Nat.mod_lt _ hpos⟩
  have hinj : Function.Injective f := by
    intro a b hab
    have := congrArg Fin.val hab
    exact Fin.ext (pidx_inj h m k a b a.2 b.2 this)
  obtain ⟨t, ht⟩ := (Finite.injective_iff_surjective.mp hinj) ⟨e, he⟩
  exact ⟨t, t.2, congrArg Fin.val ht⟩

end BS.Table

namespace BS.Table
open BS.KV

/-- number of occupied slots -/
def occ (tb : T) : Nat := ((Finset.range tb.cap).filter fun j => (tb.slots j).isSome).card

/-- the table invariant: capacity a power of two, nothing outside it, one slot per key, and every entry is reachable
from its key's first probe through slots holding other keys (no deletion ever punches a hole into a probe path) -/
structure Inv (h : Int → Nat) (tb : T) : Prop where
  pow : ∃ m, tb.cap = 2 ^ m
  bound : ∀ i, tb.cap ≤ i → tb.slots i = none
  uniq : ∀ i j a b, tb.slots i = some a → tb.slots j = some b → a.1 = b.1 → i = j
  reach : ∀ s a, tb.slots s = some a → ∃ t, t < tb.cap ∧ pidx h tb.cap a.1 t = s ∧
    ∀ t', t' < t → ∃ b, tb.slots (pidx h tb.cap a.1 t') = some b ∧ b.1 ≠ a.1
  lenok : tb.len = occ tb

def HasFree (tb : T) : Prop := ∃ e, e < tb.cap ∧ tb.slots e = none

/-- slot `pidx k t` holds another key -/
def Other (h : Int → Nat) (tb : T) (k : Int) (t : Nat) : Prop :=
  ∃ b, tb.slots (pidx h tb.cap k t) = some b ∧ b.1 ≠ k

theorem probe_walk (h : Int → Nat) (tb : T) (k : Int) (te : Nat) (hte : ¬ Other h tb k te) :
    ∀ (d t fuel : Nat), te - t = d → t ≤ te → d < fuel → (∀ t', t' < t → Other h tb k t') →
      ∃ t1, t ≤ t1 ∧ t1 ≤ te ∧ (∀ t', t' < t1 → Other h tb k t') ∧ ¬ Other h tb k t1 ∧
        probe h tb k fuel t = some (pidx h tb.cap k t1, (tb.slots (pidx h tb.cap k t1)).isNone) := by
  intro d
  induction d with
  | zero =>
    intro t fuel hd hle hf hall
    have : t = te := by omega
    subst this
    cases fuel with
    | zero => omega
    | succ fuel =>
      refine ⟨t, Nat.le_refl _, Nat.le_refl _, hall, hte, ?_⟩
      simp only [probe]
      cases hs : tb.slots (pidx h tb.cap k t) with
      | none => rfl
      | some kv =>
        simp only
        have : kv.1 = k := by
          by_contra hne
          exact hte ⟨kv, hs, hne⟩
        simp [this]
  | succ d ih =>
    intro t fuel hd hle hf hall
    cases fuel with
    | zero => omega
    | succ fuel =>
      by_cases ho : Other h tb k t
      · obtain ⟨b, hb, hbk⟩ := ho
        have hrec := ih (t + 1) fuel (by omega) (by omega) (by omega) (by
          intro t' ht'
          rcases Nat.lt_succ_iff_lt_or_eq.mp ht' with h1 | h1
          · exact hall t' h1
          · subst h1; exact ⟨b, hb, hbk⟩)
        obtain ⟨t1, h1, h2, h3, h4, h5⟩ := hrec
        refine ⟨t1, by omega, h2, h3, h4, ?_⟩
        simp only [probe, hb]
        simp [hbk, h5]
      · refine ⟨t, Nat.le_refl _, hle, hall, ho, ?_⟩
        simp only [probe]
        cases hs : tb.slots (pidx h tb.cap k t) with
        | none => rfl
        | some kv =>
          simp only
          have : kv.1 = k := by
            by_contra hne
            exact ho ⟨kv, hs, hne⟩
          simp [this]

/-- **the probe loop terminates** at the key's slot or at the first empty slot of the key's probe path -/
theorem probe_spec (h : Int → Nat) (tb : T) (k : Int) (hi : Inv h tb) (hf : HasFree tb) :
    ∃ t1, t1 < tb.cap ∧ (∀ t', t' < t1 → Other h tb k t') ∧ ¬ Other h tb k t1 ∧
      probe h tb k tb.cap 0 = some (pidx h tb.cap k t1, (tb.slots (pidx h tb.cap k t1)).isNone) := by
  obtain ⟨m, hm⟩ := hi.pow
  obtain ⟨e, he, hes⟩ := hf
  obtain ⟨te, hte, hpe⟩ := pidx_surj h m k e (by rw [← hm]; exact he)
  rw [← hm] at hte hpe
  have hno : ¬ Other h tb k te := by
    rintro ⟨b, hb, _⟩
    rw [hpe, hes] at hb; cases hb
  obtain ⟨t1, _, h2, h3, h4, h5⟩ := probe_walk h tb k te hno (te - 0) 0 tb.cap rfl (Nat.zero_le _) (by omega)
    (fun t' ht' => absurd ht' (Nat.not_lt_zero _))
  exact ⟨t1, by omega, h3, h4, h5⟩

end BS.Table

namespace BS.Table
open BS.KV

/-- key `k` is in the table with value `v` -/
def Has (tb : T) (k v : Int) : Prop := ∃ s, tb.slots s = some (k, v)

theorem cap_pos {h : Int → Nat} {tb : T} (hi : Inv h tb) : 0 < tb.cap := by
  obtain ⟨m, hm⟩ := hi.pow; rw [hm]; exact Nat.two_pow_pos m

theorem pidx_lt {h : Int → Nat} {tb : T} (hi : Inv h tb) (k : Int) (t : Nat) : pidx h tb.cap k t < tb.cap :=
  Nat.mod_lt _ (cap_pos hi)

theorem pidx_inj' {h : Int → Nat} {tb : T} (hi : Inv h tb) (k : Int) (i j : Nat) (h1 : i < tb.cap) (h2 : j < tb.cap)
    (he : pidx h tb.cap k i = pidx h tb.cap k j) : i = j := by
  obtain ⟨m, hm⟩ := hi.pow
  rw [hm] at h1 h2 he
  exact pidx_inj h m k i j h1 h2 he

/-- what `insert` does in the two cases of the probe -/
theorem insert_added (comb : Int → Int → Int) (h : Int → Nat) (tb : T) (r : KV) (i : Nat)
    (hp : probe h tb r.1 tb.cap 0 = some (i, true)) :
    insert comb h tb r = some { tb with slots := upd tb.slots i r, len := tb.len + 1 } := by
  simp [insert, hp]

theorem insert_found (comb : Int → Int → Int) (h : Int → Nat) (tb : T) (r : KV) (i : Nat) (kv : KV)
    (hp : probe h tb r.1 tb.cap 0 = some (i, false)) (hs : tb.slots i = some kv) :
    insert comb h tb r = some { tb with slots := upd tb.slots i (r.1, comb kv.2 r.2) } := by
  simp [insert, hp, hs]

/-- a key present in the table sits exactly where its probe stops -/
theorem has_at_probe {h : Int → Nat} {tb : T} (hi : Inv h tb) (k : Int) (t1 : Nat) (ht1 : t1 < tb.cap)
    (hall : ∀ t', t' < t1 → Other h tb k t') (hno : ¬ Other h tb k t1) (s : Nat) (v : Int)
    (hs : tb.slots s = some (k, v)) : s = pidx h tb.cap k t1 := by
  obtain ⟨t, ht, hpt, hpath⟩ := hi.reach s (k, v) hs
  simp only at hpt hpath
  rcases Nat.lt_trichotomy t t1 with hlt | heq | hgt
  · obtain ⟨b, hb, hbk⟩ := hall t hlt
    rw [hpt, hs] at hb
    cases hb; exact absurd rfl hbk
  · rw [← hpt, heq]
  · exact absurd (hpath t1 hgt) hno

theorem upd_same (s : Nat → Option KV) (i : Nat) (x : KV) : upd s i x i = some x := by simp [upd]
theorem upd_other (s : Nat → Option KV) (i j : Nat) (x : KV) (h : j ≠ i) : upd s i x j = s j := by simp [upd, h]

theorem occ_upd_none (tb : T) (i : Nat) (x : KV) (len' : Nat) (hi : i < tb.cap) (hn : tb.slots i = none) :
    occ { tb with slots := upd tb.slots i x, len := len' } = occ tb + 1 := by
  unfold occ
  simp only
  have : ((Finset.range tb.cap).filter fun j => (upd tb.slots i x j).isSome) =
      Insert.insert i ((Finset.range tb.cap).filter fun j => (tb.slots j).isSome) := by
    ext j
    simp only [Finset.mem_filter, Finset.mem_range, Finset.mem_insert]
    by_cases hj : j = i
    · subst hj; simp [upd_same, hi]
    · simp [upd_other _ _ _ _ hj, hj]
  rw [this, Finset.card_insert_of_notMem]
  simp [hn]

theorem occ_upd_some (tb : T) (i : Nat) (x y : KV) (hs : tb.slots i = some y) :
    occ { tb with slots := upd tb.slots i x } = occ tb := by
  unfold occ
  simp only
  congr 1
  ext j
  simp only [Finset.mem_filter, Finset.mem_range]
  by_cases hj : j = i
  · subst hj; simp [upd_same, hs]
  · simp [upd_other _ _ _ _ hj]

theorem hasFree_of_occ_lt (tb : T) (h : occ tb < tb.cap) : HasFree tb := by
  by_contra hno
  unfold HasFree at hno
  have hall : ∀ e, e < tb.cap → (tb.slots e).isSome = true := by
    intro e he
    cases hs : tb.slots e with
    | none => exact absurd ⟨e, he, hs⟩ hno
    | some _ => rfl
  have : ((Finset.range tb.cap).filter fun j => (tb.slots j).isSome) = Finset.range tb.cap := by
    apply Finset.filter_true_of_mem
    intro e he; exact hall e (Finset.mem_range.mp he)
  unfold occ at h
  rw [this, Finset.card_range] at h
  omega

/-- **insert maintains the invariant** and acts on the key ↦ value map as an upsert -/
theorem insert_spec (comb : Int → Int → Int) (h : Int → Nat) (tb : T) (r : KV) (hi : Inv h tb) (hf : HasFree tb) :
    ∃ tb', insert comb h tb r = some tb' ∧ Inv h tb' ∧ tb'.cap = tb.cap ∧
      ((¬ ∃ v, Has tb r.1 v) → tb'.len = tb.len + 1 ∧ ∀ k v, Has tb' k v ↔ ((k = r.1 ∧ v = r.2) ∨ Has tb k v)) ∧
      (∀ v0, Has tb r.1 v0 → tb'.len = tb.len ∧
        ∀ k v, Has tb' k v ↔ ((k = r.1 ∧ v = comb v0 r.2) ∨ (k ≠ r.1 ∧ Has tb k v))) := by
  obtain ⟨t1, ht1, hall, hno, hp⟩ := probe_spec h tb r.1 hi hf
  let i := pidx h tb.cap r.1 t1
  have hilt : i < tb.cap := pidx_lt hi r.1 t1
  cases hsi : tb.slots i with
  | none =>
    -- the row is added at the first empty slot of its probe path
    have hp' : probe h tb r.1 tb.cap 0 = some (i, true) := by rw [hp]; show some (i, _) = _; rw [hsi]; rfl
    have habs : ¬ ∃ v, Has tb r.1 v := by
      rintro ⟨v, s, hs⟩
      have := has_at_probe hi r.1 t1 ht1 hall hno s v hs
      rw [this] at hs
      rw [show pidx h tb.cap r.1 t1 = i from rfl, hsi] at hs; cases hs
    refine ⟨_, insert_added comb h tb r i hp', ?_, rfl, ?_, ?_⟩
    · refine ⟨hi.pow, ?_, ?_, ?_, by rw [occ_upd_none tb i r _ hilt hsi]; show tb.len + 1 = _; rw [hi.lenok]⟩
      · intro j hj
        have hj' : tb.cap ≤ j := hj
        show upd tb.slots i r j = none
        rw [upd_other _ _ _ _ (by omega)]; exact hi.bound j hj'
      · intro a b x y ha hb hxy
        show a = b
        by_cases hai : a = i <;> by_cases hbi : b = i
        · rw [hai, hbi]
        · exfalso
          rw [show (({ tb with slots := upd tb.slots i r, len := tb.len + 1 } : T).slots a) = upd tb.slots i r a from rfl, hai, upd_same] at ha
          rw [show (({ tb with slots := upd tb.slots i r, len := tb.len + 1 } : T).slots b) = upd tb.slots i r b from rfl, upd_other _ _ _ _ hbi] at hb
          cases ha
          exact habs ⟨y.2, b, by rw [hb, hxy]⟩
        · exfalso
          rw [show (({ tb with slots := upd tb.slots i r, len := tb.len + 1 } : T).slots a) = upd tb.slots i r a from rfl, upd_other _ _ _ _ hai] at ha
          rw [show (({ tb with slots := upd tb.slots i r, len := tb.len + 1 } : T).slots b) = upd tb.slots i r b from rfl, hbi, upd_same] at hb
          cases hb
          exact habs ⟨x.2, a, by rw [ha, ← hxy]⟩
        · rw [show (({ tb with slots := upd tb.slots i r, len := tb.len + 1 } : T).slots a) = upd tb.slots i r a from rfl, upd_other _ _ _ _ hai] at ha
          rw [show (({ tb with slots := upd tb.slots i r, len := tb.len + 1 } : T).slots b) = upd tb.slots i r b from rfl, upd_other _ _ _ _ hbi] at hb
          exact hi.uniq a b x y ha hb hxy
      · intro s a hs
        show ∃ t, t < tb.cap ∧ pidx h tb.cap a.1 t = s ∧ ∀ t', t' < t → ∃ b, upd tb.slots i r (pidx h tb.cap a.1 t') = some b ∧ b.1 ≠ a.1
        have hs' : upd tb.slots i r s = some a := hs
        by_cases hsi' : s = i
        · rw [hsi', upd_same] at hs'
          cases hs'
          refine ⟨t1, ht1, hsi'.symm ▸ rfl, ?_⟩
          intro t' ht'
          obtain ⟨b, hb, hbk⟩ := hall t' ht'
          have hne : pidx h tb.cap r.1 t' ≠ i := by
            intro he
            have := pidx_inj' hi r.1 t' t1 (by omega) ht1 he
            omega
          exact ⟨b, by rw [upd_other _ _ _ _ hne]; exact hb, hbk⟩
        · rw [upd_other _ _ _ _ hsi'] at hs'
          obtain ⟨t, ht, hpt, hpath⟩ := hi.reach s a hs'
          refine ⟨t, ht, hpt, ?_⟩
          intro t' ht'
          obtain ⟨b, hb, hbk⟩ := hpath t' ht'
          have hne : pidx h tb.cap a.1 t' ≠ i := by
            intro he; rw [he, hsi] at hb; cases hb
          exact ⟨b, by rw [upd_other _ _ _ _ hne]; exact hb, hbk⟩
    · intro _
      refine ⟨rfl, ?_⟩
      intro k v
      constructor
      · rintro ⟨s, hs⟩
        have hs' : upd tb.slots i r s = some (k, v) := hs
        by_cases hsi' : s = i
        · rw [hsi', upd_same] at hs'
          cases hs'; exact Or.inl ⟨rfl, rfl⟩
        · rw [upd_other _ _ _ _ hsi'] at hs'
          exact Or.inr ⟨s, hs'⟩
      · rintro (⟨hk, hv⟩ | ⟨s, hs⟩)
        · exact ⟨i, by show upd tb.slots i r i = some (k, v); rw [upd_same, hk, hv]⟩
        · have hne : s ≠ i := by intro he; rw [he, hsi] at hs; cases hs
          exact ⟨s, by show upd tb.slots i r s = some (k, v); rw [upd_other _ _ _ _ hne]; exact hs⟩
    · intro v0 hv0
      exact absurd ⟨v0, hv0⟩ habs
  | some kv =>
    -- the slot holds the row's key: the values are combined in place
    have hkv : kv.1 = r.1 := by
      by_contra hne
      exact hno ⟨kv, hsi, hne⟩
    have hp' : probe h tb r.1 tb.cap 0 = some (i, false) := by rw [hp]; show some (i, _) = _; rw [hsi]; rfl
    have hhas : Has tb r.1 kv.2 := ⟨i, by rw [hsi, ← hkv]⟩
    refine ⟨_, insert_found comb h tb r i kv hp' hsi, ?_, rfl, ?_, ?_⟩
    · refine ⟨hi.pow, ?_, ?_, ?_, by rw [occ_upd_some tb i _ kv hsi]; show tb.len = _; exact hi.lenok⟩
      · intro j hj
        have hj' : tb.cap ≤ j := hj
        show upd tb.slots i (r.1, comb kv.2 r.2) j = none
        rw [upd_other _ _ _ _ (by omega)]; exact hi.bound j hj'
      · -- the key of every slot is unchanged
        have hkey : ∀ a x, upd tb.slots i (r.1, comb kv.2 r.2) a = some x → ∃ x0, tb.slots a = some x0 ∧ x0.1 = x.1 := by
          intro a x ha
          by_cases hai : a = i
          · rw [hai, upd_same] at ha; cases ha
            exact ⟨kv, by rw [hai]; exact hsi, hkv⟩
          · rw [upd_other _ _ _ _ hai] at ha; exact ⟨x, ha, rfl⟩
        intro a b x y ha hb hxy
        obtain ⟨x0, hx0, hx0k⟩ := hkey a x ha
        obtain ⟨y0, hy0, hy0k⟩ := hkey b y hb
        exact hi.uniq a b x0 y0 hx0 hy0 (by rw [hx0k, hy0k, hxy])
      · intro s a hs
        show ∃ t, t < tb.cap ∧ pidx h tb.cap a.1 t = s ∧
          ∀ t', t' < t → ∃ b, upd tb.slots i (r.1, comb kv.2 r.2) (pidx h tb.cap a.1 t') = some b ∧ b.1 ≠ a.1
        have hs' : upd tb.slots i (r.1, comb kv.2 r.2) s = some a := hs
        -- the old entry of slot s has the same key
        have hold : ∃ a0, tb.slots s = some a0 ∧ a0.1 = a.1 := by
          by_cases hsi' : s = i
          · rw [hsi', upd_same] at hs'; cases hs'
            exact ⟨kv, by rw [hsi']; exact hsi, hkv⟩
          · rw [upd_other _ _ _ _ hsi'] at hs'; exact ⟨a, hs', rfl⟩
        obtain ⟨a0, ha0, ha0k⟩ := hold
        obtain ⟨t, ht, hpt, hpath⟩ := hi.reach s a0 ha0
        rw [ha0k] at hpt hpath
        refine ⟨t, ht, hpt, ?_⟩
        intro t' ht'
        obtain ⟨b, hb, hbk⟩ := hpath t' ht'
        by_cases he : pidx h tb.cap a.1 t' = i
        · rw [he, upd_same]
          rw [he, hsi] at hb; cases hb
          exact ⟨_, rfl, by simpa [hkv] using hbk⟩
        · exact ⟨b, by rw [upd_other _ _ _ _ he]; exact hb, hbk⟩
    · intro habs
      exact absurd ⟨kv.2, hhas⟩ habs
    · intro v0 hv0
      -- the key has one value
      have hv0' : v0 = kv.2 := by
        obtain ⟨s, hs⟩ := hv0
        have := hi.uniq s i (r.1, v0) kv hs hsi (by simp [hkv])
        rw [this, hsi] at hs
        cases hs; rfl
      refine ⟨rfl, ?_⟩
      intro k v
      constructor
      · rintro ⟨s, hs⟩
        have hs' : upd tb.slots i (r.1, comb kv.2 r.2) s = some (k, v) := hs
        by_cases hsi' : s = i
        · rw [hsi', upd_same] at hs'
          cases hs'; exact Or.inl ⟨rfl, by rw [hv0']⟩
        · rw [upd_other _ _ _ _ hsi'] at hs'
          refine Or.inr ⟨?_, s, hs'⟩
          intro hk
          have := hi.uniq s i (k, v) kv hs' hsi (by simp [hk, hkv])
          exact hsi' this
      · rintro (⟨hk, hv⟩ | ⟨hk, s, hs⟩)
        · exact ⟨i, by show upd tb.slots i (r.1, comb kv.2 r.2) i = some (k, v); rw [upd_same, hk, hv, hv0']⟩
        · have hne : s ≠ i := by
            intro he; rw [he, hsi] at hs; cases hs; exact hk hkv
          exact ⟨s, by show upd tb.slots i (r.1, comb kv.2 r.2) s = some (k, v); rw [upd_other _ _ _ _ hne]; exact hs⟩

end BS.Table

namespace BS.Table
open BS.KV

/-! ### the keyed fold as a map -/

theorem strict_key_unique {m : List KV} (hm : StrictSorted m) {k a b : Int} (ha : (k, a) ∈ m) (hb : (k, b) ∈ m) : a = b := by
  induction m with
  | nil => simp at ha
  | cons x xs ih =>
    unfold StrictSorted at hm
    rw [List.pairwise_cons] at hm
    rcases List.mem_cons.mp ha with ha | ha <;> rcases List.mem_cons.mp hb with hb | hb
    · rw [← ha] at hb; exact (Prod.mk.inj hb).2.symm
    · have := hm.1 _ hb; rw [← ha] at this; simp at this
    · have := hm.1 _ ha; rw [← hb] at this; simp at this
    · exact ih hm.2 ha hb

theorem mem_insertKV (comb : Int → Int → Int) (k v : Int) (m : List KV) (hm : StrictSorted m) (k' v' : Int) :
    (k', v') ∈ insertKV comb k v m ↔
      (k' = k ∧ ((∃ v0, (k, v0) ∈ m ∧ v' = comb v0 v) ∨ ((¬ ∃ v0, (k, v0) ∈ m) ∧ v' = v))) ∨ (k' ≠ k ∧ (k', v') ∈ m) := by
  induction m with
  | nil =>
    simp only [insertKV, List.mem_singleton, Prod.mk.injEq, List.not_mem_nil, false_and, exists_false, not_false_eq_true,
      true_and, false_or, and_false, or_false]
  | cons x xs ih =>
    obtain ⟨kx, vx⟩ := x
    unfold StrictSorted at hm
    rw [List.pairwise_cons] at hm
    have hlt : ∀ y ∈ xs, kx < y.1 := hm.1
    simp only [insertKV]
    split
    · -- k < kx: k is not in the list
      rename_i hk
      have hnot : ¬ ∃ v0, (k, v0) ∈ (kx, vx) :: xs := by
        rintro ⟨v0, h0⟩
        rcases List.mem_cons.mp h0 with h0 | h0
        · have := (Prod.mk.inj h0).1; omega
        · have := hlt _ h0; simp at this; omega
      constructor
      · intro hmem
        rcases List.mem_cons.mp hmem with h0 | h0
        · obtain ⟨rfl, rfl⟩ := Prod.mk.inj h0
          exact Or.inl ⟨rfl, Or.inr ⟨hnot, rfl⟩⟩
        · refine Or.inr ⟨?_, h0⟩
          intro he; subst he; exact hnot ⟨v', h0⟩
      · rintro (⟨rfl, (⟨v0, h0, _⟩ | ⟨_, rfl⟩)⟩ | ⟨_, h0⟩)
        · exact absurd ⟨v0, h0⟩ hnot
        · exact List.mem_cons_self
        · exact List.mem_cons_of_mem _ h0
    · split
      · -- k = kx: combine at the head
        rename_i _ hk
        subst hk
        have huniq : ∀ v0, (k, v0) ∈ (k, vx) :: xs → v0 = vx := by
          intro v0 h0
          rcases List.mem_cons.mp h0 with h0 | h0
          · exact (Prod.mk.inj h0).2
          · have := hlt _ h0; simp at this
        constructor
        · intro hmem
          rcases List.mem_cons.mp hmem with h0 | h0
          · obtain ⟨rfl, rfl⟩ := Prod.mk.inj h0
            exact Or.inl ⟨rfl, Or.inl ⟨vx, List.mem_cons_self, rfl⟩⟩
          · refine Or.inr ⟨?_, List.mem_cons_of_mem _ h0⟩
            intro he; subst he
            have := hlt _ h0; simp at this
        · rintro (⟨rfl, (⟨v0, h0, rfl⟩ | ⟨hno, _⟩)⟩ | ⟨hne, h0⟩)
          · rw [huniq v0 h0]; exact List.mem_cons_self
          · exact absurd ⟨vx, List.mem_cons_self⟩ hno
          · rcases List.mem_cons.mp h0 with h0 | h0
            · exact absurd (Prod.mk.inj h0).1 hne
            · exact List.mem_cons_of_mem _ h0
      · -- k > kx: recurse
        rename_i hk1 hk2
        have hkx : kx < k := by omega
        have ih' := ih hm.2
        constructor
        · intro hmem
          rcases List.mem_cons.mp hmem with h0 | h0
          · obtain ⟨rfl, rfl⟩ := Prod.mk.inj h0
            exact Or.inr ⟨by omega, List.mem_cons_self⟩
          · rcases ih'.mp h0 with ⟨rfl, (⟨v0, h1, rfl⟩ | ⟨hno, rfl⟩)⟩ | ⟨hne, h1⟩
            · exact Or.inl ⟨rfl, Or.inl ⟨v0, List.mem_cons_of_mem _ h1, rfl⟩⟩
            · refine Or.inl ⟨rfl, Or.inr ⟨?_, rfl⟩⟩
              rintro ⟨v0, h1⟩
              rcases List.mem_cons.mp h1 with h1 | h1
              · have := (Prod.mk.inj h1).1; omega
              · exact hno ⟨v0, h1⟩
            · exact Or.inr ⟨hne, List.mem_cons_of_mem _ h1⟩
        · rintro (⟨rfl, (⟨v0, h1, rfl⟩ | ⟨hno, rfl⟩)⟩ | ⟨hne, h1⟩)
          · rcases List.mem_cons.mp h1 with h1 | h1
            · have := (Prod.mk.inj h1).1; omega
            · exact List.mem_cons_of_mem _ (ih'.mpr (Or.inl ⟨rfl, Or.inl ⟨v0, h1, rfl⟩⟩))
          · refine List.mem_cons_of_mem _ (ih'.mpr (Or.inl ⟨rfl, Or.inr ⟨?_, rfl⟩⟩))
            rintro ⟨v0, h1⟩; exact hno ⟨v0, List.mem_cons_of_mem _ h1⟩
          · rcases List.mem_cons.mp h1 with h1 | h1
            · rw [h1]; exact List.mem_cons_self
            · exact List.mem_cons_of_mem _ (ih'.mpr (Or.inr ⟨hne, h1⟩))

/-- the table represents the assoc list `m` -/
def Repr (tb : T) (m : List KV) : Prop := ∀ k v, Has tb k v ↔ (k, v) ∈ m

/-- **one row**: inserting into a table that represents `m` gives a table that represents `insertKV comb k v m` -/
theorem repr_insert (comb : Int → Int → Int) (h : Int → Nat) (tb : T) (r : KV) (m : List KV) (hi : Inv h tb) (hf : HasFree tb)
    (hm : StrictSorted m) (hr : Repr tb m) :
    ∃ tb', insert comb h tb r = some tb' ∧ Inv h tb' ∧ tb'.cap = tb.cap ∧ Repr tb' (insertKV comb r.1 r.2 m) ∧
      ((∃ v0, (r.1, v0) ∈ m) → tb'.len = tb.len) ∧ ((¬ ∃ v0, (r.1, v0) ∈ m) → tb'.len = tb.len + 1) := by
  obtain ⟨tb', hins, hinv, hcap, hadd, hfound⟩ := insert_spec comb h tb r hi hf
  refine ⟨tb', hins, hinv, hcap, ?_, ?_⟩
  · intro k v
    rw [mem_insertKV comb r.1 r.2 m hm k v]
    by_cases hex : ∃ v0, Has tb r.1 v0
    · obtain ⟨v0, hv0⟩ := hex
      rw [(hfound v0 hv0).2 k v]
      constructor
      · rintro (⟨rfl, rfl⟩ | ⟨hne, hk⟩)
        · exact Or.inl ⟨rfl, Or.inl ⟨v0, (hr _ _).mp hv0, rfl⟩⟩
        · exact Or.inr ⟨hne, (hr _ _).mp hk⟩
      · rintro (⟨rfl, (⟨v1, h1, rfl⟩ | ⟨hno, _⟩)⟩ | ⟨hne, hk⟩)
        · have : v1 = v0 := strict_key_unique hm h1 ((hr _ _).mp hv0)
          rw [this]; exact Or.inl ⟨rfl, rfl⟩
        · exact absurd ⟨v0, (hr _ _).mp hv0⟩ hno
        · exact Or.inr ⟨hne, (hr _ _).mpr hk⟩
    · rw [(hadd hex).2 k v]
      have hno : ¬ ∃ v0, (r.1, v0) ∈ m := by rintro ⟨v0, h0⟩; exact hex ⟨v0, (hr _ _).mpr h0⟩
      constructor
      · rintro (⟨rfl, rfl⟩ | hk)
        · exact Or.inl ⟨rfl, Or.inr ⟨hno, rfl⟩⟩
        · refine Or.inr ⟨?_, (hr _ _).mp hk⟩
          intro he; subst he; exact hex ⟨v, hk⟩
      · rintro (⟨rfl, (⟨v1, h1, _⟩ | ⟨_, rfl⟩)⟩ | ⟨_, hk⟩)
        · exact absurd ⟨v1, h1⟩ hno
        · exact Or.inl ⟨rfl, rfl⟩
        · exact Or.inr ((hr _ _).mpr hk)
  · refine ⟨?_, ?_⟩
    · rintro ⟨v0, h0⟩
      exact (hfound v0 ((hr _ _).mpr h0)).1
    · intro hex
      exact (hadd (by rintro ⟨v0, h0⟩; exact hex ⟨v0, (hr _ _).mp h0⟩)).1

end BS.Table

namespace BS.Table
open BS.KV

/-! ### entries, rehashing, growth -/

theorem mem_entries {h : Int → Nat} {tb : T} (hi : Inv h tb) (k v : Int) : (k, v) ∈ entries tb ↔ Has tb k v := by
  unfold entries Has
  rw [List.mem_filterMap]
  constructor
  · rintro ⟨s, _, hs⟩; exact ⟨s, hs⟩
  · rintro ⟨s, hs⟩
    refine ⟨s, ?_, hs⟩
    rw [List.mem_range]
    by_contra hge
    rw [hi.bound s (by omega)] at hs; cases hs

theorem entries_keys {h : Int → Nat} {tb : T} (hi : Inv h tb) (a b : KV) (ha : a ∈ entries tb) (hb : b ∈ entries tb)
    (hk : a.1 = b.1) : a = b := by
  obtain ⟨i, hi'⟩ := (mem_entries hi a.1 a.2).mp ha
  obtain ⟨j, hj'⟩ := (mem_entries hi b.1 b.2).mp hb
  have := hi.uniq i j _ _ hi' hj' hk
  rw [this, hj'] at hi'
  exact (Option.some.inj hi').symm

theorem filterMap_range_length (f : Nat → Option KV) (n : Nat) :
    ((List.range n).filterMap f).length = ((Finset.range n).filter fun j => (f j).isSome).card := by
  induction n with
  | zero => simp
  | succ n ih =>
    rw [List.range_succ, List.filterMap_append, List.length_append, ih, Finset.range_add_one, Finset.filter_insert]
    cases hf : f n with
    | none => simp [hf]
    | some x =>
      simp only [List.filterMap_cons, hf, List.filterMap_nil, List.length_singleton, Option.isSome_some, if_true]
      rw [Finset.card_insert_of_notMem (by simp)]

theorem entries_length (tb : T) : (entries tb).length = occ tb := filterMap_range_length tb.slots tb.cap

theorem entries_nodup {h : Int → Nat} {tb : T} (hi : Inv h tb) : (entries tb).Nodup := by
  unfold entries
  apply List.Nodup.filterMap _ (List.nodup_range)
  intro a a' b hb hb'
  exact hi.uniq a a' b b hb hb' rfl

theorem inv_empty (h : Int → Nat) (m : Nat) : Inv h (empty (2 ^ m)) := by
  refine ⟨⟨m, rfl⟩, fun _ _ => rfl, ?_, ?_, ?_⟩
  · intro i j a b ha; simp [empty] at ha
  · intro s a ha; simp [empty] at ha
  · simp [empty, occ]

theorem rehashInto_cons (comb : Int → Int → Int) (h : Int → Nat) (e : KV) (es : List KV) (tb : T) :
    rehashInto comb h (e :: es) tb = (insert comb h tb e).bind (rehashInto comb h es) := by
  unfold rehashInto
  simp only [List.foldl_cons, Option.bind_some]
  cases insert comb h tb e with
  | none =>
    simp only [Option.bind_none]
    induction es with
    | nil => rfl
    | cons x xs ih => simpa using ih
  | some t => rfl

/-- rehashing distinct-key entries into a table with enough room adds exactly those entries -/
theorem rehash_spec (comb : Int → Int → Int) (h : Int → Nat) :
    ∀ (es : List KV) (tb : T) (P : List KV), Inv h tb → (∀ k v, Has tb k v ↔ (k, v) ∈ P) →
      (∀ a b, a ∈ es → b ∈ es → a.1 = b.1 → a = b) → es.Nodup → (∀ a b, a ∈ es → b ∈ P → a.1 ≠ b.1) →
      occ tb + es.length < tb.cap →
      ∃ tb', rehashInto comb h es tb = some tb' ∧ Inv h tb' ∧ tb'.cap = tb.cap ∧
        (∀ k v, Has tb' k v ↔ ((k, v) ∈ P ∨ (k, v) ∈ es)) ∧ tb'.len = tb.len + es.length := by
  intro es
  induction es with
  | nil =>
    intro tb P hi hP _ _ _ _
    exact ⟨tb, rfl, hi, rfl, fun k v => by simp [hP k v], by simp⟩
  | cons e es ih =>
    intro tb P hi hP hkeys hnd hdisj hroom
    have hfree : HasFree tb := hasFree_of_occ_lt tb (by simp at hroom; omega)
    obtain ⟨t1, hins, hinv1, hcap1, hadd, _⟩ := insert_spec comb h tb e hi hfree
    have habs : ¬ ∃ v, Has tb e.1 v := by
      rintro ⟨v, hv⟩
      exact hdisj e (e.1, v) (by simp) ((hP _ _).mp hv) rfl
    obtain ⟨hlen1, hhas1⟩ := hadd habs
    have hP1 : ∀ k v, Has t1 k v ↔ (k, v) ∈ e :: P := by
      intro k v
      rw [hhas1 k v, List.mem_cons, hP k v]
      constructor
      · rintro (⟨rfl, rfl⟩ | h0)
        · exact Or.inl rfl
        · exact Or.inr h0
      · rintro (h0 | h0)
        · exact Or.inl ⟨(Prod.mk.inj h0).1, (Prod.mk.inj h0).2⟩
        · exact Or.inr h0
    have hnd' := List.nodup_cons.mp hnd
    obtain ⟨t2, hre, hinv2, hcap2, hhas2, hlen2⟩ := ih t1 (e :: P) hinv1 hP1
      (fun a b ha hb => hkeys a b (by simp [ha]) (by simp [hb])) hnd'.2
      (by
        intro a b ha hb
        rcases List.mem_cons.mp hb with hb | hb
        · intro hk
          have := hkeys a e (by simp [ha]) (by simp) (by rw [hk, hb])
          rw [this] at ha
          exact hnd'.1 ha
        · exact hdisj a b (by simp [ha]) hb)
      (by rw [← hinv1.lenok, hlen1, hi.lenok, hcap1]; simp at hroom; omega)
    refine ⟨t2, by rw [rehashInto_cons, hins]; exact hre, hinv2, by rw [hcap2, hcap1], ?_, by rw [hlen2, hlen1]; simp; omega⟩
    intro k v
    rw [hhas2 k v, List.mem_cons, List.mem_cons]
    constructor
    · rintro ((h0 | h0) | h0)
      · exact Or.inr (Or.inl h0)
      · exact Or.inl h0
      · exact Or.inr (Or.inr h0)
    · rintro (h0 | h0 | h0)
      · exact Or.inl (Or.inr h0)
      · exact Or.inl (Or.inl h0)
      · exact Or.inr h0

theorem threshold_lt (m : Nat) : threshold (2 ^ m) < 2 ^ m := by
  unfold threshold
  have : 0 < 2 ^ m := Nat.two_pow_pos m
  omega

/-- the table is in its steady state: invariant holds and the load is within the threshold -/
def Good (h : Int → Nat) (tb : T) : Prop := Inv h tb ∧ tb.len ≤ threshold tb.cap

/-- **one `Combine` of a row, including the growth step** -/
theorem combine1_spec (comb : Int → Int → Int) (h : Int → Nat) (tb : T) (r : KV) (m : List KV)
    (hg : Good h tb) (hm : StrictSorted m) (hr : Repr tb m) :
    ∃ tb', combine1 comb h tb r = some tb' ∧ Good h tb' ∧ Repr tb' (insertKV comb r.1 r.2 m) := by
  obtain ⟨hi, hload⟩ := hg
  obtain ⟨mm, hmm⟩ := hi.pow
  have hlt : tb.len < tb.cap := by rw [hmm] at hload ⊢; exact Nat.lt_of_le_of_lt hload (threshold_lt mm)
  have hfree : HasFree tb := hasFree_of_occ_lt tb (by rw [← hi.lenok]; exact hlt)
  obtain ⟨t1, hins, hinv1, hcap1, hrepr1, hlenS, hlenA⟩ := repr_insert comb h tb r m hi hfree hm hr
  have hlen1 : t1.len ≤ tb.len + 1 := by
    by_cases hex : ∃ v0, (r.1, v0) ∈ m
    · rw [hlenS hex]; omega
    · rw [hlenA hex]
  unfold combine1
  rw [hins]
  simp only [Option.bind_some, grow]
  split
  · rename_i hle
    exact ⟨t1, rfl, ⟨hinv1, hle⟩, hrepr1⟩
  · rename_i hgt
    -- rehash into a table of twice the capacity
    have hes := entries_length t1
    have hocc1 : occ t1 = t1.len := hinv1.lenok.symm
    have hcap1' : t1.cap = 2 ^ mm := by rw [hcap1, hmm]
    have hinvE : Inv h (empty (2 * t1.cap)) := by
      rw [hcap1', show 2 * 2 ^ mm = 2 ^ (mm + 1) by rw [pow_succ]; ring]
      exact inv_empty h (mm + 1)
    have hoccle : t1.len ≤ t1.cap := by
      rw [← hocc1, ← hes]
      unfold entries
      exact (List.length_filterMap_le _ _).trans (by simp)
    obtain ⟨t2, hre, hinv2, hcap2, hhas2, hlen2⟩ := rehash_spec comb h (entries t1) (empty (2 * t1.cap)) [] hinvE
      (by intro k v; simp [Has, empty])
      (fun a b ha hb hk => entries_keys hinv1 a b ha hb hk) (entries_nodup hinv1)
      (by intro a b _ hb; simp at hb)
      (by
        have : occ (empty (2 * t1.cap)) = 0 := by simp [occ, empty]
        rw [this, hes, hocc1]
        show 0 + t1.len < 2 * t1.cap
        have : 0 < t1.cap := by rw [hcap1']; exact Nat.two_pow_pos mm
        omega)
    refine ⟨t2, hre, ⟨hinv2, ?_⟩, ?_⟩
    · rw [hlen2, hcap2, hes, hocc1]
      show 0 + t1.len ≤ threshold (2 * t1.cap)
      have hpos : 0 < tb.cap := by rw [hmm]; exact Nat.two_pow_pos mm
      unfold threshold at hload hgt ⊢
      rw [hcap1] at hgt ⊢
      omega
    · intro k v
      rw [hhas2 k v]
      simp only [List.not_mem_nil, false_or]
      rw [mem_entries hinv1 k v]
      exact hrepr1 k v

/-- **the combining frame computes the keyed fold**: whatever the hash function, the initial capacity (a power of
two) and the rows, after combining `rows` the table holds exactly the entries of `foldMap comb rows` -/
theorem combineAll_spec (comb : Int → Int → Int) (h : Int → Nat) :
    ∀ (rows : List KV) (tb : T) (m : List KV), Good h tb → StrictSorted m → Repr tb m →
      ∃ tb', combineAll comb h tb rows = some tb' ∧ Good h tb' ∧
        Repr tb' (rows.foldl (fun m r => insertKV comb r.1 r.2 m) m) := by
  intro rows
  induction rows with
  | nil => intro tb m hg _ hr; exact ⟨tb, rfl, hg, hr⟩
  | cons r rows ih =>
    intro tb m hg hm hr
    obtain ⟨t1, hc, hg1, hr1⟩ := combine1_spec comb h tb r m hg hm hr
    obtain ⟨t2, hc2, hg2, hr2⟩ := ih t1 _ hg1 (insertKV_strict comb r.1 r.2 m hm) hr1
    refine ⟨t2, ?_, hg2, hr2⟩
    unfold combineAll at hc2 ⊢
    simp only [List.foldl_cons, Option.bind_some, hc]
    exact hc2

end BS.Table
