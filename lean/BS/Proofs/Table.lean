import BS.Model.Table
import BS.Proofs.Probe
import Mathlib.Data.Fintype.Card
import Mathlib.Data.Fintype.EquivFin
import Mathlib.Data.Nat.ModEq
import Mathlib.Tactic.Ring
import Mathlib.Tactic.Linarith
/-!
Proofs about the combining frame's hash table (BS.Model.Table): the probe sequence visits every slot, so the probe
loop terminates at the key's slot or at an empty slot; `insert` maintains the table invariant and acts on the
key ↦ value map like `insertKV` acts on the keyed fold.  (Proof module: imports Mathlib.)
-/
namespace BS.Table
open BS.KV

theorem tri_even (t : Nat) : 2 ∣ t * (t + 1) := by
  rcases Nat.even_or_odd t with ⟨a, ha⟩ | ⟨a, ha⟩
  · exact ⟨a * (t + 1), by rw [ha]; ring⟩
  · exact ⟨t * (a + 1), by rw [ha]; ring⟩

theorem tri_succ (t : Nat) : (t + 1) * (t + 1 + 1) / 2 = t * (t + 1) / 2 + (t + 1) := by
  have : (t + 1) * (t + 1 + 1) = t * (t + 1) + 2 * (t + 1) := by ring
  rw [this, Nat.add_mul_div_left _ _ (by norm_num)]

/-- the closed form is what the code's recurrence computes -/
theorem pidxRec_eq (h : Int → Nat) (cap : Nat) (k : Int) (t : Nat) : pidxRec h cap k t = pidx h cap k t := by
  induction t with
  | zero => simp [pidxRec, pidx]
  | succ t ih =>
    simp only [pidxRec, ih, pidx]
    rw [tri_succ, Nat.add_mod, Nat.mod_mod, ← Nat.add_mod, Nat.add_assoc]

/-- distinct tries below the capacity probe distinct slots (capacity a power of two) -/
theorem pidx_inj (h : Int → Nat) (m : Nat) (k : Int) (i j : Nat) (hi : i < 2 ^ m) (hj : j < 2 ^ m)
    (he : pidx h (2 ^ m) k i = pidx h (2 ^ m) k j) : i = j := by
  by_contra hne
  -- wlog j < i
  have key : ∀ i j : Nat, i < 2 ^ m → j < 2 ^ m → j < i → pidx h (2 ^ m) k i = pidx h (2 ^ m) k j → False := by
    intro i j hi hj hji he
    unfold pidx at he
    have hmono : j * (j + 1) / 2 ≤ i * (i + 1) / 2 := by
      apply Nat.div_le_div_right
      exact Nat.mul_le_mul (by omega) (by omega)
    have hd : 2 ^ m ∣ (h k + i * (i + 1) / 2) - (h k + j * (j + 1) / 2) :=
      Nat.dvd_of_mod_eq_zero (Nat.sub_mod_eq_zero_of_mod_eq he)
    have hsub : (h k + i * (i + 1) / 2) - (h k + j * (j + 1) / 2) = i * (i + 1) / 2 - j * (j + 1) / 2 := by omega
    rw [hsub] at hd
    obtain ⟨a, ha⟩ := tri_even i
    obtain ⟨b, hb⟩ := tri_even j
    have hia : i * (i + 1) / 2 = a := by rw [ha]; simp
    have hjb : j * (j + 1) / 2 = b := by rw [hb]; simp
    rw [hia, hjb] at hd hmono
    have h2 : 2 ^ (m + 1) ∣ BS.Probe.tri2 i - BS.Probe.tri2 j := by
      unfold BS.Probe.tri2
      rw [ha, hb, ← Nat.mul_sub, pow_succ, Nat.mul_comm (2 ^ m) 2]
      exact Nat.mul_dvd_mul_left 2 hd
    exact BS.Probe.tri_inj m i j hi hj hji h2
  rcases Nat.lt_or_gt_of_ne hne with hlt | hgt
  · exact key j i hj hi hlt he.symm
  · exact key i j hi hj hgt he

/-- … hence every slot is probed within `cap` tries -/
theorem pidx_surj (h : Int → Nat) (m : Nat) (k : Int) (e : Nat) (he : e < 2 ^ m) : ∃ t, t < 2 ^ m ∧ pidx h (2 ^ m) k t = e := by
  have hpos : 0 < 2 ^ m := Nat.two_pow_pos m
  let f : Fin (2 ^ m) → Fin (2 ^ m) := fun t => ⟨pidx h (2 ^ m) k t, Nat.mod_lt _ hpos⟩
  have hinj : Function.Injective f := by
    intro a b hab
    have := congrArg Fin.val hab
    exact Fin.ext (pidx_inj h m k a b a.2 b.2 this)
  obtain ⟨t, ht⟩ := (Finite.injective_iff_surjective.mp hinj) ⟨e, he⟩
  exact ⟨t, t.2, congrArg Fin.val ht⟩

end BS.Table

namespace BS.Table
open BS.KV

/-- the table invariant: capacity a power of two, nothing outside it, one slot per key, and every entry is reachable
from its key's first probe through slots holding other keys (no deletion ever punches a hole into a probe path) -/
structure Inv (h : Int → Nat) (tb : T) : Prop where
  pow : ∃ m, tb.cap = 2 ^ m
  bound : ∀ i, tb.cap ≤ i → tb.slots i = none
  uniq : ∀ i j a b, tb.slots i = some a → tb.slots j = some b → a.1 = b.1 → i = j
  reach : ∀ s a, tb.slots s = some a → ∃ t, t < tb.cap ∧ pidx h tb.cap a.1 t = s ∧
    ∀ t', t' < t → ∃ b, tb.slots (pidx h tb.cap a.1 t') = some b ∧ b.1 ≠ a.1

def HasFree (tb : T) : Prop := ∃ e, e < tb.cap ∧ tb.slots e = none

/-- slot `pidx k t` holds another key -/
def Other (h : Int → Nat) (tb : T) (k : Int) (t : Nat) : Prop :=
  ∃ b, tb.slots (pidx h tb.cap k t) = some b ∧ b.1 ≠ k

theorem probe_walk (h : Int → Nat) (tb : T) (k : Int) (te : Nat) (hte : ¬ Other h tb k te) :
    ∀ (d t fuel : Nat), te - t = d → t ≤ te → d < fuel → (∀ t', t' < t → Other h tb k t') →
      ∃ t1, t ≤ t1 ∧ t1 ≤ te ∧ (∀ t', t' < t1 → Other h tb k t') ∧ ¬ Other h tb k t1 ∧
        probe h tb k fuel t = some (pidx h tb.cap k t1, (tb.slots (pidx h tb.cap k t1)).isNone) := by
  intro d
  induction d with
  | zero =>
    intro t fuel hd hle hf hall
    have : t = te := by omega
    subst this
    cases fuel with
    | zero => omega
    | succ fuel =>
      refine ⟨t, Nat.le_refl _, Nat.le_refl _, hall, hte, ?_⟩
      simp only [probe]
      cases hs : tb.slots (pidx h tb.cap k t) with
      | none => rfl
      | some kv =>
        simp only
        have : kv.1 = k := by
          by_contra hne
          exact hte ⟨kv, hs, hne⟩
        simp [this]
  | succ d ih =>
    intro t fuel hd hle hf hall
    cases fuel with
    | zero => omega
    | succ fuel =>
      by_cases ho : Other h tb k t
      · obtain ⟨b, hb, hbk⟩ := ho
        have hrec := ih (t + 1) fuel (by omega) (by omega) (by omega) (by
          intro t' ht'
          rcases Nat.lt_succ_iff_lt_or_eq.mp ht' with h1 | h1
          · exact hall t' h1
          · subst h1; exact ⟨b, hb, hbk⟩)
        obtain ⟨t1, h1, h2, h3, h4, h5⟩ := hrec
        refine ⟨t1, by omega, h2, h3, h4, ?_⟩
        simp only [probe, hb]
        simp [hbk, h5]
      · refine ⟨t, Nat.le_refl _, hle, hall, ho, ?_⟩
        simp only [probe]
        cases hs : tb.slots (pidx h tb.cap k t) with
        | none => rfl
        | some kv =>
          simp only
          have : kv.1 = k := by
            by_contra hne
            exact ho ⟨kv, hs, hne⟩
          simp [this]

/-- **the probe loop terminates** at the key's slot or at the first empty slot of the key's probe path -/
theorem probe_spec (h : Int → Nat) (tb : T) (k : Int) (hi : Inv h tb) (hf : HasFree tb) :
    ∃ t1, t1 < tb.cap ∧ (∀ t', t' < t1 → Other h tb k t') ∧ ¬ Other h tb k t1 ∧
      probe h tb k tb.cap 0 = some (pidx h tb.cap k t1, (tb.slots (pidx h tb.cap k t1)).isNone) := by
  obtain ⟨m, hm⟩ := hi.pow
  obtain ⟨e, he, hes⟩ := hf
  obtain ⟨te, hte, hpe⟩ := pidx_surj h m k e (by rw [← hm]; exact he)
  rw [← hm] at hte hpe
  have hno : ¬ Other h tb k te := by
    rintro ⟨b, hb, _⟩
    rw [hpe, hes] at hb; cases hb
  obtain ⟨t1, _, h2, h3, h4, h5⟩ := probe_walk h tb k te hno (te - 0) 0 tb.cap rfl (Nat.zero_le _) (by omega)
    (fun t' ht' => absurd ht' (Nat.not_lt_zero _))
  exact ⟨t1, by omega, h3, h4, h5⟩

end BS.Table

namespace BS.Table
open BS.KV

/-- key `k` is in the table with value `v` -/
def Has (tb : T) (k v : Int) : Prop := ∃ s, tb.slots s = some (k, v)

theorem cap_pos {h : Int → Nat} {tb : T} (hi : Inv h tb) : 0 < tb.cap := by
  obtain ⟨m, hm⟩ := hi.pow; rw [hm]; exact Nat.two_pow_pos m

theorem pidx_lt {h : Int → Nat} {tb : T} (hi : Inv h tb) (k : Int) (t : Nat) : pidx h tb.cap k t < tb.cap :=
  Nat.mod_lt _ (cap_pos hi)

theorem pidx_inj' {h : Int → Nat} {tb : T} (hi : Inv h tb) (k : Int) (i j : Nat) (h1 : i < tb.cap) (h2 : j < tb.cap)
    (he : pidx h tb.cap k i = pidx h tb.cap k j) : i = j := by
  obtain ⟨m, hm⟩ := hi.pow
  rw [hm] at h1 h2 he
  exact pidx_inj h m k i j h1 h2 he

/-- what `insert` does in the two cases of the probe -/
theorem insert_added (comb : Int → Int → Int) (h : Int → Nat) (tb : T) (r : KV) (i : Nat)
    (hp : probe h tb r.1 tb.cap 0 = some (i, true)) :
    insert comb h tb r = some { tb with slots := upd tb.slots i r, len := tb.len + 1 } := by
  simp [insert, hp]

theorem insert_found (comb : Int → Int → Int) (h : Int → Nat) (tb : T) (r : KV) (i : Nat) (kv : KV)
    (hp : probe h tb r.1 tb.cap 0 = some (i, false)) (hs : tb.slots i = some kv) :
    insert comb h tb r = some { tb with slots := upd tb.slots i (r.1, comb kv.2 r.2) } := by
  simp [insert, hp, hs]

/-- a key present in the table sits exactly where its probe stops -/
theorem has_at_probe {h : Int → Nat} {tb : T} (hi : Inv h tb) (k : Int) (t1 : Nat) (ht1 : t1 < tb.cap)
    (hall : ∀ t', t' < t1 → Other h tb k t') (hno : ¬ Other h tb k t1) (s : Nat) (v : Int)
    (hs : tb.slots s = some (k, v)) : s = pidx h tb.cap k t1 := by
  obtain ⟨t, ht, hpt, hpath⟩ := hi.reach s (k, v) hs
  simp only at hpt hpath
  rcases Nat.lt_trichotomy t t1 with hlt | heq | hgt
  · obtain ⟨b, hb, hbk⟩ := hall t hlt
    rw [hpt, hs] at hb
    cases hb; exact absurd rfl hbk
  · rw [← hpt, heq]
  · exact absurd (hpath t1 hgt) hno

theorem upd_same (s : Nat → Option KV) (i : Nat) (x : KV) : upd s i x i = some x := by simp [upd]
theorem upd_other (s : Nat → Option KV) (i j : Nat) (x : KV) (h : j ≠ i) : upd s i x j = s j := by simp [upd, h]

/-- **insert maintains the invariant** and acts on the key ↦ value map as an upsert -/
theorem insert_spec (comb : Int → Int → Int) (h : Int → Nat) (tb : T) (r : KV) (hi : Inv h tb) (hf : HasFree tb) :
    ∃ tb', insert comb h tb r = some tb' ∧ Inv h tb' ∧ tb'.cap = tb.cap ∧
      ((¬ ∃ v, Has tb r.1 v) → tb'.len = tb.len + 1 ∧ ∀ k v, Has tb' k v ↔ ((k = r.1 ∧ v = r.2) ∨ Has tb k v)) ∧
      (∀ v0, Has tb r.1 v0 → tb'.len = tb.len ∧
        ∀ k v, Has tb' k v ↔ ((k = r.1 ∧ v = comb v0 r.2) ∨ (k ≠ r.1 ∧ Has tb k v))) := by
  obtain ⟨t1, ht1, hall, hno, hp⟩ := probe_spec h tb r.1 hi hf
  let i := pidx h tb.cap r.1 t1
  have hilt : i < tb.cap := pidx_lt hi r.1 t1
  cases hsi : tb.slots i with
  | none =>
    -- the row is added at the first empty slot of its probe path
    have hp' : probe h tb r.1 tb.cap 0 = some (i, true) := by rw [hp]; show some (i, _) = _; rw [hsi]; rfl
    have habs : ¬ ∃ v, Has tb r.1 v := by
      rintro ⟨v, s, hs⟩
      have := has_at_probe hi r.1 t1 ht1 hall hno s v hs
      rw [this] at hs
      rw [show pidx h tb.cap r.1 t1 = i from rfl, hsi] at hs; cases hs
    refine ⟨_, insert_added comb h tb r i hp', ?_, rfl, ?_, ?_⟩
    · refine ⟨hi.pow, ?_, ?_, ?_⟩
      · intro j hj
        have hj' : tb.cap ≤ j := hj
        show upd tb.slots i r j = none
        rw [upd_other _ _ _ _ (by omega)]; exact hi.bound j hj'
      · intro a b x y ha hb hxy
        show a = b
        by_cases hai : a = i <;> by_cases hbi : b = i
        · rw [hai, hbi]
        · exfalso
          rw [show (({ tb with slots := upd tb.slots i r, len := tb.len + 1 } : T).slots a) = upd tb.slots i r a from rfl, hai, upd_same] at ha
          rw [show (({ tb with slots := upd tb.slots i r, len := tb.len + 1 } : T).slots b) = upd tb.slots i r b from rfl, upd_other _ _ _ _ hbi] at hb
          cases ha
          exact habs ⟨y.2, b, by rw [hb, hxy]⟩
        · exfalso
          rw [show (({ tb with slots := upd tb.slots i r, len := tb.len + 1 } : T).slots a) = upd tb.slots i r a from rfl, upd_other _ _ _ _ hai] at ha
          rw [show (({ tb with slots := upd tb.slots i r, len := tb.len + 1 } : T).slots b) = upd tb.slots i r b from rfl, hbi, upd_same] at hb
          cases hb
          exact habs ⟨x.2, a, by rw [ha, ← hxy]⟩
        · rw [show (({ tb with slots := upd tb.slots i r, len := tb.len + 1 } : T).slots a) = upd tb.slots i r a from rfl, upd_other _ _ _ _ hai] at ha
          rw [show (({ tb with slots := upd tb.slots i r, len := tb.len + 1 } : T).slots b) = upd tb.slots i r b from rfl, upd_other _ _ _ _ hbi] at hb
          exact hi.uniq a b x y ha hb hxy
      · intro s a hs
        show ∃ t, t < tb.cap ∧ pidx h tb.cap a.1 t = s ∧ ∀ t', t' < t → ∃ b, upd tb.slots i r (pidx h tb.cap a.1 t') = some b ∧ b.1 ≠ a.1
        have hs' : upd tb.slots i r s = some a := hs
        by_cases hsi' : s = i
        · rw [hsi', upd_same] at hs'
          cases hs'
          refine ⟨t1, ht1, hsi'.symm ▸ rfl, ?_⟩
          intro t' ht'
          obtain ⟨b, hb, hbk⟩ := hall t' ht'
          have hne : pidx h tb.cap r.1 t' ≠ i := by
            intro he
            have := pidx_inj' hi r.1 t' t1 (by omega) ht1 he
            omega
          exact ⟨b, by rw [upd_other _ _ _ _ hne]; exact hb, hbk⟩
        · rw [upd_other _ _ _ _ hsi'] at hs'
          obtain ⟨t, ht, hpt, hpath⟩ := hi.reach s a hs'
          refine ⟨t, ht, hpt, ?_⟩
          intro t' ht'
          obtain ⟨b, hb, hbk⟩ := hpath t' ht'
          have hne : pidx h tb.cap a.1 t' ≠ i := by
            intro he; rw [he, hsi] at hb; cases hb
          exact ⟨b, by rw [upd_other _ _ _ _ hne]; exact hb, hbk⟩
    · intro _
      refine ⟨rfl, ?_⟩
      intro k v
      constructor
      · rintro ⟨s, hs⟩
        have hs' : upd tb.slots i r s = some (k, v) := hs
        by_cases hsi' : s = i
        · rw [hsi', upd_same] at hs'
          cases hs'; exact Or.inl ⟨rfl, rfl⟩
        · rw [upd_other _ _ _ _ hsi'] at hs'
          exact Or.inr ⟨s, hs'⟩
      · rintro (⟨hk, hv⟩ | ⟨s, hs⟩)
        · exact ⟨i, by show upd tb.slots i r i = some (k, v); rw [upd_same, hk, hv]⟩
        · have hne : s ≠ i := by intro he; rw [he, hsi] at hs; cases hs
          exact ⟨s, by show upd tb.slots i r s = some (k, v); rw [upd_other _ _ _ _ hne]; exact hs⟩
    · intro v0 hv0
      exact absurd ⟨v0, hv0⟩ habs
  | some kv =>
    -- the slot holds the row's key: the values are combined in place
    have hkv : kv.1 = r.1 := by
      by_contra hne
      exact hno ⟨kv, hsi, hne⟩
    have hp' : probe h tb r.1 tb.cap 0 = some (i, false) := by rw [hp]; show some (i, _) = _; rw [hsi]; rfl
    have hhas : Has tb r.1 kv.2 := ⟨i, by rw [hsi, ← hkv]⟩
    refine ⟨_, insert_found comb h tb r i kv hp' hsi, ?_, rfl, ?_, ?_⟩
    · refine ⟨hi.pow, ?_, ?_, ?_⟩
      · intro j hj
        have hj' : tb.cap ≤ j := hj
        show upd tb.slots i (r.1, comb kv.2 r.2) j = none
        rw [upd_other _ _ _ _ (by omega)]; exact hi.bound j hj'
      · -- the key of every slot is unchanged
        have hkey : ∀ a x, upd tb.slots i (r.1, comb kv.2 r.2) a = some x → ∃ x0, tb.slots a = some x0 ∧ x0.1 = x.1 := by
          intro a x ha
          by_cases hai : a = i
          · rw [hai, upd_same] at ha; cases ha
            exact ⟨kv, by rw [hai]; exact hsi, hkv⟩
          · rw [upd_other _ _ _ _ hai] at ha; exact ⟨x, ha, rfl⟩
        intro a b x y ha hb hxy
        obtain ⟨x0, hx0, hx0k⟩ := hkey a x ha
        obtain ⟨y0, hy0, hy0k⟩ := hkey b y hb
        exact hi.uniq a b x0 y0 hx0 hy0 (by rw [hx0k, hy0k, hxy])
      · intro s a hs
        show ∃ t, t < tb.cap ∧ pidx h tb.cap a.1 t = s ∧
          ∀ t', t' < t → ∃ b, upd tb.slots i (r.1, comb kv.2 r.2) (pidx h tb.cap a.1 t') = some b ∧ b.1 ≠ a.1
        have hs' : upd tb.slots i (r.1, comb kv.2 r.2) s = some a := hs
        -- the old entry of slot s has the same key
        have hold : ∃ a0, tb.slots s = some a0 ∧ a0.1 = a.1 := by
          by_cases hsi' : s = i
          · rw [hsi', upd_same] at hs'; cases hs'
            exact ⟨kv, by rw [hsi']; exact hsi, hkv⟩
          · rw [upd_other _ _ _ _ hsi'] at hs'; exact ⟨a, hs', rfl⟩
        obtain ⟨a0, ha0, ha0k⟩ := hold
        obtain ⟨t, ht, hpt, hpath⟩ := hi.reach s a0 ha0
        rw [ha0k] at hpt hpath
        refine ⟨t, ht, hpt, ?_⟩
        intro t' ht'
        obtain ⟨b, hb, hbk⟩ := hpath t' ht'
        by_cases he : pidx h tb.cap a.1 t' = i
        · rw [he, upd_same]
          rw [he, hsi] at hb; cases hb
          exact ⟨_, rfl, by simpa [hkv] using hbk⟩
        · exact ⟨b, by rw [upd_other _ _ _ _ he]; exact hb, hbk⟩
    · intro habs
      exact absurd ⟨kv.2, hhas⟩ habs
    · intro v0 hv0
      -- the key has one value
      have hv0' : v0 = kv.2 := by
        obtain ⟨s, hs⟩ := hv0
        have := hi.uniq s i (r.1, v0) kv hs hsi (by simp [hkv])
        rw [this, hsi] at hs
        cases hs; rfl
      refine ⟨rfl, ?_⟩
      intro k v
      constructor
      · rintro ⟨s, hs⟩
        have hs' : upd tb.slots i (r.1, comb kv.2 r.2) s = some (k, v) := hs
        by_cases hsi' : s = i
        · rw [hsi', upd_same] at hs'
          cases hs'; exact Or.inl ⟨rfl, by rw [hv0']⟩
        · rw [upd_other _ _ _ _ hsi'] at hs'
          refine Or.inr ⟨?_, s, hs'⟩
          intro hk
          have := hi.uniq s i (k, v) kv hs' hsi (by simp [hk, hkv])
          exact hsi' this
      · rintro (⟨hk, hv⟩ | ⟨hk, s, hs⟩)
        · exact ⟨i, by show upd tb.slots i (r.1, comb kv.2 r.2) i = some (k, v); rw [upd_same, hk, hv, hv0']⟩
        · have hne : s ≠ i := by
            intro he; rw [he, hsi] at hs; cases hs; exact hk hkv
          exact ⟨s, by show upd tb.slots i (r.1, comb kv.2 r.2) s = some (k, v); rw [upd_other _ _ _ _ hne]; exact hs⟩

end BS.Table

namespace BS.Table
open BS.KV

/-! ### the keyed fold as a map -/

theorem strict_key_unique {m : List KV} (hm : StrictSorted m) {k a b : Int} (ha : (k, a) ∈ m) (hb : (k, b) ∈ m) : a = b := by
  induction m with
  | nil => simp at ha
  | cons x xs ih =>
    unfold StrictSorted at hm
    rw [List.pairwise_cons] at hm
    rcases List.mem_cons.mp ha with ha | ha <;> rcases List.mem_cons.mp hb with hb | hb
    · rw [← ha] at hb; exact (Prod.mk.inj hb).2.symm
    · have := hm.1 _ hb; rw [← ha] at this; simp at this
    · have := hm.1 _ ha; rw [← hb] at this; simp at this
    · exact ih hm.2 ha hb

theorem mem_insertKV (comb : Int → Int → Int) (k v : Int) (m : List KV) (hm : StrictSorted m) (k' v' : Int) :
    (k', v') ∈ insertKV comb k v m ↔
      (k' = k ∧ ((∃ v0, (k, v0) ∈ m ∧ v' = comb v0 v) ∨ ((¬ ∃ v0, (k, v0) ∈ m) ∧ v' = v))) ∨ (k' ≠ k ∧ (k', v') ∈ m) := by
  induction m with
  | nil =>
    simp only [insertKV, List.mem_singleton, Prod.mk.injEq, List.not_mem_nil, false_and, exists_false, not_false_eq_true,
      true_and, false_or, and_false, or_false]
  | cons x xs ih =>
    obtain ⟨kx, vx⟩ := x
    unfold StrictSorted at hm
    rw [List.pairwise_cons] at hm
    have hlt : ∀ y ∈ xs, kx < y.1 := hm.1
    simp only [insertKV]
    split
    · -- k < kx: k is not in the list
      rename_i hk
      have hnot : ¬ ∃ v0, (k, v0) ∈ (kx, vx) :: xs := by
        rintro ⟨v0, h0⟩
        rcases List.mem_cons.mp h0 with h0 | h0
        · have := (Prod.mk.inj h0).1; omega
        · have := hlt _ h0; simp at this; omega
      constructor
      · intro hmem
        rcases List.mem_cons.mp hmem with h0 | h0
        · obtain ⟨rfl, rfl⟩ := Prod.mk.inj h0
          exact Or.inl ⟨rfl, Or.inr ⟨hnot, rfl⟩⟩
        · refine Or.inr ⟨?_, h0⟩
          intro he; subst he; exact hnot ⟨v', h0⟩
      · rintro (⟨rfl, (⟨v0, h0, _⟩ | ⟨_, rfl⟩)⟩ | ⟨_, h0⟩)
        · exact absurd ⟨v0, h0⟩ hnot
        · exact List.mem_cons_self
        · exact List.mem_cons_of_mem _ h0
    · split
      · -- k = kx: combine at the head
        rename_i _ hk
        subst hk
        have huniq : ∀ v0, (k, v0) ∈ (k, vx) :: xs → v0 = vx := by
          intro v0 h0
          rcases List.mem_cons.mp h0 with h0 | h0
          · exact (Prod.mk.inj h0).2
          · have := hlt _ h0; simp at this
        constructor
        · intro hmem
          rcases List.mem_cons.mp hmem with h0 | h0
          · obtain ⟨rfl, rfl⟩ := Prod.mk.inj h0
            exact Or.inl ⟨rfl, Or.inl ⟨vx, List.mem_cons_self, rfl⟩⟩
          · refine Or.inr ⟨?_, List.mem_cons_of_mem _ h0⟩
            intro he; subst he
            have := hlt _ h0; simp at this
        · rintro (⟨rfl, (⟨v0, h0, rfl⟩ | ⟨hno, _⟩)⟩ | ⟨hne, h0⟩)
          · rw [huniq v0 h0]; exact List.mem_cons_self
          · exact absurd ⟨vx, List.mem_cons_self⟩ hno
          · rcases List.mem_cons.mp h0 with h0 | h0
            · exact absurd (Prod.mk.inj h0).1 hne
            · exact List.mem_cons_of_mem _ h0
      · -- k > kx: recurse
        rename_i hk1 hk2
        have hkx : kx < k := by omega
        have ih' := ih hm.2
        constructor
        · intro hmem
          rcases List.mem_cons.mp hmem with h0 | h0
          · obtain ⟨rfl, rfl⟩ := Prod.mk.inj h0
            exact Or.inr ⟨by omega, List.mem_cons_self⟩
          · rcases ih'.mp h0 with ⟨rfl, (⟨v0, h1, rfl⟩ | ⟨hno, rfl⟩)⟩ | ⟨hne, h1⟩
            · exact Or.inl ⟨rfl, Or.inl ⟨v0, List.mem_cons_of_mem _ h1, rfl⟩⟩
            · refine Or.inl ⟨rfl, Or.inr ⟨?_, rfl⟩⟩
              rintro ⟨v0, h1⟩
              rcases List.mem_cons.mp h1 with h1 | h1
              · have := (Prod.mk.inj h1).1; omega
              · exact hno ⟨v0, h1⟩
            · exact Or.inr ⟨hne, List.mem_cons_of_mem _ h1⟩
        · rintro (⟨rfl, (⟨v0, h1, rfl⟩ | ⟨hno, rfl⟩)⟩ | ⟨hne, h1⟩)
          · rcases List.mem_cons.mp h1 with h1 | h1
            · have := (Prod.mk.inj h1).1; omega
            · exact List.mem_cons_of_mem _ (ih'.mpr (Or.inl ⟨rfl, Or.inl ⟨v0, h1, rfl⟩⟩))
          · refine List.mem_cons_of_mem _ (ih'.mpr (Or.inl ⟨rfl, Or.inr ⟨?_, rfl⟩⟩))
            rintro ⟨v0, h1⟩; exact hno ⟨v0, List.mem_cons_of_mem _ h1⟩
          · rcases List.mem_cons.mp h1 with h1 | h1
            · rw [h1]; exact List.mem_cons_self
            · exact List.mem_cons_of_mem _ (ih'.mpr (Or.inr ⟨hne, h1⟩))

/-- the table represents the assoc list `m` -/
def Repr (tb : T) (m : List KV) : Prop := ∀ k v, Has tb k v ↔ (k, v) ∈ m

/-- **one row**: inserting into a table that represents `m` gives a table that represents `insertKV comb k v m` -/
theorem repr_insert (comb : Int → Int → Int) (h : Int → Nat) (tb : T) (r : KV) (m : List KV) (hi : Inv h tb) (hf : HasFree tb)
    (hm : StrictSorted m) (hr : Repr tb m) :
    ∃ tb', insert comb h tb r = some tb' ∧ Inv h tb' ∧ tb'.cap = tb.cap ∧ Repr tb' (insertKV comb r.1 r.2 m) ∧
      ((∃ v0, (r.1, v0) ∈ m) → tb'.len = tb.len) ∧ ((¬ ∃ v0, (r.1, v0) ∈ m) → tb'.len = tb.len + 1) := by
  obtain ⟨tb', hins, hinv, hcap, hadd, hfound⟩ := insert_spec comb h tb r hi hf
  refine ⟨tb', hins, hinv, hcap, ?_, ?_⟩
  · intro k v
    rw [mem_insertKV comb r.1 r.2 m hm k v]
    by_cases hex : ∃ v0, Has tb r.1 v0
    · obtain ⟨v0, hv0⟩ := hex
      rw [(hfound v0 hv0).2 k v]
      constructor
      · rintro (⟨rfl, rfl⟩ | ⟨hne, hk⟩)
        · exact Or.inl ⟨rfl, Or.inl ⟨v0, (hr _ _).mp hv0, rfl⟩⟩
        · exact Or.inr ⟨hne, (hr _ _).mp hk⟩
      · rintro (⟨rfl, (⟨v1, h1, rfl⟩ | ⟨hno, _⟩)⟩ | ⟨hne, hk⟩)
        · have : v1 = v0 := strict_key_unique hm h1 ((hr _ _).mp hv0)
          rw [this]; exact Or.inl ⟨rfl, rfl⟩
        · exact absurd ⟨v0, (hr _ _).mp hv0⟩ hno
        · exact Or.inr ⟨hne, (hr _ _).mpr hk⟩
    · rw [(hadd hex).2 k v]
      have hno : ¬ ∃ v0, (r.1, v0) ∈ m := by rintro ⟨v0, h0⟩; exact hex ⟨v0, (hr _ _).mpr h0⟩
      constructor
      · rintro (⟨rfl, rfl⟩ | hk)
        · exact Or.inl ⟨rfl, Or.inr ⟨hno, rfl⟩⟩
        · refine Or.inr ⟨?_, (hr _ _).mp hk⟩
          intro he; subst he; exact hex ⟨v, hk⟩
      · rintro (⟨rfl, (⟨v1, h1, _⟩ | ⟨_, rfl⟩)⟩ | ⟨_, hk⟩)
        · exact absurd ⟨v1, h1⟩ hno
        · exact Or.inl ⟨rfl, rfl⟩
        · exact Or.inr ((hr _ _).mpr hk)
  · refine ⟨?_, ?_⟩
    · rintro ⟨v0, h0⟩
      exact (hfound v0 ((hr _ _).mpr h0)).1
    · intro hex
      exact (hadd (by rintro ⟨v0, h0⟩; exact hex ⟨v0, (hr _ _).mp h0⟩)).1

end BS.Table
