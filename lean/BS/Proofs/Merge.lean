import BS.Model.Merge
import BS.Properties.C09
/-!
The reducing merge machine (BS.Model.Merge) computes the keyed fold of all the rows of its streams, provided the
streams are strictly sorted (one row per key: they were combined upstream) and the combine function is commutative
and associative.
-/
namespace BS.Merge
open BS.KV

def AllStrict (ss : List (List KV)) : Prop := ∀ s ∈ ss, StrictSorted s

theorem strict_head_lt {k v : Int} {t : List KV} (h : StrictSorted ((k, v) :: t)) : ∀ x ∈ t, k < x.1 := by
  unfold StrictSorted at h
  rw [List.pairwise_cons] at h
  intro x hx; exact h.1 x hx

theorem strict_tail {a : KV} {t : List KV} (h : StrictSorted (a :: t)) : StrictSorted t := by
  unfold StrictSorted at h ⊢
  exact (List.pairwise_cons.mp h).2

theorem headVals_cons (k k0 v0 : Int) (t : List KV) (ss : List (List KV)) :
    headVals k (((k0, v0) :: t) :: ss) = if k0 = k then v0 :: headVals k ss else headVals k ss := by
  simp only [headVals, List.filterMap_cons]
  split <;> simp_all

theorem headVals_nil (k : Int) (ss : List (List KV)) : headVals k ([] :: ss) = headVals k ss := by
  simp [headVals]

theorem advance_cons (k k0 v0 : Int) (t : List KV) (ss : List (List KV)) :
    advance k (((k0, v0) :: t) :: ss) = (if k0 = k then t else (k0, v0) :: t) :: advance k ss := by
  simp [advance]

theorem advance_nil (k : Int) (ss : List (List KV)) : advance k ([] :: ss) = [] :: advance k ss := by
  simp [advance]

theorem perm_swap3 {α} (X M F : List α) : (X ++ (M ++ F)).Perm (M ++ (X ++ F)) := by
  rw [← List.append_assoc, ← List.append_assoc]
  exact List.Perm.append_right _ List.perm_append_comm

theorem minKey_none {ss : List (List KV)} (h : minKey ss = none) : ss.flatten = [] := by
  induction ss with
  | nil => rfl
  | cons s ss ih =>
    cases s with
    | nil => simp only [minKey] at h; simp [ih h]
    | cons a t =>
      obtain ⟨k, v⟩ := a
      simp only [minKey] at h
      split at h <;> cases h

/-- the smallest current key is a lower bound of every key still in the streams -/
theorem minKey_le {ss : List (List KV)} (hs : AllStrict ss) {k : Int} (h : minKey ss = some k) : ∀ x ∈ ss.flatten, k ≤ x.1 := by
  induction ss generalizing k with
  | nil => intro x hx; simp at hx
  | cons s ss ih =>
    have hs' : AllStrict ss := fun t ht => hs t (by simp [ht])
    cases s with
    | nil => simp only [minKey] at h; simpa using ih hs' h
    | cons a t =>
      obtain ⟨k0, v0⟩ := a
      have hst := hs ((k0, v0) :: t) (by simp)
      simp only [minKey] at h
      intro x hx
      simp only [List.flatten_cons, List.mem_append, List.mem_cons] at hx
      cases hm : minKey ss with
      | none =>
        rw [hm] at h; simp only [Option.some.injEq] at h; subst h
        have hfl := minKey_none hm
        rcases hx with (rfl | hx) | hx
        · exact Int.le_refl _
        · exact Int.le_of_lt (strict_head_lt hst x hx)
        · rw [hfl] at hx; simp at hx
      | some k' =>
        rw [hm] at h; simp only [Option.some.injEq] at h
        have ih' := ih hs' hm
        rcases hx with (rfl | hx) | hx
        · simp only; rw [← h]; split <;> omega
        · have := strict_head_lt hst x hx; rw [← h]; split <;> omega
        · have := ih' x hx; rw [← h]; split <;> omega

/-- … and it is one of the current keys -/
theorem headVals_ne_nil {ss : List (List KV)} {k : Int} (h : minKey ss = some k) : headVals k ss ≠ [] := by
  induction ss generalizing k with
  | nil => simp [minKey] at h
  | cons s ss ih =>
    cases s with
    | nil => simp only [minKey] at h; rw [headVals_nil]; exact ih h
    | cons a t =>
      obtain ⟨k0, v0⟩ := a
      simp only [minKey] at h
      rw [headVals_cons]
      cases hm : minKey ss with
      | none => rw [hm] at h; simp only [Option.some.injEq] at h; subst h; simp
      | some k' =>
        rw [hm] at h; simp only [Option.some.injEq] at h
        by_cases hlt : k' < k0
        · rw [if_pos hlt] at h; subst h
          split
          · simp
          · exact ih hm
        · rw [if_neg hlt] at h; subst h; simp

/-- the rows split into the rows at the current key and what is left of the streams -/
theorem flatten_perm (k : Int) (ss : List (List KV)) :
    ss.flatten.Perm ((headVals k ss).map (fun v => (k, v)) ++ (advance k ss).flatten) := by
  induction ss with
  | nil => simp [headVals, advance]
  | cons s ss ih =>
    cases s with
    | nil => rw [headVals_nil, advance_nil]; simpa using ih
    | cons a t =>
      obtain ⟨k0, v0⟩ := a
      rw [headVals_cons, advance_cons]
      by_cases hk : k0 = k
      · subst hk
        simp only [if_true, List.map_cons, List.flatten_cons, List.cons_append]
        refine List.Perm.cons _ ?_
        exact (List.Perm.append_left t ih).trans (perm_swap3 t _ _)
      · simp only [hk, if_false, List.flatten_cons]
        exact (List.Perm.append_left ((k0, v0) :: t) ih).trans (perm_swap3 ((k0, v0) :: t) _ _)

theorem advance_strict {ss : List (List KV)} (hs : AllStrict ss) (k : Int) : AllStrict (advance k ss) := by
  intro s hs'
  simp only [advance, List.mem_map] at hs'
  obtain ⟨s0, hs0, rfl⟩ := hs'
  cases s0 with
  | nil => exact List.Pairwise.nil
  | cons a t =>
    obtain ⟨k0, v0⟩ := a
    simp only
    split
    · exact strict_tail (hs _ hs0)
    · exact hs _ hs0

/-- what is left after a round has only larger keys -/
theorem advance_gt {ss : List (List KV)} (hs : AllStrict ss) {k : Int} (hk : ∀ x ∈ ss.flatten, k ≤ x.1) :
    ∀ x ∈ (advance k ss).flatten, k < x.1 := by
  intro x hx
  simp only [advance, List.mem_flatten, List.mem_map] at hx
  obtain ⟨s, ⟨s0, hs0, rfl⟩, hxs⟩ := hx
  cases s0 with
  | nil => simp at hxs
  | cons a t =>
    obtain ⟨k0, v0⟩ := a
    simp only at hxs
    have hst := hs _ hs0
    split at hxs
    · rename_i he; subst he
      exact strict_head_lt hst x hxs
    · rename_i hne
      have hle : k ≤ k0 := hk (k0, v0) (List.mem_flatten.mpr ⟨_, hs0, by simp⟩)
      rcases List.mem_cons.mp hxs with rfl | hxt
      · simp only; omega
      · have := strict_head_lt hst x hxt; omega

theorem flatten_length_advance (k : Int) (ss : List (List KV)) :
    ss.flatten.length = (headVals k ss).length + (advance k ss).flatten.length := by
  have := (flatten_perm k ss).length_eq
  simpa using this

variable (comb : Int → Int → Int)

theorem foldMap_sameKey (k v : Int) (vs : List Int) :
    foldMap comb ((v :: vs).map fun x => (k, x)) = [(k, vs.foldl comb v)] := by
  unfold foldMap
  have gen : ∀ (vs : List Int) (a : Int), (vs.map fun x => ((k, x) : KV)).foldl (fun m r => insertKV comb r.1 r.2 m) [(k, a)] =
      [(k, vs.foldl comb a)] := by
    intro vs
    induction vs with
    | nil => intro a; rfl
    | cons x xs ih =>
      intro a
      simp only [List.map_cons, List.foldl_cons, insertKV, Int.lt_irrefl, if_false, if_true]
      exact ih (comb a x)
  simp only [List.map_cons, List.foldl_cons, insertKV]
  exact gen vs v

theorem foldl_insert_head (k a : Int) :
    ∀ (rest acc : List KV), (∀ x ∈ rest, k < x.1) →
      rest.foldl (fun m r => insertKV comb r.1 r.2 m) ((k, a) :: acc) =
        (k, a) :: rest.foldl (fun m r => insertKV comb r.1 r.2 m) acc := by
  intro rest
  induction rest with
  | nil => intro acc _; rfl
  | cons r rest ih =>
    intro acc h
    have hr : k < r.1 := h r (by simp)
    simp only [List.foldl_cons]
    have : insertKV comb r.1 r.2 ((k, a) :: acc) = (k, a) :: insertKV comb r.1 r.2 acc := by
      simp only [insertKV]
      rw [if_neg (by omega), if_neg (by omega)]
    rw [this]
    exact ih _ (fun x hx => h x (by simp [hx]))

/-- **the machine computes the keyed fold**: with enough fuel (one round per distinct key) -/
theorem run_spec (hc : ∀ a b, comb a b = comb b a) (ha : ∀ a b c, comb (comb a b) c = comb a (comb b c)) :
    ∀ (fuel : Nat) (ss : List (List KV)), AllStrict ss → ss.flatten.length < fuel →
      run comb fuel ss = foldMap comb ss.flatten := by
  intro fuel
  induction fuel with
  | zero => intro ss _ h; omega
  | succ fuel ih =>
    intro ss hs hf
    simp only [run, step]
    cases hm : minKey ss with
    | none => simp [minKey_none hm, foldMap]
    | some k =>
      simp only
      have hle := minKey_le hs hm
      have hne := headVals_ne_nil hm
      have hgt := advance_gt hs hle
      have hlen := flatten_length_advance k ss
      have hpos : 0 < (headVals k ss).length := List.length_pos_iff.mpr hne
      rw [ih (advance k ss) (advance_strict hs k) (by omega)]
      rw [foldMap_perm comb hc ha _ _ (flatten_perm k ss), foldMap_append]
      cases hv : headVals k ss with
      | nil => exact absurd hv hne
      | cons v vs =>
        rw [foldMap_sameKey comb k v vs, foldl_insert_head comb k _ _ [] hgt]
        simp only [foldVals]
        rfl

end BS.Merge
