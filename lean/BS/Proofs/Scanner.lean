import BS.Proofs.Reader
/-! The scanner over any lawful reader yields exactly the rows the reader still has, in order. -/
namespace BS.Reader

theorem scanFill_spec {α} (U : Rd α) (rem : U.σ → List α) (mu : U.σ → Nat) (h : Lawful U rem mu) (c : Nat) (hc : 0 < c) :
    ∀ (fuel : Nat) (s : U.σ), mu s + (rem s).length < fuel →
      let r := scanFill U c fuel s
      r.2.1 ++ (if r.2.2 then [] else rem r.1) = rem s ∧ (r.2.1 = [] → r.2.2 = true) := by
  intro fuel
  induction fuel with
  | zero => intro s hf; omega
  | succ fuel ih =>
    intro s hf
    simp only [scanFill]
    have hsp := h.split s c
    have hmo := h.mono s c
    have hlen : (rem s).length = (U.read s c).2.1.length + (rem (U.read s c).1).length := by
      rw [← hsp, List.length_append]
    split
    · rename_i he
      have := h.eof s c he
      refine ⟨?_, fun _ => rfl⟩
      simp only [if_true, List.append_nil]
      rw [this, List.append_nil] at hsp
      exact hsp
    · rename_i hne
      have hm : (U.read s c).2.2 = .more := by
        cases hst : (U.read s c).2.2 <;> simp_all
      split
      · rename_i hemp
        have hnil : (U.read s c).2.1 = [] := by simpa using hemp
        have hpr := h.prog s c hc hnil hm
        rw [hnil] at hlen hsp
        simp only [List.length_nil, Nat.zero_add] at hlen
        simp only [List.nil_append] at hsp
        have := ih (U.read s c).1 (by omega)
        rw [hsp] at this
        exact this
      · rename_i hnemp
        refine ⟨by simpa using hsp, fun hh => ?_⟩
        exact absurd hh (by simpa using hnemp)

/-- what a scanner still has to deliver -/
def srem {α} {U : Rd α} (rem : U.σ → List α) (s : ScanS U.σ α) : List α :=
  s.buf ++ (if s.atEOF then [] else rem s.up)

theorem scan_spec {α} (U : Rd α) (rem : U.σ → List α) (mu : U.σ → Nat) (h : Lawful U rem mu) (c : Nat) (hc : 0 < c)
    (fuelOf : U.σ → Nat) (hf : ∀ s, mu s + (rem s).length < fuelOf s) (s : ScanS U.σ α) :
    match scan U c fuelOf s with
    | (s', some x) => srem rem s = x :: srem rem s'
    | (_, none) => srem rem s = [] := by
  unfold scan
  cases hb : s.buf with
  | cons x rest => simp [srem, hb]
  | nil =>
    simp only
    by_cases he : s.atEOF = true
    · simp [he, srem, hb]
    · have he' : s.atEOF = false := by simpa using he
      simp only [he', Bool.false_eq_true, if_false]
      obtain ⟨h1, h2⟩ := scanFill_spec U rem mu h c hc (fuelOf s.up) s.up (hf s.up)
      cases hr : (scanFill U c (fuelOf s.up) s.up).2.1 with
      | cons x rest =>
        simp only [srem, hb, he', List.nil_append, Bool.false_eq_true, if_false]
        rw [← h1, hr]
        rfl
      | nil =>
        simp only [srem, hb, he', List.nil_append, Bool.false_eq_true, if_false]
        have := h2 hr
        rw [← h1, hr, this]
        rfl

/-- **scanner_spec**: scanning to the end yields exactly the remaining rows, in order — for every lawful reader underneath
(every chunking, zero-row reads, end-of-stream with or after the last rows) and every buffer size ≥ 1 -/
theorem scanAll_spec {α} (U : Rd α) (rem : U.σ → List α) (mu : U.σ → Nat) (h : Lawful U rem mu) (c : Nat) (hc : 0 < c)
    (fuelOf : U.σ → Nat) (hf : ∀ s, mu s + (rem s).length < fuelOf s) :
    ∀ (n : Nat) (s : ScanS U.σ α), (srem rem s).length < n → scanAll U c fuelOf n s = srem rem s := by
  intro n
  induction n with
  | zero => intro s hn; omega
  | succ n ih =>
    intro s hn
    have hs := scan_spec U rem mu h c hc fuelOf hf s
    simp only [scanAll]
    cases hsc : scan U c fuelOf s with
    | mk s' o =>
      rw [hsc] at hs
      cases o with
      | some x =>
        simp only at hs ⊢
        rw [hs, ih s' (by rw [hs] at hn; simp at hn; omega)]
      | none =>
        simp only at hs ⊢
        exact hs.symm

end BS.Reader
