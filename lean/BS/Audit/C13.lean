import BS.Properties.C13
#print axioms BS.Cache.cache_transparent
#print axioms BS.Cache.served_partial_iff
#print axioms BS.Cache.served_all_iff
#print axioms BS.Cache.served_nil
#print axioms BS.Exec.evalOp_congr
#print axioms BS.Cache.evalOpC_sim
#print axioms BS.Cache.evalNodesC_sim
#print axioms BS.Cache.cached_run_refines
#print axioms BS.Cache.FilesOK_nil
#print axioms BS.Cache.demand_depends_on_view
