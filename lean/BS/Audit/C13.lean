import BS.Properties.C13
import BS.Properties.C13w
#print axioms BS.Cache.cache_transparent
#print axioms BS.Cache.served_partial_iff
#print axioms BS.Cache.served_all_iff
#print axioms BS.Cache.served_nil
#print axioms BS.Exec.evalOp_congr
#print axioms BS.Cache.evalOpC_sim
#print axioms BS.Cache.evalNodesC_sim
#print axioms BS.Cache.cached_run_refines
#print axioms BS.Cache.FilesOK_nil
#print axioms BS.Cache.demand_depends_on_view
#print axioms BS.WT.read_spec
#print axioms BS.WT.run_spec
#print axioms BS.WT.published_complete
#print axioms BS.WT.published_iff_eof
#print axioms BS.WT.transparent
#print axioms BS.WT.error_never_publishes
#print axioms BS.WT.abandoned_never_publishes
#print axioms BS.WT.drained_publishes
