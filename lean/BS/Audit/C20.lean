import BS.Properties.C20
#print axioms BS.Metrics.merge_adds
#print axioms BS.Metrics.merge_frame
#print axioms BS.Metrics.reset_reports_other
#print axioms BS.Metrics.resetNil_zero
#print axioms BS.Metrics.gob_roundtrip
#print axioms BS.Metrics.gob_frame
#print axioms BS.Metrics.incr_adds
#print axioms BS.Metrics.merge_wf
#print axioms BS.Metrics.result_scope_is_sum
