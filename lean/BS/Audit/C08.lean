import BS.Properties.C08
#print axioms BS.Compile.finish_spec
#print axioms BS.Compile.goDeps_spec
#print axioms BS.Compile.compileResult_spec
#print axioms BS.Compile.compileGeneral_spec
#print axioms BS.Compile.compile_spec
#print axioms BS.Compile.compile_acyclic
#print axioms BS.Compile.shuffle_wiring
#print axioms BS.Compile.direct_wiring
#print axioms BS.Compile.newTasks_spec
#print axioms BS.Compile.pipeline_stops
#print axioms BS.Compile.pipeline_result
