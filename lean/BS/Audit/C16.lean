import BS.Properties.C16
#print axioms BS.Diff.leftOf_trace
#print axioms BS.Diff.rightOf_trace
#print axioms BS.Diff.diff_nil_iff_eq
#print axioms BS.Diff.diff_transforms
#print axioms BS.Inv.args_roundtrip
#print axioms BS.Inv.unencodable_fails
