import BS.Properties.C04
#print axioms BS.Exec.strategy_independent
#print axioms BS.Exec.strategy_independent_rows
#print axioms BS.Exec.counters_sim
#print axioms BS.Exec.counters_independent
#print axioms BS.Exec.pragma_irrelevant
#print axioms BS.Exec.reverse_valid
#print axioms BS.Exec.rotate_valid
#print axioms BS.Exec.one_stream_valid
#print axioms BS.Exec.singletons_valid
#print axioms BS.Exec.arrange_comp
