import BS.Properties.C07
import BS.Properties.C07c
#print axioms BS.Codec.drainDec_spec
#print axioms BS.Codec.decode_encode
#print axioms BS.Codec.damaged_batch_rejected
#print axioms BS.Codec.dec_read_le
#print axioms BS.Codec.dec_sticky
#print axioms BS.Crc.checksum_detects_bit_burst
#print axioms BS.Crc.checksum_detects_byte_burst
#print axioms BS.Crc.checksum_detects_bit_flip
