import BS.Properties.C07
#print axioms BS.Codec.drainDec_spec
#print axioms BS.Codec.decode_encode
#print axioms BS.Codec.damaged_batch_rejected
#print axioms BS.Codec.dec_read_le
#print axioms BS.Codec.dec_sticky
