import BS.Properties.C01
#print axioms BS.Exec.execOp_sim
#print axioms BS.Exec.execNodes_sim
#print axioms BS.Exec.exec_refines_sem
#print axioms BS.Exec.exec_rows_perm
#print axioms BS.Exec.exec_ordered_eq
#print axioms BS.Exec.observed_eq
#print axioms BS.Exec.runMap_eq
#print axioms BS.Exec.runFilter_eq
#print axioms BS.Exec.runFlat_eq
#print axioms BS.Exec.runHead_eq
#print axioms BS.Exec.arrive_perm
#print axioms BS.Exec.demoσ_valid
