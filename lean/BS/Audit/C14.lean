import BS.Properties.C14
import BS.Properties.C14l
#print axioms BS.Cluster.schedule_fits
#print axioms BS.Cluster.schedule_spec
#print axioms BS.Cluster.schedule_head
#print axioms BS.Cluster.grant_only_ok
#print axioms BS.Cluster.step_inv
#print axioms BS.Cluster.capacity_invariant
#print axioms BS.Cluster.exclusive_alone
#print axioms BS.Cluster.clamp_le
#print axioms BS.Cluster.clamp_exclusive
#print axioms BS.Cluster.machprocs_pos
#print axioms BS.Cluster.start_bounded
#print axioms BS.Cluster.idle_means_zero
#print axioms BS.Limiter.limiter_inv
#print axioms BS.Limiter.at_most_p_running
#print axioms BS.Limiter.exclusive_runs_alone
#print axioms BS.Limiter.exclusive_takes_all
#print axioms BS.Limiter.idle_all_tokens
#print axioms BS.Limiter.idle_serves_any
#print axioms BS.Limiter.release_unheld
#print axioms BS.Limiter.blocked_has_holder
