import BS.Properties.C06
import BS.Properties.C06r
#print axioms BS.Fault.attempt_not_ok
#print axioms BS.Fault.attempt_fatal_iff
#print axioms BS.Fault.attempt_tmp_lost
#print axioms BS.Fault.revise_app_not_temporary
#print axioms BS.Fault.revise_other_not_fatal
#print axioms BS.Fault.runTask_attempts_le
#print axioms BS.Fault.runTask_persistent
#print axioms BS.Fault.persistent_failure_is_error
#print axioms BS.Fault.transient_failure_is_success
#print axioms BS.Fault.demand_persistent
#print axioms BS.Fault.demand_transient
#print axioms BS.Fault.demand_message
#print axioms BS.Combine.retry_commits_exactly_one_attempt
#print axioms BS.Combine.retry_folds_once
#print axioms BS.Combine.unrepaired_counts_twice
