import BS.Properties.C19
#print axioms BS.Elect.inv_step
#print axioms BS.Elect.reachable_inv
#print axioms BS.Elect.one_runner
#print axioms BS.Elect.done_only_when_final
