import BS.Properties.C19
import BS.Properties.C19w
#print axioms BS.Elect.inv_step
#print axioms BS.Elect.reachable_inv
#print axioms BS.Elect.one_runner
#print axioms BS.Elect.done_only_when_final
#print axioms BS.Wake.no_lost_wakeup
#print axioms BS.Wake.woken_after_broadcast
#print axioms BS.Wake.abandon_clears_loses_wakeup
