import BS.Properties.C12
import BS.Properties.C12b
#print axioms BS.History.consumer_congr
#print axioms BS.History.step_inv
#print axioms BS.History.history_refines
#print axioms BS.History.inv_nil
#print axioms BS.History.spec_ignores_recompute
#print axioms BS.Discard.inv_step
#print axioms BS.Discard.discard_safe
#print axioms BS.Discard.lost_first_unsafe
