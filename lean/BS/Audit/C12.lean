import BS.Properties.C12
import BS.Properties.C12b
import BS.Properties.C12w
#print axioms BS.History.consumer_congr
#print axioms BS.History.step_inv
#print axioms BS.History.history_refines
#print axioms BS.History.inv_nil
#print axioms BS.History.spec_ignores_recompute
#print axioms BS.Discard.inv_step
#print axioms BS.Discard.discard_safe
#print axioms BS.Discard.lost_first_unsafe
#print axioms BS.WorkerTask.step_inv
#print axioms BS.WorkerTask.reachable_inv
#print axioms BS.WorkerTask.one_holder
#print axioms BS.WorkerTask.ok_has_output
#print axioms BS.WorkerTask.success_reply_has_output
#print axioms BS.WorkerTask.lost_as_success_unsafe
#print axioms BS.WorkerTask.cancel_breaks_one_holder
