import BS.Properties.C09
import BS.Properties.C09t
import BS.Proofs.Probe
#print axioms BS.KV.foldMap_strictSorted
#print axioms BS.KV.foldMap_perm
#print axioms BS.KV.foldMap_idem
#print axioms BS.KV.spill_runs_spec
#print axioms BS.KV.threshold_lt_cap
#print axioms BS.Probe.tri_inj
#print axioms BS.Table.pidx_inj
#print axioms BS.Table.pidx_surj
#print axioms BS.Table.probe_spec
#print axioms BS.Table.insert_spec
#print axioms BS.Table.repr_insert
#print axioms BS.Table.rehash_spec
#print axioms BS.Table.combine1_spec
#print axioms BS.Table.combineAll_spec
#print axioms BS.Table.combining_frame_spec
#print axioms BS.Table.probe_recurrence
