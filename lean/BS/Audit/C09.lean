import BS.Properties.C09
import BS.Proofs.Probe
#print axioms BS.KV.foldMap_strictSorted
#print axioms BS.KV.foldMap_perm
#print axioms BS.KV.foldMap_idem
#print axioms BS.KV.spill_runs_spec
#print axioms BS.KV.threshold_lt_cap
#print axioms BS.Probe.tri_inj
