import BS.Properties.C17
import BS.Properties.C17c
#print axioms BS.Reader.drain_spec
#print axioms BS.Reader.up_lawful
#print axioms BS.Reader.map_lawful
#print axioms BS.Reader.frame_lawful
#print axioms BS.Reader.head_lawful
#print axioms BS.Reader.multi_lawful
#print axioms BS.Reader.filter_lawful
#print axioms BS.Reader.flat_lawful
#print axioms BS.Reader.flat_drain
#print axioms BS.Reader.pipeline_example
#print axioms BS.Reader.multiBuggy_loses_rows
#print axioms BS.Reader.headBuggy_writes_beyond
#print axioms BS.Reader.scanner_spec
#print axioms BS.Reader.scanner_over_script
#print axioms BS.Merge.cogroup_machine_spec
#print axioms BS.Merge.cogroup_of_unsorted
#print axioms BS.Merge.groupsOf_sorted
