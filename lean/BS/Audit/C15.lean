import BS.Properties.C15
#print axioms BS.Store.visible_only_after_commit
#print axioms BS.Store.committed_bytes_exact
#print axioms BS.Store.failed_commit_reports_error
#print axioms BS.Store.discard_hides
#print axioms BS.Store.read_exact
#print axioms BS.Store.drain_exact
