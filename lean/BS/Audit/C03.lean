import BS.Properties.C03
#print axioms BS.Eval.enqueue_callOK
#print axioms BS.Eval.enqueue_callLive
#print axioms BS.Eval.ready_and_needed_only
#print axioms BS.Eval.handout_enqueue
#print axioms BS.Eval.handout_runnable
#print axioms BS.Eval.handout_ret
#print axioms BS.Eval.success_only_when_done
#print axioms BS.Eval.error_reported
#print axioms BS.Eval.lost_resubmitted
#print axioms BS.Eval.ret_not_pending
