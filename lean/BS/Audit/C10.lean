import BS.Properties.C10
import BS.Properties.C10m
import BS.Properties.C10e
#print axioms BS.KV.sortKV_perm
#print axioms BS.KV.sortKV_sorted
#print axioms BS.KV.merge2_perm
#print axioms BS.KV.merge2_sorted
#print axioms BS.KV.mergeAll_spec
#print axioms BS.KV.reduceAll_strictSorted
#print axioms BS.KV.reduceAll_streams_irrelevant
#print axioms BS.KV.reduce_of_sorted_runs
#print axioms BS.Merge.run_spec
#print axioms BS.Merge.reduce_machine_spec
#print axioms BS.Merge.reduce_machine_sorted
#print axioms BS.Merge.mrun_spec
#print axioms BS.Merge.merge_machine_spec
#print axioms BS.Merge.merge_machine_leftmost
#print axioms BS.Merge.leftmost_legal
#print axioms BS.Merge.combine_then_reduce_machine
#print axioms BS.Merge.sort_runs_then_merge_machine
#print axioms BS.Merge.no_failing_input
#print axioms BS.Merge.rows_before_error_correct
#print axioms BS.Merge.error_reported
#print axioms BS.Merge.clean_eof_is_complete
