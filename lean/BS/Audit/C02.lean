import BS.Properties.C02
import BS.Properties.C02r
#print axioms BS.Loss.refVals_at
#print axioms BS.Loss.step_inv
#print axioms BS.Loss.loss_safe
#print axioms BS.Loss.inv_init
#print axioms BS.Loss.never_stuck
#print axioms BS.Loss.run_decreases
#print axioms BS.Loss.recovery_completes
#print axioms BS.Loss.recovery_correct
