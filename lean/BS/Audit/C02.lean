import BS.Properties.C02
#print axioms BS.Loss.refVals_at
#print axioms BS.Loss.step_inv
#print axioms BS.Loss.loss_safe
#print axioms BS.Loss.inv_init
