import BS.Properties.C05
import BS.Properties.C05e
#print axioms BS.Part.part_lt
#print axioms BS.Part.f64_zero_sign_irrelevant
#print axioms BS.Part.mem_split_iff
#print axioms BS.Part.equal_keys_same_shard
#print axioms BS.Part.shuffle_partitions_perm
#print axioms BS.Part.aggregate_unique_keys
#print axioms BS.Part.hash_position_independent
#print axioms BS.Exec.sem_reshuffle_colocated
#print axioms BS.Exec.sem_reduce_colocated
#print axioms BS.Exec.exec_keyed_colocated
