import BS.Properties.C18
#print axioms BS.Typecheck.assignable_iff
#print axioms BS.Typecheck.allAssignable_iff
#print axioms BS.Typecheck.canApply_nonvariadic
#print axioms BS.Typecheck.canApply_variadic
#print axioms BS.Typecheck.canApply_variadic_malformed
#print axioms BS.Typecheck.map_result
#print axioms BS.Typecheck.filter_result
#print axioms BS.Typecheck.prefixed_result
#print axioms BS.Typecheck.reduce_result
#print axioms BS.Typecheck.readerFunc_results
#print axioms BS.Typecheck.fold_result
#print axioms BS.Typecheck.flatmap_result
#print axioms BS.Typecheck.reshuffle_result
#print axioms BS.Typecheck.repartition_result
#print axioms BS.Typecheck.writerFunc_result
#print axioms BS.Typecheck.cogroup_result
