/-!
# L8: `FuncLocationsDiff` (func.go:262-343)

The DP table of the Go code is indexed by prefix lengths `(i, j)`; here a cell is
indexed by the *reversed prefixes* `(l, r)` (`l = reverse lhs[:i]`), so that the
Go recurrences on `(i-1, j)`, `(i, j-1)`, `(i-1, j-1)` are structural.  Core-only.
-/
namespace BS.Diff

inductive Edit (α : Type) where
  | keep (a : α) | add (a : α) | del (a : α)
deriving Repr, DecidableEq

variable {α : Type} [DecidableEq α]

/-- `cells[i][j].cost`. -/
def cost : List α → List α → Nat
  | [], r => r.length
  | l, [] => l.length
  | a :: l, b :: r =>
    if a = b then cost l r
    else if cost l (b :: r) < cost (a :: l) r then cost l (b :: r) + 1 else cost (a :: l) r + 1
termination_by l r => l.length + r.length

/-- The back-trace (func.go:311-326), in the order Go appends to `d` (from the end). -/
def trace : List α → List α → List (Edit α)
  | [], [] => []
  | [], b :: r => .add b :: trace [] r
  | a :: l, [] => .del a :: trace l []
  | a :: l, b :: r =>
    if a = b then .keep a :: trace l r
    else if cost l (b :: r) < cost (a :: l) r then .del a :: trace l (b :: r)
    else .add b :: trace (a :: l) r
termination_by l r => l.length + r.length

def Edit.isKeep : Edit α → Bool
  | .keep _ => true
  | _ => false

/-- lines that survive on the left side (kept or deleted) -/
def leftOf : List (Edit α) → List α
  | [] => []
  | .keep a :: es => a :: leftOf es
  | .del a :: es => a :: leftOf es
  | .add _ :: es => leftOf es

/-- lines that survive on the right side (kept or added) -/
def rightOf : List (Edit α) → List α
  | [] => []
  | .keep a :: es => a :: rightOf es
  | .add a :: es => a :: rightOf es
  | .del _ :: es => rightOf es

/-- `FuncLocationsDiff`: `none` is Go's `nil`. -/
def diff (lhs rhs : List α) : Option (List (Edit α)) :=
  let t := trace lhs.reverse rhs.reverse
  if t.all Edit.isKeep then none else some t.reverse

def render : Edit String → String
  | .keep a => a
  | .add a => "+ " ++ a
  | .del a => "- " ++ a

end BS.Diff
