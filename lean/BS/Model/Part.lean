import BS.Model.Hash
/-!
# L0/L5: key hashing and the default partitioner
(frame/ops.go, frame/ops_builtin.go, frame/frame.go:389-401, exec/compile.go:20-24)

A key value is given by its column kind and its bytes as the registered
`HashWithSeed` sees them.  `hashRow` is `Frame.HashWithSeed`: the XOR of the
prefix columns' hashes; `part` is `defaultPartitioner`.  Core-only.
-/
namespace BS.Part
open BS.Hash

/-- A key column value in the form its hash function consumes. -/
inductive KVal
  | w32 (x : UInt32)           -- int8/16/32, uint8/16/32, float32 bits: `hash32(uint32(v))`
  | w64 (x : UInt64)           -- int, int64, uint, uint64, uintptr, float64 bits: `hash64(uint64(v))`
  | bytes (b : List UInt8)     -- string, []byte: murmur3 of the bytes
  | bool (b : Bool)            -- seed+1 / seed
  | unit                       -- struct{}: seed
deriving DecidableEq, Repr

def hashCol (seed : UInt32) : KVal → UInt32
  | .w32 x => hash32 x seed
  | .w64 x => hash64 x seed
  | .bytes b => murmur3 b seed
  | .bool b => if b then seed + 1 else seed
  | .unit => seed

/-- `Frame.HashWithSeed` over the key prefix (frame.go:395-401). -/
def hashRow (seed : UInt32) (key : List KVal) : UInt32 :=
  key.foldl (fun h v => h ^^^ hashCol seed v) 0

/-- `defaultPartitioner` (compile.go:20-24): `int(frame.Hash(i) % uint32(nshard))`. -/
def part (n : Nat) (key : List KVal) : Nat := (hashRow 0 key).toNat % n

/-- IEEE-754 binary64 bits of `±m/4` for a natural `m < 2^53`, with `-0` normalised to `+0`
(the float ops hash `v` after `if v == 0 { v = 0 }`). -/
def f64bitsQuarter (neg : Bool) (m : Nat) : UInt64 :=
  if m = 0 then 0 else
    let e := Nat.log2 m
    let mant := (m <<< (52 - e)) - (1 <<< 52)
    UInt64.ofNat ((if neg then 1 <<< 63 else 0) + ((1023 + e - 2) <<< 52) + mant)

def f32bitsQuarter (neg : Bool) (m : Nat) : UInt32 :=
  if m = 0 then 0 else
    let e := Nat.log2 m
    let mant := (m <<< (23 - e)) - (1 <<< 23)
    UInt32.ofNat ((if neg then 1 <<< 31 else 0) + ((127 + e - 2) <<< 23) + mant)

end BS.Part
