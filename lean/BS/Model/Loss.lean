/-!
# L11: task outputs under machine loss — an abstract task graph

Tasks `0 … n-1` in dependency order (`deps t` are indices `< t`).  A task's output is a value; running a task
whose dependencies all have outputs produces *some* output related (by an equivalence `R`: identical where the
order is fixed, equal as multisets otherwise) to `f t` of the dependencies' current outputs.  A machine loss
removes the outputs of an arbitrary set of tasks at any time; lost outputs can be produced again, possibly in
another representation.  Core-only.
-/
namespace BS.Loss

structure Graph (V : Type) where
  n : Nat
  deps : Nat → List Nat
  f : Nat → List V → V

inductive Ev (V : Type)
  | run (t : Nat) (v : V)          -- task t completed with output v
  | lose (ts : List Nat)           -- the outputs of tasks ts are gone (machine loss, discard)

abbrev St (V : Type) := List (Option V)

def St.get {V} (s : St V) (t : Nat) : Option V := (s[t]?).join

/-- reference outputs: every task run once, in order -/
def refVals {V} (g : Graph V) : Nat → List V
  | 0 => []
  | k+1 => let vs := refVals g k; vs ++ [g.f k ((g.deps k).filterMap fun d => vs[d]?)]

def apply {V} (s : St V) : Ev V → St V
  | .run t v => s.set t (some v)
  | .lose ts => s.zipIdx.map fun (o, i) => if ts.contains i then none else o

end BS.Loss
