import BS.Model.KV
/-!
# L4d: the combiners a worker keeps for a task across attempts  (exec/bigmachine.go `runCombine`, `CommitCombiner`, `Discard`)

A task that combines its own output flushes rows into combiners the worker keeps under the task's name
(`combinerNone → combinerIdle`), commits them when the attempt succeeds (`→ combinerCommitted`) and — since the repair of
D26 — discards them when the attempt fails (`→ combinerNone`).  `fixed := false` is the behaviour before the repair: the
combiners of a failed attempt stay `idle` with their rows.  Core-only, executable.
-/
namespace BS.Combine
open BS.KV

inductive CSt
  | none
  | idle (rows : List KV)
  | committed (rows : List KV)
deriving Repr, DecidableEq

inductive Ev
  | flush (rows : List KV)     -- rows handed to the combiners (a compacted task-local table)
  | fail                       -- the attempt ends with an error
  | commit                     -- the attempt ends successfully
deriving Repr

def step (fixed : Bool) : CSt → Ev → CSt
  | .none, .flush r => .idle r
  | .idle c, .flush r => .idle (c ++ r)
  | .idle c, .fail => if fixed then .none else .idle c
  | .idle c, .commit => .committed c
  | .none, .commit => .committed []
  | s, _ => s

/-- the events of one attempt that gets through `chunks` and then ends -/
def attempt (chunks : List (List KV)) (ok : Bool) : List Ev :=
  chunks.map Ev.flush ++ [if ok then Ev.commit else Ev.fail]

def run (fixed : Bool) (s : CSt) (evs : List Ev) : CSt := evs.foldl (step fixed) s

/-- failed attempts (each got through some chunks) followed by the attempt that succeeds on `chunks` -/
def history (failed : List (List (List KV))) (chunks : List (List KV)) : List Ev :=
  failed.flatMap (attempt · false) ++ attempt chunks true

end BS.Combine
