/-!
# L9b: a task's wake-up protocol  (exec/task.go `Wait`, `Broadcast`)

Waiters of a task block on the task's current wake-up channel, created by the first waiter after the previous broadcast;
`Broadcast` closes the current channel (waking everyone blocked on it) and forgets it, so that later waiters get a fresh
one.  A waiter whose context ends leaves without touching the shared channel.  All steps happen under the task's lock, so
they are atomic; the model covers every interleaving of any number of waiters and broadcasters.  `abandonClears := true` is
the seeded change of round 8 (an abandoned wait forgets the shared channel): the invariant fails.  Core-only.
-/
namespace BS.Wake

structure St where
  next : Nat                      -- the next fresh channel
  cur : Option Nat                -- the task's current channel (`t.waitc`)
  closed : List Nat               -- channels that have been closed
  waiting : List (Nat × Nat)      -- (waiter, the channel it blocks on)
deriving Repr, DecidableEq

def init : St := ⟨0, none, [], []⟩

inductive Op
  | wait (w : Nat)        -- `Wait` up to the point where it blocks
  | broadcast
  | abandon (w : Nat)     -- the waiter's context ended
  | wake (w : Nat)        -- a blocked waiter notices that its channel is closed and returns
deriving Repr

def step (abandonClears : Bool) (s : St) : Op → St
  | .wait w =>
    match s.cur with
    | some c => { s with waiting := (w, c) :: s.waiting }
    | none => { s with next := s.next + 1, cur := some s.next, waiting := (w, s.next) :: s.waiting }
  | .broadcast =>
    match s.cur with
    | some c => { s with cur := none, closed := c :: s.closed }
    | none => s
  | .abandon w =>
    let s' := { s with waiting := s.waiting.filter (·.1 != w) }
    if abandonClears then { s' with cur := none } else s'
  | .wake w =>
    { s with waiting := s.waiting.filter fun p => !(p.1 == w && s.closed.contains p.2) }

/-- nobody can be stranded: every blocked waiter blocks on the task's current channel (the next broadcast closes it) or on a
channel that is already closed (it wakes up) -/
def NoLostWakeup (s : St) : Prop :=
  ∀ p ∈ s.waiting, s.cur = some p.2 ∨ p.2 ∈ s.closed

end BS.Wake
