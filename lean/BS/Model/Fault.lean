/-!
# L8: failures of user functions — classification, retry, and what `Run` owes the user

* severities (grailbio/base/errors) and the three classifiers an application failure passes through:
  the operator wrappers (slice.go:389-396, 530-536), the worker (`maybeTaskFatalErr`/`reviseSeverity`,
  exec/bigmachine.go:698-736) and the executors' state decision (bigmachine.go:429-454, local.go:66-96);
* the evaluator's bounded resubmission of lost tasks (eval.go:129-160);
* `demand`: the outcome the property prescribes for an injected failure.
Core-only.
-/
namespace BS.Fault

inductive Sev | retriable | temporary | unknown | fatal
deriving DecidableEq, Repr

def Sev.isTemporary : Sev → Bool
  | .retriable | .temporary => true
  | _ => false

/-- how a user function fails -/
inductive Mode | err | tmp | panic | oob | neg
deriving DecidableEq, Repr

/-- the operator wrappers around ReaderFunc/WriterFunc (slice.go:389-396, 530-536): an error the user marked
temporary (or retriable) keeps its severity, every other application error becomes fatal -/
def wrapErr (s : Sev) : Sev := if s.isTemporary then s else .fatal

/-- severity of the error a task attempt ends with: user errors go through `wrapErr`; a panic is recovered by
the task runner and is fatal; an out-of-range partition is a fatal task error -/
def wrapSev : Mode → Sev
  | .tmp => wrapErr .temporary
  | .err => wrapErr .unknown
  | _ => .fatal

/-- `reviseSeverity` (worker side): application errors (`maybeTaskFatalErr`) keep their severity except
that temporary ones are handed to the evaluator as plain lost attempts (`unknown`); other errors that
are fatal to the attempt (e.g. a dependency could not be read) are downgraded so that the task is retried -/
def reviseSev (appError : Bool) (s : Sev) : Sev :=
  if appError then (if s.isTemporary then .unknown else s)
  else (if s = .fatal then .unknown else s)

inductive TaskState | ok | err | lost
deriving DecidableEq, Repr

/-- the executors' decision for a failed attempt: fatal → TaskErr, everything else → TaskLost -/
def classify (s : Sev) : TaskState := if s = .fatal then .err else .lost

/-- state of a task attempt in which a user function failed with `m` -/
def attemptState (m : Mode) : TaskState := classify (reviseSev true (wrapSev m))

def maxConsecutiveLost : Nat := 5

inductive Outcome | success | error
deriving DecidableEq, Repr

/-- the evaluator's loop for one task: attempt `i` ends in `att i`; a lost attempt is resubmitted unless
it is the `maxConsecutiveLost`-th in a row.  Returns the outcome and the number of attempts made. -/
def runTask (att : Nat → TaskState) : Nat → Nat → Nat → Outcome × Nat
  | 0, _, i => (.error, i)
  | fuel+1, lost, i =>
    match att i with
    | .ok => (.success, i + 1)
    | .err => (.error, i + 1)
    | .lost => if lost + 1 ≥ maxConsecutiveLost then (.error, i + 1) else runTask att fuel (lost + 1) (i + 1)

/-- what the property demands of `Run` -/
inductive Demand | succeed | fail | failWithMessage | either
deriving DecidableEq, Repr

inductive Site | reader | writer | scan | map | filter | flatmap | fold | combiner | partitioner
deriving DecidableEq, Repr

/-- `fired`: how many calls of the user function actually failed in the run -/
def demand (site : Site) (m : Mode) (once : Bool) (fired : Nat) : Demand :=
  if fired = 0 then .succeed
  else if once then (if m = .tmp then .succeed else .either)
  else if m = .panic then .failWithMessage
  else if m = .err && (site = .reader || site = .writer) then .failWithMessage
  else .fail

end BS.Fault
