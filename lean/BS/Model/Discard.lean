/-!
# L9b: discarding a task's output while an evaluator wants it  (exec/bigmachine.go Discard, exec/slicemachine.go Discard,
(*worker).Discard and (*worker).Run)

One task.  `d` is the driver's state of the task, `w` whether the worker still holds the task's
output (its own task state is OK exactly then).  The discarder goes through
`executor.Discard` (OK → RUNNING, so that evaluators wait), then — in the order given by `rpcFirst` —
the `Worker.Discard` call (the worker deletes the output) and `task.Set(TaskLost)`.  An evaluator
resubmits a LOST task: `executor.Run` marks it RUNNING and calls `Worker.Run`, which returns at once
when the worker's task is OK and recomputes otherwise; the driver then marks the task OK.
Core-only.
-/
namespace BS.Discard

inductive DSt | ok | running | lost
deriving DecidableEq, Repr

structure S where
  d : DSt
  w : Bool
  pc : Fin 4      -- discarder: 0 idle, 1 marked RUNNING, 2 after the first of the two actions, 3 done
  ev : Fin 2      -- evaluator: 0 waiting, 1 has submitted the task (Worker.Run in flight)
deriving DecidableEq, Repr

def init : S := ⟨.ok, true, 0, 0⟩

/-- all successor states -/
def next (rpcFirst : Bool) (s : S) : List S :=
  -- discarder
  (if s.pc = 0 ∧ s.d = .ok then [{ s with d := .running, pc := 1 }] else []) ++
  (if s.pc = 1 then [if rpcFirst then { s with w := false, pc := 2 } else { s with d := .lost, pc := 2 }] else []) ++
  (if s.pc = 2 then [if rpcFirst then { s with d := .lost, pc := 3 } else { s with w := false, pc := 3 }] else []) ++
  (if s.pc = 3 then [{ s with pc := 0 }] else []) ++
  -- evaluator
  (if s.ev = 0 ∧ s.d = .lost then [{ s with d := .running, ev := 1 }] else []) ++
  (if s.ev = 1 then [{ s with d := .ok, w := true, ev := 0 }] else [])

/-- what every user of the task relies on: a task the driver holds for OK has its output on the worker -/
def Safe (s : S) : Bool := s.d != .ok || s.w

def Inv (s : S) : Bool :=
  Safe s &&
  (s.pc != 1 || (s.d == .running && s.ev == 0)) &&
  (s.pc != 2 || (s.d == .running && !s.w && s.ev == 0)) &&
  (s.ev != 1 || (s.d == .running && (s.pc == 0 || s.pc == 3)))

inductive Reach (rpcFirst : Bool) : S → Prop
  | init : Reach rpcFirst init
  | step {s t} : Reach rpcFirst s → t ∈ next rpcFirst s → Reach rpcFirst t

def allStates : List S :=
  [DSt.ok, DSt.running, DSt.lost].flatMap fun d => [true, false].flatMap fun w =>
    (List.finRange 4).flatMap fun pc => (List.finRange 2).map fun ev => ⟨d, w, pc, ev⟩

end BS.Discard
