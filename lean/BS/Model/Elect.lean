/-!
# L12: runner election among concurrent evaluators  (exec/eval.go:110-175, exec/task.go Lock/Wait/Broadcast)

One task shared by any number of evaluators.  Under the task's lock an evaluator that finds the task INIT (or LOST, which
it first resets to INIT) marks it WAITING and becomes its *runner* (it calls `executor.Run`); every other evaluator
becomes a *waiter* ("running in another invocation").  The executor moves WAITING → RUNNING → OK | ERR | LOST and
broadcasts; on OK/ERR the runner and the waiters report the task done; on LOST an evaluator elects again.  Core-only.
-/
namespace BS.Elect

inductive TS | init | waiting | running | ok | err | lost
deriving DecidableEq, Repr

inductive PC | idle | runner | waiter | done
deriving DecidableEq, Repr

structure S where
  t : TS
  ev : List PC
deriving Repr, DecidableEq

inductive Act
  | elect (i : Nat)        -- evaluator i looks at the task under its lock
  | start                  -- executor: WAITING → RUNNING
  | finish (r : TS)        -- executor: RUNNING → ok | err | lost
  | observe (i : Nat)      -- evaluator i (runner or waiter) wakes up and sees a final state

def step (s : S) : Act → S
  | .elect i =>
    match s.ev[i]? with
    | some .idle =>
      if s.t = .init ∨ s.t = .lost then { t := .waiting, ev := s.ev.set i .runner }
      else { s with ev := s.ev.set i .waiter }
    | _ => s
  | .start => if s.t = .waiting then { s with t := .running } else s
  | .finish r =>
    -- the run in flight ends: its evaluator goes on watching the task like the others
    if s.t = .running ∧ (r = .ok ∨ r = .err ∨ r = .lost) then
      { t := r, ev := s.ev.map fun p => if p = .runner then .waiter else p }
    else s
  | .observe i =>
    match s.ev[i]? with
    | some .waiter =>
      if s.t = .ok ∨ s.t = .err then { s with ev := s.ev.set i .done }
      else if s.t = .lost then { s with ev := s.ev.set i .idle }     -- the task will be enqueued again
      else s
    | _ => s

/-- evaluators with a run of the task in flight -/
def runners (s : S) : Nat := (s.ev.filter (· == .runner)).length

def inFlight (s : S) : Prop := s.t = .waiting ∨ s.t = .running

/-- a run is in flight exactly while the task is WAITING or RUNNING, and then exactly one; no evaluator reports the
task done unless it is OK or ERR -/
def Inv (s : S) : Prop :=
  (inFlight s → runners s = 1) ∧ (¬ inFlight s → runners s = 0) ∧ (.done ∈ s.ev → s.t = .ok ∨ s.t = .err)

def init (n : Nat) : S := ⟨.init, List.replicate n .idle⟩

def run (s : S) (as : List Act) : S := as.foldl step s

end BS.Elect
