import BS.Model.Prog
/-!
# L5: compilation of a slice DAG into a task graph  (exec/compile.go:195-398)

`compile` mirrors `(*compiler).compile`: the memo keyed by (slice, numPartition)
(only without combiner and custom partitioner), the `Result` branch (reuse, or
re-shuffle tasks), `pipeline`, the namer, dependency wiring for non-shuffle and
shuffle dependencies, combine keys, groups.  Task ids are allocated when a task
set is complete, i.e. after its dependencies: a dependency's tasks have smaller
ids than the tasks that depend on them.  Core-only.
-/
namespace BS.Compile
open BS.Prog

structure Part where
  np : Nat            -- 0: not a shuffle dependency
  custom : Bool
  comb : Bool
  ck : String
deriving Repr, DecidableEq

def Part.none : Part := ⟨0, false, false, ""⟩

structure TDep where
  head : Nat
  partition : Nat
  expand : Bool
  ck : String
deriving Repr, DecidableEq

structure MTask where
  op : String
  shard : Nat
  numShard : Nat
  np : Nat
  hasPart : Bool
  custom : Bool
  comb : Bool
  ck : String
  group : Option (Nat × Nat)      -- (head task id, size)
  mat : Bool
  deps : List TDep
  ops : List String
  cachedDropsDeps : Bool := false
deriving Repr

structure CState where
  tasks : List MTask
  namer : List (String × Nat)
  memo : List ((Nat × Nat) × List Nat)
deriving Repr

def namerNew (n : List (String × Nat)) (name : String) : List (String × Nat) × String :=
  match n.find? (·.1 == name) with
  | none => ((name, 1) :: n, name)
  | some (_, c) => (n.map (fun p => if p.1 == name then (p.1, p.2 + 1) else p), s!"{name}{c}")

/-- `pipeline` (compile.go:29-48) -/
def pipeline (d : Dag) : Nat → Nat → List Nat
  | 0, _ => []
  | fuel+1, sid =>
    let n := d.get sid
    if n.isResult.isSome then []
    else match n.deps with
      | [dep] =>
        if dep.shuffle then [sid]
        else if (d.get dep.slice).mat then [sid]
        else sid :: pipeline d fuel dep.slice
      | _ => [sid]

def setGroup (ts : List MTask) (ids : List Nat) : List MTask :=
  match ids with
  | [] => ts
  | h :: _ => ts.mapIdx fun i t => if ids.contains i then { t with group := some (h, ids.length) } else t

/-- which (task name, op index) pairs read from cache: a set decided by the driver -/
abbrev Cached := List (String × Nat × Nat)    -- (task op name, shard, opIdx)

structure Env where
  mc : Bool                         -- machine combiners
  inv : String                      -- "X" for the invocation being compiled
  results : List (List Nat)         -- root task ids of the results passed as arguments
  fixedResultShuffle : Bool := true -- the D5 fix: re-shuffle tasks carry the partition configuration

/-- the dependency loop of `compile` (compile.go:300-335), given the recursive call:
non-shuffle dependencies are compiled without partitioning and wired shard to shard; shuffle
dependencies are compiled with `n` partitions and consumer shard `p` reads partition `p` of the
producer phase (head = first producer task). -/
def goDeps (rec : Nat → Part → CState → Option (CState × List Nat)) (n : Nat) (lastCombiner : Bool) (ck : String) :
    List SDep → CState → List (List TDep) → Option (CState × List (List TDep))
  | [], st, acc => some (st, acc)
  | dep :: rest, st, acc =>
    if !dep.shuffle then
      match rec dep.slice Part.none st with
      | none => none
      | some (st, ids) =>
        if ids.length != n then none      -- compile.go:308: log.Panicf("tasks:%d deptasks:%d")
        else goDeps rec n lastCombiner ck rest st
          ((acc.zip ids).map fun (ds, id) => ds ++ [⟨id, 0, dep.expand, ""⟩])
    else
      match rec dep.slice ⟨n, dep.custom, lastCombiner, ck⟩ st with
      | none => none
      | some (_, []) => none              -- depTasks[0] of an empty task set panics
      | some (st, h :: _) =>
        goDeps rec n lastCombiner ck rest st (acc.zipIdx.map fun (ds, p) => ds ++ [⟨h, p, dep.expand, ck⟩])

def newTasks (opName : String) (names : List String) (mat : Bool) (part : Part) (n : Nat)
    (depLists : List (List TDep)) : List MTask :=
  depLists.zipIdx.map fun (ds, shard) =>
    ({ op := opName, shard := shard, numShard := n, np := if part.np == 0 then 1 else part.np,
       hasPart := true, custom := part.custom, comb := part.comb, ck := part.ck, group := none,
       mat := mat, deps := ds, ops := names } : MTask)

def finish (sid : Nat) (part : Part) (st : CState) (ids : List Nat) : CState × List Nat :=
  let st := if part.np != 0 then { st with tasks := setGroup st.tasks ids } else st
  let st := if !part.comb && !part.custom then { st with memo := ((sid, part.np), ids) :: st.memo } else st
  (st, ids)

/-- the `Result` branch of `compile` (compile.go:226-263) -/
def compileResult (env : Env) (sid : Nat) (part : Part) (st : CState) (r : Nat) : Option (CState × List Nat) :=
  let rts := env.results.getD r []
  if rts.any (fun i => ((st.tasks[i]?).map (·.comb)).getD false) then none
  else if part.np == 0 then
    -- reuse the result's tasks as they are (no group, and the memo entry is recorded)
    some (finish sid part st rts)
  else
    let r0 := (st.tasks[rts.headD 0]?).map (·.op) |>.getD "?"
    -- named after the consuming invocation (task outputs are stored by name)
    let nn := namerNew st.namer ("invX_" ++ r0 ++ "_shuffle")
    let base := st.tasks.length
    let nts := rts.zipIdx.map fun (rt, shard) =>
      let t := st.tasks[rt]?
      ({ op := nn.2, shard := shard, numShard := rts.length,
         np := if env.fixedResultShuffle then part.np else 0,
         hasPart := env.fixedResultShuffle, custom := env.fixedResultShuffle && part.custom,
         comb := env.fixedResultShuffle && part.comb, ck := if env.fixedResultShuffle then part.ck else "",
         group := none, mat := (t.map (·.mat)).getD false,
         deps := [⟨rt, 0, false, ""⟩], ops := (t.map (·.ops)).getD [] } : MTask)
    some (finish sid part { st with namer := nn.1, tasks := st.tasks ++ nts } ((List.range rts.length).map (· + base)))

/-- the pipelined branch of `compile` (compile.go:264-398), given the recursive call -/
def compileGeneral (env : Env) (d : Dag) (rec : Nat → Part → CState → Option (CState × List Nat))
    (sid : Nat) (part : Part) (st : CState) : Option (CState × List Nat) :=
  let node := d.get sid
  let slices := pipeline d (d.nodes.length + 1) sid
  let names := slices.map fun s => (d.get s).op
  let nn := namerNew st.namer ("_".intercalate (s!"inv{env.inv}" :: names.reverse))
  let mat := slices.any fun s => (d.get s).mat
  let last := d.get (slices.getLast?.getD sid)
  let n := node.numShard
  let ck := if last.combiner && env.mc then nn.2 else ""
  match goDeps rec n last.combiner ck last.deps { st with namer := nn.1 } (List.replicate n []) with
  | none => none
  | some (st, depLists) =>
    let base := st.tasks.length
    some (finish sid part { st with tasks := st.tasks ++ newTasks nn.2 names mat part n depLists }
      ((List.range n).map (· + base)))

/-- `(*compiler).compile`; `none` is an error (e.g. reuse of a task with a combiner). -/
def compile (env : Env) (d : Dag) : Nat → Nat → Part → CState → Option (CState × List Nat)
  | 0, _, _, _ => none
  | fuel+1, sid, part, st =>
    match (if !part.comb && !part.custom then (st.memo.find? (·.1 == (sid, part.np))).map (·.2) else none) with
    | some ids => some (st, ids)
    | none =>
      match (d.get sid).isResult with
      | some r => compileResult env sid part st r
      | none => compileGeneral env d (compile env d fuel) sid part st

end BS.Compile
