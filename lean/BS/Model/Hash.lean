/-!
# L0: hashing of key columns  (frame/ops.go, frame/ops_builtin.go)

`murmur3` is spaolacci/murmur3 `Sum32WithSeed`; `hash32`/`hash64` are the byte
splittings of frame/ops_builtin.go:142-164.  Core-only (used by the driver).
-/
namespace BS.Hash

def rotl32 (x : UInt32) (r : UInt32) : UInt32 := (x <<< r) ||| (x >>> (32 - r))

def c1 : UInt32 := 0xcc9e2d51
def c2 : UInt32 := 0x1b873593

def mixK (k : UInt32) : UInt32 := (rotl32 (k * c1) 15) * c2

def le32 (a b c d : UInt8) : UInt32 :=
  a.toUInt32 ||| (b.toUInt32 <<< 8) ||| (c.toUInt32 <<< 16) ||| (d.toUInt32 <<< 24)

def body : UInt32 → List UInt8 → UInt32 × List UInt8
  | h, a :: b :: c :: d :: rest =>
    let h := h ^^^ mixK (le32 a b c d)
    let h := rotl32 h 13
    let h := h * 5 + 0xe6546b64
    body h rest
  | h, tail => (h, tail)

def tailK : List UInt8 → UInt32
  | [a] => a.toUInt32
  | [a, b] => a.toUInt32 ||| (b.toUInt32 <<< 8)
  | [a, b, c] => a.toUInt32 ||| (b.toUInt32 <<< 8) ||| (c.toUInt32 <<< 16)
  | _ => 0

def fmix (h : UInt32) : UInt32 :=
  let h := h ^^^ (h >>> 16)
  let h := h * 0x85ebca6b
  let h := h ^^^ (h >>> 13)
  let h := h * 0xc2b2ae35
  h ^^^ (h >>> 16)

def murmur3 (data : List UInt8) (seed : UInt32) : UInt32 :=
  let (h, tail) := body seed data
  let h := if tail.isEmpty then h else h ^^^ mixK (tailK tail)
  fmix (h ^^^ data.length.toUInt32)

/-- frame/ops_builtin.go `hash32`: little-endian 4 bytes. -/
def bytes32 (x : UInt32) : List UInt8 :=
  [x.toUInt8, (x >>> 8).toUInt8, (x >>> 16).toUInt8, (x >>> 24).toUInt8]

/-- frame/ops_builtin.go `hash64`: little-endian 8 bytes. -/
def bytes64 (x : UInt64) : List UInt8 :=
  [x.toUInt8, (x >>> 8).toUInt8, (x >>> 16).toUInt8, (x >>> 24).toUInt8,
   (x >>> 32).toUInt8, (x >>> 40).toUInt8, (x >>> 48).toUInt8, (x >>> 56).toUInt8]

def hash32 (x seed : UInt32) : UInt32 := murmur3 (bytes32 x) seed
def hash64 (x : UInt64) (seed : UInt32) : UInt32 := murmur3 (bytes64 x) seed

/-- Two's-complement embedding of a Go signed integer into `uint32(...)`. -/
def intToU32 (i : Int) : UInt32 := UInt32.ofNat (i % 4294967296).toNat
def intToU64 (i : Int) : UInt64 := UInt64.ofNat (i % 18446744073709551616).toNat

/-- IEEE-754 binary64 bits of a non-negative integer < 2^53 (the harness's floats). -/
def f64bitsOfNat (n : Nat) : UInt64 :=
  if n = 0 then 0 else
    let e := Nat.log2 n
    let mant := (n <<< (52 - e)) - (1 <<< 52)
    UInt64.ofNat (((1023 + e) <<< 52) + mant)

/-- binary32 bits of a non-negative integer < 2^24. -/
def f32bitsOfNat (n : Nat) : UInt32 :=
  if n = 0 then 0 else
    let e := Nat.log2 n
    let mant := (n <<< (23 - e)) - (1 <<< 23)
    UInt32.ofNat (((127 + e) <<< 23) + mant)

end BS.Hash
