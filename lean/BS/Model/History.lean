import BS.Model.Exec
/-!
# L9: histories of a session — run, reuse, discard/recompute, scan

A session holds the results of its runs.  `run` evaluates a program whose `R k`
references are earlier results; `recompute k` is what a discard (or a machine loss)
followed by a later use amounts to: the outputs of result `k` are computed again —
possibly under a different strategy, from the *current* outputs of the results it
depends on; `scan k` observes result `k`.  `HSpec` is the reference: results are
values fixed by their first evaluation and discarding changes nothing.  Core-only.
-/
namespace BS.History
open BS.Prog BS.Sem BS.Exec

inductive HOp
  | run (p : Program) (σ : Strategy)
  | recompute (k : Nat) (σ : Strategy)
  | scan (k : Nat)

structure Entry where
  prog : Program
  val : Shards

/-- the engine: each result remembers its program; a recomputation runs it again on the current
values of the earlier results -/
def step (s : List Entry) : HOp → List Entry × Option Shards
  | .run p σ => (s ++ [⟨p, (exec σ p (s.map (·.val))).2⟩], none)
  | .recompute k σ =>
    match s[k]? with
    | some e => (s.set k ⟨e.prog, (exec σ e.prog ((s.take k).map (·.val))).2⟩, none)
    | none => (s, none)
  | .scan k => (s, (s[k]?).map (·.val))

/-- the reference: values fixed at the first evaluation -/
def specStep (s : List Entry) : HOp → List Entry × Option Shards
  | .run p _ => (s ++ [⟨p, (eval p (s.map (·.val))).2⟩], none)
  | .recompute _ _ => (s, none)
  | .scan k => (s, (s[k]?).map (·.val))

def runHist (f : List Entry → HOp → List Entry × Option Shards) : List Entry → List HOp → List Entry × List (Option Shards)
  | s, [] => (s, [])
  | s, op :: ops =>
    let r := f s op
    let rest := runHist f r.1 ops
    (rest.1, r.2 :: rest.2)

/-- a run may only refer to results that precede it; its program must fix its result (`wfNodes`);
a recomputed result's program sees only the results that preceded it -/
def opWf (s : List Entry) : HOp → Bool
  | .run p _ => wfNodes (s.map (·.val)) p.nodes []
  | _ => true

def wfOps : List Entry → List HOp → Bool
  | _, [] => true
  | s, op :: ops => opWf s op && wfOps (specStep s op).1 ops

end BS.History
