import BS.Model.Reader
/-!
# L3: the batch codec's reader  (sliceio/codec.go:144-181)

The wire stream is a list of batches (one per `Encoder.Write`); gob's value
encoding and the CRC are abstracted: a batch on the wire is either intact
(`ok rows`: gob decodes what was encoded and the checksum matches) or damaged
(`bad`: gob or the checksum comparison reports an error).  `Dec.read` is
`decodingReader.Read`: decode directly when the batch fits the destination,
otherwise buffer it and serve it in pieces.  Core-only.
-/
namespace BS.Codec
open BS.Reader

inductive Batch (α : Type) where
  | ok (rows : List α)
  | bad
deriving Repr

inductive DSt | more | eof | err
deriving DecidableEq, Repr

structure Dec (α : Type) where
  batches : List (Batch α)
  buf : List α
  failed : Bool
deriving Repr

def Dec.read {α} (d : Dec α) (k : Nat) : Dec α × List α × DSt :=
  if d.failed then (d, [], .err)
  else if d.buf ≠ [] then ({ d with buf := d.buf.drop k }, d.buf.take k, .more)
  else match d.batches with
    | [] => (d, [], .eof)
    | .bad :: _ => ({ d with failed := true }, [], .err)
    | .ok b :: bs =>
      if b.length ≤ k then ({ d with batches := bs }, b, .more)
      else ({ d with batches := bs, buf := b.drop k }, b.take k, .more)

/-- the intact prefix of a stream and whether a damaged batch follows it -/
def goodPrefix {α} : List (Batch α) → List α × Bool
  | [] => ([], false)
  | .bad :: _ => ([], true)
  | .ok b :: bs => let r := goodPrefix bs; (b ++ r.1, r.2)

/-- the decoder of an undamaged stream as a `Rd` (for the reader framework) -/
def okBatches {α} (bs : List (List α)) : List (Batch α) := bs.map Batch.ok

def decRd (α : Type) : Rd α :=
  ⟨Dec α, fun d k => let r := d.read k; (r.1, r.2.1, if r.2.2 = .more then St.more else St.eof)⟩

/-- drain until end-of-stream or error -/
def drainDec {α} (dest : Nat → Nat) : Nat → Nat → Dec α → List α × DSt
  | 0, _, _ => ([], .more)
  | fuel+1, i, d =>
    let r := d.read (dest i)
    match r.2.2 with
    | .more => let t := drainDec dest fuel (i + 1) r.1; (r.2.1 ++ t.1, t.2)
    | st => (r.2.1, st)

end BS.Codec
