import BS.Model.KV
/-!
# L5: the program language and its slice DAG

A program is a list of node definitions over two-column `(key, value)` slices
(the harness builds the same program with the real constructors).  `elaborate`
produces the slice DAG that `compile` consults: per slice its `Name().Op`,
shard count, dependencies (shuffle? custom partitioner? expand?), whether it
has a combiner and a Materialize pragma.  Core-only.
-/
namespace BS.Prog
open BS.KV

inductive Ref | node (i : Nat) | result (i : Nat)
deriving Repr, DecidableEq, Inhabited

inductive Pragma | none | mat | procs (n : Nat) | excl
deriving Repr, DecidableEq, Inhabited

inductive Op
  | const (nshard : Nat) (rows : List KV)
  | reader (nshard chunk : Nat) (rows : List KV)
  | lines (nshard n : Nat)
  | map (src : Ref) (f : String) (p : Pragma)
  | count (src : Ref) (ctr : Nat)
  | filter (src : Ref) (p : String)
  | flatmap (src : Ref) (g : String)
  | fold (src : Ref)
  | head (src : Ref) (n : Nat)
  | reduce (src : Ref) (c : String)
  | cogroup (a b : Ref)
  | reshuffle (src : Ref)
  | reshuffle2 (src : Ref)
  | repartition (src : Ref) (pf : String)
  | reshard (src : Ref) (m : Nat)
  | scan (src : Ref)
  | writer (src : Ref)
  | cache (src : Ref) (partial_ : Bool) (name : String)
  | readcache (nshard : Nat) (name : String)
deriving Repr, Inhabited

structure Program where
  nodes : List Op          -- node i may refer to nodes < i and to results
  out : Ref
deriving Repr, Inhabited

/-! ## slice DAG -/

structure SDep where
  slice : Nat
  shuffle : Bool
  custom : Bool
  expand : Bool
deriving Repr, DecidableEq

structure SNode where
  op : String
  numShard : Nat
  deps : List SDep
  combiner : Bool
  mat : Bool
  isResult : Option Nat      -- this slice is (a wrapper around) Result r
  cacheable : Option (Bool × String)   -- Cache/CachePartial (partial?, prefix)
deriving Repr

structure Dag where
  nodes : List SNode
  /-- slice id of every program node (and of the output) -/
  ofNode : List Nat
deriving Repr

def Dag.get (d : Dag) (i : Nat) : SNode := d.nodes.getD i ⟨"?", 0, [], false, false, none, none⟩

/-- shard counts of the results passed as arguments -/
abbrev ResultShards := List Nat

def refSlice (d : Dag) (resultSlice : List Nat) : Ref → Nat
  | .node i => d.ofNode.getD i 0
  | .result r => resultSlice.getD r 0

/-- Elaborate a program into its slice DAG.  Results come first (one slice node each). -/
def elaborate (p : Program) (rs : ResultShards) : Dag × Nat :=
  let d0 : Dag := ⟨rs.zipIdx.map fun (n, r) => ⟨"result", n, [], false, false, some r, none⟩, []⟩
  let resultSlice := List.range rs.length
  let push (d : Dag) (n : SNode) : Dag × Nat := (⟨d.nodes ++ [n], d.ofNode⟩, d.nodes.length)
  let single (src : Nat) : List SDep := [⟨src, false, false, false⟩]
  let d := p.nodes.foldl (fun (d : Dag) op =>
    let rf := refSlice d resultSlice
    let sh (r : Ref) := (d.get (rf r)).numShard
    let (d, sid) : Dag × Nat := match op with
      | .const n _ => push d ⟨"const", n, [], false, false, none, none⟩
      | .reader n _ _ => push d ⟨"reader", n, [], false, false, none, none⟩
      | .lines n _ =>
        let (d, a) := push d ⟨"reader", n, [], false, false, none, none⟩
        push d ⟨"map", n, single a, false, false, none, none⟩
      | .map s f pr =>
        if f.startsWith "p" || f.startsWith "q" then
          -- Map(Prefixed(s, 2 or 1), f): the wrapper is a slice of its own (see reshuffle2)
          let inner := d.get (rf s)
          let (d, w) := push d inner
          push d ⟨"map", inner.numShard, single w, false, pr == .mat, none, none⟩
        else push d ⟨"map", sh s, single (rf s), false, pr == .mat, none, none⟩
      | .count s _ => push d ⟨"map", sh s, single (rf s), false, false, none, none⟩
      | .filter s _ => push d ⟨"filter", sh s, single (rf s), false, false, none, none⟩
      | .flatmap s _ => push d ⟨"flatmap", sh s, single (rf s), false, false, none, none⟩
      | .fold s => push d ⟨"fold", sh s, [⟨rf s, true, false, false⟩], false, false, none, none⟩
      | .head s n => push d ⟨s!"head({n})", sh s, single (rf s), false, false, none, none⟩
      | .reduce s _ => push d ⟨"reduce", sh s, [⟨rf s, true, false, true⟩], true, false, none, none⟩
      | .cogroup a b =>
        let n := max (sh a) (sh b)
        let (d, c) := push d ⟨"cogroup", n, [⟨rf a, true, false, false⟩, ⟨rf b, true, false, false⟩], false, false, none, none⟩
        push d ⟨"map", n, single c, false, false, none, none⟩
      | .reshuffle s => push d ⟨"reshuffle", sh s, [⟨rf s, true, false, false⟩], false, false, none, none⟩
      | .reshuffle2 s =>
        -- Prefixed(s, 2): a wrapper with s's name, deps, pragma and combiner but its own identity
        let inner := d.get (rf s)
        let (d, w) := push d inner
        push d ⟨"reshuffle", inner.numShard, [⟨w, true, false, false⟩], false, false, none, none⟩
      | .repartition s _ => push d ⟨"repartition", sh s, [⟨rf s, true, true, false⟩], false, false, none, none⟩
      | .reshard s m =>
        if sh s == m then (d, rf s)      -- Reshard returns its argument when the shard count already matches
        else push d ⟨"reshard", m, [⟨rf s, true, false, false⟩], false, false, none, none⟩
      | .scan s => push d ⟨"scan", sh s, single (rf s), false, false, none, none⟩
      | .writer s => push d ⟨"writer", sh s, single (rf s), false, false, none, none⟩
      | .cache s part name =>
        push d ⟨if part then "cachepartial" else "cache", sh s, single (rf s), false, false, none, some (part, name)⟩
      | .readcache n _ => push d ⟨"readcache", n, [], false, false, none, none⟩
    ⟨d.nodes, d.ofNode ++ [sid]⟩) d0
  (d, refSlice d resultSlice p.out)

end BS.Prog
