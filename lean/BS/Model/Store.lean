/-!
# L3: task stores and the retrying remote reader
(exec/store.go; exec/bigmachine.go:1332-1393 `retryReader`)

`Store` is the commit-atomic key/value behaviour both store implementations
must show (memory: byte slices under a mutex; file: temp file + rename on close
with an 8-byte record-count trailer).  `Retry` mirrors `retryReader.Read` over an
opener/connection whose behaviour is a script of events.  Core-only.
-/
namespace BS.Store

abbrev Key := Nat × Nat            -- (task, partition)

structure Writer where
  key : Key
  buf : List UInt8
  alive : Bool
deriving Repr

structure St where
  vis : List (Key × (List UInt8 × Nat))    -- committed entries: bytes and record count
  ws : List Writer
deriving Repr

def lookup (k : Key) : List (Key × (List UInt8 × Nat)) → Option (List UInt8 × Nat)
  | [] => none
  | (a, v) :: r => if a = k then some v else lookup k r

def erase (k : Key) (l : List (Key × (List UInt8 × Nat))) := l.filter (·.1 ≠ k)

inductive Res
  | ok | err
  | data (b : List UInt8)
  | stat (size records : Nat)
deriving Repr, DecidableEq

/-- `Create`: a fresh writer; nothing becomes visible. -/
def create (s : St) (k : Key) : St := { s with ws := s.ws ++ [⟨k, [], true⟩] }

def write (s : St) (i : Nat) (b : List UInt8) : St :=
  { s with ws := s.ws.mapIdx fun j w => if j = i ∧ w.alive then { w with buf := w.buf ++ b } else w }

/-- `Commit`: when every underlying operation succeeds (`persisted`), the writer's bytes
become the entry; otherwise an error is reported and nothing becomes visible. -/
def commit (s : St) (i n : Nat) (persisted : Bool) : St × Res :=
  match s.ws[i]? with
  | none => (s, .err)
  | some w =>
    let ws := s.ws.mapIdx fun j w => if j = i then { w with alive := false } else w
    if !w.alive then (s, .err)
    else if persisted then ({ vis := (w.key, (w.buf, n)) :: erase w.key s.vis, ws := ws }, .ok)
    else ({ s with ws := ws }, .err)

def discardW (s : St) (i : Nat) : St :=
  { s with ws := s.ws.mapIdx fun j w => if j = i then { w with alive := false } else w }

/-- `Open` at a byte offset within the committed size. -/
def «open» (s : St) (k : Key) (off : Nat) : Res :=
  match lookup k s.vis with
  | none => .err
  | some (b, _) => if off ≤ b.length then .data (b.drop off) else .err

def stat (s : St) (k : Key) : Res :=
  match lookup k s.vis with
  | none => .err
  | some (b, n) => .stat b.length n

def discard (s : St) (k : Key) : St × Res :=
  match lookup k s.vis with
  | none => (s, .err)
  | some _ => ({ s with vis := erase k s.vis }, .ok)

/-! ## the retrying reader -/

/-- what the opener / the open connection does next -/
inductive Ev
  | openFail
  | readFail (junk : Nat)        -- a read error (possibly after writing `junk` bytes into the buffer)
  | short (n : Nat)              -- deliver at most `n` bytes (n ≥ 1 is not required: 0 is a legal empty read)
  | eofLater                     -- deliver everything asked for, report EOF only on the next read
deriving Repr, DecidableEq

inductive RStatus | more | eof | err
deriving Repr, DecidableEq

structure RR where
  data : List UInt8        -- the committed stream being served
  bytes : Nat              -- `r.bytes`
  conn : Option Nat        -- position of the open connection, if any
  retries : Nat
  script : List Ev
  status : RStatus         -- sticky `r.err`
deriving Repr

def budget : Nat := 5

/-- a successful read on the open connection at `pos`: deliver up to `want` bytes -/
def RR.deliver (r : RR) (pos want : Nat) (later : Bool) (sc : List Ev) : RR × List UInt8 :=
  let out := (r.data.drop pos).take want
  let pos' := pos + out.length
  let eofNow := pos' == r.data.length && !(later && decide (0 < out.length))
  ({ r with script := sc, conn := some pos', bytes := r.bytes + out.length, retries := 0,
            status := if eofNow then .eof else .more }, out)

/-- a failed open or read: count the retry, give up beyond the budget -/
def RR.fail (r : RR) (sc : List Ev) : RR :=
  let r' := { r with script := sc, conn := none, retries := r.retries + 1 }
  if r'.retries > budget then { r' with status := .err } else r'

/-- one `retryReader.Read` with a buffer of `k` bytes; `fuel` bounds the retry loop. -/
def RR.read : Nat → RR → Nat → RR × List UInt8
  | 0, r, _ => ({ r with status := .err }, [])
  | fuel+1, r, k =>
    if r.status ≠ .more then (r, [])
    else
      match r.conn, r.script with
      | none, .openFail :: sc =>
        let r' := r.fail sc
        if r'.status = .err then (r', []) else RR.read fuel r' k
      | none, _ => RR.read fuel { r with conn := some r.bytes } k      -- (re)open at the bytes delivered so far
      | some _, .readFail _ :: sc =>
        let r' := r.fail sc
        if r'.status = .err then (r', []) else RR.read fuel r' k
      | some _, .openFail :: sc => RR.read fuel { r with script := sc } k   -- not an event for a read
      | some pos, .short n :: sc => r.deliver pos (min n k) false sc
      | some pos, .eofLater :: sc => r.deliver pos k true sc
      | some pos, [] => r.deliver pos k false []

/-- read until EOF or error -/
def RR.drain (k : Nat) : Nat → RR → List UInt8 × RStatus
  | 0, r => ([], r.status)
  | fuel+1, r =>
    let x := RR.read (2 * r.script.length + 3) r k
    match x.1.status with
    | .more => let t := RR.drain k fuel x.1; (x.2 ++ t.1, t.2)
    | st => (x.2, st)

end BS.Store
