import BS.Model.Sem
import BS.Model.Reader
/-!
# L7: how a program is actually carried out — parametrised by everything the program does not fix

`Sem` is the sequential reference.  `Exec` describes an execution the way the
engine performs it, with every degree of freedom an explicit parameter (`Strategy`):

* pipelined operators (Map, Filter, Flatmap, Head) are *reader state machines*
  (`BS.Reader`, tied call-by-call to slice.go's readers) drained with arbitrary
  destination sizes over an upstream that delivers in arbitrary chunks (vector size,
  pipelining vs materialisation, store reads);
* a shuffle hands consumer shard `p` the `p`-partitions of all producer shards
  *rearranged* in an arbitrary way into streams: any order of producers (reader
  shuffling, scheduling), any grouping of producers (machine-local combiners), any cut
  of a producer's rows into runs (spill thresholds, combine buffers).  The only
  constraint (`Strategy.Valid`) is that the streams together hold the partitions' rows;
* Reduce combines every stream (`foldMap`, exec/combiner.go — C09) and reduce-merges
  the streams (`reduceAll`, sortio/reader.go — C10); Fold folds the rows as they arrive.

`BS.Properties.C01` proves `exec σ` agrees with `Sem.eval` for every valid `σ`;
`BS.Properties.C04` that two valid strategies agree with each other.  Core-only.
-/
namespace BS.Exec
open BS.Prog BS.KV BS.Part BS.Sem BS.Reader

structure Strategy where
  /-- destination sizes of the read loop of (node, shard), per call -/
  dest : Nat → Nat → Nat → Nat
  /-- how the upstream of (node, shard) delivers: per call a row limit, and whether EOF comes with the last rows -/
  script : Nat → Nat → List (Nat × Bool)
  /-- how the producers' partitions reach consumer (node, dependency, shard) -/
  arrange : Nat → Nat → Nat → List (List KV) → List (List KV)

def Strategy.Valid (σ : Strategy) : Prop :=
  (∀ i p c, 0 < σ.dest i p c) ∧ ∀ i d p xs, ((σ.arrange i d p xs).flatten).Perm xs.flatten

def upOf (σ : Strategy) (i p : Nat) (rows : List KV) : Up KV := ⟨rows, σ.script i p, false⟩
def upFuel (u : Up KV) : Nat := u.script.length + u.rest.length + 4

def runMap (σ : Strategy) (i p : Nat) (f : KV → KV) (rows : List KV) : List KV :=
  drain (mapRd (upRd KV) f) (σ.dest i p) (upFuel (upOf σ i p rows)) 0 (upOf σ i p rows)

def runFilter (σ : Strategy) (i p : Nat) (pr : KV → Bool) (rows : List KV) : List KV :=
  drain (filterRd (upRd KV) pr upFuel) (σ.dest i p) (2 * upFuel (upOf σ i p rows)) 0 ⟨upOf σ i p rows, false⟩

def runFlat (σ : Strategy) (i p : Nat) (g : KV → List KV) (rows : List KV) : List KV :=
  drain (flatRd (upRd KV) g upFuel) (σ.dest i p) ((rows.flatMap g).length + 1) 0 ⟨upOf σ i p rows, [], [], false⟩

def runHead (σ : Strategy) (i p : Nat) (n : Nat) (rows : List KV) : List KV :=
  drain (headRd (upRd KV)) (σ.dest i p) (upFuel (upOf σ i p rows)) 0 ⟨upOf σ i p rows, n⟩

/-- apply `f shard rows` to every shard -/
def imap (f : Nat → List KV → List KV) (l : List (List KV)) : List (List KV) :=
  l.zipIdx.map fun x => f x.2 x.1

/-- partition `p` of every producer shard (what `partitionReader`/the task buffers hold) -/
def partsOf (f : KV → Nat) (s : List (List KV)) (p : Nat) : List (List KV) :=
  s.map fun rows => rows.filter fun r => f r == p

/-- what consumer shard `p` of node `i` reads from dependency `d` -/
def arrive (σ : Strategy) (i d : Nat) (f : KV → Nat) (s : List (List KV)) (p : Nat) : List (List KV) :=
  σ.arrange i d p (partsOf f s p)

def shuffled (σ : Strategy) (i : Nat) (n : Nat) (f : KV → Nat) (s : List (List KV)) : List (List KV) :=
  (List.range n).map fun p => (arrive σ i 0 f s p).flatten

def execOp (σ : Strategy) (i : Nat) (env : List Shards) (results : List Shards) (op : Op) : Shards :=
  let get := getRef env results
  match op with
  | .const _ _ | .reader _ _ _ | .lines _ _ | .readcache _ _ => evalOp env results op
  | .map s f _ => { get s with rows := imap (fun p => runMap σ i p (mapFn f)) (get s).rows }
  | .count s _ => get s
  | .filter s pr => { get s with rows := imap (fun p => runFilter σ i p (predFn pr)) (get s).rows }
  | .flatmap s g => { get s with rows := imap (fun p => runFlat σ i p (flatFn g)) (get s).rows }
  | .head s n => { get s with rows := imap (fun p => runHead σ i p n) (get s).rows }
  | .fold s =>
    let src := get s
    let n := src.rows.length
    ⟨(List.range n).map fun p => foldMap (· + ·) (arrive σ i 0 (fun r => keyPart n r.1) src.rows p).flatten, false⟩
  | .reduce s c =>
    let src := get s
    let n := src.rows.length
    ⟨(List.range n).map fun p =>
      reduceAll (combFn c) ((arrive σ i 0 (fun r => keyPart n r.1) src.rows p).map (foldMap (combFn c))), true⟩
  | .cogroup a b =>
    let sa := get a
    let sb := get b
    let n := max sa.rows.length sb.rows.length
    ⟨(List.range n).map fun p =>
      cogroupShard (arrive σ i 0 (fun r => keyPart n r.1) sa.rows p).flatten
        (arrive σ i 1 (fun r => keyPart n r.1) sb.rows p).flatten, true⟩
  | .reshuffle s =>
    let src := get s
    let n := src.rows.length
    ⟨shuffled σ i n (fun r => keyPart n r.1) src.rows, false⟩
  | .reshuffle2 s =>
    let src := get s
    let n := src.rows.length
    ⟨shuffled σ i n (keyPart2 n) src.rows, false⟩
  | .repartition s pf =>
    let src := get s
    let n := src.rows.length
    ⟨shuffled σ i n (fun r => if pf == "zero" then 0 else (((r.2 % n) + n) % n).toNat) src.rows, false⟩
  | .reshard s m =>
    let src := get s
    if src.rows.length == m then src
    else ⟨shuffled σ i m (fun r => keyPart m r.1) src.rows, false⟩
  | .scan s => ⟨(get s).rows.map fun _ => [], true⟩
  | .writer s => get s
  | .cache s _ _ => get s

def execNodes (σ : Strategy) (results : List Shards) : List Op → List Shards → List Shards
  | [], env => env
  | op :: ops, env => execNodes σ results ops (env ++ [execOp σ env.length env results op])

def exec (σ : Strategy) (p : Program) (results : List Shards) : List Shards × Shards :=
  let env := execNodes σ results p.nodes []
  (env, getRef env results p.out)

/-- what the side-effecting operators observe of shard `p` of their input: the drained rows, then end-of-stream -/
def observed (σ : Strategy) (i p : Nat) (rows : List KV) : List KV := runMap σ i p id rows

end BS.Exec
