import BS.Model.Sem
/-!
# L10: caching — Cache, CachePartial, ReadCache (cache.go, internal/slicecache, exec/compile.go:344-376)

The cache is a set of shard files `(name, shard) ↦ rows`.  A cache node whose shard is *cached when the
program is compiled* (Cache: only if all its shards are present; CachePartial: per shard) reads the file and
does not run the shard's upstream computation; otherwise the shard is computed and written through.
`evalC` evaluates a program against a set of files; `demand` says which node shards are computed at all.
Core-only.
-/
namespace BS.Cache
open BS.Prog BS.KV BS.Sem

abbrev Files := List ((String × Nat) × List KV)

def Files.get (f : Files) (name : String) (shard : Nat) : Option (List KV) :=
  (f.find? fun e => e.1 == (name, shard)).map (·.2)

/-- is shard `p` of a cache node with `n` shards served from its file? -/
def served (f : Files) (name : String) (part : Bool) (n p : Nat) : Bool :=
  if part then (f.get name p).isSome else (List.range n).all fun q => (f.get name q).isSome

def cacheOp (f : Files) (name : String) (part : Bool) (src : Shards) : Shards :=
  let n := src.rows.length
  { src with rows := (List.range n).map fun p =>
      if served f name part n p then (f.get name p).getD [] else src.rows.getD p [] }

def evalOpC (f : Files) (env results : List Shards) : Op → Shards
  | .cache s part name => cacheOp f name part (getRef env results s)
  | op => evalOp env results op

def evalNodesC (f : Files) (results : List Shards) : List Op → List Shards → List Shards
  | [], env => env
  | op :: ops, env => evalNodesC f results ops (env ++ [evalOpC f env results op])

/-- which shards of which nodes are computed: the output's shards are demanded; a demanded shard of a cache node
that is served from its file demands nothing; per-row operators demand the same shard of their source; shuffles
(and Cogroup) demand every shard of their sources.  One backward pass. -/
def demand (f : Files) (p : Program) (shardsOf : Nat → Nat) : List (List Bool) :=
  let n := p.nodes.length
  let init : List (List Bool) := (List.range n).map fun i =>
    (List.range (shardsOf i)).map fun _ => p.out == .node i
  let mark (d : List (List Bool)) (r : Ref) (which : Nat → Bool) : List (List Bool) :=
    match r with
    | .node j => d.set j (((d.getD j []).zipIdx).map fun (b, q) => b || which q)
    | .result _ => d
  (List.range n).reverse.foldl (fun d i =>
    let mine := d.getD i []
    if !mine.any id then d else
    match p.nodes.getD i default with
    | .cache s part name =>
      mark d s fun q => mine.getD q false && !served f name part (shardsOf i) q
    | .map s _ _ | .count s _ | .filter s _ | .flatmap s _ | .head s _ | .scan s | .writer s =>
      mark d s fun q => mine.getD q false
    | .fold s | .reduce s _ | .reshuffle s | .reshuffle2 s | .repartition s _ => mark d s fun _ => true
    | .reshard s m =>
      -- Reshard returns its argument when the shard count already matches
      let same := match s with | .node j => shardsOf j == m | .result _ => false
      if same then mark d s fun q => mine.getD q false else mark d s fun _ => true
    | .cogroup a b => mark (mark d a fun _ => true) b fun _ => true
    | _ => d) init

/-- the files after a successful, complete run: every computed shard of a cache node has been written -/
def filesAfter (f0 : Files) (p : Program) (env : List Shards) (dem : List (List Bool)) : Files :=
  p.nodes.zipIdx.foldl (fun f (op, i) =>
    match op with
    | .cache _ part name =>
      let sh := env.getD i default
      let n := sh.rows.length
      (List.range n).foldl (fun f q =>
        if (dem.getD i []).getD q false && !served f0 name part n q && (f.get name q).isNone
        then f ++ [((name, q), sh.rows.getD q [])] else f) f
    | _ => f) f0

end BS.Cache
