/-!
# L2: readers as state machines  (sliceio.Reader contract; slice.go readers; sliceio/reader.go)

A reader is a state type with `read : σ → k → σ × rows × status`.  `Up` is the
scripted upstream: *every* finite behaviour of a contract-abiding reader
(arbitrary chunking, zero-row reads that do not end the stream, EOF delivered
together with the last rows or on a later call) is some script.  Operator
readers are functions of an arbitrary upstream reader, so they compose into
pipelines.  Core-only.
-/
namespace BS.Reader

inductive St | more | eof
deriving DecidableEq, Repr

/-- A reader over rows of type `α`. -/
structure Rd (α : Type) where
  σ : Type
  read : σ → Nat → σ × List α × St

/-! ## scripted upstream -/

structure Up (α : Type) where
  rest   : List α
  script : List (Nat × Bool)     -- (max rows this call, deliver EOF together with the last rows)
  ended  : Bool                  -- EOF has been returned: it stays EOF
deriving Repr

def Up.read {α} (u : Up α) (k : Nat) : Up α × List α × St :=
  if u.ended then (u, [], .eof) else
  match u.script with
  | [] =>
    let rest := u.rest.drop k
    if rest.isEmpty then ({ rest := [], script := [], ended := true }, u.rest.take k, .eof)
    else ({ u with rest := rest }, u.rest.take k, .more)
  | (m, early) :: sc =>
    let n := min m k
    let rest := u.rest.drop n
    if rest.isEmpty && early then ({ rest := [], script := sc, ended := true }, u.rest.take n, .eof)
    else ({ rest := rest, script := sc, ended := false }, u.rest.take n, .more)

def upRd (α : Type) : Rd α := ⟨Up α, Up.read⟩

/-! ## operator readers over an arbitrary upstream `U` -/

/-- `mapReader` (slice.go:598-631): one upstream read of `k` rows, mapped. -/
def mapRd {α β} (U : Rd α) (f : α → β) : Rd β :=
  ⟨U.σ, fun s k => let r := U.read s k; (r.1, r.2.1.map f, r.2.2)⟩

/-- `headReader` (slice.go:984-994, after the fix that clamps the destination):
`n` rows remain to be delivered. -/
structure HeadS (σ : Type) where
  up : σ
  n : Nat

def headRd {α} (U : Rd α) : Rd α :=
  ⟨HeadS U.σ, fun s k =>
    if s.n = 0 then (s, [], .eof)
    else
      let r := U.read s.up (min k s.n)
      ({ up := r.1, n := s.n - r.2.1.length }, r.2.1, r.2.2)⟩

/-- `filterReader` (slice.go:680-712): keep reading `max - m` rows until the
destination is full or the upstream ended.  `fuel` bounds the loop. -/
structure FilterS (σ : Type) where
  up : σ
  eof : Bool

def filterLoop {α} (U : Rd α) (p : α → Bool) : Nat → U.σ → Nat → List α → U.σ × List α × Bool
  | 0, s, _, acc => (s, acc, false)
  | fuel+1, s, room, acc =>
    if room = 0 then (s, acc, false)
    else
      let r := U.read s room
      let got := r.2.1.filter p
      if r.2.2 = .eof then (r.1, acc ++ got, true)
      else filterLoop U p fuel r.1 (room - got.length) (acc ++ got)

/-- The fuel a `filter` read needs is supplied by the caller of the model (the
driver passes rows+script+2; `filter_lawful` shows any upstream measure works). -/
def filterRd {α} (U : Rd α) (p : α → Bool) (fuelOf : U.σ → Nat) : Rd α :=
  ⟨FilterS U.σ, fun s k =>
    if s.eof then (s, [], .eof)
    else
      let r := filterLoop U p (fuelOf s.up) s.up k []
      ({ up := r.1, eof := r.2.2 }, r.2.1, if r.2.2 then .eof else .more)⟩

/-- `sliceio.multiReader` / `exec.multiReader` (after the fix: a constituent's
last rows delivered together with EOF are returned, not dropped). -/
def multiLoop {α} (U : Rd α) : Nat → List U.σ → Nat → List U.σ × List α × St
  | 0, q, _ => (q, [], .more)
  | _, [], _ => ([], [], .eof)
  | fuel+1, s :: q, k =>
    let r := U.read s k
    if r.2.2 = .eof then
      if r.2.1.isEmpty then multiLoop U fuel q k else (q, r.2.1, .more)
    else if r.2.1.isEmpty then multiLoop U fuel (r.1 :: q) k
    else (r.1 :: q, r.2.1, .more)

def multiRd {α} (U : Rd α) (fuelOf : List U.σ → Nat) : Rd α :=
  ⟨List U.σ, fun q k => multiLoop U (fuelOf q) q k⟩

/-! ## flatmapReader (slice.go:773-837)

State: the upstream, the not yet consumed part of the input buffer (`in[begIn:endIn]`),
the stashed rest of the last function result (`f.out`) and the upstream-EOF flag. -/
structure FlatS (σ α β : Type) where
  up : σ
  inb : List α
  outb : List β
  eof : Bool

/-- the inner loop (slice.go:816-828): consume buffered inputs one at a time while there is room;
a result that does not fit is split and its rest stashed. Returns (input left, output so far, stash). -/
def flatInner {α β} (g : α → List β) : List α → Nat → List β → List β → List α × List β × List β
  | [], _, acc, outb => ([], acc, outb)
  | x :: xs, room, acc, outb =>
    if room = 0 then (x :: xs, acc, outb)
    else if (g x).length ≤ room then flatInner g xs (room - (g x).length) (acc ++ g x) outb
    else (xs, acc ++ (g x).take room, (g x).drop room)

/-- the outer loop (slice.go:797-829); `k` is the destination size (also the size of the
upstream read), `acc` the rows produced so far. -/
def flatLoop {α β} (U : Rd α) (g : α → List β) :
    Nat → Nat → U.σ → List α → List β → Bool → List β → FlatS U.σ α β × List β
  | 0, _, s, inb, outb, eof, acc => (⟨s, inb, outb, eof⟩, acc)
  | fuel+1, k, s, inb, outb, eof, acc =>
    if k ≤ acc.length || (eof && inb.isEmpty) then (⟨s, inb, outb, eof⟩, acc)
    else
      let r := U.read s k
      let s1 := if inb.isEmpty then r.1 else s
      let inb1 := if inb.isEmpty then r.2.1 else inb
      let eof1 := if inb.isEmpty then (r.2.2 == .eof) else eof
      let i := flatInner g inb1 (k - acc.length) acc outb
      flatLoop U g fuel k s1 i.1 i.2.2 eof1 i.2.1

def flatRd {α β} (U : Rd α) (g : α → List β) (fuelOf : U.σ → Nat) : Rd β :=
  ⟨FlatS U.σ α β, fun s k =>
    let r := flatLoop U g (fuelOf s.up) k s.up s.inb (s.outb.drop k) s.eof (s.outb.take k)
    (r.1, r.2, if r.1.eof && r.1.outb.isEmpty && r.1.inb.isEmpty then .eof else .more)⟩

/-- `frameReader` (sliceio/reader.go:130-141): EOF together with the last rows. -/
def frameRd (α : Type) : Rd α :=
  ⟨List α, fun rows k =>
    let rest := rows.drop k
    (rest, rows.take k, if rest.isEmpty then .eof else .more)⟩

/-- Drain a reader: call `read` with destination sizes `dest i` until EOF (or fuel runs out). -/
def drain {α} (R : Rd α) (dest : Nat → Nat) : Nat → Nat → R.σ → List α
  | 0, _, _ => []
  | fuel+1, i, s =>
    let r := R.read s (dest i)
    match r.2.2 with
    | .eof => r.2.1
    | .more => r.2.1 ++ drain R dest fuel (i + 1) r.1

end BS.Reader

/-! ## sliceio.Scanner (sliceio/scanner.go:50-96)

A scanner hands out one row per `Scan` from an internal buffer of `c` rows (`defaultChunksize`) that it refills from its
reader when empty — looping over reads that return no rows — and reports the end once the reader has ended and the buffer
is used up. -/
namespace BS.Reader

structure ScanS (σ α : Type) where
  up : σ
  buf : List α
  atEOF : Bool

/-- the refill loop: read until rows arrive or the stream ends; returns (upstream, rows, ended) -/
def scanFill {α} (U : Rd α) (c : Nat) : Nat → U.σ → U.σ × List α × Bool
  | 0, s => (s, [], false)
  | fuel+1, s =>
    let r := U.read s c
    if r.2.2 = .eof then (r.1, r.2.1, true)
    else if r.2.1.isEmpty then scanFill U c fuel r.1
    else (r.1, r.2.1, false)

/-- one `Scan`: the next row, or `none` at the end -/
def scan {α} (U : Rd α) (c : Nat) (fuelOf : U.σ → Nat) (s : ScanS U.σ α) : ScanS U.σ α × Option α :=
  match s.buf with
  | x :: rest => ({ s with buf := rest }, some x)
  | [] =>
    if s.atEOF then (s, none)
    else
      let r := scanFill U c (fuelOf s.up) s.up
      match r.2.1 with
      | x :: rest => (⟨r.1, rest, r.2.2⟩, some x)
      | [] => (⟨r.1, [], r.2.2⟩, none)

/-- `for sc.Scan(…) { … }` -/
def scanAll {α} (U : Rd α) (c : Nat) (fuelOf : U.σ → Nat) : Nat → ScanS U.σ α → List α
  | 0, _ => []
  | n+1, s =>
    match scan U c fuelOf s with
    | (s', some x) => x :: scanAll U c fuelOf n s'
    | (_, none) => []

end BS.Reader
