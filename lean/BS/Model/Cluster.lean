/-!
# L7: cluster manager bookkeeping (exec/slicemachine.go)

`schedule` (629-659) walks two priority queues in lock step.  The heaps are
modelled as lists already sorted by their `Less` (ties in any order: the
theorems hold for every sorted order, i.e. for every heap tie-break).
`step` is the manager's event loop (`Do`, 444-603) restricted to the events
that move procs: grant, done, stop.  Core-only.
-/
namespace BS.Cluster

structure Req where
  prio : Int
  procs : Nat
deriving Repr, DecidableEq

structure Mach where
  id : Nat
  max : Nat          -- maxTaskProcs
  used : Nat         -- taskProcs
deriving Repr, DecidableEq

def Mach.free (m : Mach) : Nat := m.max - m.used

/-- `scheduleRequestQ.Less` (slicemachine.go:746-753). -/
def reqLess (a b : Req) : Bool :=
  if a.prio ≠ b.prio then decide (a.prio < b.prio) else decide (b.procs < a.procs)

/-- `machineQ.Less` (slicemachine.go:785-787): more free procs first. -/
def machLess (a b : Mach) : Bool := decide (b.free < a.free)

/-- The loop of `schedule` on the two queues in heap order. -/
def schedule : List Req → List Mach → Option (Req × Mach)
  | r :: rs, m :: ms =>
    if m.free = 0 then none
    else if r.procs ≤ m.free then some (r, m)
    else schedule rs ms
  | _, _ => none

def insertBy {α} (lt : α → α → Bool) (x : α) : List α → List α
  | [] => [x]
  | y :: ys => if lt y x then y :: insertBy lt x ys else x :: y :: ys

def sortBy {α} (lt : α → α → Bool) : List α → List α
  | [] => []
  | x :: xs => insertBy lt x (sortBy lt xs)

/-! ### the manager's proc accounting -/

inductive Health | ok | probation | lost
deriving Repr, DecidableEq

structure MState where
  machs : List (Mach × Health)
  queue : List Req
  grants : List (Nat × Nat)          -- outstanding (machine id, procs)
deriving Repr

inductive Event
  | offer (r : Req)
  | cancel (r : Req)
  | grant                              -- the `machc <- mach` arm fires for schedule's choice
  | done (mid procs : Nat) (transportErr : Bool) (ok : Bool)
  | stop (mid : Nat)
  | probationTimeout (mid : Nat)
deriving Repr

def okMachs (s : MState) : List Mach :=
  (s.machs.filter fun p => p.2 == .ok).map (·.1)

def updMach (ms : List (Mach × Health)) (mid : Nat) (f : Mach × Health → Mach × Health) :=
  ms.map fun p => if p.1.id = mid then f p else p

def removeFirst {α} [DecidableEq α] (x : α) : List α → List α
  | [] => []
  | y :: ys => if x = y then ys else y :: removeFirst x ys

def step (s : MState) : Event → MState
  | .offer r => { s with queue := s.queue ++ [r] }
  | .cancel r => { s with queue := removeFirst r s.queue }
  | .grant =>
    match schedule (sortBy reqLess s.queue) (sortBy machLess (okMachs s)) with
    | none => s
    | some (r, m) =>
      { machs := updMach s.machs m.id fun p => ({ p.1 with used := p.1.used + r.procs }, p.2),
        queue := removeFirst r s.queue,
        grants := (m.id, r.procs) :: s.grants }
  | .done mid procs transportErr ok =>
    if (mid, procs) ∈ s.grants then
      { s with
        machs := updMach s.machs mid fun p =>
          ({ p.1 with used := p.1.used - procs },
            match p.2 with
            | .ok => if transportErr then .probation else .ok
            | .probation => if ok then .ok else .probation
            | .lost => .lost),
        grants := removeFirst (mid, procs) s.grants }
    else s
  | .stop mid => { s with machs := updMach s.machs mid fun p => (p.1, .lost) }
  | .probationTimeout mid =>
    { s with machs := updMach s.machs mid fun p => (p.1, if p.2 == .probation then .ok else p.2) }

def outstanding (g : List (Nat × Nat)) (mid : Nat) : Nat :=
  ((g.filter fun p => p.1 == mid).map (·.2)).sum

/-- The accounting invariant: a machine's `taskProcs` is the sum of the procs of
its outstanding grants, and never exceeds its capacity; ids are unique. -/
def Inv (s : MState) : Prop :=
  (∀ p ∈ s.machs, p.1.used = outstanding s.grants p.1.id ∧ p.1.used ≤ p.1.max) ∧
  (s.machs.map (·.1.id)).Nodup

/-- `newMachineManager`'s proc arithmetic (slicemachine.go:395-400) with the load
as a rational `num/den`. -/
def machprocs (maxprocs num den : Nat) : Nat :=
  let p := maxprocs * num / den
  if p < 1 then 1 else p

/-- the proc clamp in `(*bigmachineExecutor).Run` (bigmachine.go:318-321) -/
def clampProcs (pragmaProcs : Nat) (exclusive : Bool) (machprocs : Nat) : Nat :=
  if exclusive ∨ machprocs < pragmaProcs then machprocs else pragmaProcs

/-- the start decision (slicemachine.go:586-592): number of machines to start -/
def startDecision (have_ pending need maxp machprocs : Nat) : Nat :=
  if have_ + pending < need ∧ have_ + pending < maxp then
    let needProcs := min need maxp - have_ - pending
    min ((needProcs + machprocs - 1) / machprocs) 10
  else 0

end BS.Cluster
