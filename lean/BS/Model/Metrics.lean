/-!
# L8: user metrics  (metrics/scope.go, metrics/metrics.go)

State is kept *per metric* (the Go code keeps it per scope; `Merge`, `Reset`,
gob encode/decode are all "for each registered metric"): for one metric,
`inst` is the heap of counter instances created so far and `ref s` is the
instance scope `s` points at (`none` = nil slot).  Sharing of instances after
`Reset(u)` is therefore represented faithfully.  Core-only.
-/
namespace BS.Metrics

structure M where
  inst : List Int
  ref  : List (Option Nat)     -- indexed by scope id
deriving Repr, DecidableEq

def M.refOf (m : M) (s : Nat) : Option Nat := (m.ref.getD s none)

/-- `Counter.Value` of a loaded-or-missing instance (a missing instance reads 0). -/
def M.val (m : M) (s : Nat) : Int :=
  match m.refOf s with
  | some i => m.inst.getD i 0
  | none => 0

/-- `Scope.instance`: load or create (scope.go:73-94). -/
def M.instance (m : M) (s : Nat) : M × Nat :=
  match m.refOf s with
  | some i => (m, i)
  | none => ({ inst := m.inst ++ [0], ref := m.ref.set s (some m.inst.length) }, m.inst.length)

def addAt (l : List Int) (i : Nat) (d : Int) : List Int := l.set i (l.getD i 0 + d)

/-- `Counter.Incr`. -/
def M.incr (m : M) (s : Nat) (n : Int) : M :=
  let (m', i) := m.instance s
  { m' with inst := addAt m'.inst i n }

/-- `Counter.Value` (creates the instance as a side effect). -/
def M.value (m : M) (s : Nat) : M × Int :=
  let (m', i) := m.instance s
  (m', m'.inst.getD i 0)

/-- `Scope.Merge` for one metric (scope.go:51-60). -/
def M.merge (m : M) (s u : Nat) : M :=
  match m.refOf u with
  | none => m
  | some j =>
    let d := m.inst.getD j 0
    let (m', i) := m.instance s
    { m' with inst := addAt m'.inst i d }

/-- `Scope.Reset(u)`, `u ≠ nil`: the slot is made to point at u's instance. -/
def M.reset (m : M) (s u : Nat) : M := { m with ref := m.ref.set s (m.refOf u) }

/-- `Scope.Reset(nil)`. -/
def M.resetNil (m : M) (s : Nat) : M := { m with ref := m.ref.set s none }

/-- a fresh scope -/
def M.newScope (m : M) : M := { m with ref := m.ref ++ [none] }

/-- gob round trip of scope `s` into a fresh scope: a loaded instance arrives as a
new instance with the same value, a nil slot stays nil (scope.go:23-49). -/
def M.gob (m : M) (s : Nat) : M :=
  match m.refOf s with
  | none => { m with ref := m.ref ++ [none] }
  | some i => { inst := m.inst ++ [m.inst.getD i 0], ref := m.ref ++ [some m.inst.length] }

/-- Well-formed: every reference points into the heap and the scope exists. -/
def M.WF (m : M) : Prop := ∀ s i, m.refOf s = some i → i < m.inst.length

end BS.Metrics
