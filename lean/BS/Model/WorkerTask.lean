/-!
# L7: one task on one worker under overlapping `Worker.Run` and `Worker.Discard` calls (exec/bigmachine.go)

The RPC client retries calls whose connection failed (`RetryCall`), so a worker can be serving several calls for one task
at once: the original of a retried call may still be running.  `(*worker).Run` and `(*worker).Discard` coordinate through
the task's state, read and written under the task's lock; each step below is one such critical section, and every
interleaving of the calls is a sequence of steps.

* `Run` (bigmachine.go:739): a LOST, failed or fresh task is taken (`state = RUNNING`) and executed; otherwise the call
  waits until the state is past RUNNING and then reports the task's outcome, `task.Err()`: nil for OK, the task's error
  for a failed task and `ErrTaskLost` for a LOST one (its output was discarded while the call waited); the deferred
  handler then records the outcome in the task (`Set(TaskOk)` / `task.Error`).  `lostIsError = false` is the variant in
  which a LOST task counts as success there — not the code's behaviour, kept to show what the `ErrTaskLost` case is for.
* an execution commits the output to the store and then marks the task OK, or marks it failed.
* `Discard` (bigmachine.go:1051): does nothing unless the task is OK; else marks it RUNNING, deletes the output, marks it LOST.
* `cancel`: a waiting `Run` call whose context is cancelled returns that error and — through the same deferred handler —
  marks the task failed, although the call never held it.  The theorems of `Properties/C12w` are about histories without
  such cancellations; `cancel_breaks_one_holder` there is the trace of what a cancellation makes possible (observed on the
  real worker by sub-check C12wk: `run a ; run b ; cancel b ; run c`).

Core-only.
-/
namespace BS.WorkerTask

inductive WSt | init | running | ok | err | lost
deriving DecidableEq, Repr

/-- what a call is doing -/
inductive Th
  | idle                 -- no call (or it returned)
  | exec                 -- a Run call executing the task
  | wait                 -- a Run call waiting for the task to leave RUNNING
  | disc (stored : Bool) -- a Discard call, before / after it deleted the output
deriving DecidableEq, Repr

inductive Reply | ok | err | none
deriving DecidableEq, Repr

structure S where
  st : WSt
  out : Bool              -- the store holds the task's output
  ths : List Th
  replies : List (Nat × Reply)   -- (call, reply), most recent first
deriving Repr

inductive Ev
  | runEnter (i : Nat)
  | finOk (i : Nat)
  | finErr (i : Nat)
  | wake (i : Nat)
  | discEnter (i : Nat)
  | discStore (i : Nat)
  | discFin (i : Nat)
  | cancel (i : Nat)       -- the context of a *waiting* Run call is cancelled (its client went away)
deriving Repr, DecidableEq

def init (n : Nat) : S := ⟨.init, false, List.replicate n .idle, []⟩

def S.th (s : S) (i : Nat) : Th := s.ths.getD i .idle

def S.setTh (s : S) (i : Nat) (t : Th) : S := { s with ths := s.ths.set i t }

def step (lostIsError : Bool) (s : S) : Ev → S
  | .runEnter i =>
    if s.th i = .idle ∧ i < s.ths.length then
      match s.st with
      | .lost | .err | .init => { (s.setTh i .exec) with st := .running }
      | _ => s.setTh i .wait
    else s
  | .finOk i =>
    if s.th i = .exec then { (s.setTh i .idle) with st := .ok, out := true, replies := (i, .ok) :: s.replies } else s
  | .finErr i =>
    if s.th i = .exec then { (s.setTh i .idle) with st := .err, replies := (i, .err) :: s.replies } else s
  | .wake i =>
    if s.th i = .wait then
      match s.st with
      | .ok => { (s.setTh i .idle) with replies := (i, .ok) :: s.replies }
      | .err => { (s.setTh i .idle) with replies := (i, .err) :: s.replies }
      | .lost =>
        if lostIsError then { (s.setTh i .idle) with st := .err, replies := (i, .err) :: s.replies }
        else { (s.setTh i .idle) with st := .ok, replies := (i, .ok) :: s.replies }
      | _ => s
    else s
  | .discEnter i =>
    if s.th i = .idle ∧ i < s.ths.length then
      if s.st = .ok then { (s.setTh i (.disc false)) with st := .running }
      else { s with replies := (i, .none) :: s.replies }
    else s
  | .discStore i =>
    if s.th i = .disc false then { (s.setTh i (.disc true)) with out := false } else s
  | .discFin i =>
    if s.th i = .disc true then { (s.setTh i .idle) with st := .lost, replies := (i, .none) :: s.replies } else s
  | .cancel i =>
    -- `task.Wait` returns the context's error; `task.Err()` is nil while the task is RUNNING, so the call returns the
    -- context's error and the deferred handler records it in the task — `task.Error` — although another call holds it
    if s.th i = .wait then { (s.setTh i .idle) with st := .err, replies := (i, .err) :: s.replies } else s

def run (lostIsError : Bool) (s : S) (evs : List Ev) : S := evs.foldl (step lostIsError) s

/-- 1 for a call that holds the task (executes it or discards it) -/
def Ev.isCancel : Ev → Bool
  | .cancel _ => true
  | _ => false

def act : Th → Nat
  | .exec => 1
  | .disc _ => 1
  | _ => 0

def active (l : List Th) : Nat := (l.map act).sum

end BS.WorkerTask
