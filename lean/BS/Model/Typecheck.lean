/-!
# L8: operator constructors' type schemas  (slice.go, reduce.go, cogroup.go, reshuffle.go, reshard.go,
typecheck/*.go, slicefunc/func.go)

`Ty` is a universe of column/parameter types closed under `slice`; `Fn` is what
`slicefunc.Of` extracts from a Go function (a leading `context.Context` is
stripped).  Each `check…` returns the documented result type
(columns, key prefix) or `none` (= typecheck error).  Core-only.
-/
namespace BS.Typecheck

inductive Ty
  | int | i64 | str | bool | f64 | err
  | strct            -- a struct type without registered ops
  | iface            -- an interface type with methods
  | impl             -- a concrete type implementing `iface`
  | honly            -- a type registered (frame.RegisterOps) with `HashWithSeed` only
  | lonly            -- a type registered with `Less` only
  | slice (t : Ty)
deriving DecidableEq, Repr, Inhabited

/-- `reflect.Type.AssignableTo` on this universe -/
def assignable (t u : Ty) : Bool := t == u || (u == .iface && t == .impl)

/-- `frame.CanHash` / `frame.CanCompare` (frame/ops.go:98-107): the built-in key types and user registrations -/
def canHash : Ty → Bool
  | .int | .i64 | .str | .bool | .f64 | .honly => true
  | _ => false

def canCompare : Ty → Bool
  | .int | .i64 | .str | .bool | .f64 | .lonly => true
  | _ => false

/-- a key column must be hashable *and* comparable (reduce.go:83-94, cogroup.go:70-78) -/
def hasOps (t : Ty) : Bool := canHash t && canCompare t

/-- `canMakeAccumulatorForKey` (accum.go:28-35) -/
def canAccum : Ty → Bool
  | .int | .i64 | .str => true
  | _ => false

structure Fn where
  ins : List Ty
  outs : List Ty
  variadic : Bool          -- the last parameter is `...T` (its type in `ins` is `slice T`)
deriving Repr

structure STy where
  cols : List Ty
  pfx : Nat
deriving Repr, DecidableEq

def allAssignable : List Ty → List Ty → Bool
  | [], [] => true
  | a :: as, p :: ps => assignable a p && allAssignable as ps
  | _, _ => false

/-- `typecheck.CanApply` (typecheck/func.go:16-47) -/
def canApply (fn : Fn) (arg : List Ty) : Bool :=
  if fn.variadic then
    match fn.ins.getLast? with
    | some (.slice v) =>
      let fixed := fn.ins.dropLast
      fixed.length ≤ arg.length && allAssignable (arg.take fixed.length) fixed &&
        (arg.drop fixed.length).all fun a => assignable a v
    | _ => false
  else allAssignable arg fn.ins

def devectorize : List Ty → Option (List Ty)
  | [] => some []
  | .slice t :: r => (devectorize r).map (t :: ·)
  | _ => none

def keysOk (s : STy) : Bool := (s.cols.take s.pfx).all hasOps

/-- Map, Flatmap and Fold keep the input's key prefix (their slice types embed the input slice and do
not override `Prefix`); the documentation is silent on it. -/
def checkMap (s : STy) (fn : Fn) : Option STy :=
  if canApply fn s.cols && fn.outs.length ≥ 1 then some ⟨fn.outs, s.pfx⟩ else none

def checkFilter (s : STy) (fn : Fn) : Option STy :=
  if canApply fn s.cols && fn.outs == [.bool] then some s else none

def checkFlatmap (s : STy) (fn : Fn) : Option STy :=
  if canApply fn s.cols then (devectorize fn.outs).map fun o => ⟨o, s.pfx⟩ else none

/-- Fold: `func(acc, t2, …, tn) acc` over a slice with ≥ 2 columns whose first column is a hashable,
accumulable key (slice.go:870-902) -/
def checkFold (s : STy) (fn : Fn) : Option STy :=
  match s.cols, fn.outs with
  | k :: rest, [acc] =>
    if rest.length ≥ 1 && hasOps k && canAccum k && fn.ins == acc :: rest then some ⟨[k, acc], s.pfx⟩
    else none
  | _, _ => none

/-- Reduce: one residual column `t`, key columns with ops, `func(t, t) t` (reduce.go:42-58) -/
def checkReduce (s : STy) (fn : Fn) : Option STy :=
  if s.cols.length = s.pfx + 1 && keysOk s then
    match s.cols.getLast? with
    | some t => if fn.ins == [t, t] && fn.outs == [t] then some s else none
    | none => none
  else none

def checkReshuffle (s : STy) : Option STy := if keysOk s then some s else none

/-- Repartition: `func(nshard int, cols…) int` exactly (reshuffle.go:52-63) -/
def checkRepartition (s : STy) (fn : Fn) : Option STy :=
  if fn.ins == .int :: s.cols && fn.outs == [.int] then some s else none

def checkPrefixed (s : STy) (p : Nat) : Option STy :=
  if 1 ≤ p && p ≤ s.cols.length then some ⟨s.cols, p⟩ else none

/-- ReaderFunc: `func(shard int, state T, cols… []t) (int, error)` (slice.go:322-339, with the
result-arity check of the D10 fix) -/
def checkReaderFunc (fn : Fn) : Option STy :=
  match fn.ins with
  | .int :: _ :: c :: cols =>
    if fn.outs == [.int, .err] then (devectorize (c :: cols)).map fun o => ⟨o, 1⟩ else none
  | _ => none

/-- WriterFunc: `func(shard int, state T, err error, cols… []t) error` (slice.go:444-480) -/
def checkWriterFunc (s : STy) (fn : Fn) : Option STy :=
  match fn.ins with
  | .int :: _ :: .err :: cols =>
    if cols == s.cols.map Ty.slice && fn.outs == [.err] then some s else none
  | _ => none

/-- Cogroup: all slices share the key prefix (types with ops); value columns become slices
(cogroup.go:46-98) -/
def checkCogroup (ss : List STy) : Option STy :=
  match ss with
  | [] => none
  | s0 :: _ =>
    let keys := s0.cols.take s0.pfx
    if ss.all (fun s => s.cols.length ≥ 1 && s.pfx == s0.pfx && s.cols.take s.pfx == keys) && keys.all hasOps
        && s0.pfx ≥ 1 then
      some ⟨keys ++ ss.flatMap (fun s => (s.cols.drop s.pfx).map Ty.slice), s0.pfx⟩
    else none

end BS.Typecheck
