/-!
# L8: invocation transport (exec/invocation.go:42-121, exec/bigmachine.go:208-236)

The type-directed dispatch of `GobEncode`/`GobDecode` over a small universe:
a parameter is `iface` (interface kind), `resultPtr` (`*Result`) or `other`.
gob itself is a parameter (`enc`/`dec`) with the recorded contract
`dec (enc v) = v` on encodable values.  Core-only.
-/
namespace BS.Inv

inductive PKind | other | iface | resultPtr
deriving DecidableEq, Repr

/-- Argument values by canonical text. `ref` is an `invocationRef`. -/
inductive AVal
  | val (canon : String)      -- a gob-encodable value (canonical text)
  | nilv                      -- untyped nil (interface parameters only)
  | nilptr                    -- typed nil pointer: gob cannot encode it at top level
  | result (inv : Nat)        -- *Result of invocation `inv`
  | ref (inv : Nat)           -- invocationRef{inv}
  | unenc (canon : String)    -- func/chan/struct without exported fields
deriving DecidableEq, Repr

/-- `addInvocation` (bigmachine.go:222-232): *Result arguments become refs. -/
def subst : AVal → AVal
  | .result i => .ref i
  | a => a

/-- What goes on the wire for one argument (`none` = encode error / panic). -/
def encodeArg (_k : PKind) : AVal → Option AVal
  | .unenc _ => none
  | .nilptr => none
  | .result _ => none          -- a *Result is never encoded: it must have been substituted
  | a => some a

/-- `GobDecode` allocates by parameter kind (invocation.go:95-113); under the gob
contract every allocation receives the value that was sent. -/
def decodeArg (_k : PKind) (w : AVal) : AVal := w

def encodeArgs : List (PKind × AVal) → Option (List (PKind × AVal))
  | [] => some []
  | (k, a) :: rest =>
    match encodeArg k (subst a), encodeArgs rest with
    | some w, some ws => some ((k, w) :: ws)
    | _, _ => none

def decodeArgs (ws : List (PKind × AVal)) : List AVal := ws.map fun (k, w) => decodeArg k w

def encodable : AVal → Bool
  | .unenc _ => false
  | .nilptr => false
  | _ => true

end BS.Inv
