/-!
# L7: the local executor's token limiter (exec/local.go:44-66)

`localExecutor.Start` releases `sess.p` tokens into an empty limiter; `Run` asks
for `n` tokens — 1, or all `p` when the task's pragma is Exclusive — blocks until
they are there, and a `defer` hands the same `n` back on every way out.  A task
runs only between its acquire and its release.  An acquire that cannot be served
leaves the state unchanged (the goroutine keeps waiting): every interleaving of
the goroutines is a sequence of these events.  Core-only.
-/
namespace BS.Limiter

structure LState where
  p : Nat                     -- the session's parallelism
  avail : Nat                 -- tokens in the limiter
  held : List (Nat × Nat)     -- running task ↦ tokens it holds
deriving Repr, DecidableEq

inductive Ev
  | acquire (t : Nat) (exclusive : Bool)
  | release (t : Nat)
deriving Repr, DecidableEq

/-- local.go:53-57 -/
def need (p : Nat) (exclusive : Bool) : Nat := if exclusive then p else 1

def init (p : Nat) : LState := ⟨p, p, []⟩

def lookup (t : Nat) : List (Nat × Nat) → Option Nat
  | [] => none
  | (a, n) :: r => if a = t then some n else lookup t r

def erase (t : Nat) : List (Nat × Nat) → List (Nat × Nat)
  | [] => []
  | (a, n) :: r => if a = t then r else (a, n) :: erase t r

def step (s : LState) : Ev → LState
  | .acquire t e =>
    let n := need s.p e
    if n ≤ s.avail ∧ lookup t s.held = none then
      { s with avail := s.avail - n, held := (t, n) :: s.held }
    else s
  | .release t =>
    match lookup t s.held with
    | some n => { s with avail := s.avail + n, held := erase t s.held }
    | none => s

def total : List (Nat × Nat) → Nat
  | [] => 0
  | (_, n) :: r => n + total r

def run (s : LState) (evs : List Ev) : LState := evs.foldl step s

end BS.Limiter
