/-!
# L1: frames as views on shared storage  (frame/frame.go)

A store is one allocation (all columns of a `frame.Make`/`frame.Slices`); a row
is one `Int` per column (the harness maps typed values injectively to ints,
0 ↦ zero value).  A frame is `(sid, off, len, cap, pfx)` exactly as the Go
struct (`data`, `off`, `len`, `cap`, `prefix+1`).  Every operation writes the
index arithmetic of frame.go out (`off + i`).  Core-only.
-/
namespace BS.Frame

abbrev Row := List Int
abbrev Store := List Row
abbrev Mem := List Store

structure Frame where
  sid : Nat
  off : Nat
  len : Nat
  cap : Nat
  pfx : Nat          -- number of key columns (Go: prefix+1)
deriving Repr, DecidableEq

def storeOf (m : Mem) (sid : Nat) : Store := m.getD sid []
def rowAt (m : Mem) (sid i : Nat) : Row := (storeOf m sid).getD i []

/-- The rows a frame denotes. -/
def view (m : Mem) (f : Frame) : List Row := ((storeOf m f.sid).drop f.off).take f.len

/-- Well-formed: the capacity window lies inside the allocation. -/
def WF (m : Mem) (f : Frame) : Prop :=
  f.sid < m.length ∧ f.len ≤ f.cap ∧ f.off + f.cap ≤ (storeOf m f.sid).length

/-- The address computation shared by Swap/Less/Hash/Index/UnsafeIndexPointer
(frame.go:326,341,357,378,398): row `i` of the view is row `off+i` of the store. -/
def idx (off i : Nat) : Nat := off + i

/-- frame.go:244 `Slice`. -/
def slice (f : Frame) (i j : Nat) : Option Frame :=
  if j < i ∨ f.cap < j then none
  else some { f with off := f.off + i, len := j - i, cap := f.cap - i }

/-- frame.go:345 `Prefixed` (ncols = number of columns). -/
def prefixed (ncols : Nat) (f : Frame) (p : Nat) : Option Frame :=
  if ncols < p then none else some { f with pfx := p }

def setStore (m : Mem) (sid : Nat) (s : Store) : Mem := m.set sid s

def swapRows (s : List Row) (a b : Nat) : List Row :=
  (s.set a (s.getD b [])).set b (s.getD a [])

/-- frame.go:355 `Swap` (with the `+ off` addressing every other op uses). -/
def swap (m : Mem) (f : Frame) (i j : Nat) : Mem :=
  setStore m f.sid (swapRows (storeOf m f.sid) (idx f.off i) (idx f.off j))

/-- Go's per-column `<`, columns compared left to right over the key prefix
(frame.go:375-385). -/
def lexLt : Nat → Row → Row → Bool
  | 0, _, _ => false
  | _+1, [], _ => false
  | _+1, _, [] => false
  | n+1, a :: as, b :: bs =>
    if n = 0 then decide (a < b)
    else if a < b then true else if b < a then false else lexLt n as bs

def less (m : Mem) (f : Frame) (i j : Nat) : Bool :=
  lexLt f.pfx (rowAt m f.sid (idx f.off i)) (rowAt m f.sid (idx f.off j))

def zeroRow (ncols : Nat) : Row := List.replicate ncols 0

/-- frame.go:362 `Zero`. -/
def zero (ncols : Nat) (m : Mem) (f : Frame) : Mem :=
  let s := storeOf m f.sid
  setStore m f.sid (s.take f.off ++ List.replicate f.len (zeroRow ncols) ++ s.drop (f.off + f.len))

/-- frame.go:169 `Copy` (memmove semantics: the source rows are read first). -/
def copy (m : Mem) (dst src : Frame) : Mem × Nat :=
  let n := min dst.len src.len
  let rows := (view m src).take n
  let s := storeOf m dst.sid
  (setStore m dst.sid (s.take dst.off ++ rows ++ s.drop (dst.off + n)), n)

/-- frame.go:470-480: the capacity loop of `grow`; `fuel` bounds the iterations. -/
def growCap (i0 i1 : Nat) : Nat → Nat → Nat
  | 0, c => c
  | fuel+1, c => if c < i1 then growCap i0 i1 fuel (if i0 < 1024 then c + c else c + c / 4) else c

/-- frame.go:458 `grow`: returns the memory, the grown frame, and `i0`,`i1`. -/
def grow (ncols : Nat) (m : Mem) (f : Frame) (need : Nat) : Mem × Frame × Nat × Nat :=
  let i0 := f.len
  let i1 := i0 + need
  if i1 ≤ f.cap then (m, { f with len := i1 }, i0, i1)
  else
    let c := if f.cap = 0 then need else growCap i0 i1 i1 f.cap
    let s := view m f ++ List.replicate (c - f.len) (zeroRow ncols)
    (m ++ [s], { sid := m.length, off := 0, len := i1, cap := c, pfx := f.pfx }, i0, i1)

/-- frame.go:265 `Ensure`. -/
def ensure (ncols : Nat) (m : Mem) (f : Frame) (n : Nat) : Mem × Frame :=
  if f.len = n then (m, f)
  else if n ≤ f.cap then (m, { f with len := n })
  else let r := grow ncols m f (n - f.len); (r.1, r.2.1)

/-- `dst.Slice(i0, i1)` as used by `AppendFrame`. -/
def window (g : Frame) (i0 i1 : Nat) : Frame :=
  { g with off := g.off + i0, len := i1 - i0, cap := g.cap - i0 }

/-- frame.go:204 `AppendFrame` for a non-zero `dst`. -/
def appendFrame (ncols : Nat) (m : Mem) (dst src : Frame) : Mem × Frame :=
  let r := grow ncols m dst src.len
  ((copy r.1 (window r.2.1 r.2.2.1 r.2.2.2) src).1, r.2.1)

/-- `frame.Make(types, len, cap)`. -/
def make (ncols : Nat) (m : Mem) (len cap : Nat) : Option (Mem × Frame) :=
  if cap < len then none
  else some (m ++ [List.replicate cap (zeroRow ncols)], { sid := m.length, off := 0, len := len, cap := cap, pfx := 1 })

/-- Insertion sort by key: the reference for "a permutation in key order". -/
def insertBy (lt : Row → Row → Bool) (x : Row) : List Row → List Row
  | [] => [x]
  | y :: ys => if lt x y then x :: y :: ys else y :: insertBy lt x ys

def sortBy (lt : Row → Row → Bool) : List Row → List Row
  | [] => []
  | x :: xs => insertBy lt x (sortBy lt xs)

/-- `sort.Sort(f)` as a transformer of the view (trusted contract of `sort.Sort`
given a consistent `Less`/`Swap`; which rows are touched is exactly `Swap`'s). -/
def sortView (m : Mem) (f : Frame) : Mem :=
  let s := storeOf m f.sid
  setStore m f.sid (s.take f.off ++ sortBy (lexLt f.pfx) (view m f) ++ s.drop (f.off + f.len))

end BS.Frame
