/-!
# L4: keyed folding, sorting and merging as list functions
(the specifications of exec/combiner.go, sortio/sort.go, sortio/reader.go)

Rows are `(key, value)` pairs; keys are compared with `<` on `Int` (the harness
maps typed keys monotonically).  `foldMap` is "one row per distinct key, in
ascending key order, whose value is the fold of the values in arrival order".
Core-only.
-/
namespace BS.KV

abbrev KV := Int × Int

/-- insert/combine into an assoc list sorted by key -/
def insertKV (comb : Int → Int → Int) (k v : Int) : List KV → List KV
  | [] => [(k, v)]
  | (k', v') :: r =>
    if k < k' then (k, v) :: (k', v') :: r
    else if k = k' then (k', comb v' v) :: r
    else (k', v') :: insertKV comb k v r

/-- fold of all rows by key, in arrival order -/
def foldMap (comb : Int → Int → Int) (rows : List KV) : List KV :=
  rows.foldl (fun m r => insertKV comb r.1 r.2 m) []

/-- insertion into a list sorted by key (stable: after equal keys) -/
def insertSorted (r : KV) : List KV → List KV
  | [] => [r]
  | x :: xs => if r.1 < x.1 then r :: x :: xs else x :: insertSorted r xs

def sortKV (rows : List KV) : List KV := rows.foldr insertSorted []

/-- two-way merge of key-sorted lists (`mergeReader`; ties take the left stream first) -/
def merge2 : List KV → List KV → List KV
  | [], b => b
  | a, [] => a
  | x :: xs, y :: ys =>
    if y.1 < x.1 then y :: merge2 (x :: xs) ys else x :: merge2 xs (y :: ys)
termination_by a b => a.length + b.length

def mergeAll (ss : List (List KV)) : List KV := ss.foldr merge2 []

/-- the reducing merge of streams (`sortio.Reduce`): fold by key over everything the streams hold -/
def reduceAll (comb : Int → Int → Int) (ss : List (List KV)) : List KV := foldMap comb ss.flatten

def Sorted (l : List KV) : Prop := l.Pairwise fun a b => a.1 ≤ b.1
def StrictSorted (l : List KV) : Prop := l.Pairwise fun a b => a.1 < b.1

end BS.KV
