import BS.Model.Prog
import BS.Model.Part
/-!
# L6: the documented meaning of a program — the sequential reference evaluation

`eval` gives, for every node, its rows per shard, computed operator by operator
from the documented meanings (doc comments of slice.go, reduce.go, cogroup.go,
reshuffle.go, reshard.go, scan.go).  `ordered` tells whether the order within a
shard is fixed by the program (inputs and per-row operators keep it; Reduce and
Cogroup emit ascending keys; Fold and the plain redistributions do not fix it).
Core-only.
-/
namespace BS.Sem
open BS.Prog BS.KV BS.Part BS.Hash

structure Shards where
  rows : List (List KV)
  ordered : Bool
deriving Repr, Inhabited

def keyPart (n : Nat) (k : Int) : Nat := part n [.w64 (intToU64 k)]
def keyPart2 (n : Nat) (r : KV) : Nat := part n [.w64 (intToU64 r.1), .w64 (intToU64 r.2)]

/-- `constShard` (slice.go:263-277) -/
def constShard (n nshard shard : Nat) : Nat × Nat :=
  let quot := n / nshard
  let rem := n % nshard
  if shard < rem then (quot * shard + shard, quot + 1) else (quot * shard + rem, quot)

def mapFn (f : String) (r : KV) : KV :=
  match f with
  | "inc" => (r.1 + 1, r.2 * 2)
  | "swap" => (r.2, r.1)
  | "id" => r
  -- "p…": the same function applied to `Prefixed(src, 2)` (the prefix changes the slice type, not the rows)
  | "pinc" => (r.1 + 1, r.2 * 2)
  | "pid" => r
  -- "q…": the same over `Prefixed(src, 1)`
  | "qinc" => (r.1 + 1, r.2 * 2)
  | "qid" => r
  | _ =>
    if f.startsWith "mod" then
      let m : Int := ((f.drop 3).toString.toNat?.getD 1 : Nat)
      (((r.1 % m) + m) % m, r.2)
    else r

def predFn (p : String) (r : KV) : Bool :=
  match p with
  | "kmod3" => r.1 % 3 != 0
  | "vodd" => r.2 % 2 != 0
  | "none" => false
  | _ => true

def flatFn (g : String) (r : KV) : List KV :=
  match g with
  | "dup" => (List.range (((r.1 % 3) + 3) % 3).toNat).map fun (j : Nat) => (r.1, r.2 + Int.ofNat j)
  | _ => [(r.1, r.2), (r.1 + 1, r.2)]

def combFn (c : String) : Int → Int → Int :=
  match c with
  | "max" => fun a b => if a > b then a else b
  | _ => (· + ·)

/-- the rows of all shards that `f` sends to shard `p` -/
def partOf (f : KV → Nat) (s : List (List KV)) (p : Nat) : List KV := s.flatten.filter fun r => f r == p

/-- redistribute all rows of all shards into `n` shards by `f` -/
def redistribute (n : Nat) (f : KV → Nat) (s : List (List KV)) : List (List KV) :=
  (List.range n).map (partOf f s)

def mapShards (s : Shards) (f : List KV → List KV) : Shards := { s with rows := s.rows.map f }

/-- the meaning of `Cogroup(a, b)` followed by the harness's flattening map, for the rows of one
shard: one row per distinct key, ascending, carrying
`Σ as + 1000·Σ bs + 1000000·|as| + 100000000·|bs|` where `as`, `bs` are the values grouped under the key
on either side — written as a keyed fold over both sides. -/
def cogroupShard (ra rb : List KV) : List KV :=
  foldMap (· + ·) (ra.map (fun r => (r.1, r.2 + 1000000)) ++ rb.map (fun r => (r.1, 1000 * r.2 + 100000000)))

def getRef (env results : List Shards) : Ref → Shards
  | .node i => env.getD i default
  | .result i => results.getD i default

def evalOp (env : List Shards) (results : List Shards) (op : Op) : Shards :=
  let get := getRef env results
  match op with
  | .const n rows =>
    ⟨(List.range n).map fun s => let (off, cnt) := constShard rows.length n s; (rows.drop off).take cnt, true⟩
  | .reader n _ rows =>
    ⟨(List.range n).map fun s => (rows.zipIdx.filter fun (_, i) => i % n == s).map (·.1), true⟩
  | .lines n k =>
    ⟨(List.range n).map fun s => ((List.range k).filter fun i => i % n == s).map fun (i : Nat) => (Int.ofNat i, (1 : Int)), true⟩
  | .map s f _ => mapShards (get s) (·.map (mapFn f))
  | .count s _ => get s
  | .filter s p => mapShards (get s) (·.filter (predFn p))
  | .flatmap s g => mapShards (get s) (·.flatMap (flatFn g))
  | .fold s =>
    let src := get s
    let n := src.rows.length
    ⟨(redistribute n (fun r => keyPart n r.1) src.rows).map (foldMap (· + ·)), false⟩
  | .head s n => mapShards (get s) (·.take n)
  | .reduce s c =>
    let src := get s
    let n := src.rows.length
    ⟨(redistribute n (fun r => keyPart n r.1) src.rows).map (foldMap (combFn c)), true⟩
  | .cogroup a b =>
    let sa := get a
    let sb := get b
    let n := max sa.rows.length sb.rows.length
    ⟨(List.range n).map fun p =>
      cogroupShard (partOf (fun r => keyPart n r.1) sa.rows p) (partOf (fun r => keyPart n r.1) sb.rows p), true⟩
  | .reshuffle s =>
    let src := get s
    let n := src.rows.length
    ⟨redistribute n (fun r => keyPart n r.1) src.rows, false⟩
  | .reshuffle2 s =>
    let src := get s
    let n := src.rows.length
    ⟨redistribute n (keyPart2 n) src.rows, false⟩
  | .repartition s pf =>
    let src := get s
    let n := src.rows.length
    ⟨redistribute n (fun r => if pf == "zero" then 0 else (((r.2 % n) + n) % n).toNat) src.rows, false⟩
  | .reshard s m =>
    let src := get s
    if src.rows.length == m then src
    else ⟨redistribute m (fun r => keyPart m r.1) src.rows, false⟩
  | .scan s => ⟨(get s).rows.map fun _ => [], true⟩
  | .writer s => get s
  | .cache s _ _ => get s
  | .readcache n _ => ⟨List.replicate n [], true⟩

/-- evaluate the nodes in definition order, extending the environment -/
def evalNodes (results : List Shards) : List Op → List Shards → List Shards
  | [], env => env
  | op :: ops, env => evalNodes results ops (env ++ [evalOp env results op])

/-- evaluate all nodes in definition order; returns the environment and the output -/
def eval (p : Program) (results : List Shards) : List Shards × Shards :=
  let env := evalNodes results p.nodes []
  (env, getRef env results p.out)

/-- the fragment in which a program fixes its result: `Head` is applied only where the
order of rows is fixed (the first `n` rows of an unordered shard are not determined) -/
def wfOp (env results : List Shards) : Op → Bool
  | .head s _ => (getRef env results s).ordered
  | _ => true

def wfNodes (results : List Shards) : List Op → List Shards → Bool
  | [], _ => true
  | op :: ops, env => wfOp env results op && wfNodes results ops (env ++ [evalOp env results op])

def refsOf : Op → List Ref
  | .map s _ _ | .count s _ | .filter s _ | .flatmap s _ | .fold s | .head s _ | .reduce s _ | .reshuffle s
  | .reshuffle2 s | .repartition s _ | .reshard s _ | .scan s | .writer s | .cache s _ _ => [s]
  | .cogroup a b => [a, b]
  | _ => []

/-- which nodes the output depends on (only those are compiled into tasks and run): one backward pass,
as a node refers to earlier nodes only -/
def reachable (p : Program) : List Bool :=
  let n := p.nodes.length
  let init := (List.range n).map fun i => p.out == .node i
  (List.range n).reverse.foldl (fun marks i =>
    if marks.getD i false then
      (refsOf (p.nodes.getD i default)).foldl (fun m r => match r with | .node j => m.set j true | .result _ => m) marks
    else marks) init

/-- user counters: rows flowing through the `count` nodes the output depends on, per counter -/
def counters (p : Program) (env : List Shards) : List Nat :=
  let reach := reachable p
  (List.range 3).map fun c =>
    (p.nodes.zipIdx.map fun (op, i) => match op with
      | .count _ ctr => if ctr == c && reach.getD i false then ((env.getD i default).rows.map List.length).sum else 0
      | _ => 0).sum

/-- `Head` stops reading its input early, so a counting Map that is *pipelined* into a Head sees only the
rows the Head pulls (how many depends on pipelining, e.g. a Materialize pragma).  `lazyCount` marks the
nodes whose rows may be pulled only partially by a later Head: a count node, or a per-row operator over
such a node (shuffles and sources drain their inputs completely). -/
def lazyFlags (nodes : List Op) : List Bool :=
  nodes.foldl (fun acc op =>
    let flag (r : Ref) : Bool := match r with | .node i => acc.getD i false | .result _ => false
    acc ++ [match op with
      | .count _ _ => true
      | .map s _ _ | .filter s _ | .flatmap s _ | .head s _ | .writer s | .cache s _ _ | .scan s => flag s
      | _ => false]) []

/-- the user counters are determined by the program: no Head is fed (through per-row operators) by a count node -/
def countersDefined (p : Program) : Bool :=
  let flags := lazyFlags p.nodes
  p.nodes.all fun op => match op with
    | .head (.node i) _ => !(flags.getD i false)
    | _ => true

/-- nodes whose rows are pulled by a `Head` through per-row operators only (pipelined into it): such a node is read
only as far as the Head needs, so what a side-effecting operator there observes is a prefix, without end-of-stream -/
def feedsHead (p : Program) : List Bool :=
  let n := p.nodes.length
  (List.range n).reverse.foldl (fun marks i =>
    let mark (m : List Bool) (r : Ref) : List Bool := match r with | .node j => m.set j true | .result _ => m
    match p.nodes.getD i default with
    | .head s _ => mark marks s
    | .map s _ _ | .count s _ | .filter s _ | .flatmap s _ | .writer s | .cache s _ _ =>
      if marks.getD i false then mark marks s else marks
    | _ => marks) (List.replicate n false)

end BS.Sem
