import BS.Model.KV
/-!
# L4c: the reducing merge as a machine  (sortio/reader.go:48-139)

`sortio.Reduce` keeps one buffered cursor per input stream in a heap ordered by the current key.  Each round it pops
every cursor whose key equals the smallest one ("each parent reader has at most one entry for a given key"), combines
their values, emits one row and advances those cursors (refilling their buffers from the stream when they run out).
At the level of streams the buffers are invisible: a cursor's current row is the head of what is left of its stream.
Core-only, executable.
-/
namespace BS.Merge
open BS.KV

/-- the smallest current key -/
def minKey : List (List KV) → Option Int
  | [] => none
  | [] :: ss => minKey ss
  | ((k, _) :: _) :: ss =>
    match minKey ss with
    | none => some k
    | some k' => some (if k' < k then k' else k)

/-- the values at the cursors whose key is `k` -/
def headVals (k : Int) (ss : List (List KV)) : List Int :=
  ss.filterMap fun s => match s with
    | (k', v) :: _ => if k' = k then some v else none
    | [] => none

/-- advance the cursors whose key is `k` -/
def advance (k : Int) (ss : List (List KV)) : List (List KV) :=
  ss.map fun s => match s with
    | (k', v) :: t => if k' = k then t else (k', v) :: t
    | [] => []

def foldVals (comb : Int → Int → Int) : List Int → Int
  | [] => 0
  | v :: vs => vs.foldl comb v

/-- one round: (row emitted, streams afterwards) -/
def step (comb : Int → Int → Int) (ss : List (List KV)) : Option (KV × List (List KV)) :=
  match minKey ss with
  | none => none
  | some k => some ((k, foldVals comb (headVals k ss)), advance k ss)

def run (comb : Int → Int → Int) : Nat → List (List KV) → List KV
  | 0, _ => []
  | fuel+1, ss =>
    match step comb ss with
    | none => []
    | some (r, ss') => r :: run comb fuel ss'

end BS.Merge
