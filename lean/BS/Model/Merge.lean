import BS.Model.KV
/-!
# L4c: the reducing merge as a machine  (sortio/reader.go:48-139)

`sortio.Reduce` keeps one buffered cursor per input stream in a heap ordered by the current key.  Each round it pops
every cursor whose key equals the smallest one ("each parent reader has at most one entry for a given key"), combines
their values, emits one row and advances those cursors (refilling their buffers from the stream when they run out).
At the level of streams the buffers are invisible: a cursor's current row is the head of what is left of its stream.
Core-only, executable.
-/
namespace BS.Merge
open BS.KV

/-- the smallest current key -/
def minKey : List (List KV) → Option Int
  | [] => none
  | [] :: ss => minKey ss
  | ((k, _) :: _) :: ss =>
    match minKey ss with
    | none => some k
    | some k' => some (if k' < k then k' else k)

/-- the values at the cursors whose key is `k` -/
def headVals (k : Int) (ss : List (List KV)) : List Int :=
  ss.filterMap fun s => match s with
    | (k', v) :: _ => if k' = k then some v else none
    | [] => none

/-- advance the cursors whose key is `k` -/
def advance (k : Int) (ss : List (List KV)) : List (List KV) :=
  ss.map fun s => match s with
    | (k', v) :: t => if k' = k then t else (k', v) :: t
    | [] => []

def foldVals (comb : Int → Int → Int) : List Int → Int
  | [] => 0
  | v :: vs => vs.foldl comb v

/-- one round: (row emitted, streams afterwards) -/
def step (comb : Int → Int → Int) (ss : List (List KV)) : Option (KV × List (List KV)) :=
  match minKey ss with
  | none => none
  | some k => some ((k, foldVals comb (headVals k ss)), advance k ss)

def run (comb : Int → Int → Int) : Nat → List (List KV) → List KV
  | 0, _ => []
  | fuel+1, ss =>
    match step comb ss with
    | none => []
    | some (r, ss') => r :: run comb fuel ss'

end BS.Merge

/-! ## the plain merge reader (sortio/sort.go:161-222)

`NewMergeReader` keeps the same heap of cursors; each step emits the row at the heap's top — *a* cursor whose current key
is least; which one among equals is the heap's business — and advances that cursor only.  The choice is a parameter. -/
namespace BS.Merge
open BS.KV

/-- take the head row of stream `i` -/
def popAt (ss : List (List KV)) (i : Nat) : Option (KV × List (List KV)) :=
  match ss[i]? with
  | some (r :: t) => some (r, ss.set i t)
  | _ => none

/-- `i` may be at the top of the heap: stream `i` has a row and its key is the least current key -/
def Legal (ss : List (List KV)) (i : Nat) : Prop :=
  ∃ r t, ss[i]? = some (r :: t) ∧ minKey ss = some r.1

def mrun (choose : List (List KV) → Nat) : Nat → List (List KV) → List KV
  | 0, _ => []
  | fuel+1, ss =>
    match minKey ss with
    | none => []
    | some _ =>
      match popAt ss (choose ss) with
      | none => []
      | some (r, ss') => r :: mrun choose fuel ss'

/-- one legal choice: the first stream whose current key is least -/
def leftmost (ss : List (List KV)) : Nat :=
  match minKey ss with
  | none => 0
  | some k => (ss.findIdx? fun s => match s with | (k', _) :: _ => k' == k | [] => false).getD 0

end BS.Merge

/-! ## the cogroup reader (cogroup.go:190-300)

`cogroupReader` keeps one sorted, buffered cursor per input (each input is first sorted by `sortio.SortReader`) in a heap
ordered by the current key.  Each round it takes the least key, gathers from every input *all* rows under that key (an
input may hold many) and emits one row: the key and, per input, the list of values in the input's order. -/
namespace BS.Merge
open BS.KV

/-- the values of the leading rows with key `k`, and the rest of the stream -/
def takeKey (k : Int) : List KV → List Int × List KV
  | [] => ([], [])
  | (k', v) :: t =>
    if k' = k then let r := takeKey k t; (v :: r.1, r.2)
    else ([], (k', v) :: t)

def cgStep (ss : List (List KV)) : Option ((Int × List (List Int)) × List (List KV)) :=
  match minKey ss with
  | none => none
  | some k => some ((k, ss.map fun s => (takeKey k s).1), ss.map fun s => (takeKey k s).2)

def cgRun : Nat → List (List KV) → List (Int × List (List Int))
  | 0, _ => []
  | fuel+1, ss =>
    match cgStep ss with
    | none => []
    | some (row, ss') => row :: cgRun fuel ss'

/-- what `Cogroup` means for key `k`: per input, the values of its rows with that key, in the input's order -/
def groupsOf (k : Int) (ss : List (List KV)) : List (List Int) :=
  ss.map fun s => (s.filter fun r => r.1 = k).map (·.2)

end BS.Merge
