import BS.Model.Merge
/-!
# L4d: the reducing merge over inputs that may fail  (sortio/reader.go:48-139, sortio/sort.go:102-119)

An input is the rows it delivers before it ends, and whether it ends with an error instead of end-of-stream
(`FrameBuffer.Fill` is one `Read` of the input: rows returned together with the error are dropped, an error is an
error).  The reader learns how an input ends only when it has used up the input's rows and refills the cursor's buffer:
at set-up for an input without rows, otherwise in the round that consumes the input's last row — in which case
`Read` returns the error *before* counting that round's row (`return n, err` precedes `n++`).  Core-only, executable.
-/
namespace BS.Merge
open BS.KV

structure ES where
  rows : List KV
  fails : Bool
deriving Repr, DecidableEq

def rowsOf (ss : List ES) : List (List KV) := ss.map (·.rows)

/-- what `advance` does to one stream -/
def adv1 (k : Int) : List KV → List KV
  | (k', v) :: t => if k' = k then t else (k', v) :: t
  | [] => []

def advE (k : Int) (ss : List ES) : List ES := ss.map fun s => { s with rows := adv1 k s.rows }

/-- a failing input whose rows are used up: the refill of its cursor reports the error -/
def dead (s : ES) : Bool := s.rows.isEmpty && s.fails

def anyDead (ss : List ES) : Bool := ss.any dead

/-- the rounds of `Read` after set-up: rows delivered, and whether the reader ended with an error -/
def erun (comb : Int → Int → Int) : Nat → List ES → List KV × Bool
  | 0, _ => ([], false)
  | fuel+1, ss =>
    match minKey (rowsOf ss) with
    | none => ([], false)
    | some k =>
      let ss' := advE k ss
      if anyDead ss' then ([], true)
      else
        let r := erun comb fuel ss'
        ((k, foldVals comb (headVals k (rowsOf ss))) :: r.1, r.2)

/-- set-up (every cursor is filled once), then the rounds -/
def ereduce (comb : Int → Int → Int) (fuel : Nat) (ss : List ES) : List KV × Bool :=
  if anyDead ss then ([], true) else erun comb fuel ss

end BS.Merge
