import BS.Model.KV
/-!
# L4b: the combining frame as an open-addressing hash table  (exec/combiner.go:140-209)

`combine` hashes the key, then probes `idx ← (idx + try) & mask` for `try = 1, 2, …` until it finds an empty slot
(the row is added) or a slot holding an equal key (the values are combined).  `added` doubles the table and rehashes
all entries (no equality test: the keys are unique) when the load exceeds the threshold.  The hash function is a
parameter.  Core-only, executable.
-/
namespace BS.Table
open BS.KV

structure T where
  cap : Nat                     -- number of slots, a power of two; `mask = cap - 1`
  slots : Nat → Option KV       -- `hits[i] ≠ 0` ↔ `slots i ≠ none`
  len : Nat

def empty (cap : Nat) : T := ⟨cap, fun _ => none, 0⟩

/-- the slot probed at try `t` (closed form of `idx ← (idx + try) & mask` starting at `hash & mask`) -/
def pidx (h : Int → Nat) (cap : Nat) (k : Int) (t : Nat) : Nat := (h k + t * (t + 1) / 2) % cap

/-- the recurrence the code uses -/
def pidxRec (h : Int → Nat) (cap : Nat) (k : Int) : Nat → Nat
  | 0 => h k % cap
  | t+1 => (pidxRec h cap k t + (t + 1)) % cap

/-- the probe loop of `combine`: (slot, added?) -/
def probe (h : Int → Nat) (tb : T) (k : Int) : Nat → Nat → Option (Nat × Bool)
  | 0, _ => none
  | fuel+1, t =>
    match tb.slots (pidx h tb.cap k t) with
    | none => some (pidx h tb.cap k t, true)
    | some kv => if kv.1 = k then some (pidx h tb.cap k t, false) else probe h tb k fuel (t + 1)

def upd (s : Nat → Option KV) (i : Nat) (x : KV) : Nat → Option KV := fun j => if j = i then some x else s j

/-- one row through `combine` (without the growth check) -/
def insert (comb : Int → Int → Int) (h : Int → Nat) (tb : T) (r : KV) : Option T :=
  match probe h tb r.1 tb.cap 0 with
  | some (i, true) => some { tb with slots := upd tb.slots i r, len := tb.len + 1 }
  | some (i, false) =>
    match tb.slots i with
    | some kv => some { tb with slots := upd tb.slots i (r.1, comb kv.2 r.2) }
    | none => none
  | none => none

/-- the entries in slot order (what `Compact` returns) -/
def entries (tb : T) : List KV := (List.range tb.cap).filterMap tb.slots

/-- `added`: double and rehash when the load exceeds the threshold (70%) -/
def threshold (cap : Nat) : Nat := 7 * cap / 10

def rehashInto (comb : Int → Int → Int) (h : Int → Nat) (es : List KV) (tb : T) : Option T :=
  es.foldl (fun acc e => acc.bind fun t => insert comb h t e) (some tb)

def grow (comb : Int → Int → Int) (h : Int → Nat) (tb : T) : Option T :=
  if tb.len ≤ threshold tb.cap then some tb else rehashInto comb h (entries tb) (empty (2 * tb.cap))

/-- `Combine` of one row: insert, then grow if needed -/
def combine1 (comb : Int → Int → Int) (h : Int → Nat) (tb : T) (r : KV) : Option T :=
  (insert comb h tb r).bind (grow comb h)

def combineAll (comb : Int → Int → Int) (h : Int → Nat) (tb : T) (rows : List KV) : Option T :=
  rows.foldl (fun acc r => acc.bind fun t => combine1 comb h t r) (some tb)

end BS.Table
