/-!
# L7: the evaluator's state machine (exec/eval.go:272-451)

`EState` mirrors `state` (deps/counts/todo/pending/wait/err); maps are
association lists.  Task states are *observed* through `obs : Nat → TState`
(one `task.State()` read per task per round — the `wait` memo guarantees a task
is read at most once between two `Return`s, so a function is exact for every
interleaving of state changes with the evaluator's reads).  The recursion of
`Enqueue` on dependency heads takes fuel; `enqueue_fuel_enough` (Properties/C03)
shows `n` tasks of fuel suffice on graphs whose dependency heads precede their
dependents.  Core-only.
-/
namespace BS.Eval

inductive TState | init | waiting | running | ok | err | lost
deriving DecidableEq, Repr

structure Graph where
  n : Nat
  deps : Nat → List Nat        -- dependency heads (`dep.Head`) of a task
  group : Nat → List Nat       -- `Task.Group` (empty when the task is not in a phase)

def Graph.phase (g : Graph) (t : Nat) : List Nat := if g.group t = [] then [t] else g.group t
def Graph.head (g : Graph) (t : Nat) : Nat := (g.group t).headD t

structure EState where
  deps : List (Nat × List Nat)     -- src head ↦ set of dst tasks
  counts : List (Nat × Int)
  todo : List Nat
  pending : List Nat
  wait : List (Nat × Nat)
  err : Bool
deriving Repr, DecidableEq

def EState.empty : EState := ⟨[], [], [], [], [], false⟩

def lookup {β} (k : Nat) : List (Nat × β) → Option β
  | [] => none
  | (a, b) :: r => if a = k then some b else lookup k r

def upsert {β} (k : Nat) (v : β) : List (Nat × β) → List (Nat × β)
  | [] => [(k, v)]
  | (a, b) :: r => if a = k then (a, v) :: r else (a, b) :: upsert k v r

/-- eval.go:408 `schedule`. -/
def EState.schedule (s : EState) (t : Nat) : EState :=
  if t ∈ s.pending then s else if t ∈ s.todo then s else { s with todo := t :: s.todo }

/-- eval.go:416 `clear`. -/
def EState.clear (g : Graph) (s : EState) (t : Nat) : EState :=
  { s with counts := s.counts.filter (·.1 ≠ t),
           deps := s.deps.map fun (h, ds) => if h ∈ g.deps t then (h, ds.filter (· ≠ t)) else (h, ds) }

/-- eval.go:426 `add`. -/
def EState.add (s : EState) (src dst : Nat) (n : Nat) : EState :=
  match lookup src s.deps with
  | none => { s with deps := upsert src [dst] s.deps,
                     counts := upsert dst ((lookup dst s.counts).getD 0 + n) s.counts }
  | some ds =>
    if dst ∈ ds then s
    else { s with deps := upsert src (dst :: ds) s.deps,
                  counts := upsert dst ((lookup dst s.counts).getD 0 + n) s.counts }

/-- the dependency loop of `Enqueue` (eval.go:332-339), given the recursive call -/
def enqDeps (rec : Nat → EState → EState × Nat) (u : Nat) : List Nat → EState → Bool → EState × Bool
  | [], s, ready => (s, ready)
  | d :: ds, s, ready =>
    let r := rec d s
    if r.2 = 0 then enqDeps rec u ds r.1 ready
    else enqDeps rec u ds (r.1.add d u r.2) false

/-- the phase loop of `Enqueue` (eval.go:322-345) -/
def enqPhase (g : Graph) (obs : Nat → TState) (rec : Nat → EState → EState × Nat) :
    List Nat → EState → Nat → EState × Nat
  | [], s, nwait => (s, nwait)
  | u :: us, s, nwait =>
    match obs u with
    | .ok => enqPhase g obs rec us s nwait
    | .err => enqPhase g obs rec us { s with err := true } (nwait + 1)
    | .waiting | .running => enqPhase g obs rec us (s.schedule u) (nwait + 1)
    | .init | .lost =>
      let r := enqDeps rec u (g.deps u) (s.clear g u) true
      enqPhase g obs rec us (if r.2 then r.1.schedule u else r.1) (nwait + 1)

/-- eval.go:318 `Enqueue`. -/
def enqueue (g : Graph) (obs : Nat → TState) : Nat → Nat → EState → EState × Nat
  | 0, _, s => (s, 1)      -- out of fuel: conservatively "not done" (unreachable on compiled graphs)
  | fuel+1, t, s =>
    let h := g.head t
    match lookup h s.wait with
    | some n => (s, n)
    | none =>
      let r := enqPhase g obs (enqueue g obs fuel) (g.phase t) s 0
      ({ r.1 with wait := upsert h r.2 r.1.wait }, r.2)

/-- eval.go:438 `done`: decrement the waiters of `src`; those reaching 0 are ready. -/
def doneStep (src : Nat) (s : EState) : EState × List Nat :=
  let dsts := (lookup src s.deps).getD []
  dsts.foldl (fun (acc : EState × List Nat) dst =>
    let c := (lookup dst acc.1.counts).getD 0 - 1
    ({ acc.1 with counts := upsert dst c acc.1.counts }, if c = 0 then acc.2 ++ [dst] else acc.2)) (s, [])

/-- eval.go:351 `Return` (`none` = the "not pending" panic).  `st` is the state read by
`Return`'s own `switch task.State()`; `obs` are the reads of the `Enqueue` calls it makes. -/
def ret (g : Graph) (obs : Nat → TState) (fuel : Nat) (t : Nat) (st : TState) (s : EState) : Option EState :=
  if t ∉ s.pending then none else
  let s := { s with wait := [], pending := s.pending.filter (· ≠ t) }
  match st with
  | .err => some { s with err := true }
  | .ok =>
    let r := doneStep (g.head t) s
    some (r.2.foldl (fun s d => (enqueue g obs fuel d s).1) r.1)
  | .lost => some (enqueue g obs fuel t s).1
  | _ => some (s.schedule t)

/-- eval.go:377 `Runnable`. -/
def runnable (s : EState) : EState × List Nat :=
  ({ s with todo := [], pending := s.todo ++ s.pending }, s.todo)

/-- eval.go:399 `Done`. -/
def EState.isDone (s : EState) : Bool := s.err || (s.todo.isEmpty && s.pending.isEmpty)

end BS.Eval
