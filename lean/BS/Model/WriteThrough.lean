/-!
# L10: the write-through reader of a cache shard (internal/slicecache/sliceio.go:52-96)

`writethroughReader.Read`, call by call.  The shard file is created on the first call (a failed create
leaves the reader without a file: the next call tries again); the rows the upstream returned with a nil
error or with EOF are appended to the file; on EOF the compressor and the file are closed — closing is what
publishes the file (grailbio/base/file: a created file becomes visible at its path only when `Close`
succeeds) —; on an upstream error the file is discarded.  Every file operation may fail: the outcomes are
parameters of a call (`createFails`, `writeFails`, `closeFails`).  A reader that is abandoned (its consumer
stops calling, e.g. a Head downstream) simply gets no further calls.  Rows are an arbitrary type.  Core-only.
-/
namespace BS.WT

inductive USt | more | eof | err
deriving DecidableEq, Repr

/-- one call of `Read`: what the upstream returns and how the file operations of this call turn out -/
structure Call (α : Type) where
  rows : List α
  st : USt
  createFails : Bool := false
  writeFails : Bool := false
  closeFails : Bool := false
deriving Repr

/-- the file as the rest of the system sees it -/
inductive FileSt (α : Type)
  | absent                      -- not created yet (or the create failed)
  | writing (rows : List α)     -- created, not visible at its path; rows appended so far
  | published (rows : List α)   -- closed successfully: visible at its path with these rows
  | dropped                     -- discarded, or its close failed: never visible
deriving Repr

inductive Out | ok | eof | upstreamErr | ioErr
deriving DecidableEq, Repr

/-- `(*writethroughReader).Read` -/
def read {α} (f : FileSt α) (c : Call α) : FileSt α × List α × Out :=
  -- sliceio.go:61-75: create on first use
  let f0 : Option (FileSt α) :=
    match f with
    | .absent => if c.createFails then none else some (.writing [])
    | f => some f
  match f0 with
  | none => (.absent, [], .ioErr)
  | some f =>
    match c.st with
    | .err =>
      -- sliceio.go:89: Discard
      (match f with | .writing _ => .dropped | f => f, c.rows, .upstreamErr)
    | .more =>
      if c.writeFails then (f, c.rows, .ioErr)
      else (match f with | .writing w => .writing (w ++ c.rows) | f => f, c.rows, .ok)
    | .eof =>
      if c.writeFails then (f, c.rows, .ioErr)
      else
        match f with
        | .writing w => if c.closeFails then (.dropped, c.rows, .ioErr) else (.published (w ++ c.rows), c.rows, .eof)
        | f => (f, c.rows, .eof)

/-- a consumer that obeys the reader contract: it calls `Read` until a call does not return `ok`
(or stops earlier — the script just ends); returns the file, the rows delivered, the last status -/
def run {α} : FileSt α → List (Call α) → FileSt α × List α × Out
  | f, [] => (f, [], .ok)
  | f, c :: cs =>
    let r := read f c
    if r.2.2 = .ok then
      let r' := run r.1 cs
      (r'.1, r.2.1 ++ r'.2.1, r'.2.2)
    else r

/-- what the upstream delivers over a script, to the consumer that stops at the first non-`more` call -/
def upstreamRows {α} : List (Call α) → List α
  | [] => []
  | c :: cs => if c.st = .more then c.rows ++ upstreamRows cs else c.rows

def reachesEof {α} : List (Call α) → Bool
  | [] => false
  | c :: cs => match c.st with | .more => reachesEof cs | .eof => true | .err => false

def faultFree {α} (cs : List (Call α)) : Bool := cs.all fun c => !c.createFails && !c.writeFails && !c.closeFails

end BS.WT
