/-!
Tactic portfolio for tie-T2 theorems `Generated.kernel = Model.kernel`
(DESIGN.md §3.4, §11): kernels are if-then-else over comparisons and linear
integer arithmetic, so case-splitting plus `omega` decides them; a harmless
rewrite of the Go expression (commuted operands, reordered branches) still closes.
-/
macro "tie_kernel" : tactic => `(tactic|
  (repeat' split
   all_goals (try rw [Bool.eq_iff_iff])
   all_goals (try simp only [decide_eq_true_eq, Bool.and_eq_true, Bool.or_eq_true,
      Bool.not_eq_true', decide_eq_false_iff_not, ne_eq, gt_iff_lt, ge_iff_le, Bool.false_eq_true,
      Bool.true_eq_false, iff_false, iff_true, false_iff, true_iff, not_true_eq_false, not_false_eq_true,
      Prod.mk.injEq] at *)
   all_goals (first | omega | (simp_all; done) | (simp_all; omega))))
