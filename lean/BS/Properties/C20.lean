import BS.Model.Metrics
/-!
# C20 — user metrics are merged additively and survive transport unchanged
(theorems per registered metric; all scopes, all instance-sharing patterns)
-/
namespace BS.Metrics

theorem refOf_set_same (l : List (Option Nat)) (s : Nat) (v : Option Nat) (h : s < l.length) :
    (l.set s v).getD s none = v := by
  simp [List.getD_eq_getElem?_getD, h]

theorem refOf_set_other (l : List (Option Nat)) (s t : Nat) (v : Option Nat) (h : s ≠ t) :
    (l.set s v).getD t none = l.getD t none := by
  simp [List.getD_eq_getElem?_getD, List.getElem?_set_ne h]

theorem getD_addAt (l : List Int) (i k : Nat) (d : Int) (hi : i < l.length) :
    (addAt l i d).getD k 0 = if k = i then l.getD i 0 + d else l.getD k 0 := by
  unfold addAt
  by_cases h : k = i
  · subst h; simp [List.getD_eq_getElem?_getD, hi]
  · simp [List.getD_eq_getElem?_getD, List.getElem?_set_ne (Ne.symm h), h]

/-- Merge adds: after `s.Merge(u)` scope `s` reports `s + u` (also when the two
share an instance). -/
theorem merge_adds (m : M) (s u : Nat) (hw : m.WF) (hs : s < m.ref.length) :
    (m.merge s u).val s = m.val s + m.val u := by
  unfold M.merge
  cases hu : m.refOf u with
  | none => simp [M.val, hu]
  | some j =>
    have hj := hw u j hu
    simp only [M.instance]
    cases hsr : m.refOf s with
    | some i =>
      have hi := hw s i hsr
      simp only [M.val, M.refOf] at *
      simp only [hsr, hu, getD_addAt _ _ _ _ hi, if_true]
    | none =>
      simp only [M.val, M.refOf] at *
      simp only [hsr, hu, refOf_set_same _ _ _ hs]
      rw [getD_addAt _ _ _ _ (by simp)]
      simp [List.getD_eq_getElem?_getD, hj, List.getElem?_append_left hj]

/-- Merge leaves every scope that does not share `s`'s instance unchanged. -/
theorem merge_frame (m : M) (s u t : Nat) (hw : m.WF) (hs : s < m.ref.length) (hts : t ≠ s)
    (hne : m.refOf t ≠ m.refOf s ∨ m.refOf s = none) :
    (m.merge s u).val t = m.val t := by
  unfold M.merge
  cases hu : m.refOf u with
  | none => rfl
  | some j =>
    simp only [M.instance]
    cases hsr : m.refOf s with
    | some i =>
      have hi := hw s i hsr
      simp only [M.val, M.refOf] at *
      cases htr : m.ref.getD t none with
      | none => simp
      | some k =>
        have : k ≠ i := by
          rcases hne with h | h
          · intro e; apply h; rw [htr, hsr, e]
          · rw [hsr] at h; cases h
        simp only [getD_addAt _ _ _ _ hi, this, if_false]
    | none =>
      simp only [M.val, M.refOf] at *
      rw [refOf_set_other _ _ _ _ (Ne.symm hts)]
      cases htr : m.ref.getD t none with
      | none => simp
      | some k =>
        have hk := hw t k (by simpa [M.refOf] using htr)
        simp only
        rw [getD_addAt _ _ _ _ (by simp)]
        have : k ≠ m.inst.length := by omega
        simp [this, List.getD_eq_getElem?_getD, List.getElem?_append_left hk]

/-- Resetting a scope to another makes it report the other's values. -/
theorem reset_reports_other (m : M) (s u : Nat) (hs : s < m.ref.length) :
    (m.reset s u).val s = m.val u := by
  simp only [M.reset, M.val, M.refOf]
  rw [refOf_set_same _ _ _ hs]

theorem resetNil_zero (m : M) (s : Nat) (hs : s < m.ref.length) : (m.resetNil s).val s = 0 := by
  simp only [M.resetNil, M.val, M.refOf]
  rw [refOf_set_same _ _ _ hs]

/-- A scope sent through gob arrives with the same value for the metric. -/
theorem gob_roundtrip (m : M) (s : Nat) (hw : m.WF) :
    (m.gob s).val m.ref.length = m.val s := by
  unfold M.gob
  cases hsr : m.refOf s with
  | none =>
    simp [M.val, M.refOf, hsr, List.getD_eq_getElem?_getD] at *
    simp [hsr]
  | some i =>
    have hi := hw s i hsr
    simp only [M.val, M.refOf] at *
    rw [hsr]
    simp [List.getD_eq_getElem?_getD]

/-- …and the sender's scopes are untouched by encoding. -/
theorem gob_frame (m : M) (s t : Nat) (hw : m.WF) (ht : t < m.ref.length) :
    (m.gob s).val t = m.val t := by
  unfold M.gob
  cases hsr : m.refOf s with
  | none => simp [M.val, M.refOf, List.getD_eq_getElem?_getD, List.getElem?_append_left ht]
  | some i =>
    simp only [M.val, M.refOf, List.getD_eq_getElem?_getD, List.getElem?_append_left ht]
    cases htr : m.ref[t]? with
    | none => simp
    | some o =>
      cases o with
      | none => simp
      | some k =>
        have hk := hw t k (by simp [M.refOf, List.getD_eq_getElem?_getD, htr])
        simp [List.getElem?_append_left hk]

theorem incr_adds (m : M) (s : Nat) (n : Int) (hw : m.WF) (hs : s < m.ref.length) :
    (m.incr s n).val s = m.val s + n := by
  unfold M.incr M.instance
  cases hsr : m.refOf s with
  | some i =>
    have hi := hw s i hsr
    simp only [M.val, M.refOf] at *
    simp only [hsr, getD_addAt _ _ _ _ hi, if_true]
  | none =>
    simp only [M.val, M.refOf] at *
    simp only [hsr, refOf_set_same _ _ _ hs]
    rw [getD_addAt _ _ _ _ (by simp)]
    simp [List.getD_eq_getElem?_getD]

theorem merge_refOf_other (m : M) (s u t : Nat) (hts : t ≠ s) : (m.merge s u).refOf t = m.refOf t := by
  unfold M.merge
  cases hu : m.refOf u with
  | none => rfl
  | some j =>
    simp only [M.instance]
    cases hsr : m.refOf s with
    | some i => rfl
    | none => simp only [M.refOf]; rw [refOf_set_other _ _ _ _ (Ne.symm hts)]

theorem merge_length (m : M) (s u : Nat) : (m.merge s u).ref.length = m.ref.length := by
  unfold M.merge
  cases hu : m.refOf u with
  | none => rfl
  | some j =>
    simp only [M.instance]
    cases hsr : m.refOf s <;> simp

theorem merge_inst_length (m : M) (s u : Nat) : m.inst.length ≤ (m.merge s u).inst.length := by
  unfold M.merge
  cases hu : m.refOf u with
  | none => exact Nat.le_refl _
  | some j =>
    simp only [M.instance]
    cases hsr : m.refOf s <;> simp [addAt]

/-- after a merge into `s`, `s` owns an instance: its old one, or a fresh one -/
theorem merge_refOf_self (m : M) (s u : Nat) (hs : s < m.ref.length) :
    (m.merge s u).refOf s = m.refOf s ∨
    (m.refOf s = none ∧ (m.merge s u).refOf s = some m.inst.length) := by
  unfold M.merge
  cases hu : m.refOf u with
  | none => exact Or.inl rfl
  | some j =>
    simp only [M.instance]
    cases hsr : m.refOf s with
    | some i => left; simp only [M.refOf] at *; exact hsr
    | none =>
      right
      refine ⟨rfl, ?_⟩
      simp only [M.refOf]; rw [refOf_set_same _ _ _ hs]

theorem merge_wf (m : M) (s u : Nat) (hw : m.WF) (hs : s < m.ref.length) : (m.merge s u).WF := by
  intro t i h
  have hl := merge_inst_length m s u
  by_cases hts : t = s
  · subst hts
    rcases merge_refOf_self m t u hs with h' | ⟨_, h'⟩
    · rw [h'] at h; have := hw t i h; omega
    · rw [h'] at h; cases h
      unfold M.merge
      cases hu : m.refOf u with
      | none =>
        -- impossible: merge with nil source does not allocate
        simp only [M.merge, hu] at h'
        have := hw t _ h'; omega
      | some j =>
        rename_i hnone
        simp only [M.instance, hnone]
        simp [addAt]
  · rw [merge_refOf_other m s u t hts] at h
    have := hw t i h; omega

/-- `Result.Scope` (exec/session.go:418-426): merging the scopes of the result's
distinct tasks, each once, into the result's scope reports the sum of the tasks'
values, for every registered metric. -/
theorem result_scope_is_sum (ts : List Nat) (m : M) (r : Nat) (hw : m.WF) (hr : r < m.ref.length)
    (hnot : r ∉ ts) (hsh : ∀ t ∈ ts, m.refOf t ≠ m.refOf r ∨ m.refOf r = none) :
    (ts.foldl (fun m t => m.merge r t) m).val r = m.val r + (ts.map m.val).sum := by
  induction ts generalizing m with
  | nil => simp
  | cons t ts ih =>
    simp only [List.foldl_cons, List.map_cons, List.sum_cons]
    have htr : t ≠ r := fun e => hnot (by simp [e])
    have hw' := merge_wf m r t hw hr
    have hr' : r < (m.merge r t).ref.length := by rw [merge_length]; exact hr
    have hsh' : ∀ t' ∈ ts, (m.merge r t).refOf t' ≠ (m.merge r t).refOf r ∨ (m.merge r t).refOf r = none := by
      intro t' ht'
      have ht'r : t' ≠ r := fun e => hnot (by simp [← e, ht'])
      rw [merge_refOf_other m r t t' ht'r]
      rcases merge_refOf_self m r t hr with h | ⟨h0, h⟩
      · rw [h]; exact hsh t' (by simp [ht'])
      · left
        rw [h]
        intro e
        have := hw t' _ e
        omega
    rw [ih (m.merge r t) hw' hr' (fun h => hnot (by simp [h])) hsh']
    rw [merge_adds m r t hw hr]
    have hvals : ∀ t' ∈ ts, (m.merge r t).val t' = m.val t' := by
      intro t' ht'
      have ht'r : t' ≠ r := fun e => hnot (by simp [← e, ht'])
      exact merge_frame m r t t' hw hr ht'r (hsh t' (by simp [ht']))
    rw [List.map_congr_left hvals]
    omega

/-- Non-vacuity: two scopes sharing an instance after a reset. -/
def exM : M := { inst := [5, 7], ref := [some 0, some 1, some 1, none] }
example : exM.WF := by
  intro s i h
  simp only [exM, M.refOf] at *
  match s with
  | 0 => simp at h; subst h; decide
  | 1 => simp at h; subst h; decide
  | 2 => simp at h; subst h; decide
  | 3 => simp at h
  | n+4 => simp [List.getD_eq_getElem?_getD] at h
example : (exM.merge 1 2).val 1 = 14 := by decide
example : (exM.merge 3 0).val 3 = 5 := by decide

end BS.Metrics
