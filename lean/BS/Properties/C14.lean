import BS.Model.Cluster
/-!
# C14 — the cluster manager never oversubscribes machines nor leaks capacity
-/
namespace BS.Cluster

/-- What `schedule` returns fits, and comes from the two queues. -/
theorem schedule_fits (rs : List Req) (ms : List Mach) (r : Req) (m : Mach)
    (h : schedule rs ms = some (r, m)) : r ∈ rs ∧ m ∈ ms ∧ r.procs ≤ m.free ∧ m.free ≠ 0 := by
  induction rs generalizing ms with
  | nil => simp [schedule] at h
  | cons r' rs ih =>
    cases ms with
    | nil => simp [schedule] at h
    | cons m' ms =>
      simp only [schedule] at h
      split at h
      · cases h
      · split at h
        · cases h; simp_all
        · have := ih ms h; simp_all

/-- Zip characterisation: the result is the first position `k` of the two queues
(in heap order) whose request fits on its machine, provided no machine before it
is full. -/
theorem schedule_spec (rs : List Req) (ms : List Mach) (r : Req) (m : Mach) :
    schedule rs ms = some (r, m) ↔
      ∃ k, rs[k]? = some r ∧ ms[k]? = some m ∧ r.procs ≤ m.free ∧ m.free ≠ 0 ∧
        ∀ i : Nat, i < k → ∃ (r' : Req) (m' : Mach), rs[i]? = some r' ∧ ms[i]? = some m' ∧ m'.free ≠ 0 ∧ ¬ r'.procs ≤ m'.free := by
  induction rs generalizing ms with
  | nil => simp [schedule]
  | cons r' rs ih =>
    cases ms with
    | nil => simp [schedule]
    | cons m' ms =>
      simp only [schedule]
      constructor
      · intro h
        split at h
        · cases h
        · rename_i hfree
          split at h
          · rename_i hfit
            cases h
            exact ⟨0, rfl, rfl, hfit, hfree, fun i hi => absurd hi (Nat.not_lt_zero _)⟩
          · rename_i hnfit
            obtain ⟨k, h1, h2, h3, h4, h5⟩ := (ih ms).mp h
            refine ⟨k + 1, by simpa using h1, by simpa using h2, h3, h4, ?_⟩
            intro i hi
            cases i with
            | zero => exact ⟨r', m', rfl, rfl, hfree, hnfit⟩
            | succ i => simpa using h5 i (by omega)
      · rintro ⟨k, h1, h2, h3, h4, h5⟩
        cases k with
        | zero =>
          simp at h1 h2
          subst h1 h2
          simp [h3, h4]
        | succ k =>
          obtain ⟨r0, m0, e1, e2, e3, e4⟩ := h5 0 (by omega)
          simp at e1 e2
          subst e1 e2
          simp only [e3, if_false, e4]
          apply (ih ms).mpr
          refine ⟨k, by simpa using h1, by simpa using h2, h3, h4, ?_⟩
          intro i hi
          simpa using h5 (i + 1) (by omega)

/-- The highest-priority request is granted whenever it fits on the least-loaded machine. -/
theorem schedule_head (r : Req) (rs : List Req) (m : Mach) (ms : List Mach)
    (hfree : m.free ≠ 0) (hfit : r.procs ≤ m.free) : schedule (r :: rs) (m :: ms) = some (r, m) := by
  simp [schedule, hfree, hfit]

theorem mem_insertBy {α} (lt : α → α → Bool) (x y : α) (l : List α) :
    y ∈ insertBy lt x l ↔ y = x ∨ y ∈ l := by
  induction l with
  | nil => simp [insertBy]
  | cons z zs ih =>
    simp only [insertBy]
    split
    · simp only [List.mem_cons, ih]
      constructor
      · rintro (h | h | h) <;> simp [h]
      · rintro (h | h | h) <;> simp [h]
    · simp only [List.mem_cons]

theorem mem_sortBy {α} (lt : α → α → Bool) (y : α) (l : List α) : y ∈ sortBy lt l ↔ y ∈ l := by
  induction l with
  | nil => simp [sortBy]
  | cons x xs ih => simp [sortBy, mem_insertBy, ih]

/-- Machines on probation or stopped receive no new work. -/
theorem grant_only_ok (s : MState) (r : Req) (m : Mach)
    (h : schedule (sortBy reqLess s.queue) (sortBy machLess (okMachs s)) = some (r, m)) :
    (m, Health.ok) ∈ s.machs ∧ r ∈ s.queue ∧ r.procs ≤ m.free := by
  obtain ⟨h1, h2, h3, _⟩ := schedule_fits _ _ _ _ h
  rw [mem_sortBy] at h1 h2
  refine ⟨?_, h1, h3⟩
  simp only [okMachs, List.mem_map, List.mem_filter] at h2
  obtain ⟨⟨m', hh⟩, ⟨hm, hok⟩, rfl⟩ := h2
  have : hh = Health.ok := by simpa using hok
  subst this
  exact hm

theorem inj_of_nodup_map {α β} (f : α → β) (l : List α) (h : (l.map f).Nodup) (a b : α)
    (ha : a ∈ l) (hb : b ∈ l) (e : f a = f b) : a = b := by
  induction l with
  | nil => simp at ha
  | cons x xs ih =>
    simp only [List.map_cons, List.nodup_cons, List.mem_map, not_exists, not_and] at h
    rcases List.mem_cons.mp ha with rfl | ha' <;> rcases List.mem_cons.mp hb with rfl | hb'
    · rfl
    · exact absurd e.symm (h.1 b hb')
    · exact absurd e (h.1 a ha')
    · exact ih h.2 ha' hb'

theorem outstanding_cons (g : List (Nat × Nat)) (a b mid : Nat) :
    outstanding ((a, b) :: g) mid = (if a = mid then b else 0) + outstanding g mid := by
  unfold outstanding
  by_cases h : a = mid <;> simp [h]

theorem outstanding_removeFirst (g : List (Nat × Nat)) (a b mid : Nat) (h : (a, b) ∈ g) :
    outstanding (removeFirst (a, b) g) mid + (if a = mid then b else 0) = outstanding g mid := by
  induction g with
  | nil => simp at h
  | cons p ps ih =>
    obtain ⟨pa, pb⟩ := p
    simp only [removeFirst]
    split
    · rename_i e
      cases e
      rw [outstanding_cons]; omega
    · rename_i ne
      have hin : (a, b) ∈ ps := by
        rcases List.mem_cons.mp h with e | e
        · exact absurd e ne
        · exact e
      rw [outstanding_cons, outstanding_cons]
      have := ih hin
      omega

theorem map_id_updMach (ms : List (Mach × Health)) (mid : Nat) (f : Mach × Health → Mach × Health)
    (hf : ∀ p, (f p).1.id = p.1.id) : (updMach ms mid f).map (·.1.id) = ms.map (·.1.id) := by
  unfold updMach
  rw [List.map_map]
  apply List.map_congr_left
  intro p _
  simp only [Function.comp]
  split
  · exact hf p
  · rfl

/-- Every event of the manager preserves the accounting invariant. -/
theorem step_inv (s : MState) (e : Event) (h : Inv s) : Inv (step s e) := by
  obtain ⟨hacc, hnd⟩ := h
  cases e with
  | offer r => exact ⟨hacc, hnd⟩
  | cancel r => exact ⟨hacc, hnd⟩
  | stop mid =>
    refine ⟨?_, ?_⟩
    · intro p hp
      simp only [step, updMach, List.mem_map] at hp
      obtain ⟨q, hq, rfl⟩ := hp
      have := hacc q hq
      split <;> exact this
    · simp only [step]; rw [map_id_updMach _ _ _ (by intro p; rfl)]; exact hnd
  | probationTimeout mid =>
    refine ⟨?_, ?_⟩
    · intro p hp
      simp only [step, updMach, List.mem_map] at hp
      obtain ⟨q, hq, rfl⟩ := hp
      have := hacc q hq
      split <;> exact this
    · simp only [step]; rw [map_id_updMach _ _ _ (by intro p; rfl)]; exact hnd
  | grant =>
    simp only [step]
    split
    · exact ⟨hacc, hnd⟩
    · rename_i r m hs
      obtain ⟨hm, _, hfit⟩ := grant_only_ok s r m hs
      have hmacc := hacc _ hm
      refine ⟨?_, ?_⟩
      · intro p hp
        simp only [updMach, List.mem_map] at hp
        obtain ⟨q, hq, rfl⟩ := hp
        have hqacc := hacc q hq
        show _ = outstanding ((m.id, r.procs) :: s.grants) _ ∧ _
        rw [outstanding_cons]
        by_cases hid : q.1.id = m.id
        · have hq' : q = (m, Health.ok) := inj_of_nodup_map _ _ hnd _ _ hq hm (by simpa using hid)
          subst hq'
          simp only [if_true]
          unfold Mach.free at hfit
          simp only at hmacc ⊢
          omega
        · have : ¬ m.id = q.1.id := fun e => hid e.symm
          simp only [hid, this, if_false]
          omega
      · show ((updMach s.machs m.id _).map _).Nodup
        rw [map_id_updMach _ _ _ (by intro p; rfl)]; exact hnd
  | done mid procs te ok =>
    simp only [step]
    split
    · rename_i hin
      refine ⟨?_, ?_⟩
      · intro p hp
        simp only [updMach, List.mem_map] at hp
        obtain ⟨q, hq, rfl⟩ := hp
        have hqacc := hacc q hq
        have hrem := outstanding_removeFirst s.grants mid procs q.1.id hin
        show _ = outstanding (removeFirst (mid, procs) s.grants) _ ∧ _
        by_cases hid : q.1.id = mid
        · have e : mid = q.1.id := hid.symm
          simp only [e, if_true] at hrem
          simp only [hid, if_true]
          rw [e]
          omega
        · have : ¬ mid = q.1.id := fun e => hid e.symm
          simp only [this, if_false] at hrem
          simp only [hid, if_false]
          omega
      · show ((updMach s.machs mid _).map _).Nodup
        rw [map_id_updMach _ _ _ (by intro p; rfl)]; exact hnd
    · exact ⟨hacc, hnd⟩

/-- Along every event history, no machine is ever assigned more procs than its
capacity, and its load is exactly the procs handed out and not yet returned. -/
theorem capacity_invariant (es : List Event) (s : MState) (h : Inv s) : Inv (es.foldl step s) := by
  induction es generalizing s with
  | nil => exact h
  | cons e es ih => exact ih _ (step_inv s e h)

/-- **no capacity leaks**: along every history, once every grant has been handed back — each `done` returning the amount it
was granted, which `procs_returned_once` and `procs_same_amount` (T2) read off `(*bigmachineExecutor).Run` — every machine
has exactly 0 procs booked (what the end-to-end sub-check observes on real sessions). -/
theorem idle_means_zero (es : List Event) (s : MState) (h : Inv s) (hidle : (es.foldl step s).grants = []) :
    ∀ p ∈ (es.foldl step s).machs, p.1.used = 0 := by
  intro p hp
  have := ((capacity_invariant es s h).1 p hp).1
  rw [this, hidle]
  rfl

/-- An exclusive request (clamped to the whole machine) is granted only on an idle machine. -/
theorem exclusive_alone (r : Req) (m : Mach) (hcap : m.used ≤ m.max) (hex : r.procs = m.max)
    (hpos : 0 < m.max) (hfit : r.procs ≤ m.free) : m.used = 0 := by
  unfold Mach.free at hfit; omega

theorem clamp_le (p : Nat) (ex : Bool) (mp : Nat) : clampProcs p ex mp ≤ mp := by
  unfold clampProcs; split <;> omega

theorem clamp_exclusive (p mp : Nat) : clampProcs p true mp = mp := by simp [clampProcs]

theorem machprocs_pos (mx n d : Nat) : 1 ≤ machprocs mx n d := by
  unfold machprocs; simp only; split <;> omega

/-- No more machines are started than demand and the parallelism limit justify:
after the decision, capacity (have+pending) stays below `min need maxp` plus one
machine, and at most 10 machines are started at once. -/
theorem start_bounded (hv pending need maxp mp : Nat) (hmp : 0 < mp) :
    let n := startDecision hv pending need maxp mp
    n ≤ 10 ∧ hv + pending + n * mp < min need maxp + mp ∨ n = 0 := by
  simp only [startDecision]
  split
  · rename_i h
    left
    refine ⟨Nat.min_le_right _ _, ?_⟩
    have hle : min ((min need maxp - hv - pending + mp - 1) / mp) 10 ≤ (min need maxp - hv - pending + mp - 1) / mp :=
      Nat.min_le_left _ _
    have h2 : (min need maxp - hv - pending + mp - 1) / mp * mp ≤ min need maxp - hv - pending + mp - 1 :=
      Nat.div_mul_le_self _ _
    have h3 := Nat.mul_le_mul_right mp hle
    have : hv + pending < min need maxp := by omega
    omega
  · right; rfl

/-! ## Non-vacuity -/
def exS : MState :=
  { machs := [(⟨0, 4, 1⟩, .ok), (⟨1, 4, 4⟩, .ok), (⟨2, 4, 0⟩, .probation)],
    queue := [⟨1, 4⟩, ⟨1, 2⟩, ⟨0, 3⟩], grants := [(0, 1), (1, 2), (1, 2)] }

example : schedule (sortBy reqLess exS.queue) (sortBy machLess (okMachs exS)) = some (⟨0, 3⟩, ⟨0, 4, 1⟩) := by
  decide
example : (step exS .grant).machs.head? = some (⟨0, 4, 4⟩, .ok) := by decide

end BS.Cluster
