import BS.Model.Discard
/-!
# C12 (discard protocol) — a discard racing with an evaluation never leaves the driver believing in output that is gone
-/
namespace BS.Discard

theorem mem_allStates (s : S) : s ∈ allStates := by
  obtain ⟨d, w, pc, ev⟩ := s
  simp only [allStates, List.mem_flatMap, List.mem_map]
  refine ⟨d, by cases d <;> simp, w, by cases w <;> simp, pc, List.mem_finRange pc, ev, List.mem_finRange ev, rfl⟩

/-- the invariant is inductive when the worker is told to discard *before* the task is published as LOST -/
theorem inv_step_all : allStates.all (fun s => !Inv s || (next true s).all Inv) = true := by decide

theorem inv_step (s t : S) (h : Inv s = true) (ht : t ∈ next true s) : Inv t = true := by
  have := List.all_eq_true.mp inv_step_all s (mem_allStates s)
  simp only [h, Bool.not_true, Bool.false_or] at this
  exact List.all_eq_true.mp this t ht

/-- **every reachable state is safe** with the order of the repaired code -/
theorem discard_safe (s : S) (h : Reach true s) : Safe s = true := by
  have : Inv s = true := by
    induction h with
    | init => decide
    | step _ ht ih => exact inv_step _ _ ih ht
  simp only [Inv, Bool.and_eq_true] at this
  exact this.1.1.1

/-- with the other order (LOST published first) an evaluator can slip in: the driver ends up with a
task it believes OK whose output the worker has deleted (the defect that was in /repo, D19) -/
theorem lost_first_unsafe : ∃ s, Reach false s ∧ Safe s = false := by
  refine ⟨⟨.ok, false, 3, 0⟩, ?_, by decide⟩
  have h1 : Reach false ⟨.running, true, 1, 0⟩ := .step .init (by decide)
  have h2 : Reach false ⟨.lost, true, 2, 0⟩ := .step h1 (by decide)
  have h3 : Reach false ⟨.running, true, 2, 1⟩ := .step h2 (by decide)
  have h4 : Reach false ⟨.ok, true, 2, 0⟩ := .step h3 (by decide)
  exact .step h4 (by decide)

/-- progress: after a discard completed, an evaluator recomputes the output -/
example : Reach true ⟨.ok, true, 3, 0⟩ := by
  have h1 : Reach true ⟨.running, true, 1, 0⟩ := .step .init (by decide)
  have h2 : Reach true ⟨.running, false, 2, 0⟩ := .step h1 (by decide)
  have h3 : Reach true ⟨.lost, false, 3, 0⟩ := .step h2 (by decide)
  have h4 : Reach true ⟨.running, false, 3, 1⟩ := .step h3 (by decide)
  exact .step h4 (by decide)

end BS.Discard
