import BS.Proofs.Table
import BS.Properties.C09
/-!
# C09 (hash table) — the combining frame holds one correctly folded value per key at any size

`BS.Table` models `combiningFrame` slot by slot: hashing, triangular probing, the equality test, in-place combination,
the load threshold, doubling and rehashing.  `combining_frame_spec`: for **every** hash function, every initial
capacity `2^m`, every sequence of rows, `Combine` never fails to find a slot, keeps the table invariant
(one slot per key, every entry reachable on its key's probe path, load ≤ 70 %), and the table holds exactly the
entries of the keyed fold `foldMap comb rows` — what `Compact` hands to the sorter, and the sorter (C10) to the readers.
The commutativity of the combine function is *not* needed here (rows are folded in arrival order).
-/
namespace BS.Table
open BS.KV

theorem strictSorted_nodup {m : List KV} (hm : StrictSorted m) : m.Nodup := by
  unfold StrictSorted at hm
  exact hm.imp (fun {a b} hab heq => by rw [heq] at hab; omega)

theorem combining_frame_spec (comb : Int → Int → Int) (h : Int → Nat) (m0 : Nat) (rows : List KV) :
    ∃ tb, combineAll comb h (empty (2 ^ m0)) rows = some tb ∧ Good h tb ∧
      (∀ k v, Has tb k v ↔ (k, v) ∈ foldMap comb rows) ∧ (entries tb).Perm (foldMap comb rows) := by
  have hg : Good h (empty (2 ^ m0)) := ⟨inv_empty h m0, Nat.zero_le _⟩
  obtain ⟨tb, hc, hg', hr⟩ := combineAll_spec comb h rows (empty (2 ^ m0)) [] hg List.Pairwise.nil
    (by intro k v; simp [Has, empty])
  refine ⟨tb, hc, hg', hr, ?_⟩
  apply (List.perm_ext_iff_of_nodup (entries_nodup hg'.1) (strictSorted_nodup (foldMap_strictSorted comb rows))).mpr
  intro x
  obtain ⟨k, v⟩ := x
  rw [mem_entries hg'.1 k v]
  exact hr k v

/-- the probe sequence of the code (`idx ← (idx + try) & mask`) is the closed form used by the model -/
theorem probe_recurrence (h : Int → Nat) (cap : Nat) (k : Int) (t : Nat) : pidxRec h cap k t = pidx h cap k t :=
  pidxRec_eq h cap k t

example : (combineAll (· + ·) (fun k => k.toNat * 7) (empty 2) [(3, 1), (1, 5), (3, 2), (2, 7), (1, 1), (9, 9)]).map
    (fun t => (t.cap, t.len, entries t)) = some (8, 4, [(9, 9), (3, 3), (2, 7), (1, 6)]) := by decide

end BS.Table
