import BS.Model.Diff
import BS.Model.Inv
/-!
# C16 (diff part) — the location diff is empty exactly when the registries agree,
and otherwise transforms one into the other.  For all lists over any type with
decidable equality (no length bound).
-/
namespace BS.Diff
variable {α : Type} [DecidableEq α]

theorem leftOf_trace (l r : List α) : leftOf (trace l r) = l := by
  fun_induction trace l r <;> simp_all [leftOf]

theorem rightOf_trace (l r : List α) : rightOf (trace l r) = r := by
  fun_induction trace l r <;> simp_all [rightOf]

omit [DecidableEq α] in
theorem allKeep_left_eq_right (es : List (Edit α)) (h : es.all Edit.isKeep = true) :
    leftOf es = rightOf es := by
  induction es with
  | nil => rfl
  | cons e es ih =>
    cases e <;> simp_all [leftOf, rightOf, Edit.isKeep]

theorem trace_self (l : List α) : (trace l l).all Edit.isKeep = true := by
  induction l with
  | nil => simp [trace]
  | cons a l ih => simp [trace, Edit.isKeep, ih]

omit [DecidableEq α] in
theorem leftOf_append (a b : List (Edit α)) : leftOf (a ++ b) = leftOf a ++ leftOf b := by
  induction a with
  | nil => rfl
  | cons e es ih => cases e <;> simp [leftOf, ih]

omit [DecidableEq α] in
theorem rightOf_append (a b : List (Edit α)) : rightOf (a ++ b) = rightOf a ++ rightOf b := by
  induction a with
  | nil => rfl
  | cons e es ih => cases e <;> simp [rightOf, ih]

omit [DecidableEq α] in
theorem leftOf_reverse (es : List (Edit α)) : leftOf es.reverse = (leftOf es).reverse := by
  induction es with
  | nil => rfl
  | cons e es ih => cases e <;> simp [leftOf, leftOf_append, ih]

omit [DecidableEq α] in
theorem rightOf_reverse (es : List (Edit α)) : rightOf es.reverse = (rightOf es).reverse := by
  induction es with
  | nil => rfl
  | cons e es ih => cases e <;> simp [rightOf, rightOf_append, ih]

/-- The diff is nil exactly when the two lists agree. -/
theorem diff_nil_iff_eq (lhs rhs : List α) : diff lhs rhs = none ↔ lhs = rhs := by
  simp only [diff]
  constructor
  · intro h
    split at h
    · rename_i hk
      have := allKeep_left_eq_right _ hk
      rw [leftOf_trace, rightOf_trace] at this
      exact List.reverse_inj.mp this
    · cases h
  · intro h
    subst h
    simp [trace_self]

/-- A non-nil diff is a forward edit script: keeping the unmarked and `-` lines
gives `lhs`, keeping the unmarked and `+` lines gives `rhs`. -/
theorem diff_transforms (lhs rhs : List α) (d : List (Edit α)) (h : diff lhs rhs = some d) :
    leftOf d = lhs ∧ rightOf d = rhs := by
  simp only [diff] at h
  split at h
  · cases h
  · cases h
    rw [leftOf_reverse, rightOf_reverse, leftOf_trace, rightOf_trace]
    simp

/-- Non-vacuity: the documentation's example. -/
example : diff ["a", "b", "c"] ["a", "c"] = some [.keep "a", .del "b", .keep "c"] := by
  simp [diff, trace, cost, Edit.isKeep]

end BS.Diff

namespace BS.Inv

/-- Arguments arrive as sent, with `*Result`s replaced by references to their
invocation (which the worker resolves in its own address space). -/
theorem args_roundtrip (args : List (PKind × AVal)) (h : ∀ p ∈ args, encodable p.2 = true) :
    (encodeArgs args).map decodeArgs = some (args.map fun p => subst p.2) := by
  induction args with
  | nil => rfl
  | cons p ps ih =>
    obtain ⟨k, a⟩ := p
    have hp := h (k, a) (by simp)
    have ih' := ih (fun q hq => h q (by simp [hq]))
    simp only [encodeArgs]
    cases a <;> simp_all [encodable, subst, encodeArg, decodeArgs, decodeArg] <;>
      (cases hq : encodeArgs ps <;> simp_all [decodeArgs, decodeArg])

/-- An unencodable argument makes the encoding fail (no partial invocation is shipped). -/
theorem unencodable_fails (pre post : List (PKind × AVal)) (k : PKind) (a : AVal)
    (h : encodable a = false) : encodeArgs (pre ++ (k, a) :: post) = none := by
  induction pre with
  | nil =>
    cases a <;> simp_all [encodable, encodeArgs, encodeArg, subst]
  | cons p ps ih =>
    obtain ⟨k', a'⟩ := p
    simp only [List.cons_append, encodeArgs, ih]
    cases encodeArg k' (subst a') <;> rfl

example : encodeArgs [(.resultPtr, .result 3), (.iface, .nilv), (.other, .val "int64(9)")]
    = some [(.resultPtr, .ref 3), (.iface, .nilv), (.other, .val "int64(9)")] := by decide

end BS.Inv
