import BS.Proofs.Frame
/-!
# C11 — Frame views are transparent and never touch rows outside the view

Every theorem is about the model `BS.Frame` (frame/frame.go, function by
function); the tie to /repo is the step-by-step correspondence of
`tools/check.py C11` plus the generated index kernels (T2).
-/
namespace BS.Frame

/-- Slice is transparent: the sub-view denotes the corresponding sub-list. -/
theorem slice_view (m : Mem) (f g : Frame) (i j : Nat) (h : slice f i j = some g) (hj : j ≤ f.len) :
    view m g = ((view m f).drop i).take (j - i) := by
  unfold slice at h
  split at h
  · cases h
  · rename_i hc
    cases h
    simp only [view, List.drop_drop, List.drop_take, List.take_take]
    rw [Nat.min_eq_left (by omega)]

theorem slice_wf (m : Mem) (f g : Frame) (i j : Nat) (hw : WF m f) (h : slice f i j = some g) :
    WF m g := by
  unfold slice at h
  split at h
  · cases h
  · rename_i hc
    cases h
    obtain ⟨h1, h2, h3⟩ := hw
    refine ⟨h1, ?_, ?_⟩ <;> simp only <;> omega

/-- Swap exchanges exactly rows `i` and `j` *of the view*. -/
theorem swap_view (m : Mem) (f : Frame) (i j : Nat) (hw : WF m f) (hi : i < f.len) (hj : j < f.len) :
    view (swap m f i j) f = swapRows (view m f) i j := by
  obtain ⟨h1, h2, h3⟩ := hw
  have hl := view_length m f ⟨h1, h2, h3⟩
  apply ext_getD
  · simp [view, swap, storeOf_setStore_same _ _ _ h1, length_swapRows]
  · intro k hk
    have hk' : k < f.len := by
      simp [view, swap, storeOf_setStore_same _ _ _ h1, length_swapRows] at hk; omega
    rw [getD_swapRows _ _ _ _ (by omega) (by omega)]
    simp only [view, swap, storeOf_setStore_same _ _ _ h1]
    rw [take_drop_getD _ _ _ _ hk', getD_swapRows _ _ _ _ (by unfold idx; omega) (by unfold idx; omega)]
    simp only [take_drop_getD _ _ _ _ hi, take_drop_getD _ _ _ _ hj, take_drop_getD _ _ _ _ hk', idx]
    by_cases hkj : k = j
    · subst hkj; simp
    · by_cases hki : k = i
      · subst hki; simp [hkj]
      · have : f.off + k ≠ f.off + j := by omega
        have : f.off + k ≠ f.off + i := by omega
        simp [*]

/-- Frame condition of Swap: every other row of every store is unchanged. -/
theorem swap_frame (m : Mem) (f : Frame) (i j : Nat) (hw : WF m f) (hi : i < f.len) (hj : j < f.len)
    (sid k : Nat) (h : ¬ (sid = f.sid ∧ (k = f.off + i ∨ k = f.off + j))) :
    rowAt (swap m f i j) sid k = rowAt m sid k := by
  obtain ⟨h1, h2, h3⟩ := hw
  unfold rowAt swap
  by_cases hs : f.sid = sid
  · subst hs
    rw [storeOf_setStore_same _ _ _ h1, getD_swapRows _ _ _ _ (by unfold idx; omega) (by unfold idx; omega)]
    simp only [idx]
    have : k ≠ f.off + i := fun e => h ⟨rfl, Or.inl e⟩
    have : k ≠ f.off + j := fun e => h ⟨rfl, Or.inr e⟩
    simp [*]
  · rw [storeOf_setStore_other _ _ _ _ hs]

theorem swapRows_perm (s : List Row) (a b : Nat) (ha : a < s.length) (hb : b < s.length) :
    (swapRows s a b).Perm s := by
  unfold swapRows
  simp only [List.getD_eq_getElem?_getD, ha, hb, List.getElem?_eq_getElem, Option.getD_some]
  by_cases hab : a = b
  · subst hab; simp
  · -- set a := s[b], then set b := s[a]
    have h1 := List.set_set_perm (as := s) ha hb   -- may not exist; fallback below
    exact h1

/-- Swap permutes the view. -/
theorem swap_perm (m : Mem) (f : Frame) (i j : Nat) (hw : WF m f) (hi : i < f.len) (hj : j < f.len) :
    (view (swap m f i j) f).Perm (view m f) := by
  rw [swap_view m f i j hw hi hj]
  have hl := view_length m f hw
  exact swapRows_perm _ _ _ (by omega) (by omega)

theorem swap_wf (m : Mem) (f g : Frame) (i j : Nat) (hw : WF m g) (hf : WF m f)
    (hi : i < f.len) (hj : j < f.len) : WF (swap m f i j) g := by
  obtain ⟨h1, h2, h3⟩ := hw
  refine ⟨by simpa [swap, length_setStore] using h1, h2, ?_⟩
  unfold swap
  by_cases hs : f.sid = g.sid
  · rw [← hs, storeOf_setStore_same _ _ _ hf.1, length_swapRows]; rw [hs]; exact h3
  · rw [storeOf_setStore_other _ _ _ _ hs]; exact h3

/-- Any sequence of in-range swaps leaves the view a permutation of what it was
(what `sort.Sort` needs from `Swap`). -/
theorem swaps_permute (f : Frame) (ops : List (Nat × Nat)) (m : Mem) (hw : WF m f)
    (hops : ∀ p ∈ ops, p.1 < f.len ∧ p.2 < f.len) :
    (view (ops.foldl (fun m p => swap m f p.1 p.2) m) f).Perm (view m f) := by
  induction ops generalizing m with
  | nil => exact List.Perm.refl _
  | cons p ps ih =>
    simp only [List.foldl_cons]
    have hp := hops p (by simp)
    have hw' := swap_wf m f f p.1 p.2 hw hw hp.1 hp.2
    exact (ih _ hw' (fun q hq => hops q (by simp [hq]))).trans (swap_perm m f p.1 p.2 hw hp.1 hp.2)

/-- Less depends only on the two rows of the view (position independence). -/
theorem less_view (m : Mem) (f : Frame) (i j : Nat) (hi : i < f.len) (hj : j < f.len) :
    less m f i j = lexLt f.pfx ((view m f).getD i []) ((view m f).getD j []) := by
  unfold less; rw [view_getD m f i hi, view_getD m f j hj]

theorem less_position_independent (m₁ m₂ : Mem) (f g : Frame) (i j i' j' : Nat)
    (hi : i < f.len) (hj : j < f.len) (hi' : i' < g.len) (hj' : j' < g.len) (hp : f.pfx = g.pfx)
    (h1 : (view m₁ f).getD i [] = (view m₂ g).getD i' [])
    (h2 : (view m₁ f).getD j [] = (view m₂ g).getD j' []) :
    less m₁ f i j = less m₂ g i' j' := by
  rw [less_view _ _ _ _ hi hj, less_view _ _ _ _ hi' hj', h1, h2, hp]

theorem lexLt_irrefl (n : Nat) (a : Row) : lexLt n a a = false := by
  induction n generalizing a with
  | zero => simp [lexLt]
  | succ n ih =>
    cases a with
    | nil => simp [lexLt]
    | cons x xs => simp [lexLt, ih]

theorem lexLt_asymm (n : Nat) (a b : Row) (h : lexLt n a b = true) : lexLt n b a = false := by
  induction n generalizing a b with
  | zero => simp [lexLt] at h
  | succ n ih =>
    cases a with
    | nil => simp [lexLt] at h
    | cons x xs =>
      cases b with
      | nil => simp [lexLt] at h
      | cons y ys =>
        simp only [lexLt] at h ⊢
        by_cases hn : n = 0
        · simp [hn] at h ⊢; omega
        · simp only [hn, if_false] at h ⊢
          by_cases hxy : x < y
          · have : ¬ y < x := by omega
            simp [hxy, this]
          · by_cases hyx : y < x
            · simp [hxy, hyx] at h
            · simp only [hxy, hyx, if_false] at h ⊢; exact ih _ _ h

theorem lexLt_trans (n : Nat) (a b c : Row) (h1 : lexLt n a b = true) (h2 : lexLt n b c = true) :
    lexLt n a c = true := by
  induction n generalizing a b c with
  | zero => simp [lexLt] at h1
  | succ n ih =>
    cases a with
    | nil => simp [lexLt] at h1
    | cons x xs =>
      cases b with
      | nil => simp [lexLt] at h1
      | cons y ys =>
        cases c with
        | nil => simp [lexLt] at h2
        | cons z zs =>
          simp only [lexLt] at h1 h2 ⊢
          by_cases hn : n = 0
          · simp [hn] at h1 h2 ⊢; omega
          · simp only [hn, if_false] at h1 h2 ⊢
            by_cases hxy : x < y
            · by_cases hyz : y < z
              · have : x < z := by omega
                simp [this]
              · by_cases hzy : z < y
                · simp [hyz, hzy] at h2
                · have : x < z := by omega
                  simp [this]
            · by_cases hyx : y < x
              · simp [hxy, hyx] at h1
              · simp only [hxy, hyx, if_false] at h1
                have hxy' : x = y := by omega
                subst hxy'
                by_cases hyz : x < z
                · simp [hyz]
                · by_cases hzy : z < x
                  · simp [hyz, hzy] at h2
                  · simp only [hyz, hzy, if_false] at h2 ⊢; exact ih _ _ _ h1 h2

/-- Zero clears exactly the view. -/
theorem zero_view (nc : Nat) (m : Mem) (f : Frame) (hw : WF m f) :
    view (zero nc m f) f = List.replicate f.len (zeroRow nc) := by
  obtain ⟨h1, h2, h3⟩ := hw
  simp only [view, zero, storeOf_setStore_same _ _ _ h1]
  rw [List.append_assoc, List.drop_append_of_le_length (by simp; omega)]
  simp only [List.drop_take, List.length_take]
  have : min f.off (storeOf m f.sid).length = f.off := by omega
  simp [List.take_append_of_le_length]

theorem zero_frame (nc : Nat) (m : Mem) (f : Frame) (hw : WF m f) (sid k : Nat)
    (h : ¬ (sid = f.sid ∧ f.off ≤ k ∧ k < f.off + f.len)) :
    rowAt (zero nc m f) sid k = rowAt m sid k := by
  obtain ⟨h1, h2, h3⟩ := hw
  unfold rowAt zero
  by_cases hs : f.sid = sid
  · subst hs
    rw [storeOf_setStore_same _ _ _ h1]
    simp only [List.getD_eq_getElem?_getD]
    congr 1
    by_cases hk : k < f.off
    · rw [List.append_assoc, List.getElem?_append_left (by simp; omega)]
      simp [List.getElem?_take, hk]
    · have hk2 : f.off + f.len ≤ k := by
        rcases Nat.lt_or_ge k (f.off + f.len) with h' | h'
        · exact absurd ⟨rfl, by omega, h'⟩ h
        · exact h'
      rw [List.getElem?_append_right (by simp; omega)]
      simp only [List.length_append, List.length_take, List.length_replicate, List.getElem?_drop]
      congr 1; omega
  · rw [storeOf_setStore_other _ _ _ _ hs]


/-- Copy overwrites exactly the first `n = min dst.len src.len` rows of the
destination view with the first `n` source rows (read before any write, so
aliasing views of one store are covered). -/
theorem copy_view (m : Mem) (dst src : Frame) (hd : WF m dst) (hs : WF m src) :
    view (copy m dst src).1 dst
      = (view m src).take (min dst.len src.len) ++ (view m dst).drop (min dst.len src.len) := by
  obtain ⟨h1, h2, h3⟩ := hd
  have hsl := view_length m src hs
  have hdl := view_length m dst ⟨h1, h2, h3⟩
  have hrl : ((view m src).take (min dst.len src.len)).length = min dst.len src.len := by
    rw [List.length_take, hsl]; omega
  have hst : storeOf (copy m dst src).1 dst.sid =
      (storeOf m dst.sid).take dst.off ++ (view m src).take (min dst.len src.len)
        ++ (storeOf m dst.sid).drop (dst.off + min dst.len src.len) := by
    simp only [copy, storeOf_setStore_same _ _ _ h1]
  have hvl : (view (copy m dst src).1 dst).length = dst.len := by
    show ((List.drop dst.off (storeOf (copy m dst src).1 dst.sid)).take dst.len).length = _
    rw [hst, List.length_take, List.length_drop, length_splice _ _ _ _ hrl (by omega)]
    omega
  apply ext_getD
  · rw [hvl, List.length_append, hrl, List.length_drop, hdl]
    omega
  · intro k hk
    have hk' : k < dst.len := by omega
    show ((List.drop dst.off (storeOf (copy m dst src).1 dst.sid)).take dst.len).getD k [] = _
    rw [hst, take_drop_getD _ _ _ _ hk', getD_splice _ _ _ _ _ hrl (by omega)]
    simp only [List.getD_eq_getElem?_getD]
    by_cases hkn : k < min dst.len src.len
    · rw [List.getElem?_append_left (by omega)]
      have : ¬ dst.off + k < dst.off := by omega
      have : dst.off + k < dst.off + min dst.len src.len := by omega
      simp [*]
    · rw [List.getElem?_append_right (by omega)]
      have : ¬ dst.off + k < dst.off := by omega
      have : ¬ dst.off + k < dst.off + min dst.len src.len := by omega
      have e : min dst.len src.len + (k - min dst.len src.len) = k := by omega
      simp only [*, if_false, List.getElem?_drop, hrl, e, view_getElem? m dst k hk']

/-- Frame condition of Copy: only rows `[off, off+n)` of the destination store change. -/
theorem copy_frame (m : Mem) (dst src : Frame) (hd : WF m dst) (hs : WF m src) (sid k : Nat)
    (h : ¬ (sid = dst.sid ∧ dst.off ≤ k ∧ k < dst.off + min dst.len src.len)) :
    rowAt (copy m dst src).1 sid k = rowAt m sid k := by
  obtain ⟨h1, h2, h3⟩ := hd
  have hsl := view_length m src hs
  have hrl : ((view m src).take (min dst.len src.len)).length = min dst.len src.len := by
    rw [List.length_take, hsl]; omega
  unfold rowAt copy
  by_cases hsid : dst.sid = sid
  · subst hsid
    simp only [storeOf_setStore_same _ _ _ h1]
    rw [getD_splice _ _ _ _ _ hrl (by omega)]
    by_cases hk : k < dst.off
    · simp [hk]
    · have : ¬ k < dst.off + min dst.len src.len := fun h' => h ⟨rfl, by omega, h'⟩
      simp [hk, this]
  · simp only [storeOf_setStore_other _ _ _ _ hsid]

theorem copy_count (m : Mem) (dst src : Frame) : (copy m dst src).2 = min dst.len src.len := rfl

/-- The capacity loop of `grow` terminates with a sufficient capacity: with
`i0 ≤ c` (len ≤ cap), `0 < c`, and fuel `i1`, the result is `≥ i1`.  (The
`c + c/4` branch makes progress because it is only taken when `c ≥ i0 ≥ 1024`.) -/
theorem growCap_ge (i0 i1 fuel c : Nat) (hc : 0 < c) (hi : i0 ≤ c) (hf : i1 ≤ c + fuel) :
    i1 ≤ growCap i0 i1 fuel c := by
  induction fuel generalizing c with
  | zero => simp [growCap]; omega
  | succ n ih =>
    simp only [growCap]
    split
    · apply ih
      · split <;> omega
      · split <;> omega
      · split <;> omega
    · omega

/-- Grow keeps the old rows as a prefix, has the requested length, and does not
modify any existing store. -/
theorem grow_spec (nc : Nat) (m : Mem) (f : Frame) (need : Nat) (hw : WF m f) :
    let r := grow nc m f need
    (view r.1 r.2.1).take f.len = view m f ∧ r.2.1.len = f.len + need ∧ r.2.1.pfx = f.pfx
    ∧ (∀ sid, sid < m.length → storeOf r.1 sid = storeOf m sid) ∧ WF r.1 r.2.1 := by
  obtain ⟨h1, h2, h3⟩ := hw
  have hl := view_length m f ⟨h1, h2, h3⟩
  simp only [grow]
  split
  · refine ⟨?_, rfl, rfl, fun _ _ => rfl, h1, by simp only; omega, h3⟩
    simp only [view, List.take_take]
    congr 1; omega
  · rename_i hgt
    have hcap : f.len + need ≤ (if f.cap = 0 then need else growCap f.len (f.len + need) (f.len + need) f.cap) := by
      split
      · omega
      · exact growCap_ge _ _ _ _ (by omega) h2 (by omega)
    refine ⟨?_, rfl, rfl, ?_, ?_⟩
    · simp only [view, storeOf, List.getD_eq_getElem?_getD, List.getElem?_append_right (Nat.le_refl _),
        Nat.sub_self, List.getElem?_cons_zero, Option.getD_some, List.drop_zero, List.take_take]
      simp only [view, storeOf, List.getD_eq_getElem?_getD] at hl
      rw [List.take_append_of_le_length (by omega), List.take_of_length_le (by omega)]
    · intro sid hs
      simp [storeOf, List.getD_eq_getElem?_getD, List.getElem?_append_left hs]
    · refine ⟨by simp, hcap, ?_⟩
      simp only [storeOf, List.getD_eq_getElem?_getD, List.getElem?_append_right (Nat.le_refl _),
        Nat.sub_self, List.getElem?_cons_zero, Option.getD_some, List.length_append,
        List.length_replicate]
      omega

theorem view_congr (m m' : Mem) (f : Frame) (h : storeOf m' f.sid = storeOf m f.sid) :
    view m' f = view m f := by simp [view, h]

/-- AppendFrame: the result denotes `dst ++ src`, and no pre-existing row inside
`dst`'s view (nor any row of another store) is changed. -/
theorem append_view (nc : Nat) (m : Mem) (dst src : Frame) (hd : WF m dst) (hs : WF m src) :
    let r := appendFrame nc m dst src
    view r.1 r.2 = view m dst ++ view m src := by
  intro r
  obtain ⟨g1, g2, g3, g4, g5⟩ := grow_spec nc m dst src.len hd
  -- names
  generalize hgr : grow nc m dst src.len = gr at g1 g2 g3 g4 g5
  have hr : r = ((copy gr.1 (window gr.2.1 gr.2.2.1 gr.2.2.2) src).1, gr.2.1) := by
    simp only [r, appendFrame, hgr]
  have hi0 : gr.2.2.1 = dst.len := by
    rw [← hgr]; simp only [grow]; split <;> rfl
  have hi1 : gr.2.2.2 = dst.len + src.len := by
    rw [← hgr]; simp only [grow]; split <;> rfl
  have hsw : WF gr.1 src := by
    obtain ⟨a, b, c⟩ := hs
    have hlen : m.length ≤ gr.1.length := by
      rw [← hgr]; simp only [grow]; split <;> simp
    exact ⟨by omega, b, by rw [g4 _ a]; exact c⟩
  have hsv : view gr.1 src = view m src := view_congr _ _ _ (g4 _ hs.1)
  obtain ⟨w1, w2, w3⟩ := g5
  let tgt : Frame := window gr.2.1 gr.2.2.1 gr.2.2.2
  have htw : WF gr.1 tgt := ⟨w1, by simp only [tgt, window]; omega, by simp only [tgt, window]; omega⟩
  have hcv := copy_view gr.1 tgt src htw hsw
  have hcf := copy_frame gr.1 tgt src htw hsw
  have hsl := view_length m src hs
  have hdl := view_length m dst hd
  have hgl : (view gr.1 gr.2.1).length = gr.2.1.len := view_length _ _ ⟨w1, w2, w3⟩
  rw [hr]
  simp only
  -- pointwise
  apply ext_getD
  · have : WF (copy gr.1 tgt src).1 gr.2.1 := by
      refine ⟨by simpa [copy, length_setStore] using w1, w2, ?_⟩
      have hrl : ((view gr.1 src).take (min tgt.len src.len)).length = min tgt.len src.len := by
        rw [List.length_take, hsv, hsl]; omega
      show gr.2.1.off + gr.2.1.cap ≤ (storeOf (copy gr.1 tgt src).1 tgt.sid).length
      simp only [copy, storeOf_setStore_same _ _ _ htw.1]
      rw [length_splice _ _ _ _ hrl (by simp only [tgt, window]; omega)]
      exact w3
    rw [view_length _ _ this, List.length_append, hdl, hsl, g2]
  · intro k hk
    have hwc : WF (copy gr.1 tgt src).1 gr.2.1 := by
      refine ⟨by simpa [copy, length_setStore] using w1, w2, ?_⟩
      have hrl : ((view gr.1 src).take (min tgt.len src.len)).length = min tgt.len src.len := by
        rw [List.length_take, hsv, hsl]; omega
      show gr.2.1.off + gr.2.1.cap ≤ (storeOf (copy gr.1 tgt src).1 tgt.sid).length
      simp only [copy, storeOf_setStore_same _ _ _ htw.1]
      rw [length_splice _ _ _ _ hrl (by simp only [tgt, window]; omega)]
      exact w3
    have hk' : k < gr.2.1.len := by rw [view_length _ _ hwc] at hk; exact hk
    have htl : tgt.len = src.len := by simp only [tgt, window]; omega
    rw [view_getD _ _ _ hk']
    simp only [List.getD_eq_getElem?_getD]
    by_cases hkd : k < dst.len
    · rw [List.getElem?_append_left (by omega)]
      have := hcf gr.2.1.sid (idx gr.2.1.off k) (by
        intro ⟨_, h2, _⟩; simp only [tgt, window, idx] at h2; omega)
      rw [this, ← view_getD _ _ _ hk', ← g1]
      simp [List.getD_eq_getElem?_getD, List.getElem?_take, hkd]
    · rw [List.getElem?_append_right (by omega), hdl]
      have hk2 : k - dst.len < tgt.len := by omega
      have e1 : rowAt (copy gr.1 tgt src).1 gr.2.1.sid (idx gr.2.1.off k)
          = (view (copy gr.1 tgt src).1 tgt).getD (k - dst.len) [] := by
        rw [view_getD _ _ _ hk2]
        simp only [tgt, window, idx]
        congr 1; omega
      rw [e1, hcv, htl, Nat.min_self, hsv, List.getD_eq_getElem?_getD,
        List.getElem?_append_left (by rw [List.length_take, hsl]; omega)]
      simp [List.getElem?_take, show k - dst.len < src.len by omega]

/-- Negative transitivity (so `Less` is a strict weak order on rows that have
all key columns): incomparability is transitive. -/
theorem lexLt_negtrans (n : Nat) (a b c : Row) (ha : n ≤ a.length) (hb : n ≤ b.length) (hc : n ≤ c.length)
    (h1 : lexLt n a b = false) (h2 : lexLt n b c = false) : lexLt n a c = false := by
  induction n generalizing a b c with
  | zero => simp [lexLt]
  | succ n ih =>
    cases a with
    | nil => simp at ha
    | cons x xs =>
      cases b with
      | nil => simp at hb
      | cons y ys =>
        cases c with
        | nil => simp at hc
        | cons z zs =>
          simp only [List.length_cons] at ha hb hc
          simp only [lexLt] at h1 h2 ⊢
          by_cases hn : n = 0
          · simp [hn] at h1 h2 ⊢; omega
          · simp only [hn, if_false] at h1 h2 ⊢
            by_cases hxy : x < y
            · simp [hxy] at h1
            · by_cases hyz : y < z
              · simp [hyz] at h2
              · simp only [hxy, hyz, if_false] at h1 h2
                by_cases hyx : y < x
                · have : ¬ x < z := by omega
                  have : z < x := by omega
                  simp [*]
                · simp only [hyx, if_false] at h1
                  by_cases hzy : z < y
                  · have : ¬ x < z := by omega
                    have : z < x := by omega
                    simp [*]
                  · simp only [hzy, if_false] at h2
                    have : ¬ x < z := by omega
                    have : ¬ z < x := by omega
                    simp only [*, if_false]
                    exact ih _ _ _ (by omega) (by omega) (by omega) h1 h2

theorem insertBy_perm (lt : Row → Row → Bool) (x : Row) (l : List Row) :
    (insertBy lt x l).Perm (x :: l) := by
  induction l with
  | nil => exact List.Perm.refl _
  | cons y ys ih =>
    simp only [insertBy]
    split
    · exact List.Perm.refl _
    · exact (List.Perm.cons y ih).trans (List.Perm.swap x y ys)

theorem sortBy_perm (lt : Row → Row → Bool) (l : List Row) : (sortBy lt l).Perm l := by
  induction l with
  | nil => exact List.Perm.refl _
  | cons x xs ih => exact (insertBy_perm lt x _).trans (List.Perm.cons x ih)

/-- Sorting a view touches only the view and leaves a permutation of it. -/
theorem sortView_view (m : Mem) (f : Frame) (hw : WF m f) :
    view (sortView m f) f = sortBy (lexLt f.pfx) (view m f) := by
  obtain ⟨h1, h2, h3⟩ := hw
  have hl := view_length m f ⟨h1, h2, h3⟩
  have hsl : (sortBy (lexLt f.pfx) (view m f)).length = f.len := by
    rw [(sortBy_perm _ _).length_eq, hl]
  apply ext_getD
  · show ((List.drop f.off (storeOf (sortView m f) f.sid)).take f.len).length = _
    simp only [sortView, storeOf_setStore_same _ _ _ h1]
    rw [List.length_take, List.length_drop, length_splice _ _ _ _ hsl (by omega), hsl]; omega
  · intro k hk
    have hk' : k < f.len := by
      have : (view (sortView m f) f).length ≤ f.len := by simp [view]; omega
      omega
    show ((List.drop f.off (storeOf (sortView m f) f.sid)).take f.len).getD k [] = _
    simp only [sortView, storeOf_setStore_same _ _ _ h1]
    rw [take_drop_getD _ _ _ _ hk', getD_splice _ _ _ _ _ hsl (by omega)]
    have : ¬ f.off + k < f.off := by omega
    have : f.off + k < f.off + f.len := by omega
    simp [*]

theorem sortView_frame (m : Mem) (f : Frame) (hw : WF m f) (sid k : Nat)
    (h : ¬ (sid = f.sid ∧ f.off ≤ k ∧ k < f.off + f.len)) :
    rowAt (sortView m f) sid k = rowAt m sid k := by
  obtain ⟨h1, h2, h3⟩ := hw
  have hl := view_length m f ⟨h1, h2, h3⟩
  have hsl : (sortBy (lexLt f.pfx) (view m f)).length = f.len := by
    rw [(sortBy_perm _ _).length_eq, hl]
  unfold rowAt sortView
  by_cases hs : f.sid = sid
  · subst hs
    simp only [storeOf_setStore_same _ _ _ h1]
    rw [getD_splice _ _ _ _ _ hsl (by omega)]
    by_cases hk : k < f.off
    · simp [hk]
    · have : ¬ k < f.off + f.len := fun h' => h ⟨rfl, by omega, h'⟩
      simp [hk, this]
  · simp only [storeOf_setStore_other _ _ _ _ hs]

/-! ## Non-vacuity: a concrete store with two aliasing views satisfies the hypotheses. -/

def exMem : Mem := [[[5, 1], [3, 2], [9, 3], [7, 4], [1, 5]]]
def exF : Frame := { sid := 0, off := 1, len := 3, cap := 4, pfx := 1 }
def exG : Frame := { sid := 0, off := 2, len := 2, cap := 3, pfx := 1 }

theorem exWF : WF exMem exF ∧ WF exMem exG := by
  refine ⟨⟨?_, ?_, ?_⟩, ⟨?_, ?_, ?_⟩⟩ <;> decide
example : view (swap exMem exF 0 2) exF = [[7, 4], [9, 3], [3, 2]] := by decide
example : view (copy exMem exF exG).1 exF = [[9, 3], [7, 4], [7, 4]] := by decide
example : less exMem exF 0 1 = true ∧ less exMem exF 1 0 = false := by decide
example : view (appendFrame 2 exMem exF exG).1 (appendFrame 2 exMem exF exG).2
    = [[3, 2], [9, 3], [7, 4], [9, 3], [7, 4]] := by decide

/-- The defect that was in /repo (frame.go:357, `i - f.off`): with that
addressing, swapping inside a view whose offset is non-zero touches rows outside
the view.  Kept as the witness for known-findings `fixed:` entry C11/D1. -/
def swapBuggy (m : Mem) (f : Frame) (i j : Nat) : Mem :=
  setStore m f.sid (swapRows (storeOf m f.sid) (i - f.off) (j - f.off))

theorem swapBuggy_violates :
    ∃ m f i j, WF m f ∧ i < f.len ∧ j < f.len ∧ view (swapBuggy m f i j) f ≠ swapRows (view m f) i j :=
  ⟨exMem, exF, 1, 2, exWF.1, by decide, by decide, by decide⟩

end BS.Frame
