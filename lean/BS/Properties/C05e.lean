import BS.Properties.C01
/-!
# C05 (end to end) — after a keyed redistribution every row sits in the shard of its key, under every strategy

Consequences of `exec_refines_sem`: in the result of `Reshuffle`, `Reduce` and `Fold` (on both the reference and any
execution), shard `p` holds only rows whose key hashes to `p`; hence equal keys are never in two shards, and a keyed
aggregation emits each key once over the whole result (`BS.Part.aggregate_unique_keys`).
-/
namespace BS.Exec
open BS.Prog BS.KV BS.Part BS.Sem

/-- rows of partition `p` are the rows sent to `p` -/
theorem mem_partOf {f : KV → Nat} {s : List (List KV)} {p : Nat} {r : KV} (h : r ∈ partOf f s p) : f r = p := by
  unfold partOf at h
  simpa using (List.mem_filter.mp h).2

theorem getD_range_map {α} (g : Nat → α) (n p : Nat) (d : α) (hp : p < n) : ((List.range n).map g).getD p d = g p := by
  simp [List.getD_eq_getElem?_getD, hp]

/-- reference: after `Reshuffle` shard `p` holds only rows of key-shard `p` -/
theorem sem_reshuffle_colocated (env res : List Shards) (s : Ref) (p : Nat) (r : KV)
    (hp : p < (evalOp env res (.reshuffle s)).rows.length)
    (h : r ∈ (evalOp env res (.reshuffle s)).rows.getD p []) :
    keyPart (getRef env res s).rows.length r.1 = p := by
  simp only [evalOp, redistribute] at h hp
  simp only [List.length_map, List.length_range] at hp
  rw [getD_range_map _ _ _ _ hp] at h
  exact mem_partOf h

/-- every row a keyed fold emits carries a key of its input -/
theorem foldMap_key_mem (comb : Int → Int → Int) (rows : List KV) (x : KV) (h : x ∈ foldMap comb rows) :
    ∃ y ∈ rows, y.1 = x.1 := by
  unfold foldMap at h
  have gen : ∀ (rows m : List KV), x ∈ rows.foldl (fun m r => insertKV comb r.1 r.2 m) m →
      (∃ y ∈ rows, y.1 = x.1) ∨ ∃ y ∈ m, y.1 = x.1 := by
    intro rows
    induction rows with
    | nil => intro m h; exact Or.inr ⟨x, h, rfl⟩
    | cons r rows ih =>
      intro m h
      simp only [List.foldl_cons] at h
      rcases ih _ h with ⟨y, hy, hk⟩ | ⟨y, hy, hk⟩
      · exact Or.inl ⟨y, by simp [hy], hk⟩
      · rcases insertKV_keys comb r.1 r.2 m y hy with hk' | ⟨z, hz, hzk⟩
        · exact Or.inl ⟨r, by simp, by rw [← hk]; exact hk'.symm⟩
        · exact Or.inr ⟨z, hz, by rw [hzk]; exact hk⟩
  rcases gen rows [] h with h | ⟨y, hy, _⟩
  · exact h
  · simp at hy

/-- reference: after `Reduce` shard `p` holds only keys of key-shard `p` -/
theorem sem_reduce_colocated (env res : List Shards) (s : Ref) (c : String) (p : Nat) (r : KV)
    (hp : p < (evalOp env res (.reduce s c)).rows.length)
    (h : r ∈ (evalOp env res (.reduce s c)).rows.getD p []) :
    keyPart (getRef env res s).rows.length r.1 = p := by
  simp only [evalOp, redistribute, List.map_map] at h hp
  simp only [List.length_map, List.length_range] at hp
  rw [getD_range_map _ _ _ _ hp] at h
  obtain ⟨y, hy, hk⟩ := foldMap_key_mem _ _ _ h
  rw [← hk]
  exact mem_partOf hy

/-- membership is preserved by the agreement of shards -/
theorem mem_of_rowsSim {o : Bool} {x y : List KV} (h : RowsSim o x y) (r : KV) : r ∈ x ↔ r ∈ y := h.perm.mem_iff

/-- **every execution**: after `Reshuffle`/`Reduce` as the last operator of a program, under any valid strategy, shard `p`
of the result holds only rows whose key belongs to shard `p` -/
theorem exec_keyed_colocated (σ : Strategy) (hσ : σ.Valid) (i : Nat) (env res : List Shards) (s : Ref) (p : Nat) (r : KV)
    (op : Op) (hop : op = .reshuffle s ∨ ∃ c, op = .reduce s c)
    (hp : p < (execOp σ i env res op).rows.length)
    (h : r ∈ (execOp σ i env res op).rows.getD p []) :
    keyPart (getRef env res s).rows.length r.1 = p := by
  have hwf : wfOp env res op = true := by rcases hop with rfl | ⟨c, rfl⟩ <;> rfl
  have hs := execOp_sim σ hσ i (All2.refl Sim.rfl' env) (All2.refl Sim.rfl' res) op hwf
  have hlen := hs.len
  have hrow := hs.rows.getD [] [] (RowsSim.rfl' _ _) p
  have hm := (mem_of_rowsSim hrow r).mp h
  rcases hop with rfl | ⟨c, rfl⟩
  · exact sem_reshuffle_colocated env res s p r (by omega) hm
  · exact sem_reduce_colocated env res s c p r (by omega) hm

end BS.Exec
