import BS.Proofs.Reader
import BS.Proofs.Flat
import BS.Proofs.Scanner
/-!
# C17 — readers deliver the same rows however they are read

`Lawful R rem mu` (BS.Proofs.Reader) packages the per-call obligations of the
property: at most `k` rows per call, the rows are the next rows of `rem`, EOF
only when nothing is left, EOF is sticky, and unproductive reads make progress.
`drain_spec` turns them into: *for every sequence of destination sizes ≥ 1 the
concatenation of the delivered rows is exactly `rem s`*.  The scripted upstream
is lawful (`up_lawful`), so "for every lawful upstream" covers every chunking,
zero-row reads and both placements of EOF; operator readers are shown lawful
*given* a lawful upstream, hence pipelines of them are lawful.
-/
namespace BS.Reader

/-- mapReader refines `List.map`. -/
theorem map_lawful {α β} (U : Rd α) (f : α → β) (rem : U.σ → List α) (mu : U.σ → Nat)
    (h : Lawful U rem mu) : Lawful (mapRd U f) (fun s => (rem s).map f) mu := by
  refine ⟨?_, ?_, ?_, ?_, ?_, ?_⟩
  · intro s k; simpa [mapRd] using h.len s k
  · intro s k
    simp only [mapRd]
    rw [← List.map_append, h.split s k]
  · intro s k he
    simp only [mapRd] at he ⊢
    rw [h.eof s k he]; rfl
  · intro s k; exact h.mono s k
  · intro s k hk he hm
    simp only [mapRd] at he hm ⊢
    exact h.prog s k hk (by simpa using he) hm
  · intro s k he k'
    simp only [mapRd] at he ⊢
    rw [h.sticky s k he k']; rfl

/-- frameReader delivers the frame's rows. -/
theorem frame_lawful (α : Type) : Lawful (frameRd α) (fun rows => rows) (fun _ => 0) := by
  refine ⟨?_, ?_, ?_, ?_, ?_, ?_⟩
  · intro (s : List α) k; simp only [frameRd, List.length_take]; omega
  · intro (s : List α) k; simp only [frameRd]; exact List.take_append_drop k s
  · intro (s : List α) k he
    simp only [frameRd] at he ⊢
    split at he
    · rename_i h; simpa using h
    · cases he
  · intro s k; exact Nat.le_refl _
  · intro (s : List α) k hk he hm
    exfalso
    simp only [frameRd] at he hm
    have hs : s = [] := by
      cases s with
      | nil => rfl
      | cons a as =>
        cases k with
        | zero => omega
        | succ k => simp at he
    subst hs
    simp at hm
  · intro (s : List α) k he k'
    simp only [frameRd] at he ⊢
    split at he
    · rename_i h
      have : s.drop k = [] := by simpa using h
      simp [this]
    · cases he

/-- headReader refines `List.take n`. -/
theorem head_lawful {α} (U : Rd α) (rem : U.σ → List α) (mu : U.σ → Nat) (h : Lawful U rem mu) :
    Lawful (headRd U) (fun s => (rem s.up).take s.n) (fun s => mu s.up) := by
  refine ⟨?_, ?_, ?_, ?_, ?_, ?_⟩
  · intro (s : HeadS U.σ) k
    simp only [headRd]
    split
    · simp
    · have := h.len s.up (min k s.n); simp only; omega
  · intro (s : HeadS U.σ) k
    simp only [headRd]
    split
    · rename_i hn; simp [hn]
    · have hl := h.len s.up (min k s.n)
      have hs := h.split s.up (min k s.n)
      simp only
      rw [← hs, List.take_append]
      have : (U.read s.up (min k s.n)).2.1.take s.n = (U.read s.up (min k s.n)).2.1 :=
        List.take_of_length_le (by omega)
      rw [this]
  · intro (s : HeadS U.σ) k he
    simp only [headRd] at he ⊢
    split at he
    · rename_i hn; split <;> simp_all
    · rename_i hn
      simp only [hn, if_false] at ⊢
      simp only at he
      rw [h.eof s.up (min k s.n) he]; simp
  · intro (s : HeadS U.σ) k
    simp only [headRd]
    split
    · exact Nat.le_refl _
    · exact h.mono s.up (min k s.n)
  · intro (s : HeadS U.σ) k hk he hm
    simp only [headRd] at he hm ⊢
    split at he
    · rename_i hn; simp [hn] at hm
    · rename_i hn
      simp only [hn, if_false] at hm ⊢
      exact h.prog s.up (min k s.n) (by omega) he hm
  · intro (s : HeadS U.σ) k he k'
    simp only [headRd] at he ⊢
    split at he
    · rename_i hn; simp [hn]
    · rename_i hn
      simp only [hn, if_false] at he ⊢
      have hst := h.sticky s.up (min k s.n) he
      split
      · rfl
      · simp only [hst]; simp

/-! ### multiReader -/

def multiM {σ} (mu : σ → Nat) (q : List σ) : Nat := (q.map fun s => mu s + 1).sum

theorem multiLoop_spec {α} (U : Rd α) (rem : U.σ → List α) (mu : U.σ → Nat) (h : Lawful U rem mu) :
    ∀ (fuel : Nat) (q : List U.σ) (k : Nat),
      let r := multiLoop U fuel q k
      r.2.1 ++ r.1.flatMap rem = q.flatMap rem ∧ r.2.1.length ≤ k ∧ multiM mu r.1 ≤ multiM mu q ∧
      (r.2.2 = .eof → r.1 = [] ∧ r.2.1 = []) ∧
      (multiM mu q < fuel → 0 < k → r.2.2 = .more → r.2.1 ≠ []) := by
  intro fuel
  induction fuel with
  | zero => intro q k; simp [multiLoop]
  | succ fuel ih =>
    intro q k
    cases q with
    | nil => simp [multiLoop]
    | cons s q =>
      simp only [multiLoop]
      have hsp := h.split s k
      have hln := h.len s k
      have hmo := h.mono s k
      split
      · rename_i he
        have hre := h.eof s k he
        rw [hre, List.append_nil] at hsp
        split
        · rename_i hem
          have hem' : (U.read s k).2.1 = [] := by simpa using hem
          obtain ⟨a, b, c, d, e⟩ := ih q k
          refine ⟨?_, b, ?_, d, ?_⟩
          · rw [a]; simp [← hsp, hem']
          · simp only [multiM, List.map_cons, List.sum_cons] at c ⊢; omega
          · intro hf hk; apply e _ hk
            simp only [multiM, List.map_cons, List.sum_cons] at hf ⊢; omega
        · rename_i hne
          refine ⟨by simp [hsp], hln, ?_, (fun hh => nomatch hh), fun _ _ _ => by simpa using hne⟩
          simp only [multiM, List.map_cons, List.sum_cons]; omega
      · rename_i hm
        have hm' : (U.read s k).2.2 = .more := by
          cases hst : (U.read s k).2.2 <;> simp_all
        split
        · rename_i hem
          have hem' : (U.read s k).2.1 = [] := by simpa using hem
          obtain ⟨a, b, c, d, e⟩ := ih ((U.read s k).1 :: q) k
          rw [hem', List.nil_append] at hsp
          refine ⟨?_, b, ?_, d, ?_⟩
          · rw [a]; simp [hsp]
          · simp only [multiM, List.map_cons, List.sum_cons] at c ⊢; omega
          · intro hf hk
            have := h.prog s k hk hem' hm'
            apply e _ hk
            simp only [multiM, List.map_cons, List.sum_cons] at hf ⊢; omega
        · rename_i hne
          refine ⟨by simp [← hsp], hln, ?_, (fun hh => nomatch hh), fun _ _ _ => by simpa using hne⟩
          simp only [multiM, List.map_cons, List.sum_cons]; omega

/-- The (repaired) multi-reader is the concatenation of its constituents: no row of
a constituent is dropped, whatever way it signals its end. -/
theorem multi_lawful {α} (U : Rd α) (rem : U.σ → List α) (mu : U.σ → Nat) (h : Lawful U rem mu)
    (fuelOf : List U.σ → Nat) (hf : ∀ q, multiM mu q < fuelOf q) :
    Lawful (multiRd U fuelOf) (fun q => q.flatMap rem) (multiM mu) := by
  refine ⟨?_, ?_, ?_, ?_, ?_, ?_⟩
  · intro (q : List U.σ) k; exact (multiLoop_spec U rem mu h (fuelOf q) q k).2.1
  · intro (q : List U.σ) k; exact (multiLoop_spec U rem mu h (fuelOf q) q k).1
  · intro (q : List U.σ) k he
    have := (multiLoop_spec U rem mu h (fuelOf q) q k).2.2.2.1 he
    show List.flatMap rem (multiLoop U (fuelOf q) q k).1 = []
    rw [this.1]; rfl
  · intro (q : List U.σ) k; exact (multiLoop_spec U rem mu h (fuelOf q) q k).2.2.1
  · intro (q : List U.σ) k hk he hm
    exact absurd he ((multiLoop_spec U rem mu h (fuelOf q) q k).2.2.2.2 (hf q) hk hm)
  · intro (q : List U.σ) k he k'
    have := (multiLoop_spec U rem mu h (fuelOf q) q k).2.2.2.1 he
    show multiLoop U (fuelOf (multiLoop U (fuelOf q) q k).1) (multiLoop U (fuelOf q) q k).1 k' = _
    rw [this.1]
    have hpos := hf []
    cases hfe : fuelOf ([] : List U.σ) with
    | zero => rw [hfe] at hpos; simp [multiM] at hpos
    | succ n =>
      show multiLoop U (n + 1) [] k' = ((multiLoop U (fuelOf q) q k).1, [], .eof)
      rw [this.1]; simp [multiLoop]

/-- The defect that was in /repo (sliceio/reader.go:90-97, exec/local.go:252-256):
a constituent that returns its last rows together with EOF had them dropped. -/
def multiLoopBuggy {α} (U : Rd α) : Nat → List U.σ → Nat → List U.σ × List α × St
  | 0, q, _ => (q, [], .more)
  | _, [], _ => ([], [], .eof)
  | fuel+1, s :: q, k =>
    let r := U.read s k
    if r.2.2 = .eof then multiLoopBuggy U fuel q k
    else if r.2.1.isEmpty then multiLoopBuggy U fuel (r.1 :: q) k
    else (r.1 :: q, r.2.1, .more)

theorem multiBuggy_loses_rows :
    ∃ (q : List (List Nat)), (multiLoopBuggy (frameRd Nat) 10 q 4).2.1 ++
      (multiLoopBuggy (frameRd Nat) 10 q 4).1.flatMap (fun r => r) ≠ q.flatMap (fun r => r) :=
  ⟨[[1, 2, 3], [4, 5]], by decide⟩

/-! ### filterReader -/

theorem filterLoop_spec {α} (U : Rd α) (p : α → Bool) (rem : U.σ → List α) (mu : U.σ → Nat)
    (h : Lawful U rem mu) :
    ∀ (fuel : Nat) (s : U.σ) (room : Nat) (acc : List α),
      let r := filterLoop U p fuel s room acc
      ∃ got, r.2.1 = acc ++ got ∧ got ++ (rem r.1).filter p = (rem s).filter p ∧ got.length ≤ room ∧
        mu r.1 + (rem r.1).length ≤ mu s + (rem s).length ∧
        (r.2.2 = true → rem r.1 = [] ∧ ∀ k', U.read r.1 k' = (r.1, [], .eof)) ∧
        (mu s + (rem s).length < fuel → r.2.2 = false → got.length = room) := by
  intro fuel
  induction fuel with
  | zero =>
    intro s room acc
    exact ⟨[], by simp [filterLoop], by simp [filterLoop], by simp, by simp [filterLoop],
      by simp [filterLoop], fun hf => by omega⟩
  | succ fuel ih =>
    intro s room acc
    simp only [filterLoop]
    split
    · rename_i hr
      exact ⟨[], by simp, by simp, by simp, Nat.le_refl _, by simp, fun _ _ => by simp [hr]⟩
    · rename_i hr
      have hsp := h.split s room
      have hln := h.len s room
      have hmo := h.mono s room
      have hlen : (rem s).length = (U.read s room).2.1.length + (rem (U.read s room).1).length := by
        rw [← hsp, List.length_append]
      have hfl : ((U.read s room).2.1.filter p).length ≤ (U.read s room).2.1.length := List.length_filter_le _ _
      split
      · rename_i he
        have hre := h.eof s room he
        refine ⟨(U.read s room).2.1.filter p, rfl, ?_, by omega, by simp only; omega, fun _ => ⟨hre, h.sticky s room he⟩,
          fun _ hh => by simp at hh⟩
        rw [← hsp, List.filter_append]
      · rename_i hne
        have hm : (U.read s room).2.2 = .more := by
          cases hst : (U.read s room).2.2 <;> simp_all
        obtain ⟨got, a, b, c, d, e, f⟩ := ih (U.read s room).1 (room - ((U.read s room).2.1.filter p).length)
          (acc ++ (U.read s room).2.1.filter p)
        refine ⟨(U.read s room).2.1.filter p ++ got, by rw [a, List.append_assoc], ?_, ?_, by omega, e, ?_⟩
        · rw [List.append_assoc, b, ← hsp, List.filter_append]
        · simp only [List.length_append]; omega
        · intro hf hh
          have hdec : mu (U.read s room).1 + (rem (U.read s room).1).length < fuel := by
            by_cases hem : (U.read s room).2.1 = []
            · have := h.prog s room (by omega) hem hm
              rw [hem] at hlen; simp at hlen; omega
            · have : 0 < (U.read s room).2.1.length := List.length_pos_iff.mpr hem
              omega
          have := f hdec hh
          simp only [List.length_append]; omega

/-- filterReader refines `List.filter` (for any fuel function that covers the upstream's measure). -/
theorem filter_lawful {α} (U : Rd α) (p : α → Bool) (rem : U.σ → List α) (mu : U.σ → Nat)
    (h : Lawful U rem mu) (fuelOf : U.σ → Nat) (hf : ∀ s, mu s + (rem s).length < fuelOf s) :
    Lawful (filterRd U p fuelOf)
      (fun s => if s.eof then [] else (rem s.up).filter p)
      (fun s => if s.eof then 0 else mu s.up + (rem s.up).length + 1) := by
  refine ⟨?_, ?_, ?_, ?_, ?_, ?_⟩
  · intro (s : FilterS U.σ) k
    simp only [filterRd]
    split
    · simp
    · obtain ⟨got, a, _, c, _⟩ := filterLoop_spec U p rem mu h (fuelOf s.up) s.up k []
      simp only [a, List.nil_append]; exact c
  · intro (s : FilterS U.σ) k
    simp only [filterRd]
    split
    · rename_i he; simp [he]
    · rename_i he
      obtain ⟨got, a, b, c, d, e, f⟩ := filterLoop_spec U p rem mu h (fuelOf s.up) s.up k []
      simp only [a, List.nil_append, he]
      cases hfl : (filterLoop U p (fuelOf s.up) s.up k []).2.2
      · simpa using b
      · have := (e hfl).1
        rw [this] at b
        simpa using b
  · intro (s : FilterS U.σ) k he
    simp only [filterRd] at he ⊢
    split
    · rename_i hs; simp [hs]
    · rename_i hs
      simp only [hs] at he ⊢
      cases hfl : (filterLoop U p (fuelOf s.up) s.up k []).2.2
      · simp [hfl] at he
      · simp
  · intro (s : FilterS U.σ) k
    simp only [filterRd]
    split
    · rename_i hs; simp [hs]
    · rename_i hs
      obtain ⟨got, a, b, c, d, e, f⟩ := filterLoop_spec U p rem mu h (fuelOf s.up) s.up k []
      simp only [hs, Bool.false_eq_true, if_false]
      split
      · omega
      · omega
  · intro (s : FilterS U.σ) k hk he hm
    exfalso
    simp only [filterRd] at he hm
    split at he
    · rename_i hs; simp [hs] at hm
    · rename_i hs
      simp only [hs] at hm
      obtain ⟨got, a, b, c, d, e, f⟩ := filterLoop_spec U p rem mu h (fuelOf s.up) s.up k []
      cases hfl : (filterLoop U p (fuelOf s.up) s.up k []).2.2
      · have := f (hf s.up) hfl
        rw [a] at he
        simp only [List.nil_append] at he
        rw [he] at this
        simp at this; omega
      · simp [hfl] at hm
  · intro (s : FilterS U.σ) k he k'
    simp only [filterRd] at he ⊢
    split at he
    · rename_i hs; simp [hs]
    · rename_i hs
      cases hfl : (filterLoop U p (fuelOf s.up) s.up k []).2.2
      · simp [hfl] at he
      · simp [hs, hfl]

/-! ### flatmapReader -/

/-- flatmapReader refines `List.flatMap`: the stash of a result that did not fit, the buffered
inputs and the upstream's remaining rows are delivered in order, nothing twice, nothing lost,
whatever the destination sizes and the upstream's chunking (proof in `BS.Proofs.Flat`). -/
theorem flat_lawful {α β} (U : Rd α) (g : α → List β) (rem : U.σ → List α) (mu : U.σ → Nat)
    (h : Lawful U rem mu) (fuelOf : U.σ → Nat) (hf : ∀ s, mu s + (rem s).length + 3 ≤ fuelOf s) :
    Lawful (flatRd U g fuelOf)
      (fun s => s.outb ++ s.inb.flatMap g ++ (if s.eof then [] else (rem s.up).flatMap g)) (fun _ => 0) :=
  flat_lawful' U g rem mu h fuelOf hf

/-- a flatmap over any scripted upstream drains to `rows.flatMap g` -/
theorem flat_drain {α β} (g : α → List β) (u : Up α) (hu : u.ended = false)
    (dest : Nat → Nat) (hd : ∀ i, 0 < dest i) :
    let F := flatRd (upRd α) g (fun s => Up.mu s + (Up.rem s).length + 3)
    drain F dest ((u.rest.flatMap g).length + 1) 0 ⟨u, [], [], false⟩ = u.rest.flatMap g := by
  intro F
  have hF := flat_lawful (upRd α) g Up.rem Up.mu (up_lawful α) (fun s => Up.mu s + (Up.rem s).length + 3)
    (fun s => Nat.le_refl _)
  have := drain_spec F _ _ hF dest hd ((u.rest.flatMap g).length + 1) 0 ⟨u, [], [], false⟩
    (by simp [Up.rem, hu])
  rw [this]
  simp [Up.rem, hu]

example : drain (flatRd (upRd Nat) (fun x => List.replicate x x) (fun s => Up.mu s + (Up.rem s).length + 3))
    (fun _ => 2) 20 0 ⟨⟨[3, 0, 2], [(1, false), (0, false), (5, true)], false⟩, [], [], false⟩ = [3, 3, 3, 2, 2] := by
  decide

/-! ### sliceio.Scanner -/

/-- **scanner_spec**: `for sc.Scan(…)` over any lawful reader — in particular over a pipeline of the readers above — yields
exactly the rows that reader still holds, in order, for every internal buffer size `c ≥ 1`. -/
theorem scanner_spec {α} (U : Rd α) (rem : U.σ → List α) (mu : U.σ → Nat) (h : Lawful U rem mu) (c : Nat) (hc : 0 < c)
    (fuelOf : U.σ → Nat) (hf : ∀ s, mu s + (rem s).length < fuelOf s) (s : U.σ) :
    scanAll U c fuelOf ((rem s).length + 1) ⟨s, [], false⟩ = rem s := by
  have := scanAll_spec U rem mu h c hc fuelOf hf ((rem s).length + 1) ⟨s, [], false⟩ (by simp [srem])
  simpa [srem] using this

/-- over every scripted upstream (every chunking, zero-row reads, both placements of end-of-stream) -/
theorem scanner_over_script {α} (u : Up α) (hu : u.ended = false) (c : Nat) (hc : 0 < c) :
    scanAll (upRd α) c (fun s => Up.mu s + (Up.rem s).length + 1) (u.rest.length + 1) ⟨u, [], false⟩ = u.rest := by
  have := scanner_spec (upRd α) Up.rem Up.mu (up_lawful α) c hc (fun s => Up.mu s + (Up.rem s).length + 1)
    (fun s => Nat.lt_succ_self _) u
  simpa [Up.rem, hu] using this

example : scanAll (upRd Nat) 2 (fun s => Up.mu s + (Up.rem s).length + 1) 9
    ⟨⟨[3, 0, 2, 7], [(1, false), (0, false), (5, false), (0, true)], false⟩, [], false⟩ = [3, 0, 2, 7] := by decide

/-! ### corollaries: the drained row sequence, for every destination-size sequence -/

/-- A pipeline `Head n ∘ Filter p ∘ Map f` over any scripted upstream delivers exactly
`((rows.map f).filter p).take n`, whatever the chunking of the upstream and the
destination sizes (an instance of how lawful readers compose). -/
theorem pipeline_example {α β} (f : α → β) (p : β → Bool) (n : Nat) (u : Up α) (hu : u.ended = false)
    (dest : Nat → Nat) (hd : ∀ i, 0 < dest i) :
    let M := mapRd (upRd α) f
    let fuelOf : Up α → Nat := fun s => Up.mu s + (Up.rem s).length + 1
    let F := filterRd M p fuelOf
    let H := headRd F
    ∃ fuel, drain H dest fuel 0 ⟨⟨u, false⟩, n⟩ = ((u.rest.map f).filter p).take n := by
  intro M fuelOf F H
  have hM := map_lawful (upRd α) f Up.rem Up.mu (up_lawful α)
  have hF := filter_lawful M p _ _ hM fuelOf (by intro s; simp [fuelOf])
  have hH := head_lawful F _ _ hF
  refine ⟨Up.mu u + ((Up.rem u).map f).length + 1 +
      ((((Up.rem u).map f).filter p).take n).length + 1, ?_⟩
  have := drain_spec H _ _ hH dest hd (Up.mu u + ((Up.rem u).map f).length + 1 +
      ((((Up.rem u).map f).filter p).take n).length + 1) 0 ⟨⟨u, false⟩, n⟩ (by simp)
  rw [this]
  simp [Up.rem, hu]

/-- The defect that was in /repo (slice.go:984-993): `headReader` handed the whole
destination to its upstream and shortened `n` afterwards, so rows beyond the returned
count were written.  `dirty` = rows written beyond what is returned. -/
def headBuggyDirty {α} (U : Rd α) (s : HeadS U.σ) (k : Nat) : Nat :=
  (U.read s.up k).2.1.length - min (U.read s.up k).2.1.length s.n

theorem headBuggy_writes_beyond :
    ∃ (s : HeadS (List Nat)) (k : Nat), headBuggyDirty (frameRd Nat) s k ≠ 0 :=
  ⟨⟨[1, 2, 3, 4, 5], 2⟩, 4, by decide⟩

end BS.Reader
