import BS.Model.Loss
/-!
# C02 — machine loss yields the correct rows or an error, never wrong rows

`loss_safe`: along *every* sequence of task completions and losses — any tasks lost at any moment, lost
outputs recomputed in any order and in another representation — every output that exists is equivalent to
the output of the failure-free reference run, provided (what the evaluator guarantees, C03
`ready_and_needed_only`, and the executor checks by reading only committed outputs, C15) a task is run only
when all its dependencies have outputs, and `f` respects the equivalence.  So when the roots are all
present the result is that of a failure-free run; otherwise the run is not finished (it recomputes, or
reports an error after `maxConsecutiveLost` attempts — C06 `runTask_persistent`).
-/
namespace BS.Loss

variable {V : Type} (R : V → V → Prop)

/-- `vs` and `ws` are related element-wise -/
def Rel : List V → List V → Prop
  | [], [] => True
  | v :: vs, w :: ws => R v w ∧ Rel vs ws
  | _, _ => False

/-- a legal event: a task runs only with all dependency outputs present, and produces an output
equivalent to `f` of them -/
def Legal (g : Graph V) (s : St V) : Ev V → Prop
  | .run t v => t < g.n ∧ (∀ d ∈ g.deps t, d < t) ∧
      ∃ ins, (g.deps t).map (fun d => s.get d) = ins.map some ∧ R v (g.f t ins)
  | .lose _ => True

/-- every output present is equivalent to the reference output of its task -/
def Inv (g : Graph V) (s : St V) : Prop :=
  s.length = g.n ∧ ∀ t v, s.get t = some v → ∃ r, (refVals g g.n)[t]? = some r ∧ R v r

theorem refVals_length (g : Graph V) (k : Nat) : (refVals g k).length = k := by
  induction k with
  | zero => rfl
  | succ k ih => simp [refVals, ih]

theorem refVals_prefix (g : Graph V) (k m : Nat) (t : Nat) (ht : t < k) (hkm : k ≤ m) :
    (refVals g m)[t]? = (refVals g k)[t]? := by
  induction m with
  | zero => have : k = 0 := by omega
            subst this; rfl
  | succ m ih =>
    by_cases h : k = m + 1
    · subst h; rfl
    · have hk : k ≤ m := by omega
      rw [← ih hk]
      simp only [refVals]
      rw [List.getElem?_append_left (by rw [refVals_length]; omega)]

theorem refVals_at (g : Graph V) (t : Nat) (ht : t < g.n) :
    (refVals g g.n)[t]? = some (g.f t ((g.deps t).filterMap fun d => (refVals g t)[d]?)) := by
  rw [refVals_prefix g (t + 1) g.n t (by omega) (by omega)]
  simp only [refVals]
  rw [List.getElem?_append_right (by rw [refVals_length]; omega)]
  simp [refVals_length]

variable (hcongr : ∀ (g : Graph V) t (xs ys : List V), Rel R xs ys → R (g.f t xs) (g.f t ys))
variable (htrans : ∀ a b c, R a b → R b c → R a c)

include hcongr htrans in
theorem step_inv (g : Graph V) (s : St V) (e : Ev V) (hi : Inv R g s) (hl : Legal R g s e) : Inv R g (apply s e) := by
  obtain ⟨hlen, hv⟩ := hi
  cases e with
  | lose ts =>
    refine ⟨by simp [apply, hlen], ?_⟩
    intro t v h
    apply hv t v
    simp only [apply, St.get] at h ⊢
    rw [List.getElem?_map] at h
    cases hz : s.zipIdx[t]? with
    | none => rw [hz] at h; simp at h
    | some p =>
      rw [hz] at h
      obtain ⟨o, i⟩ := p
      have hzi := List.getElem?_zipIdx (l := s) (i := 0) (j := t)
      rw [hz] at hzi
      cases hs : s[t]? with
      | none => rw [hs] at hzi; simp at hzi
      | some o' =>
        rw [hs] at hzi
        simp only [Option.map_some, Option.some.injEq, Prod.mk.injEq] at hzi
        obtain ⟨rfl, rfl⟩ := hzi
        simp only [Option.map_some, Option.join_some] at h ⊢
        split at h
        · cases h
        · exact h
  | run t v =>
    obtain ⟨htn, hdeps, ins, hins, hR⟩ := hl
    refine ⟨by simp [apply, hlen], ?_⟩
    intro u w h
    simp only [apply, St.get] at h
    by_cases hut : u = t
    · subst hut
      rw [List.getElem?_set_self (by omega)] at h
      simp only [Option.join_some, Option.some.injEq] at h
      subst h
      refine ⟨_, refVals_at g u htn, ?_⟩
      refine htrans _ _ _ hR (hcongr g u _ _ ?_)
      -- the inputs read are equivalent to the reference outputs of the dependencies
      have key : ∀ (ds : List Nat) (ins : List V), (∀ d ∈ ds, d < u) → ds.map (fun d => s.get d) = ins.map some →
          Rel R ins (ds.filterMap fun d => (refVals g u)[d]?) := by
        intro ds
        induction ds with
        | nil => intro ins _ h; cases ins <;> simp_all [Rel]
        | cons d ds ih =>
          intro ins hd h
          cases ins with
          | nil => simp at h
          | cons i ins =>
            simp only [List.map_cons, List.cons.injEq] at h
            obtain ⟨r, hr, hRr⟩ := hv d i h.1
            have hdu := hd d (by simp)
            rw [refVals_prefix g u g.n d hdu (by omega)] at hr
            simp only [List.filterMap_cons, hr]
            exact ⟨hRr, ih ins (fun x hx => hd x (by simp [hx])) h.2⟩
      exact key (g.deps u) ins hdeps hins
    · rw [List.getElem?_set_ne (Ne.symm hut)] at h
      exact hv u w h

include hcongr htrans in
/-- **C02**: whatever is lost and recomputed, whenever, every output that exists is equivalent to the
failure-free one -/
theorem loss_safe (g : Graph V) : ∀ (evs : List (Ev V)) (s : St V), Inv R g s →
    (∀ (pre : List (Ev V)) (e : Ev V) (post : List (Ev V)), evs = pre ++ e :: post → Legal R g (pre.foldl apply s) e) →
    Inv R g (evs.foldl apply s) := by
  intro evs
  induction evs with
  | nil => intro s hi _; exact hi
  | cons e evs ih =>
    intro s hi hl
    simp only [List.foldl_cons]
    apply ih _ (step_inv R hcongr htrans g s e hi (hl [] e evs rfl))
    intro pre e' post h
    have := hl (e :: pre) e' post (by rw [h]; rfl)
    simpa using this

theorem inv_init (g : Graph V) : Inv R g (List.replicate g.n none) := by
  refine ⟨by simp, ?_⟩
  intro t v h
  simp only [St.get] at h
  rw [List.getElem?_replicate] at h
  split at h <;> simp at h

end BS.Loss

namespace BS.Loss

/-- non-vacuity: a three-task graph (two sources, one consumer summing them), the first source lost after the
consumer ran, recomputed, the consumer lost and recomputed -/
def demoG : Graph Nat := ⟨3, fun t => if t = 2 then [0, 1] else [], fun t ins => if t = 2 then ins.sum else t + 5⟩

example : (([Ev.run 0 5, .run 1 6, .run 2 11, .lose [0, 2], .run 0 5, .run 2 11] : List (Ev Nat)).foldl apply
    (List.replicate 3 none)) = [some 5, some 6, some 11] := by decide

example : refVals demoG 3 = [5, 6, 11] := by decide

end BS.Loss
