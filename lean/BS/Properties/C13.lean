import BS.Model.Cache
import BS.Properties.C04
/-!
# C13 — caching is transparent, complete-or-absent, and skips recomputation

`evalC f` evaluates a program against a set of cache files `f`: a shard of a cache node that is
*served* (CachePartial: its file exists; Cache: the files of all shards exist) is read from its file, the
others are computed.  `cached_run_refines`: if every file holds the rows the reference prescribes for
its shard (`FilesOK` — what complete-or-absent writing maintains, checked file by file on every run by
the correspondence), then every node and the result agree with the reference evaluation, which ignores
the cache altogether (`cache_transparent`).  Which shards are served is a function of the files alone
(`served_*`), so the driver and the workers agree on it when they are given the same answer.
-/
namespace BS.Exec
open BS.Prog BS.KV BS.Sem

theorem Sim.symm' {a b : Shards} (h : Sim a b) : Sim b a := by
  refine ⟨h.ord.symm, ?_⟩
  have : All2 (RowsSim b.ordered) a.rows b.rows := by rw [← h.ord]; exact h.rows
  exact All2.trans_symm (R := RowsSim b.ordered) (fun _ _ => RowsSim.symm) (fun _ _ _ => RowsSim.trans)
    (All2.refl (RowsSim.rfl' _) b.rows) this

theorem wfOp_sim {env env' res res' : List Shards} (he : All2 Sim env env') (hr : All2 Sim res res') (op : Op) :
    wfOp env res op = wfOp env' res' op := by
  cases op <;> simp only [wfOp]
  exact (getRef_sim he hr _).ord

/-- the reference respects agreement of its inputs -/
theorem evalOp_congr {env env' res res' : List Shards} (he : All2 Sim env env') (hr : All2 Sim res res') (op : Op)
    (hwf : wfOp env' res' op = true) : Sim (evalOp env res op) (evalOp env' res' op) := by
  have h1 := execOp_sim demoσ demoσ_valid 0 he hr op hwf
  have h2 := execOp_sim demoσ demoσ_valid 0 (All2.refl Sim.rfl' env) (All2.refl Sim.rfl' res) op
    (by rw [wfOp_sim he hr op]; exact hwf)
  exact Sim.join (Sim.symm' h2) (Sim.symm' h1)

theorem range_map_getD {α} (l : List α) (d : α) : (List.range l.length).map (fun p => l.getD p d) = l := by
  apply List.ext_getElem
  · simp
  · intro i h1 h2
    simp [List.getD_eq_getElem?_getD, h2]

end BS.Exec

namespace BS.Cache
open BS.Prog BS.KV BS.Sem BS.Exec

/-- in the reference a cache operator is the identity -/
theorem cache_transparent (env res : List Shards) (s : Ref) (part : Bool) (name : String) :
    evalOp env res (.cache s part name) = getRef env res s := rfl

theorem served_partial_iff (f : Files) (name : String) (n p : Nat) :
    served f name true n p = true ↔ (f.get name p).isSome = true := by simp [served]

/-- Cache serves a shard only if *every* shard's file is present -/
theorem served_all_iff (f : Files) (name : String) (n p : Nat) :
    served f name false n p = true ↔ ∀ q, q < n → (f.get name q).isSome = true := by
  simp [served]

/-- with no files nothing is served: everything is computed -/
theorem served_nil (name : String) (part : Bool) (n p : Nat) (hn : 0 < n) : served [] name part n p = false := by
  cases part
  · simp only [served, Bool.false_eq_true, if_false, List.all_eq_false]
    exact ⟨0, by simp [hn], by simp [Files.get]⟩
  · simp [served, Files.get]

/-- the files of one cache operator hold what the reference prescribes for its shards -/
def fileOKAt (f : Files) (res env' : List Shards) : Op → Prop
  | .cache s _ name => ∀ p rows, f.get name p = some rows →
      RowsSim (getRef env' res s).ordered rows ((getRef env' res s).rows.getD p [])
  | _ => True

/-- every file holds what the reference prescribes for its shard -/
def FilesOK (f : Files) (res : List Shards) : List Op → List Shards → Prop
  | [], _ => True
  | op :: ops, env' => fileOKAt f res env' op ∧ FilesOK f res ops (env' ++ [evalOp env' res op])

theorem evalOpC_sim (f : Files) {env env' res : List Shards} (he : All2 Sim env env') (op : Op)
    (hwf : wfOp env' res op = true)
    (hf : fileOKAt f res env' op) :
    Sim (evalOpC f env res op) (evalOp env' res op) := by
  have hr := All2.refl Sim.rfl' res
  cases op with
  | cache s part name =>
    have hs := getRef_sim he hr s
    simp only [evalOpC, cacheOp, cache_transparent]
    refine ⟨hs.ord, ?_⟩
    rw [hs.len]
    have hrw : (getRef env' res s).rows = (List.range (getRef env' res s).rows.length).map
        (fun p => (getRef env' res s).rows.getD p []) := (range_map_getD _ _).symm
    rw [hrw]
    simp only [List.length_map, List.length_range]
    refine All2.range_map _ _ _ fun p hp => ?_
    split
    · rename_i hsv
      cases hg : f.get name p with
      | none =>
        -- a served shard always has its file
        exfalso
        cases part
        · have := (served_all_iff f name _ p).mp hsv p hp
          rw [hg] at this; cases this
        · have := (served_partial_iff f name _ p).mp hsv
          rw [hg] at this; cases this
      | some rows => simp only [Option.getD_some]; rw [hs.ord]; exact hf p rows hg
    · exact hs.rows.getD [] [] (RowsSim.rfl' _ _) p
  | _ => all_goals exact evalOp_congr he hr _ hwf

theorem evalNodesC_sim (f : Files) (res : List Shards) :
    ∀ (ops : List Op) {env env' : List Shards}, All2 Sim env env' → wfNodes res ops env' = true →
      FilesOK f res ops env' → All2 Sim (evalNodesC f res ops env) (evalNodes res ops env') := by
  intro ops
  induction ops with
  | nil => intro env env' he _ _; exact he
  | cons op ops ih =>
    intro env env' he hwf hf
    simp only [wfNodes, Bool.and_eq_true] at hwf
    simp only [evalNodesC, evalNodes]
    exact ih (he.append (.cons (evalOpC_sim f he op hwf.1 hf.1) .nil)) hwf.2 hf.2

/-- **C13 (transparency)**: with files that hold what the reference prescribes, a run that reads every
served shard from its file yields, node by node, the rows of the reference (which does not know the cache) -/
theorem cached_run_refines (f : Files) (p : Program) (res : List Shards)
    (hwf : wfNodes res p.nodes [] = true) (hf : FilesOK f res p.nodes []) :
    All2 Sim (evalNodesC f res p.nodes []) (eval p res).1 :=
  evalNodesC_sim f res p.nodes All2.nil hwf hf

/-- with an empty cache the run *is* the reference run -/
theorem FilesOK_nil (res : List Shards) : ∀ (ops : List Op) (env : List Shards), FilesOK [] res ops env := by
  intro ops
  induction ops with
  | nil => intro _; trivial
  | cons op ops ih =>
    intro env
    refine ⟨?_, ih _⟩
    cases op <;> simp only [fileOKAt]
    intro p rows h; simp [Files.get] at h

/-- **why every process must compile with the driver's view of the files (D25)**: which shards are computed at all depends
on the set of files consulted.  With shard 0 of a complete-or-nothing cache missing the driver demands the upstream of every
shard; a worker that consulted the files after shard 0 had been rewritten would demand none of them (and, in the real
engine, would not even register the upstream tasks the driver then asks it to run).  The engine therefore ships the driver's
decisions in a frozen compile environment — checked on every run by C08 (`envwritable`). -/
theorem demand_depends_on_view :
    let p : Program := ⟨[.const 2 [(1, 1), (2, 2)], .map (.node 0) "inc" .mat, .cache (.node 1) false "a"], .node 2⟩
    let driver : Files := [(("a", 1), [(3, 4)])]
    let worker : Files := [(("a", 0), [(2, 2)]), (("a", 1), [(3, 4)])]
    demand driver p (fun _ => 2) ≠ demand worker p (fun _ => 2) := by decide

example : served [(("a", 0), [(1, 1)]), (("a", 1), [])] "a" false 2 1 = true := by decide
example : served [(("a", 0), [(1, 1)])] "a" false 2 0 = false := by decide
example : served [(("a", 0), [(1, 1)])] "a" true 2 0 = true := by decide

end BS.Cache
