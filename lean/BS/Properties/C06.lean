import BS.Model.Fault
/-!
# C06 — user errors and panics surface as errors from Run

The decision logic, stated outright: every failure mode of a user function leads to a task attempt
that is either fatal (`TaskErr`, evaluation stops with the error) or lost (resubmitted, at most
`maxConsecutiveLost` times in a row); `runTask` therefore ends with an error for every persistent
failure and with success when a temporary failure goes away.
-/
namespace BS.Fault

/-- a failed attempt is never taken for a success -/
theorem attempt_not_ok (m : Mode) : attemptState m ≠ .ok := by cases m <;> decide

/-- errors, panics and out-of-range partitions are fatal to the task; temporary errors are retried -/
theorem attempt_fatal_iff (m : Mode) : attemptState m = .err ↔ m ≠ .tmp := by cases m <;> decide

theorem attempt_tmp_lost : attemptState .tmp = .lost := by decide

/-- the worker never reports an application failure as temporary (it would be retried without bound
by the RPC client) -/
theorem revise_app_not_temporary (s : Sev) : (reviseSev true s).isTemporary = false := by cases s <;> decide

/-- only application errors are fatal to a task: any other attempt failure is retried -/
theorem revise_other_not_fatal (s : Sev) : classify (reviseSev false s) = .lost := by cases s <;> decide

theorem runTask_attempts_le (att : Nat → TaskState) :
    ∀ fuel lost i, (runTask att fuel lost i).2 ≤ i + fuel := by
  intro fuel
  induction fuel with
  | zero => intro lost i; simp [runTask]
  | succ fuel ih =>
    intro lost i
    simp only [runTask]
    split
    · simp only; omega
    · simp only; omega
    · split
      · simp only; omega
      · have := ih (lost + 1) (i + 1); omega

/-- **bounded retries**: from `lost` consecutive losses, at most `maxConsecutiveLost - lost` further attempts
are made while attempts keep failing, and the outcome is an error -/
theorem runTask_persistent (att : Nat → TaskState) (h : ∀ i, att i ≠ .ok) :
    ∀ fuel lost i, lost < maxConsecutiveLost → maxConsecutiveLost - lost ≤ fuel →
      (runTask att fuel lost i).1 = .error ∧ (runTask att fuel lost i).2 ≤ i + (maxConsecutiveLost - lost) := by
  intro fuel
  induction fuel with
  | zero => intro lost i hl hf; omega
  | succ fuel ih =>
    intro lost i hl hf
    simp only [runTask]
    cases ha : att i with
    | ok => exact absurd ha (h i)
    | err => exact ⟨rfl, by simp only; omega⟩
    | lost =>
      simp only
      split
      · exact ⟨rfl, by simp only; omega⟩
      · rename_i hlt
        have := ih (lost + 1) (i + 1) (by omega) (by omega)
        exact ⟨this.1, by omega⟩

/-- **a persistent failure is an error within five attempts**, whatever its mode -/
theorem persistent_failure_is_error (m : Mode) :
    (runTask (fun _ => attemptState m) maxConsecutiveLost 0 0).1 = .error ∧
      (runTask (fun _ => attemptState m) maxConsecutiveLost 0 0).2 ≤ maxConsecutiveLost := by
  have := runTask_persistent (fun _ => attemptState m) (fun _ => attempt_not_ok m) maxConsecutiveLost 0 0
    (by decide) (by decide)
  simpa using this

/-- **a temporary failure that goes away does not fail the run**: fewer than five failing attempts
followed by a good one end in success -/
theorem transient_failure_is_success (k : Nat) (hk : k < maxConsecutiveLost) :
    (runTask (fun i => if i < k then attemptState .tmp else .ok) (k + 1) 0 0).1 = .success := by
  have gen : ∀ (j lost i : Nat), i + j = k → lost = i →
      (runTask (fun i => if i < k then attemptState .tmp else .ok) (j + 1) lost i).1 = .success := by
    intro j
    induction j with
    | zero =>
      intro lost i hi _
      simp only [runTask]
      have : ¬ i < k := by omega
      simp [this]
    | succ j ih =>
      intro lost i hi hl
      simp only [runTask]
      have : i < k := by omega
      simp only [this, if_true, attempt_tmp_lost]
      have hlt : ¬ lost + 1 ≥ maxConsecutiveLost := by omega
      simp only [hlt, if_false]
      exact ih (lost + 1) (i + 1) (by omega) (by omega)
  exact gen k 0 0 (by omega) rfl

/-- the demand table: a persistent failure never allows success, a one-shot temporary failure never allows an error -/
theorem demand_persistent (site : Site) (m : Mode) (fired : Nat) (h : 0 < fired) :
    demand site m false fired ≠ .succeed ∧ demand site m false fired ≠ .either := by
  unfold demand
  have : ¬ fired = 0 := by omega
  simp only [this, if_false, Bool.false_eq_true]
  split
  · exact ⟨by decide, by decide⟩
  · split <;> exact ⟨by decide, by decide⟩

theorem demand_transient (site : Site) (fired : Nat) : demand site .tmp true fired = .succeed := by
  unfold demand; split <;> simp

/-- every panic and every reader/writer error must be reported with the user's message -/
theorem demand_message (site : Site) (fired : Nat) (h : 0 < fired) :
    demand site .panic false fired = .failWithMessage ∧
    demand .reader .err false fired = .failWithMessage ∧ demand .writer .err false fired = .failWithMessage := by
  have : ¬ fired = 0 := by omega
  simp [demand, this]

example : (runTask (fun _ => attemptState .tmp) 5 0 0) = (.error, 5) := by decide
example : (runTask (fun i => if i < 2 then attemptState .tmp else .ok) 5 0 0) = (.success, 3) := by decide

end BS.Fault
