import BS.Model.WriteThrough
/-!
# C13 (file protocol) — a shard file is absent or complete

For every script of upstream results (any chunking, empty reads, rows delivered together with EOF, an error at any
call), every placement of failing file operations (create, write, close) and every point at which the consumer stops
calling: the shard file becomes visible only if the consumer was handed end-of-stream without an error, and then it
holds exactly the rows the consumer was handed, which are all the rows of the upstream (`published_complete`,
`published_iff_eof`); an upstream error, a failed file operation or an abandoned reader never leaves a visible file
(`error_never_publishes`, `abandoned_never_publishes`); without failures a reader drained to its end publishes the whole
shard (`drained_publishes`); and the rows handed to the consumer are the upstream's, whatever happens to the file
(`transparent`).
-/
namespace BS.WT

variable {α : Type}

def isPublished : FileSt α → Bool
  | .published _ => true
  | _ => false

/-- the states a reader's own file can be in before a call: not created, or being written with `w` appended -/
def Pre (f : FileSt α) (w : List α) : Prop := (f = .absent ∧ w = []) ∨ f = .writing w

theorem read_spec (f : FileSt α) (w : List α) (hf : Pre f w) (c : Call α) :
    let r := read f c
    (r.2.2 = .ok → Pre r.1 (w ++ r.2.1) ∧ r.2.1 = c.rows ∧ c.st = .more) ∧
    (r.2.2 = .eof → r.1 = .published (w ++ r.2.1) ∧ r.2.1 = c.rows ∧ c.st = .eof) ∧
    (r.2.2 ≠ .ok → r.2.2 ≠ .eof → isPublished r.1 = false) ∧
    (r.2.2 = .upstreamErr → c.st = .err) := by
  rcases hf with ⟨rfl, rfl⟩ | rfl
  · cases hst : c.st <;> cases hc : c.createFails <;> cases hw : c.writeFails <;> cases hcl : c.closeFails <;>
      simp [read, hst, hc, hw, hcl, Pre, isPublished]
  · cases hst : c.st <;> cases hw : c.writeFails <;> cases hcl : c.closeFails <;>
      simp [read, hst, hw, hcl, Pre, isPublished]

theorem run_spec (cs : List (Call α)) : ∀ (f : FileSt α) (w : List α), Pre f w →
    let r := run f cs
    (r.2.2 = .ok → Pre r.1 (w ++ r.2.1)) ∧
    (r.2.2 = .eof → r.1 = .published (w ++ r.2.1)) ∧
    (r.2.2 ≠ .eof → isPublished r.1 = false) := by
  induction cs with
  | nil =>
    intro f w hf
    simp only [run, List.append_nil]
    refine ⟨fun _ => hf, ⟨fun h => Out.noConfusion h, fun _ => ?_⟩⟩
    rcases hf with ⟨rfl, _⟩ | rfl <;> rfl
  | cons c cs ih =>
    intro f w hf
    have h := read_spec f w hf c
    simp only [run]
    split
    · rename_i hok
      have hpre := (h.1 hok).1
      have := ih (read f c).1 (w ++ (read f c).2.1) hpre
      simp only [List.append_assoc] at this ⊢
      exact this
    · rename_i hne
      refine ⟨fun h' => absurd h' hne, fun h' => (h.2.1 h').1, fun h' => h.2.2.1 hne h'⟩

/-- **a visible file is complete**: if the file is published after the run, the consumer was handed end-of-stream
and the file holds exactly the rows it was handed -/
theorem published_complete (cs : List (Call α)) (w : List α) (h : (run .absent cs).1 = .published w) :
    (run .absent cs).2.2 = .eof ∧ w = (run .absent cs).2.1 := by
  have hs := run_spec cs .absent [] (Or.inl ⟨rfl, rfl⟩)
  by_cases he : (run .absent cs).2.2 = .eof
  · have := hs.2.1 he
    rw [h] at this
    simp at this
    exact ⟨he, this⟩
  · have := hs.2.2 he
    rw [h] at this
    simp [isPublished] at this

theorem published_iff_eof (cs : List (Call α)) :
    isPublished (run .absent cs).1 = true ↔ (run .absent cs).2.2 = .eof := by
  have hs := run_spec cs .absent [] (Or.inl ⟨rfl, rfl⟩)
  constructor
  · intro h
    by_cases he : (run .absent cs).2.2 = .eof
    · exact he
    · rw [hs.2.2 he] at h; cases h
  · intro h; rw [hs.2.1 h]; rfl

/-- **transparency**: the rows handed to the consumer are a prefix of what the upstream delivers, all of it when
the run ends with end-of-stream; failing file operations only cut the stream short with an error -/
theorem transparent (cs : List (Call α)) : ∀ (f : FileSt α) (w : List α), Pre f w →
    (∃ rest, upstreamRows cs = (run f cs).2.1 ++ rest) ∧
    ((run f cs).2.2 = .eof → (run f cs).2.1 = upstreamRows cs ∧ reachesEof cs = true) := by
  induction cs with
  | nil => intro f w _; simp [run, upstreamRows]
  | cons c cs ih =>
    intro f w hf
    have h := read_spec f w hf c
    simp only [run]
    split
    · rename_i hok
      obtain ⟨hpre, hrows, hst⟩ := h.1 hok
      obtain ⟨⟨rest, hr⟩, he⟩ := ih (read f c).1 _ hpre
      simp only [upstreamRows, hst, if_true, reachesEof]
      refine ⟨⟨rest, by rw [hr, hrows]; simp⟩, fun h' => ?_⟩
      obtain ⟨h1, h2⟩ := he h'
      exact ⟨by rw [h1, hrows], h2⟩
    · rename_i hne
      refine ⟨?_, fun h' => ?_⟩
      · -- whatever the call returned is the head of what the upstream delivered in it (or nothing, on a failed create)
        rcases hf with ⟨rfl, rfl⟩ | rfl
        · cases hst : c.st <;> cases hc : c.createFails <;> cases hw : c.writeFails <;> cases hcl : c.closeFails <;>
            simp [read, hst, hc, hw, hcl, upstreamRows]
        · cases hst : c.st <;> cases hw : c.writeFails <;> cases hcl : c.closeFails <;>
            simp [read, hst, hw, hcl, upstreamRows]
      · obtain ⟨_, hrows, hst⟩ := h.2.1 h'
        simp [upstreamRows, hst, hrows, reachesEof]

/-- an upstream error at any call, or a failing file operation, never leaves a visible file -/
theorem error_never_publishes (cs : List (Call α))
    (h : (run .absent cs).2.2 = .upstreamErr ∨ (run .absent cs).2.2 = .ioErr) :
    isPublished (run .absent cs).1 = false := by
  have hs := run_spec cs .absent [] (Or.inl ⟨rfl, rfl⟩)
  apply hs.2.2
  rcases h with h | h <;> rw [h] <;> decide

/-- a reader whose consumer stops before end-of-stream (every call so far returned `ok`) leaves no visible file -/
theorem abandoned_never_publishes (cs : List (Call α)) (h : (run .absent cs).2.2 = .ok) :
    isPublished (run .absent cs).1 = false := by
  have hs := run_spec cs .absent [] (Or.inl ⟨rfl, rfl⟩)
  apply hs.2.2; rw [h]; decide

/-- without failing file operations, a reader drained to the upstream's end publishes the whole shard -/
theorem drained_publishes (cs : List (Call α)) (hf : faultFree cs = true) (he : reachesEof cs = true) :
    (run .absent cs).1 = .published (upstreamRows cs) ∧ (run .absent cs).2.1 = upstreamRows cs ∧
      (run .absent cs).2.2 = .eof := by
  suffices ∀ (f : FileSt α) (w : List α), Pre f w → (run f cs).2.2 = .eof from by
    have h := this .absent [] (Or.inl ⟨rfl, rfl⟩)
    have hs := run_spec cs .absent [] (Or.inl ⟨rfl, rfl⟩)
    have ht := (transparent cs .absent [] (Or.inl ⟨rfl, rfl⟩)).2 h
    refine ⟨by rw [hs.2.1 h, ht.1]; simp, ht.1, h⟩
  induction cs with
  | nil => simp [reachesEof] at he
  | cons c cs ih =>
    intro f w hpre
    simp only [faultFree, List.all_cons, Bool.and_eq_true, Bool.not_eq_true', Bool.and_eq_true] at hf
    obtain ⟨⟨⟨h1, h2⟩, h3⟩, hrest⟩ := hf
    have hsp := read_spec f w hpre c
    simp only [run]
    cases hst : c.st with
    | more =>
      have hok : (read f c).2.2 = .ok := by
        rcases hpre with ⟨rfl, rfl⟩ | rfl <;> simp [read, hst, h1, h2]
      simp only [hok, if_true]
      simp only [reachesEof, hst] at he
      exact ih (by simpa [faultFree] using hrest) he _ _ (hsp.1 hok).1
    | eof =>
      have : (read f c).2.2 = .eof := by
        rcases hpre with ⟨rfl, rfl⟩ | rfl <;> simp [read, hst, h1, h2, h3]
      simp [this]
    | err => simp [reachesEof, hst] at he

/-- non-vacuity: three calls, rows with the EOF; the same with a failing close; an abandoned reader -/
example : run (.absent : FileSt Nat) [⟨[1, 2], .more, false, false, false⟩, ⟨[], .more, false, false, false⟩,
    ⟨[3], .eof, false, false, false⟩] = (.published [1, 2, 3], [1, 2, 3], .eof) := by rfl
example : run (.absent : FileSt Nat) [⟨[1, 2], .more, false, false, false⟩, ⟨[3], .eof, false, false, true⟩]
    = (.dropped, [1, 2, 3], .ioErr) := by rfl
example : run (.absent : FileSt Nat) [⟨[1, 2], .more, false, false, false⟩] = (.writing [1, 2], [1, 2], .ok) := by rfl

end BS.WT
