import BS.Properties.C01
/-!
# C04 — results do not depend on how the computation is executed

Everything the property quantifies over is a component of `Exec.Strategy`: destination sizes
(vector size), the chunking and EOF placement of every upstream (pipelined vs materialised, local
vs remote store reads), and at every shuffle the rearrangement of the producers' partitions into
streams (which machine ran which producer, machine-local combiners on or off, spill batch and
sort canary, reader shuffling, scheduling order).  Pragmas are not even arguments of the meaning.
`strategy_independent`: any two valid strategies produce, for every program and input, results
that agree shard by shard (identical where the order is fixed, equal multisets otherwise), and
the same user counters.
-/
namespace BS.Exec
open BS.Prog BS.KV BS.Part BS.Sem BS.Reader

theorem RowsSim.symm {o x y} (h : RowsSim o x y) : RowsSim o y x := by
  unfold RowsSim at *; split
  · rename_i ho; rw [if_pos ho] at h; exact h.symm
  · rename_i ho; rw [if_neg ho] at h; exact h.symm

theorem RowsSim.trans {o x y z} (h : RowsSim o x y) (h' : RowsSim o y z) : RowsSim o x z := by
  unfold RowsSim at *; split
  · rename_i ho; rw [if_pos ho] at h h'; exact h.trans h'
  · rename_i ho; rw [if_neg ho] at h h'; exact h.trans h'

theorem All2.trans_symm {α} {R : α → α → Prop} (hs : ∀ x y, R x y → R y x) (ht : ∀ x y z, R x y → R y z → R x z)
    {xs ys zs : List α} (h : All2 R xs ys) (h' : All2 R zs ys) : All2 R xs zs := by
  induction h generalizing zs with
  | nil => cases h'; exact .nil
  | cons h _ ih =>
    cases h' with
    | cons g gs => exact .cons (ht _ _ _ h (hs _ _ g)) (ih gs)

/-- two shard lists that both agree with the same reference agree with each other -/
theorem Sim.join {a b c : Shards} (h : Sim a c) (h' : Sim b c) : Sim a b := by
  refine ⟨h.ord.trans h'.ord.symm, ?_⟩
  have h2 : All2 (RowsSim a.ordered) b.rows c.rows := by rw [h.ord, ← h'.ord]; exact h'.rows
  exact All2.trans_symm (R := RowsSim a.ordered) (fun _ _ => RowsSim.symm) (fun _ _ _ => RowsSim.trans) h.rows h2

/-- **C04**: the result (and every intermediate slice) is the same under any two valid strategies -/
theorem strategy_independent (σ₁ σ₂ : Strategy) (h₁ : σ₁.Valid) (h₂ : σ₂.Valid) (p : Program) (res : List Shards)
    (hwf : wfNodes res p.nodes [] = true) :
    Sim (exec σ₁ p res).2 (exec σ₂ p res).2 :=
  (exec_refines_sem σ₁ h₁ p (All2.refl Sim.rfl' res) hwf).2.join (exec_refines_sem σ₂ h₂ p (All2.refl Sim.rfl' res) hwf).2

/-- in particular the same multiset of rows over all shards, and the same number of shards -/
theorem strategy_independent_rows (σ₁ σ₂ : Strategy) (h₁ : σ₁.Valid) (h₂ : σ₂.Valid) (p : Program) (res : List Shards)
    (hwf : wfNodes res p.nodes [] = true) :
    (exec σ₁ p res).2.rows.flatten.Perm (exec σ₂ p res).2.rows.flatten ∧
      (exec σ₁ p res).2.rows.length = (exec σ₂ p res).2.rows.length := by
  have h := strategy_independent σ₁ σ₂ h₁ h₂ p res hwf
  exact ⟨h.perms.flatten_perm, h.len⟩

/-! ### user counters -/

theorem rowCount_sim {a b : Shards} (h : Sim a b) : (a.rows.map List.length).sum = (b.rows.map List.length).sum := by
  have := h.rows
  generalize a.ordered = o at this
  generalize a.rows = xs at this
  generalize b.rows = ys at this
  induction this with
  | nil => rfl
  | cons h _ ih => simp only [List.map_cons, List.sum_cons, ih, h.perm.length_eq]

theorem counters_sim (p : Program) {env env' : List Shards} (h : All2 Sim env env') : counters p env = counters p env' := by
  unfold counters
  simp only
  congr 1
  funext c
  congr 1
  apply List.map_congr_left
  intro x _
  obtain ⟨op, i⟩ := x
  cases op <;> simp only
  split
  · exact rowCount_sim (h.getD default default (Sim.rfl' _) i)
  · rfl

/-- **C04 (counters)**: the user counters of a run are those of the reference, hence identical
under any two valid strategies.  `countersDefined` delimits where `Exec`'s eager `count` is what the
engine does: a counting Map pipelined into a `Head` is only pulled as far as the Head reads, and then
the counters *do* depend on the strategy (finding D16: Materialize on the counting Map changes them);
the hypothesis is not used by the proof, it states the domain in which the model is faithful. -/
theorem counters_independent (σ₁ σ₂ : Strategy) (h₁ : σ₁.Valid) (h₂ : σ₂.Valid) (p : Program) (res : List Shards)
    (hwf : wfNodes res p.nodes [] = true) (_hc : countersDefined p = true) :
    counters p (exec σ₁ p res).1 = counters p (exec σ₂ p res).1 := by
  rw [counters_sim p (exec_refines_sem σ₁ h₁ p (All2.refl Sim.rfl' res) hwf).1,
    counters_sim p (exec_refines_sem σ₂ h₂ p (All2.refl Sim.rfl' res) hwf).1]

/-- pragmas (Materialize, Procs, Exclusive) are not arguments of the meaning of Map -/
theorem pragma_irrelevant (σ : Strategy) (i : Nat) (env res : List Shards) (s : Ref) (f : String) (pr pr' : Pragma) :
    execOp σ i env res (.map s f pr) = execOp σ i env res (.map s f pr') := rfl

/-! ### the named degrees of freedom are valid strategies -/

/-- producers arrive in the opposite order, or rotated (scheduling, reader shuffling) -/
theorem reverse_valid (xs : List (List KV)) : (xs.reverse.flatten).Perm xs.flatten :=
  (List.reverse_perm xs).flatten

theorem rotate_valid (k : Nat) (xs : List (List KV)) : ((xs.drop k ++ xs.take k).flatten).Perm xs.flatten := by
  have : (xs.drop k ++ xs.take k).Perm xs := by
    refine List.perm_append_comm.trans ?_
    rw [List.take_append_drop]
  exact this.flatten

/-- all producers of a machine share one combine buffer: their partitions arrive as one stream -/
theorem one_stream_valid (xs : List (List KV)) : ([xs.flatten] : List (List KV)).flatten.Perm xs.flatten := by
  simp

/-- every row is spilled on its own (spill batch 1): singleton streams -/
theorem singletons_valid (xs : List (List KV)) : ((xs.flatten.map fun r => [r]).flatten).Perm xs.flatten := by
  have : ∀ l : List KV, (l.map fun r => [r]).flatten = l := by
    intro l; induction l with
    | nil => rfl
    | cons x l ih => simp [ih]
  rw [this]

/-- rearrangements compose -/
theorem arrange_comp (f g : List (List KV) → List (List KV)) (hf : ∀ xs, (f xs).flatten.Perm xs.flatten)
    (hg : ∀ xs, (g xs).flatten.Perm xs.flatten) (xs : List (List KV)) : (f (g xs)).flatten.Perm xs.flatten :=
  (hf _).trans (hg _)

example : demoσ.Valid := demoσ_valid

end BS.Exec
