import BS.Proofs.KV
/-!
# C09 — combining buffers hold one correctly folded value per key at any size

`foldMap comb rows` is the specification: one row per distinct key, ascending,
carrying the fold of the key's values.  A combiner that spills cuts the input
into consecutive segments, folds each (`foldMap seg`) into a sorted run, and
reads back the reducing merge of the runs (`foldMap` over all run rows, C10);
`spill_runs_spec` shows this equals the fold of the whole input for every
segmentation — i.e. for every spill threshold and every growth history —
provided the combine function is commutative and associative.
-/
namespace BS.KV

variable (comb : Int → Int → Int)

/-- one row per distinct key, in ascending key order -/
theorem foldMap_strictSorted (rows : List KV) : StrictSorted (foldMap comb rows) :=
  foldl_insert_strict comb rows [] List.Pairwise.nil

theorem foldl_insert_perm (hc : ∀ a b, comb a b = comb b a) (ha : ∀ a b c, comb (comb a b) c = comb a (comb b c))
    (l₁ l₂ : List KV) (h : l₁.Perm l₂) :
    ∀ m, l₁.foldl (fun m r => insertKV comb r.1 r.2 m) m = l₂.foldl (fun m r => insertKV comb r.1 r.2 m) m := by
  induction h with
  | nil => intro m; rfl
  | cons x _ ih => intro m; exact ih _
  | swap x y l => intro m; simp only [List.foldl_cons]; rw [insertKV_comm comb hc ha]
  | trans _ _ ih1 ih2 => intro m; rw [ih1, ih2]

/-- the fold does not depend on the arrival order (commutative, associative combiner) -/
theorem foldMap_perm (hc : ∀ a b, comb a b = comb b a) (ha : ∀ a b c, comb (comb a b) c = comb a (comb b c))
    (l₁ l₂ : List KV) (h : l₁.Perm l₂) : foldMap comb l₁ = foldMap comb l₂ :=
  foldl_insert_perm comb hc ha l₁ l₂ h []

theorem insertKV_append_max (k v : Int) (acc : List KV) (h : ∀ x ∈ acc, x.1 < k) :
    insertKV comb k v acc = acc ++ [(k, v)] := by
  induction acc with
  | nil => rfl
  | cons p ps ih =>
    obtain ⟨k', v'⟩ := p
    have hk : k' < k := h (k', v') (by simp)
    rw [ins_gt comb k v k' v' ps hk, ih (fun x hx => h x (by simp [hx]))]
    rfl

theorem foldl_insert_sorted (m acc : List KV) (hm : StrictSorted m) (h : ∀ x ∈ acc, ∀ y ∈ m, x.1 < y.1) :
    m.foldl (fun a r => insertKV comb r.1 r.2 a) acc = acc ++ m := by
  induction m generalizing acc with
  | nil => simp
  | cons r rs ih =>
    simp only [List.foldl_cons]
    unfold StrictSorted at hm
    rw [List.pairwise_cons] at hm
    rw [insertKV_append_max comb r.1 r.2 acc (fun x hx => h x hx r (by simp))]
    rw [ih _ hm.2]
    · simp
    · intro x hx y hy
      rcases List.mem_append.mp hx with hx | hx
      · exact h x hx y (by simp [hy])
      · simp at hx; subst hx; exact hm.1 y hy

/-- a sorted run with unique keys folds to itself -/
theorem foldMap_idem (m : List KV) (hm : StrictSorted m) : foldMap comb m = m := by
  unfold foldMap
  rw [foldl_insert_sorted comb m [] hm (by simp)]
  rfl

theorem foldMap_append (xs ys : List KV) :
    foldMap comb (xs ++ ys) = ys.foldl (fun m r => insertKV comb r.1 r.2 m) (foldMap comb xs) := by
  simp [foldMap, List.foldl_append]

theorem foldMap_run_prefix (xs ys : List KV) : foldMap comb (foldMap comb xs ++ ys) = foldMap comb (xs ++ ys) := by
  rw [foldMap_append, foldMap_append, foldMap_idem comb _ (foldMap_strictSorted comb xs)]

/-- **combiner_reader_spec**: however the input is cut into spilled runs, the reducing merge of
the runs is the fold of the whole input. -/
theorem spill_runs_spec (hc : ∀ a b, comb a b = comb b a) (ha : ∀ a b c, comb (comb a b) c = comb a (comb b c))
    (segs : List (List KV)) :
    reduceAll comb (segs.map (foldMap comb)) = foldMap comb segs.flatten := by
  unfold reduceAll
  induction segs with
  | nil => rfl
  | cons s ss ih =>
    simp only [List.map_cons, List.flatten_cons]
    rw [foldMap_run_prefix]
    rw [foldMap_perm comb hc ha _ _ List.perm_append_comm, foldMap_append, ih, ← foldMap_append,
      foldMap_perm comb hc ha _ _ List.perm_append_comm]

/-- the load threshold is always below the capacity, so the table always has a free slot -/
theorem threshold_lt_cap (k : Nat) : 7 * 2 ^ k / 10 < 2 ^ k := by
  have : 0 < 2 ^ k := Nat.two_pow_pos k
  omega

example : foldMap (· + ·) [(3, 1), (1, 5), (3, 2), (2, 7), (1, 1)] = [(1, 6), (2, 7), (3, 3)] := by decide

end BS.KV
