import BS.Proofs.KV
import BS.Properties.C09
/-!
# C10 — external sort, merge and reduce-merge are correct at any spill size

Specifications as list functions, with the laws the property states: the
sorting reader's output is a key-ordered permutation of its input; merging
key-ordered streams yields their key-ordered union; the reducing merge of
streams is the fold by key of everything they hold, independent of how rows are
distributed over streams and runs.
-/
namespace BS.KV

theorem insertSorted_perm (r : KV) (l : List KV) : (insertSorted r l).Perm (r :: l) := by
  induction l with
  | nil => exact List.Perm.refl _
  | cons x xs ih =>
    simp only [insertSorted]
    split
    · exact List.Perm.refl _
    · exact (List.Perm.cons x ih).trans (List.Perm.swap r x xs)

theorem insertSorted_sorted (r : KV) (l : List KV) (h : Sorted l) : Sorted (insertSorted r l) := by
  induction l with
  | nil => simp [insertSorted, Sorted]
  | cons x xs ih =>
    unfold Sorted at h ⊢
    rw [List.pairwise_cons] at h
    simp only [insertSorted]
    split
    · rename_i hlt
      rw [List.pairwise_cons]
      refine ⟨?_, List.pairwise_cons.mpr h⟩
      intro a ha
      rcases List.mem_cons.mp ha with rfl | ha
      · omega
      · have := h.1 a ha; omega
    · rename_i hge
      rw [List.pairwise_cons]
      refine ⟨?_, ih h.2⟩
      intro a ha
      have := (insertSorted_perm r xs).mem_iff.mp ha
      rcases List.mem_cons.mp this with rfl | ha'
      · omega
      · exact h.1 a ha'

/-- the sorting reader emits exactly the input multiset … -/
theorem sortKV_perm (rows : List KV) : (sortKV rows).Perm rows := by
  induction rows with
  | nil => exact List.Perm.refl _
  | cons r rs ih => exact (insertSorted_perm r _).trans (List.Perm.cons r ih)

/-- … in non-decreasing key order, whatever the spill size, canary size or upstream chunking
(none of which appear in the specification). -/
theorem sortKV_sorted (rows : List KV) : Sorted (sortKV rows) := by
  induction rows with
  | nil => exact List.Pairwise.nil
  | cons r rs ih => exact insertSorted_sorted r _ ih

theorem merge2_perm (a b : List KV) : (merge2 a b).Perm (a ++ b) := by
  fun_induction merge2 a b with
  | case1 b => simp
  | case2 a h => simp
  | case3 x xs y ys hlt ih =>
    exact (List.Perm.cons y ih).trans (List.perm_middle.symm)
  | case4 x xs y ys hge ih => exact List.Perm.cons x ih

theorem merge2_sorted (a b : List KV) (ha : Sorted a) (hb : Sorted b) : Sorted (merge2 a b) := by
  fun_induction merge2 a b with
  | case1 b => exact hb
  | case2 a h => exact ha
  | case3 x xs y ys hlt ih =>
    unfold Sorted at *
    rw [List.pairwise_cons] at hb ⊢
    refine ⟨?_, ih ha hb.2⟩
    intro c hc
    have := (merge2_perm (x :: xs) ys).mem_iff.mp hc
    rcases List.mem_append.mp this with h | h
    · rw [List.pairwise_cons] at ha
      rcases List.mem_cons.mp h with rfl | h
      · omega
      · have := ha.1 c h; omega
    · exact hb.1 c h
  | case4 x xs y ys hge ih =>
    unfold Sorted at *
    rw [List.pairwise_cons] at ha ⊢
    refine ⟨?_, ih ha.2 hb⟩
    intro c hc
    have := (merge2_perm xs (y :: ys)).mem_iff.mp hc
    rcases List.mem_append.mp this with h | h
    · exact ha.1 c h
    · rw [List.pairwise_cons] at hb
      rcases List.mem_cons.mp h with rfl | h
      · omega
      · have := hb.1 c h; omega

/-- merging sorted streams (0, 1 or many; some empty) emits their sorted union -/
theorem mergeAll_spec (ss : List (List KV)) (h : ∀ s ∈ ss, Sorted s) :
    Sorted (mergeAll ss) ∧ (mergeAll ss).Perm ss.flatten := by
  induction ss with
  | nil => exact ⟨List.Pairwise.nil, List.Perm.refl _⟩
  | cons s ss ih =>
    obtain ⟨a, b⟩ := ih (fun t ht => h t (by simp [ht]))
    refine ⟨merge2_sorted s _ (h s (by simp)) a, ?_⟩
    simp only [mergeAll, List.foldr_cons, List.flatten_cons]
    exact (merge2_perm s _).trans (List.Perm.append_left s b)

/-- the reducing merge emits one row per distinct key, ascending … -/
theorem reduceAll_strictSorted (comb) (ss : List (List KV)) : StrictSorted (reduceAll comb ss) :=
  foldMap_strictSorted comb _

/-- … carrying the fold of that key's values; for a commutative, associative combine function
the result does not depend on how the rows are spread over the streams. -/
theorem reduceAll_streams_irrelevant (comb) (hc : ∀ a b, comb a b = comb b a)
    (ha : ∀ a b c, comb (comb a b) c = comb a (comb b c)) (ss ts : List (List KV))
    (h : ss.flatten.Perm ts.flatten) : reduceAll comb ss = reduceAll comb ts :=
  foldMap_perm comb hc ha _ _ h

/-- sorting then reduce-merging = folding the unsorted input (what Reduce computes per shard) -/
theorem reduce_of_sorted_runs (comb) (hc : ∀ a b, comb a b = comb b a)
    (ha : ∀ a b c, comb (comb a b) c = comb a (comb b c)) (runs : List (List KV)) :
    reduceAll comb (runs.map sortKV) = foldMap comb runs.flatten := by
  unfold reduceAll
  apply foldMap_perm comb hc ha
  induction runs with
  | nil => exact List.Perm.refl _
  | cons r rs ih =>
    simp only [List.map_cons, List.flatten_cons]
    exact List.Perm.append (sortKV_perm r) ih

example : mergeAll [[(1, 1), (4, 4)], [], [(2, 2), (4, 5)]] = [(1, 1), (2, 2), (4, 4), (4, 5)] := by
  simp [mergeAll, merge2]

end BS.KV
