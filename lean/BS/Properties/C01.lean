import BS.Proofs.Exec
/-!
# C01 — running a slice program yields exactly the rows its operators prescribe

`Exec.exec σ` carries a program out the way the engine does, for an arbitrary *strategy* `σ`
(destination sizes, upstream chunking and EOF placement, and — at every shuffle — an arbitrary
rearrangement of the producers' partitions into streams).  `exec_refines_sem`: for **every**
program of the language in the fragment where it fixes its result (`wfNodes`: Head only over
rows whose order is fixed), every input and every valid strategy, every node — hence the result —
holds per shard exactly the rows of the sequential reference `Sem.eval`: identical lists where
the program fixes the order, equal multisets otherwise; the same number of shards.

The step from `Exec` to /repo is the composition of the per-layer ties (reader state machines
call-by-call C17, combiner C09, merge C10, partitioner C05, compile C08) and the end-to-end
correspondence of `Sem` with real runs (T1 of C01/C04).
-/
namespace BS.Exec
open BS.Prog BS.KV BS.Part BS.Sem BS.Reader

theorem execOp_sim (σ : Strategy) (hσ : σ.Valid) (i : Nat) {env env' res res' : List Shards}
    (he : All2 Sim env env') (hr : All2 Sim res res') (op : Op) (hwf : wfOp env' res' op = true) :
    Sim (execOp σ i env res op) (evalOp env' res' op) := by
  have hg := getRef_sim he hr
  cases op with
  | const n rows => exact Sim.rfl' _
  | reader n c rows => exact Sim.rfl' _
  | lines n k => exact Sim.rfl' _
  | readcache n name => exact Sim.rfl' _
  | map s f pr =>
    have : (fun p => runMap σ i p (mapFn f)) = fun _ => List.map (mapFn f) := by
      funext p rows; exact runMap_eq σ hσ i p _ rows
    simp only [execOp, evalOp, mapShards, this, imap_const]
    exact sim_lift _ (fun _ _ h => h.map _) (hg s)
  | count s c => exact hg s
  | filter s pr =>
    have : (fun p => runFilter σ i p (predFn pr)) = fun _ => List.filter (predFn pr) := by
      funext p rows; exact runFilter_eq σ hσ i p _ rows
    simp only [execOp, evalOp, mapShards, this, imap_const]
    exact sim_lift _ (fun _ _ h => h.filter _) (hg s)
  | flatmap s g =>
    have : (fun p => runFlat σ i p (flatFn g)) = fun _ => List.flatMap (flatFn g) := by
      funext p rows; exact runFlat_eq σ hσ i p _ rows
    simp only [execOp, evalOp, mapShards, this, imap_const]
    exact sim_lift _ (fun _ _ h => h.flatMap_right _) (hg s)
  | head s n =>
    have : (fun p => runHead σ i p n) = fun _ => List.take n := by
      funext p rows; exact runHead_eq σ hσ i p n rows
    simp only [execOp, evalOp, mapShards, this, imap_const]
    have ho : (getRef env res s).ordered = true := by
      rw [(hg s).ord]; simpa [wfOp] using hwf
    exact sim_lift_ordered _ (hg s) ho
  | fold s =>
    simp only [execOp, evalOp]
    rw [(hg s).len]
    refine ⟨rfl, ?_⟩
    unfold redistribute
    rw [List.map_map]
    refine All2.range_map _ _ _ fun p _ => RowsSim.of_eq ?_
    exact foldMap_perm _ Int.add_comm Int.add_assoc _ _ (arrive_perm σ hσ i 0 _ _ _ p (hg s).perms)
  | reduce s c =>
    simp only [execOp, evalOp]
    rw [(hg s).len]
    refine ⟨rfl, ?_⟩
    unfold redistribute
    rw [List.map_map]
    refine All2.range_map _ _ _ fun p _ => RowsSim.of_eq ?_
    rw [spill_runs_spec _ (combFn_comm c) (combFn_assoc c)]
    exact foldMap_perm _ (combFn_comm c) (combFn_assoc c) _ _ (arrive_perm σ hσ i 0 _ _ _ p (hg s).perms)
  | cogroup a b =>
    simp only [execOp, evalOp]
    rw [(hg a).len, (hg b).len]
    refine ⟨rfl, ?_⟩
    refine All2.range_map _ _ _ fun p _ => RowsSim.of_eq ?_
    unfold cogroupShard
    apply foldMap_perm _ Int.add_comm Int.add_assoc
    exact List.Perm.append ((arrive_perm σ hσ i 0 _ _ _ p (hg a).perms).map _)
      ((arrive_perm σ hσ i 1 _ _ _ p (hg b).perms).map _)
  | reshuffle s =>
    simp only [execOp, evalOp]
    rw [(hg s).len]
    exact ⟨rfl, shuffled_sim σ hσ i _ _ (hg s).perms⟩
  | reshuffle2 s =>
    simp only [execOp, evalOp]
    rw [(hg s).len]
    exact ⟨rfl, shuffled_sim σ hσ i _ _ (hg s).perms⟩
  | repartition s pf =>
    simp only [execOp, evalOp]
    rw [(hg s).len]
    exact ⟨rfl, shuffled_sim σ hσ i _ _ (hg s).perms⟩
  | reshard s m =>
    simp only [execOp, evalOp]
    rw [(hg s).len]
    split
    · exact hg s
    · exact ⟨rfl, shuffled_sim σ hσ i _ _ (hg s).perms⟩
  | scan s =>
    simp only [execOp, evalOp]
    exact ⟨rfl, (hg s).rows.map _ _ fun _ _ _ => RowsSim.rfl' _ _⟩
  | writer s => exact hg s
  | cache s pa name => exact hg s

theorem execNodes_sim (σ : Strategy) (hσ : σ.Valid) {res res' : List Shards} (hr : All2 Sim res res') :
    ∀ (ops : List Op) {env env' : List Shards}, All2 Sim env env' → wfNodes res' ops env' = true →
      All2 Sim (execNodes σ res ops env) (evalNodes res' ops env') := by
  intro ops
  induction ops with
  | nil => intro env env' he _; exact he
  | cons op ops ih =>
    intro env env' he hwf
    simp only [wfNodes, Bool.and_eq_true] at hwf
    simp only [execNodes, evalNodes]
    exact ih (he.append (.cons (execOp_sim σ hσ _ he hr op hwf.1) .nil)) hwf.2

/-- **C01 (refinement)**: under every valid strategy every node and the result agree with the
sequential reference, shard by shard. -/
theorem exec_refines_sem (σ : Strategy) (hσ : σ.Valid) (p : Program) {res res' : List Shards}
    (hr : All2 Sim res res') (hwf : wfNodes res' p.nodes [] = true) :
    All2 Sim (exec σ p res).1 (eval p res').1 ∧ Sim (exec σ p res).2 (eval p res').2 := by
  have h := execNodes_sim σ hσ hr p.nodes All2.nil hwf
  exact ⟨h, getRef_sim h hr p.out⟩

/-- no row lost, duplicated or invented: the result's rows are, over all shards, a permutation
of the reference's, and the shard count is the prescribed one -/
theorem exec_rows_perm (σ : Strategy) (hσ : σ.Valid) (p : Program) (res : List Shards)
    (hwf : wfNodes res p.nodes [] = true) :
    (exec σ p res).2.rows.flatten.Perm (eval p res).2.rows.flatten ∧
      (exec σ p res).2.rows.length = (eval p res).2.rows.length := by
  have h := (exec_refines_sem σ hσ p (All2.refl Sim.rfl' res) hwf).2
  exact ⟨h.perms.flatten_perm, h.len⟩

/-- where the program fixes the order the result is the reference's, row for row -/
theorem exec_ordered_eq (σ : Strategy) (hσ : σ.Valid) (p : Program) (res : List Shards)
    (hwf : wfNodes res p.nodes [] = true) (ho : (eval p res).2.ordered = true) :
    (exec σ p res).2.rows = (eval p res).2.rows := by
  have h := (exec_refines_sem σ hσ p (All2.refl Sim.rfl' res) hwf).2
  have ho' : (exec σ p res).2.ordered = true := by rw [h.ord]; exact ho
  have hr := h.rows
  rw [ho'] at hr
  generalize (exec σ p res).2.rows = xs at hr
  generalize (eval p res).2.rows = ys at hr
  induction hr with
  | nil => rfl
  | cons h _ ih =>
    simp only [RowsSim, if_true] at h
    rw [h, ih]

/-- the side-effecting operators (Scan, WriterFunc) observe every row of their shard exactly once,
in order, whatever the chunking -/
theorem observed_eq (σ : Strategy) (hσ : σ.Valid) (i p : Nat) (rows : List KV) : observed σ i p rows = rows := by
  unfold observed
  rw [runMap_eq σ hσ]
  simp

/-! ### non-vacuity: a valid strategy that does reorder, regroup and re-chunk -/

def demoσ : Strategy where
  dest := fun _ _ c => c % 3 + 1
  script := fun _ p => [(1, false), (0, false), (p + 1, true)]
  arrange := fun _ _ _ xs => xs.reverse

theorem demoσ_valid : demoσ.Valid :=
  ⟨fun _ _ _ => Nat.succ_pos _, fun _ _ _ xs => (List.reverse_perm xs).flatten⟩

def demoProg : Program :=
  ⟨[.const 3 [(1, 1), (2, 2), (1, 3), (4, 4), (2, 5), (7, 6), (1, 7)], .flatmap (.node 0) "two", .reduce (.node 1) "add",
    .map (.node 2) "inc" .none, .reshuffle (.node 3), .head (.node 3) 2], .node 4⟩

example : wfNodes [] demoProg.nodes [] = true := by decide

end BS.Exec
