import BS.Model.Typecheck
/-!
# C18 — operator constructors accept exactly the documented type schemas

The checks of `BS.Typecheck` are the documented schemas; the theorems below
characterise the applicability relation they are built from, for **all** types
of the universe (closed under `slice`), not a finite sample.
-/
namespace BS.Typecheck

theorem assignable_refl (t : Ty) : assignable t t = true := by simp [assignable]

/-- only an implementing type is assignable to an interface; everything else needs identity -/
theorem assignable_iff (t u : Ty) : assignable t u = true ↔ t = u ∨ (u = .iface ∧ t = .impl) := by
  simp [assignable]

theorem allAssignable_iff (as ps : List Ty) :
    allAssignable as ps = true ↔ as.length = ps.length ∧ ∀ i (h₁ : i < as.length) (h₂ : i < ps.length),
      assignable as[i] ps[i] = true := by
  induction as generalizing ps with
  | nil => cases ps <;> simp [allAssignable]
  | cons a as ih =>
    cases ps with
    | nil => simp [allAssignable]
    | cons p ps =>
      simp only [allAssignable, Bool.and_eq_true, ih, List.length_cons]
      constructor
      · rintro ⟨h0, hl, hr⟩
        refine ⟨by omega, ?_⟩
        intro i h1 h2
        cases i with
        | zero => simpa using h0
        | succ i => simpa using hr i (by omega) (by omega)
      · rintro ⟨hl, hr⟩
        refine ⟨by simpa using hr 0 (by omega) (by omega), by omega, ?_⟩
        intro i h1 h2
        have := hr (i + 1) (by omega) (by omega)
        simpa [List.getElem_cons_succ] using this

/-- **non-variadic functions** apply exactly to slices of the same arity whose columns are
assignable to the parameters (a leading context parameter having been stripped) -/
theorem canApply_nonvariadic (ins outs arg : List Ty) :
    canApply ⟨ins, outs, false⟩ arg = true ↔
      arg.length = ins.length ∧ ∀ i (h₁ : i < arg.length) (h₂ : i < ins.length), assignable arg[i] ins[i] = true := by
  simp [canApply, allAssignable_iff]

/-- **variadic functions** `func(p₁,…,pₖ, v ...T)`: the first `k` columns go to the fixed
parameters, every further column must be assignable to `T` (zero further columns are fine) -/
theorem canApply_variadic (fixed outs arg : List Ty) (v : Ty) :
    canApply ⟨fixed ++ [.slice v], outs, true⟩ arg = true ↔
      fixed.length ≤ arg.length ∧ allAssignable (arg.take fixed.length) fixed = true ∧
        ∀ a ∈ arg.drop fixed.length, assignable a v = true := by
  simp [canApply, List.getLast?_append, List.dropLast_append_of_ne_nil, and_assoc]

/-- a variadic function whose last parameter is not a slice never applies (cannot arise from Go) -/
theorem canApply_variadic_malformed (ins outs arg : List Ty)
    (h : ∀ v, ins.getLast? ≠ some (.slice v)) : canApply ⟨ins, outs, true⟩ arg = false := by
  unfold canApply
  cases hl : ins.getLast? with
  | none => simp
  | some t =>
    cases t <;> simp
    rename_i v
    exact absurd hl (h v)

/-- result types -/
theorem map_result (s : STy) (fn : Fn) (r : STy) (h : checkMap s fn = some r) :
    r.cols = fn.outs ∧ r.pfx = s.pfx ∧ fn.outs ≠ [] := by
  unfold checkMap at h
  split at h
  · rename_i hc
    cases h
    simp only [Bool.and_eq_true, decide_eq_true_eq] at hc
    refine ⟨rfl, rfl, ?_⟩
    intro e; rw [e] at hc; simp at hc
  · cases h

theorem filter_result (s : STy) (fn : Fn) (r : STy) (h : checkFilter s fn = some r) : r = s := by
  unfold checkFilter at h
  split at h <;> simp_all

theorem prefixed_result (s : STy) (p : Nat) (r : STy) (h : checkPrefixed s p = some r) :
    r.cols = s.cols ∧ r.pfx = p ∧ 1 ≤ p ∧ p ≤ s.cols.length := by
  unfold checkPrefixed at h
  split at h
  · rename_i hc; cases h; simp at hc; exact ⟨rfl, rfl, hc.1, hc.2⟩
  · cases h

theorem reduce_result (s : STy) (fn : Fn) (r : STy) (h : checkReduce s fn = some r) :
    r = s ∧ s.cols.length = s.pfx + 1 ∧ keysOk s = true := by
  unfold checkReduce at h
  split at h
  · rename_i hc
    simp only [Bool.and_eq_true, decide_eq_true_eq] at hc
    split at h
    · split at h <;> simp_all
    · cases h
  · cases h

/-- ReaderFunc requires exactly the results `(int, error)` (the arity check that was missing, D10) -/
theorem readerFunc_results (fn : Fn) (r : STy) (h : checkReaderFunc fn = some r) : fn.outs = [.int, .err] := by
  unfold checkReaderFunc at h
  split at h
  · split at h
    · rename_i hc; simpa using hc
    · cases h
  · cases h

/-- Fold: the result has the key column and the accumulator; the key is hashable, comparable and accumulable and
the function takes the accumulator followed by the residual columns -/
theorem fold_result (s : STy) (fn : Fn) (r : STy) (h : checkFold s fn = some r) :
    ∃ k rest acc, s.cols = k :: rest ∧ rest ≠ [] ∧ fn.outs = [acc] ∧ fn.ins = acc :: rest ∧
      hasOps k = true ∧ canAccum k = true ∧ r = ⟨[k, acc], s.pfx⟩ := by
  unfold checkFold at h
  split at h
  · rename_i k rest acc hc ho
    split at h
    · rename_i hcond
      simp only [Bool.and_eq_true, decide_eq_true_eq, beq_iff_eq] at hcond
      cases h
      refine ⟨k, rest, acc, hc, ?_, ho, hcond.2, hcond.1.1.2, hcond.1.2, rfl⟩
      intro e; rw [e] at hcond; simp at hcond
    · cases h
  · cases h

/-- Flatmap: the function applies to the columns, its results are vectors, and the result slice has their element types
and the argument's prefix -/
theorem flatmap_result (s : STy) (fn : Fn) (r : STy) (h : checkFlatmap s fn = some r) :
    canApply fn s.cols = true ∧ devectorize fn.outs = some r.cols ∧ r.pfx = s.pfx := by
  unfold checkFlatmap at h
  split at h
  · rename_i hc
    cases hd : devectorize fn.outs with
    | none => rw [hd] at h; cases h
    | some o => rw [hd] at h; cases h; exact ⟨hc, rfl, rfl⟩
  · cases h

/-- Reshuffle and Repartition return their argument's type; Reshuffle needs key columns with operators, Repartition a
function `func(nshard int, cols…) int` exactly -/
theorem reshuffle_result (s r : STy) (h : checkReshuffle s = some r) : r = s ∧ keysOk s = true := by
  unfold checkReshuffle at h
  split at h
  · rename_i hk; cases h; exact ⟨rfl, hk⟩
  · cases h

theorem repartition_result (s : STy) (fn : Fn) (r : STy) (h : checkRepartition s fn = some r) :
    r = s ∧ fn.ins = .int :: s.cols ∧ fn.outs = [.int] := by
  unfold checkRepartition at h
  split at h
  · rename_i hc
    simp only [Bool.and_eq_true, beq_iff_eq] at hc
    cases h; exact ⟨rfl, hc.1, hc.2⟩
  · cases h

/-- WriterFunc returns its argument's type and takes `(shard int, state, err error, cols… []t)`, returning `error` -/
theorem writerFunc_result (s : STy) (fn : Fn) (r : STy) (h : checkWriterFunc s fn = some r) :
    r = s ∧ fn.outs = [.err] ∧ ∃ st, fn.ins = .int :: st :: .err :: s.cols.map Ty.slice := by
  unfold checkWriterFunc at h
  split at h
  · rename_i st cols hins
    split at h
    · rename_i hc
      simp only [Bool.and_eq_true, beq_iff_eq] at hc
      cases h
      exact ⟨rfl, hc.2, st, by rw [hins, hc.1]⟩
    · cases h
  · cases h

/-- Cogroup: every input has the first input's key prefix (types with operators, at least one key column); the result
has those key columns followed by one slice-typed column per value column of every input, in order -/
theorem cogroup_result (ss : List STy) (r : STy) (h : checkCogroup ss = some r) :
    ∃ s0 rest, ss = s0 :: rest ∧ 1 ≤ s0.pfx ∧ r.pfx = s0.pfx ∧
      (∀ s ∈ ss, s.pfx = s0.pfx ∧ s.cols.take s.pfx = s0.cols.take s0.pfx ∧ 1 ≤ s.cols.length) ∧
      (s0.cols.take s0.pfx).all hasOps = true ∧
      r.cols = s0.cols.take s0.pfx ++ ss.flatMap (fun s => (s.cols.drop s.pfx).map Ty.slice) := by
  unfold checkCogroup at h
  split at h
  · cases h
  · rename_i s0 rest
    simp only at h
    split at h
    · rename_i hc
      simp only [Bool.and_eq_true, List.all_eq_true, decide_eq_true_eq, beq_iff_eq] at hc
      cases h
      refine ⟨s0, rest, rfl, hc.2, rfl, ?_, ?_, rfl⟩
      · intro s hs
        have := hc.1.1 s hs
        exact ⟨this.1.2, this.2, this.1.1⟩
      · simp only [List.all_eq_true]; exact hc.1.2
    · cases h


example : checkMap ⟨[.int, .impl], 1⟩ ⟨[.int, .iface], [.i64, .str], false⟩ = some ⟨[.i64, .str], 1⟩ := by decide
example : checkCogroup [⟨[.int, .str], 1⟩, ⟨[.int, .f64, .bool], 1⟩]
    = some ⟨[.int, .slice .str, .slice .f64, .slice .bool], 1⟩ := by decide

end BS.Typecheck
