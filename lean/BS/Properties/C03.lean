import BS.Proofs.Eval
/-!
# C03 — the evaluator: tasks start only when ready, success only when done, always progress

All statements are about one *round* of the evaluator (the reads `obs` made
between two clearings of the `wait` memo), for every graph whose groups are
consistent, every observation function and every evaluator state.
-/
namespace BS.Eval

/-- group members share their group list (true of compiled graphs, C08) -/
def GroupsOK (g : Graph) : Prop := ∀ t, ∀ u ∈ g.group t, g.group u = g.group t

def AllOk (g : Graph) (obs : Nat → TState) (t : Nat) : Prop := ∀ u ∈ g.phase t, obs u = .ok

/-- A task may be handed to the executor: it is already in flight elsewhere, or it
is INIT/LOST and every task of every dependency phase was observed OK. -/
def Ready (g : Graph) (obs : Nat → TState) (u : Nat) : Prop :=
  obs u = .waiting ∨ obs u = .running ∨
    ((obs u = .init ∨ obs u = .lost) ∧ ∀ d ∈ g.deps u, AllOk g obs d)

/-- `x` is needed by `t`: it is in `t`'s phase, or in the dependency closure below a
task of that phase that is not done. -/
inductive Reach (g : Graph) (obs : Nat → TState) : Nat → Nat → Prop
  | here {t x} : x ∈ g.phase t → Reach g obs t x
  | dep {t u d x} : u ∈ g.phase t → (obs u = .init ∨ obs u = .lost) → d ∈ g.deps u →
      Reach g obs d x → Reach g obs t x

/-- the `wait` memo is sound for this round: a memoised 0 means the phase was observed all-OK -/
def WaitSound (g : Graph) (obs : Nat → TState) (w : List (Nat × Nat)) : Prop :=
  ∀ h n, lookup h w = some n → n = 0 → ∀ u ∈ g.phase h, obs u = .ok

theorem phase_head (g : Graph) (hg : GroupsOK g) (t : Nat) : g.phase (g.head t) = g.phase t := by
  unfold Graph.phase Graph.head
  cases hgt : g.group t with
  | nil => simp [hgt]
  | cons a as =>
    have : g.group a = g.group t := hg t a (by simp [hgt])
    simp [this, hgt]

/-- What one (recursive) call of `Enqueue` guarantees. -/
structure CallOK (g : Graph) (obs : Nat → TState) (rec : Nat → EState → EState × Nat) : Prop where
  sound : ∀ d s, WaitSound g obs s.wait → WaitSound g obs (rec d s).1.wait
  zero : ∀ d s, WaitSound g obs s.wait → (rec d s).2 = 0 → AllOk g obs d
  todo : ∀ d s, WaitSound g obs s.wait → ∀ x ∈ (rec d s).1.todo,
            x ∈ s.todo ∨ (Ready g obs x ∧ x ∉ s.pending ∧ Reach g obs d x)
  pend : ∀ d s, WaitSound g obs s.wait → (rec d s).1.pending = s.pending
  mono : ∀ d s, WaitSound g obs s.wait → ∀ x, x ∈ s.todo → x ∈ (rec d s).1.todo
  nodup : ∀ d s, WaitSound g obs s.wait → s.todo.Nodup → (rec d s).1.todo.Nodup

theorem enqDeps_ok (g : Graph) (obs : Nat → TState) (rec) (hr : CallOK g obs rec) (u : Nat) (ds : List Nat) :
    ∀ (s : EState) (ready : Bool), WaitSound g obs s.wait →
      let r := enqDeps rec u ds s ready
      WaitSound g obs r.1.wait ∧
      (r.2 = true → ready = true ∧ ∀ d ∈ ds, AllOk g obs d) ∧
      (∀ x ∈ r.1.todo, x ∈ s.todo ∨ (Ready g obs x ∧ x ∉ s.pending ∧ ∃ d ∈ ds, Reach g obs d x)) ∧
      r.1.pending = s.pending ∧ (∀ x, x ∈ s.todo → x ∈ r.1.todo) ∧ (s.todo.Nodup → r.1.todo.Nodup) := by
  induction ds with
  | nil => intro s ready hs; simp [enqDeps, hs]
  | cons d ds ih =>
    intro s ready hs
    simp only [enqDeps]
    have h6 := hr.nodup d s hs
    have h1 := hr.sound d s hs
    have h2 := hr.zero d s hs
    have h3 := hr.todo d s hs
    have h4 := hr.pend d s hs
    have h5 := hr.mono d s hs
    split
    · rename_i hz
      obtain ⟨a, b, c, e, f, nd⟩ := ih (rec d s).1 ready h1
      refine ⟨a, ?_, ?_, by rw [e, h4], fun x hx => f x (h5 x hx), fun h => nd (h6 h)⟩
      · intro hrdy
        obtain ⟨r1, r2⟩ := b hrdy
        refine ⟨r1, ?_⟩
        intro d' hd'
        rcases List.mem_cons.mp hd' with rfl | hd'
        · exact h2 hz
        · exact r2 d' hd'
      · intro x hx
        rcases c x hx with hx | ⟨p1, p2, d', hd', p3⟩
        · rcases h3 x hx with hx | ⟨q1, q2, q3⟩
          · exact Or.inl hx
          · exact Or.inr ⟨q1, q2, d, by simp, q3⟩
        · exact Or.inr ⟨p1, by rw [← h4]; exact p2, d', by simp [hd'], p3⟩
    · rename_i hz
      obtain ⟨a, b, c, e, f, nd⟩ := ih ((rec d s).1.add d u (rec d s).2) false (by simpa using h1)
      refine ⟨a, ?_, ?_, by rw [e]; simp [h4], fun x hx => f x (by simpa using h5 x hx),
        fun h => nd (by simpa using h6 h)⟩
      · intro hrdy
        have := (b hrdy).1
        cases this
      · intro x hx
        rcases c x hx with hx | ⟨p1, p2, d', hd', p3⟩
        · rcases h3 x (by simpa using hx) with hx | ⟨q1, q2, q3⟩
          · exact Or.inl hx
          · exact Or.inr ⟨q1, q2, d, by simp, q3⟩
        · exact Or.inr ⟨p1, by simpa [h4] using p2, d', by simp [hd'], p3⟩

theorem enqPhase_ok (g : Graph) (obs : Nat → TState) (rec) (hr : CallOK g obs rec) (us : List Nat) :
    ∀ (s : EState) (nwait : Nat), WaitSound g obs s.wait →
      let r := enqPhase g obs rec us s nwait
      WaitSound g obs r.1.wait ∧
      nwait ≤ r.2 ∧ (r.2 = nwait → ∀ u ∈ us, obs u = .ok) ∧
      (∀ x ∈ r.1.todo, x ∈ s.todo ∨ (Ready g obs x ∧ x ∉ s.pending ∧
          (x ∈ us ∨ ∃ u ∈ us, (obs u = .init ∨ obs u = .lost) ∧ ∃ d ∈ g.deps u, Reach g obs d x))) ∧
      r.1.pending = s.pending ∧ (∀ x, x ∈ s.todo → x ∈ r.1.todo) ∧ (s.todo.Nodup → r.1.todo.Nodup) := by
  induction us with
  | nil => intro s nwait hs; simp [enqPhase, hs]
  | cons u us ih =>
    intro s nwait hs
    -- a generic way to lift the induction hypothesis over the step taken for `u`
    have lift : ∀ (s' : EState) (n' : Nat), WaitSound g obs s'.wait → s'.pending = s.pending →
        (∀ x, x ∈ s.todo → x ∈ s'.todo) →
        (∀ x ∈ s'.todo, x ∈ s.todo ∨ (Ready g obs x ∧ x ∉ s.pending ∧
          (x = u ∨ ((obs u = .init ∨ obs u = .lost) ∧ ∃ d ∈ g.deps u, Reach g obs d x)))) →
        nwait ≤ n' → (n' = nwait → obs u = .ok) → (s.todo.Nodup → s'.todo.Nodup) →
        let r := enqPhase g obs rec us s' n'
        WaitSound g obs r.1.wait ∧
        nwait ≤ r.2 ∧ (r.2 = nwait → ∀ v ∈ u :: us, obs v = .ok) ∧
        (∀ x ∈ r.1.todo, x ∈ s.todo ∨ (Ready g obs x ∧ x ∉ s.pending ∧
            (x ∈ u :: us ∨ ∃ v ∈ u :: us, (obs v = .init ∨ obs v = .lost) ∧ ∃ d ∈ g.deps v, Reach g obs d x))) ∧
        r.1.pending = s.pending ∧ (∀ x, x ∈ s.todo → x ∈ r.1.todo) ∧ (s.todo.Nodup → r.1.todo.Nodup) := by
      intro s' n' hs' hp hm ht hn hz hnd
      obtain ⟨a, b, c, d, e, f, nd⟩ := ih s' n' hs'
      refine ⟨a, by omega, ?_, ?_, by rw [e, hp], fun x hx => f x (hm x hx), fun h => nd (hnd h)⟩
      · intro heq
        have hn' : n' = nwait := by omega
        intro v hv
        rcases List.mem_cons.mp hv with rfl | hv
        · exact hz hn'
        · exact c (by omega) v hv
      · intro x hx
        rcases d x hx with hx | ⟨p1, p2, p3⟩
        · rcases ht x hx with hx | ⟨q1, q2, q3⟩
          · exact Or.inl hx
          · refine Or.inr ⟨q1, q2, ?_⟩
            rcases q3 with rfl | ⟨q3, d', hd', q4⟩
            · exact Or.inl (by simp)
            · exact Or.inr ⟨u, by simp, q3, d', hd', q4⟩
        · refine Or.inr ⟨p1, by rw [← hp]; exact p2, ?_⟩
          rcases p3 with p3 | ⟨v, hv, p3⟩
          · exact Or.inl (by simp [p3])
          · exact Or.inr ⟨v, by simp [hv], p3⟩
    simp only [enqPhase]
    split
    · -- ok
      rename_i hu
      exact lift s nwait hs rfl (fun _ h => h) (fun x hx => Or.inl hx) (Nat.le_refl _) (fun _ => hu) (fun h => h)
    · -- err
      rename_i hu
      exact lift { s with err := true } (nwait + 1) hs rfl (fun _ h => h) (fun x hx => Or.inl hx)
        (by omega) (fun h => by omega) (fun h => h)
    · -- waiting
      rename_i hu
      refine lift (s.schedule u) (nwait + 1) (by simpa using hs) (by simp) (fun x hx => schedule_todo_mono s u x hx)
        ?_ (by omega) (fun h => by omega) (schedule_nodup s u)
      intro x hx
      rcases schedule_todo_mem s u x hx with hx | ⟨rfl, hp⟩
      · exact Or.inl hx
      · exact Or.inr ⟨Or.inl hu, hp, Or.inl rfl⟩
    · -- running
      rename_i hu
      refine lift (s.schedule u) (nwait + 1) (by simpa using hs) (by simp) (fun x hx => schedule_todo_mono s u x hx)
        ?_ (by omega) (fun h => by omega) (schedule_nodup s u)
      intro x hx
      rcases schedule_todo_mem s u x hx with hx | ⟨rfl, hp⟩
      · exact Or.inl hx
      · exact Or.inr ⟨Or.inr (Or.inl hu), hp, Or.inl rfl⟩
    all_goals
      rename_i hu
      obtain ⟨a, b, c, e, f, nd⟩ := enqDeps_ok g obs rec hr u (g.deps u) (s.clear g u) true (by simpa using hs)
      have hil : obs u = .init ∨ obs u = .lost := by simp [hu]
      split
      · rename_i hrdy
        refine lift _ (nwait + 1) (by simpa using a) (by simpa using e)
          (fun x hx => schedule_todo_mono _ u x (f x (by simpa using hx))) ?_ (by omega) (fun h => by omega)
          (fun h => schedule_nodup _ u (nd (by simpa using h)))
        intro x hx
        rcases schedule_todo_mem _ u x hx with hx | ⟨rfl, hp⟩
        · rcases c x hx with hx | ⟨p1, p2, d', hd', p3⟩
          · exact Or.inl (by simpa using hx)
          · exact Or.inr ⟨p1, by simpa using p2, Or.inr ⟨hil, d', hd', p3⟩⟩
        · refine Or.inr ⟨Or.inr (Or.inr ⟨hil, (b hrdy).2⟩), by simpa [e] using hp, Or.inl rfl⟩
      · refine lift _ (nwait + 1) a (by simpa using e) (fun x hx => f x (by simpa using hx)) ?_ (by omega)
          (fun h => by omega) (fun h => nd (by simpa using h))
        intro x hx
        rcases c x hx with hx | ⟨p1, p2, d', hd', p3⟩
        · exact Or.inl (by simpa using hx)
        · exact Or.inr ⟨p1, by simpa using p2, Or.inr ⟨hil, d', hd', p3⟩⟩

theorem waitSound_upsert (g : Graph) (obs : Nat → TState) (w : List (Nat × Nat)) (h n : Nat)
    (hw : WaitSound g obs w) (hn : n = 0 → ∀ u ∈ g.phase h, obs u = .ok) :
    WaitSound g obs (upsert h n w) := by
  intro h' n' hl hz
  by_cases e : h = h'
  · subst e
    rw [lookup_upsert_same] at hl
    cases hl
    exact hn hz
  · rw [lookup_upsert_other _ _ _ _ e] at hl
    exact hw h' n' hl hz

/-- **Main lemma**: every call of `Enqueue` (any fuel, any task, any state) is sound. -/
theorem enqueue_callOK (g : Graph) (hg : GroupsOK g) (obs : Nat → TState) (fuel : Nat) :
    CallOK g obs (enqueue g obs fuel) := by
  induction fuel with
  | zero =>
    exact ⟨fun _ _ h => h, fun _ _ _ h => by simp [enqueue] at h, fun _ _ _ x hx => Or.inl hx,
      fun _ _ _ => rfl, fun _ _ _ _ h => h, fun _ _ _ h => h⟩
  | succ fuel ih =>
    have key : ∀ (t : Nat) (s : EState), WaitSound g obs s.wait →
        let r := enqueue g obs (fuel + 1) t s
        WaitSound g obs r.1.wait ∧ (r.2 = 0 → AllOk g obs t) ∧
        (∀ x ∈ r.1.todo, x ∈ s.todo ∨ (Ready g obs x ∧ x ∉ s.pending ∧ Reach g obs t x)) ∧
        r.1.pending = s.pending ∧ (∀ x, x ∈ s.todo → x ∈ r.1.todo) ∧ (s.todo.Nodup → r.1.todo.Nodup) := by
      intro t s hs
      simp only [enqueue]
      split
      · rename_i n hl
        refine ⟨hs, ?_, fun x hx => Or.inl hx, rfl, fun _ h => h, fun h => h⟩
        intro hz
        have := hs (g.head t) n hl hz
        rw [phase_head g hg] at this
        exact this
      · obtain ⟨a, b, c, d, e, f, nd⟩ := enqPhase_ok g obs _ ih (g.phase t) s 0 hs
        refine ⟨?_, ?_, ?_, e, f, nd⟩
        · apply waitSound_upsert _ _ _ _ _ a
          intro hz
          rw [phase_head g hg]
          exact c hz
        · intro hz; exact c hz
        · intro x hx
          rcases d x hx with hx | ⟨p1, p2, p3⟩
          · exact Or.inl hx
          · refine Or.inr ⟨p1, p2, ?_⟩
            rcases p3 with p3 | ⟨u, hu, hil, d', hd', p3⟩
            · exact Reach.here p3
            · exact Reach.dep hu hil hd' p3
    exact ⟨fun d s h => (key d s h).1, fun d s h => (key d s h).2.1, fun d s h => (key d s h).2.2.1,
      fun d s h => (key d s h).2.2.2.1, fun d s h => (key d s h).2.2.2.2.1, fun d s h => (key d s h).2.2.2.2.2⟩

/-! ### Progress: whatever is not done keeps the evaluator active -/

/-- the evaluation cannot report success in this state -/
def Active (s : EState) : Prop := s.err = true ∨ s.todo ≠ [] ∨ s.pending ≠ []

def WaitLive (s : EState) : Prop := ∀ h n, lookup h s.wait = some n → n ≠ 0 → Active s

/-- dependency heads precede the head of the depending phase (proved of compiled graphs in C08) -/
def Acyc (g : Graph) : Prop := ∀ t, ∀ u ∈ g.phase t, ∀ d ∈ g.deps u, g.head d < g.head t

structure CallLive (g : Graph) (rec : Nat → EState → EState × Nat) (m : Nat) : Prop where
  live : ∀ d s, g.head d < m → WaitLive s → WaitLive (rec d s).1
  nz : ∀ d s, g.head d < m → WaitLive s → (rec d s).2 ≠ 0 → Active (rec d s).1
  act : ∀ d s, g.head d < m → WaitLive s → Active s → Active (rec d s).1

theorem active_schedule (s : EState) (t : Nat) : Active (s.schedule t) := by
  rcases schedule_scheduled s t with h | h
  · exact Or.inr (Or.inl (List.ne_nil_of_mem h))
  · exact Or.inr (Or.inr (by simpa using List.ne_nil_of_mem h))

theorem active_of_schedule (s : EState) (t : Nat) (h : Active s) : Active (s.schedule t) :=
  active_schedule s t

theorem waitLive_congr (s s' : EState) (hw : s'.wait = s.wait) (ha : Active s → Active s') (h : WaitLive s) :
    WaitLive s' := by
  intro k n hl hn
  rw [hw] at hl
  exact ha (h k n hl hn)

theorem active_add (s : EState) (a b n : Nat) : Active (s.add a b n) ↔ Active s := by
  simp [Active]
theorem active_clear (g : Graph) (s : EState) (t : Nat) : Active (s.clear g t) ↔ Active s := by
  simp [Active]

theorem enqDeps_live (g : Graph) (rec) (m : Nat) (hr : CallLive g rec m) (u : Nat) (ds : List Nat)
    (hds : ∀ d ∈ ds, g.head d < m) :
    ∀ (s : EState) (ready : Bool), WaitLive s →
      let r := enqDeps rec u ds s ready
      WaitLive r.1 ∧ (r.2 = false → ready = false ∨ Active r.1) ∧ (Active s → Active r.1) := by
  induction ds with
  | nil => intro s ready hs; exact ⟨hs, fun h => Or.inl h, fun h => h⟩
  | cons d ds ih =>
    intro s ready hs
    have hd := hds d (by simp)
    have ih' := ih (fun d' h => hds d' (by simp [h]))
    simp only [enqDeps]
    split
    · obtain ⟨a, b, c⟩ := ih' (rec d s).1 ready (hr.live d s hd hs)
      exact ⟨a, b, fun h => c (hr.act d s hd hs h)⟩
    · rename_i hz
      have hact : Active (rec d s).1 := hr.nz d s hd hs hz
      have hl : WaitLive ((rec d s).1.add d u (rec d s).2) :=
        waitLive_congr _ _ (by simp) (fun h => (active_add _ _ _ _).mpr h) (hr.live d s hd hs)
      obtain ⟨a, b, c⟩ := ih' _ false hl
      exact ⟨a, fun _ => Or.inr (c ((active_add _ _ _ _).mpr hact)),
        fun _ => c ((active_add _ _ _ _).mpr hact)⟩

theorem enqPhase_live (g : Graph) (obs : Nat → TState) (rec) (m : Nat) (hr : CallLive g rec m) (us : List Nat)
    (hus : ∀ u ∈ us, ∀ d ∈ g.deps u, g.head d < m) :
    ∀ (s : EState) (nwait : Nat), WaitLive s →
      let r := enqPhase g obs rec us s nwait
      WaitLive r.1 ∧ (r.2 ≠ nwait → Active r.1) ∧ (Active s → Active r.1) ∧ nwait ≤ r.2 := by
  induction us with
  | nil => intro s nwait hs; simp [enqPhase, hs]
  | cons u us ih =>
    intro s nwait hs
    have ih' := ih (fun v h => hus v (by simp [h]))
    -- once active, always active through the rest of the loop
    have fin : ∀ (s' : EState), WaitLive s' → Active s' →
        let r := enqPhase g obs rec us s' (nwait + 1)
        WaitLive r.1 ∧ (r.2 ≠ nwait → Active r.1) ∧ (Active s → Active r.1) ∧ nwait ≤ r.2 := by
      intro s' hs' ha
      obtain ⟨a, b, c, d⟩ := ih' s' (nwait + 1) hs'
      exact ⟨a, fun _ => c ha, fun _ => c ha, by omega⟩
    simp only [enqPhase]
    split
    · exact ih' s nwait hs
    · exact fin { s with err := true } (waitLive_congr s _ rfl (fun _ => Or.inl rfl) hs) (Or.inl rfl)
    · exact fin _ (waitLive_congr s _ (by simp) (fun _ => active_schedule s u) hs) (active_schedule s u)
    · exact fin _ (waitLive_congr s _ (by simp) (fun _ => active_schedule s u) hs) (active_schedule s u)
    all_goals
      have hcl : WaitLive (s.clear g u) := waitLive_congr s _ rfl (fun h => (active_clear g s u).mpr h) hs
      obtain ⟨a, b, c⟩ := enqDeps_live g rec m hr u (g.deps u) (hus u (by simp)) (s.clear g u) true hcl
      split
      · exact fin _ (waitLive_congr _ _ (by simp) (fun _ => active_schedule _ u) a) (active_schedule _ u)
      · rename_i hnr
        have : Active (enqDeps rec u (g.deps u) (s.clear g u) true).1 := by
          rcases b (by simpa using hnr) with h | h
          · cases h
          · exact h
        exact fin _ a this

/-- With enough fuel for the phase's rank, a non-zero wait count means the evaluator is active. -/
theorem enqueue_callLive (g : Graph) (hg : GroupsOK g) (ha : Acyc g) (obs : Nat → TState) (fuel : Nat) :
    CallLive g (enqueue g obs fuel) fuel := by
  induction fuel with
  | zero => exact ⟨fun _ _ h => absurd h (Nat.not_lt_zero _), fun _ _ h => absurd h (Nat.not_lt_zero _),
      fun _ _ h => absurd h (Nat.not_lt_zero _)⟩
  | succ fuel ih =>
    have key : ∀ (t : Nat) (s : EState), g.head t < fuel + 1 → WaitLive s →
        let r := enqueue g obs (fuel + 1) t s
        WaitLive r.1 ∧ (r.2 ≠ 0 → Active r.1) ∧ (Active s → Active r.1) := by
      intro t s ht hs
      simp only [enqueue]
      split
      · rename_i n hl
        exact ⟨hs, fun hn => hs _ n hl hn, fun h => h⟩
      · have hus : ∀ u ∈ g.phase t, ∀ d ∈ g.deps u, g.head d < fuel := by
          intro u hu d hd
          have := ha t u hu d hd
          omega
        obtain ⟨a, b, c, _⟩ := enqPhase_live g obs _ fuel ih (g.phase t) hus s 0 hs
        refine ⟨?_, fun hn => b hn, c⟩
        intro k n hl hn
        by_cases e : g.head t = k
        · subst e
          rw [lookup_upsert_same] at hl
          cases hl
          exact b hn
        · rw [lookup_upsert_other _ _ _ _ e] at hl
          exact a k n hl hn
    exact ⟨fun d s h hs => (key d s h hs).1, fun d s h hs => (key d s h hs).2.1,
      fun d s h hs => (key d s h hs).2.2⟩

/-! ## The property theorems -/

/-- enqueueing the roots, as at the top of the `Eval` loop (eval.go:89-91) -/
def enqRoots (g : Graph) (obs : Nat → TState) (fuel : Nat) (roots : List Nat) (s : EState) : EState :=
  roots.foldl (fun s r => (enqueue g obs fuel r s).1) s

/-- **ready_only / needed_only.**  Every task that enqueueing the roots adds to the
todo set (a) may run: it is in flight elsewhere, or it is INIT/LOST and every task of
every dependency phase was observed OK in this round; (b) is not pending; (c) is
needed by some root through phases that are not done. -/
theorem ready_and_needed_only (g : Graph) (hg : GroupsOK g) (obs : Nat → TState) (fuel : Nat)
    (roots : List Nat) (s : EState) (hs : WaitSound g obs s.wait) :
    WaitSound g obs (enqRoots g obs fuel roots s).wait ∧
    (enqRoots g obs fuel roots s).pending = s.pending ∧
    ∀ x ∈ (enqRoots g obs fuel roots s).todo,
      x ∈ s.todo ∨ (Ready g obs x ∧ x ∉ s.pending ∧ ∃ r ∈ roots, Reach g obs r x) := by
  have hc := enqueue_callOK g hg obs fuel
  induction roots generalizing s with
  | nil => exact ⟨hs, rfl, fun x hx => Or.inl hx⟩
  | cons r rs ih =>
    simp only [enqRoots, List.foldl_cons]
    obtain ⟨a, b, c⟩ := ih (enqueue g obs fuel r s).1 (hc.sound r s hs)
    have hp := hc.pend r s hs
    refine ⟨a, by rw [← hp]; exact b, ?_⟩
    intro x hx
    rcases c x hx with hx | ⟨p1, p2, r', hr', p3⟩
    · rcases hc.todo r s hs x hx with hx | ⟨q1, q2, q3⟩
      · exact Or.inl hx
      · exact Or.inr ⟨q1, q2, r, by simp, q3⟩
    · exact Or.inr ⟨p1, by rw [← hp]; exact p2, r', by simp [hr'], p3⟩

/-- **single_handout.**  `todo` has no duplicates and is disjoint from `pending`
(tasks handed to the executor and not yet returned); both are invariants of every
evaluator operation, so `Runnable` never hands out a task that is already out. -/
def HandoutInv (s : EState) : Prop := s.todo.Nodup ∧ ∀ x ∈ s.todo, x ∉ s.pending

theorem handout_enqueue (g : Graph) (hg : GroupsOK g) (obs : Nat → TState) (fuel t : Nat) (s : EState)
    (hs : WaitSound g obs s.wait) (hi : HandoutInv s) : HandoutInv (enqueue g obs fuel t s).1 := by
  have hc := enqueue_callOK g hg obs fuel
  refine ⟨hc.nodup t s hs hi.1, ?_⟩
  intro x hx
  rw [hc.pend t s hs]
  rcases hc.todo t s hs x hx with hx | ⟨_, h, _⟩
  · exact hi.2 x hx
  · exact h

theorem handout_runnable (s : EState) (hi : HandoutInv s) :
    HandoutInv (runnable s).1 ∧ (runnable s).2.Nodup ∧ ∀ x ∈ (runnable s).2, x ∉ s.pending := by
  refine ⟨⟨by simp [runnable], by simp [runnable]⟩, ?_, ?_⟩
  · simpa [runnable] using hi.1
  · simpa [runnable] using hi.2

theorem waitSound_nil (g : Graph) (obs : Nat → TState) : WaitSound g obs [] := by
  intro h n hl; simp [lookup] at hl

theorem handout_foldl (g : Graph) (hg : GroupsOK g) (obs : Nat → TState) (fuel : Nat) (ds : List Nat) (s : EState)
    (hs : WaitSound g obs s.wait) (hi : HandoutInv s) :
    HandoutInv (ds.foldl (fun s d => (enqueue g obs fuel d s).1) s) := by
  induction ds generalizing s with
  | nil => exact hi
  | cons d ds ih =>
    simp only [List.foldl_cons]
    exact ih _ ((enqueue_callOK g hg obs fuel).sound d s hs) (handout_enqueue g hg obs fuel d s hs hi)

theorem doneStep_fields (src : Nat) (s : EState) :
    (doneStep src s).1.todo = s.todo ∧ (doneStep src s).1.pending = s.pending ∧ (doneStep src s).1.wait = s.wait := by
  unfold doneStep
  generalize (lookup src s.deps).getD [] = dsts
  suffices h : ∀ (acc : EState × List Nat), acc.1.todo = s.todo ∧ acc.1.pending = s.pending ∧ acc.1.wait = s.wait →
      let r := dsts.foldl (fun (acc : EState × List Nat) dst =>
        let c := (lookup dst acc.1.counts).getD 0 - 1
        ({ acc.1 with counts := upsert dst c acc.1.counts }, if c = 0 then acc.2 ++ [dst] else acc.2)) acc
      r.1.todo = s.todo ∧ r.1.pending = s.pending ∧ r.1.wait = s.wait from h (s, []) ⟨rfl, rfl, rfl⟩
  induction dsts with
  | nil => intro acc h; exact h
  | cons d ds ih => intro acc h; simp only [List.foldl_cons]; exact ih _ h

theorem handout_ret (g : Graph) (hg : GroupsOK g) (obs : Nat → TState) (fuel t : Nat) (st : TState)
    (s s' : EState) (hi : HandoutInv s) (h : ret g obs fuel t st s = some s') : HandoutInv s' := by
  unfold ret at h
  split at h
  · cases h
  · have hi0 : HandoutInv { s with wait := [], pending := s.pending.filter (· ≠ t) } :=
      ⟨hi.1, fun x hx hp => hi.2 x hx (List.mem_filter.mp hp).1⟩
    cases st <;> simp only [Option.some.injEq] at h <;> subst h
    · -- init
      refine ⟨schedule_nodup _ _ hi0.1, ?_⟩
      intro x hx
      rcases schedule_todo_mem _ _ _ hx with hx | ⟨rfl, hp⟩
      · simpa using hi0.2 x hx
      · simpa using hp
    · refine ⟨schedule_nodup _ _ hi0.1, ?_⟩
      intro x hx
      rcases schedule_todo_mem _ _ _ hx with hx | ⟨rfl, hp⟩
      · simpa using hi0.2 x hx
      · simpa using hp
    · refine ⟨schedule_nodup _ _ hi0.1, ?_⟩
      intro x hx
      rcases schedule_todo_mem _ _ _ hx with hx | ⟨rfl, hp⟩
      · simpa using hi0.2 x hx
      · simpa using hp
    · -- ok
      obtain ⟨d1, d2, d3⟩ := doneStep_fields (g.head t) { s with wait := [], pending := s.pending.filter (· ≠ t) }
      apply handout_foldl g hg obs fuel
      · rw [d3]; exact waitSound_nil g obs
      · exact ⟨by rw [d1]; exact hi0.1, fun x hx => by rw [d2]; exact hi0.2 x (by rw [← d1]; exact hx)⟩
    · -- err
      exact hi0
    · -- lost
      exact handout_enqueue g hg obs fuel t _ (waitSound_nil g obs) hi0

/-- **success_only_when_done / never idle with work outstanding.**  After the roots
are enqueued in a round, if the evaluator is not active (no error recorded, nothing to
run, nothing in flight — exactly when `Eval` returns nil) then every task of every
root phase was observed OK.  Contrapositive: while some root is not done, the
evaluator has an error, a task to hand out, or a task in flight (it blocks in its
`select` only with `pending ≠ ∅`). -/
theorem success_only_when_done (g : Graph) (hg : GroupsOK g) (ha : Acyc g) (obs : Nat → TState) (fuel : Nat)
    (roots : List Nat) (s : EState) (hs : WaitSound g obs s.wait) (hl : WaitLive s)
    (hf : ∀ r ∈ roots, g.head r < fuel)
    (hdone : ¬ Active (enqRoots g obs fuel roots s)) : ∀ r ∈ roots, AllOk g obs r := by
  have hc := enqueue_callOK g hg obs fuel
  have hv := enqueue_callLive g hg ha obs fuel
  induction roots generalizing s with
  | nil => intro r hr; cases hr
  | cons r rs ih =>
    simp only [enqRoots, List.foldl_cons] at hdone
    have hr := hf r (by simp)
    have hl1 := hv.live r s hr hl
    have hs1 := hc.sound r s hs
    -- activity persists through the remaining roots
    have pers : ∀ (rs' : List Nat) (s1 : EState), (∀ r' ∈ rs', g.head r' < fuel) → WaitLive s1 → Active s1 →
        Active (rs'.foldl (fun s r => (enqueue g obs fuel r s).1) s1) := by
      intro rs'
      induction rs' with
      | nil => intro s1 _ _ h; exact h
      | cons r' rs' ih' =>
        intro s1 hf' hl' h
        simp only [List.foldl_cons]
        exact ih' _ (fun x hx => hf' x (by simp [hx])) (hv.live r' s1 (hf' r' (by simp)) hl')
          (hv.act r' s1 (hf' r' (by simp)) hl' h)
    have hz : (enqueue g obs fuel r s).2 = 0 := by
      apply Classical.byContradiction
      intro hn
      exact hdone (pers rs _ (fun x hx => hf x (by simp [hx])) hl1 (hv.nz r s hr hl hn))
    intro r' hr'
    rcases List.mem_cons.mp hr' with rfl | hr'
    · exact hc.zero r' s hs hz
    · exact ih _ hs1 hl1 (fun x hx => hf x (by simp [hx])) hdone r' hr'

/-- **error_reported.**  A `Return` that observes `TaskErr` records the error. -/
theorem error_reported (g : Graph) (obs : Nat → TState) (fuel t : Nat) (s s' : EState)
    (h : ret g obs fuel t .err s = some s') : s'.err = true := by
  unfold ret at h
  split at h
  · cases h
  · simp only [Option.some.injEq] at h; subst h; rfl

/-- **lost_resubmitted.**  A `Return` that observes `TaskLost` (and reads LOST again
when re-enqueueing) leaves the evaluator active: the task, or something it waits
for, is scheduled or in flight. -/
theorem lost_resubmitted (g : Graph) (hg : GroupsOK g) (ha : Acyc g) (obs : Nat → TState) (fuel t : Nat)
    (s s' : EState) (hf : g.head t < fuel) (hobs : obs t = .lost) (ht : t ∈ g.phase t)
    (h : ret g obs fuel t .lost s = some s') : Active s' := by
  unfold ret at h
  split at h
  · cases h
  · simp only [Option.some.injEq] at h; subst h
    have hv := enqueue_callLive g hg ha obs fuel
    have hc := enqueue_callOK g hg obs fuel
    have hl0 : WaitLive { s with wait := [], pending := s.pending.filter (· ≠ t) } := by
      intro k n hl; simp [lookup] at hl
    apply hv.nz t _ hf hl0
    intro hz
    have := hc.zero t _ (waitSound_nil g obs) hz t ht
    rw [hobs] at this
    cases this

/-- **A returned task is handed out again only through `todo`**: after `Return`, the
task is no longer pending. -/
theorem ret_not_pending (g : Graph) (hg : GroupsOK g) (obs : Nat → TState) (fuel t : Nat) (st : TState)
    (s s' : EState) (h : ret g obs fuel t st s = some s') : t ∉ s'.pending := by
  unfold ret at h
  split at h
  · cases h
  · have hc := enqueue_callOK g hg obs fuel
    have h0 : t ∉ ({ s with wait := [], pending := s.pending.filter (· ≠ t) } : EState).pending := by
      simp
    cases st <;> simp only [Option.some.injEq] at h <;> subst h
    · simpa using h0
    · simpa using h0
    · simpa using h0
    · obtain ⟨d1, d2, d3⟩ := doneStep_fields (g.head t) { s with wait := [], pending := s.pending.filter (· ≠ t) }
      have : ∀ (ds : List Nat) (s1 : EState), WaitSound g obs s1.wait → t ∉ s1.pending →
          t ∉ (ds.foldl (fun s d => (enqueue g obs fuel d s).1) s1).pending := by
        intro ds
        induction ds with
        | nil => intro s1 _ h; exact h
        | cons d ds ih =>
          intro s1 hs1 h1
          simp only [List.foldl_cons]
          exact ih _ (hc.sound d s1 hs1) (by rw [hc.pend d s1 hs1]; exact h1)
      exact this _ _ (by rw [d3]; exact waitSound_nil g obs) (by rw [d2]; exact h0)
    · exact h0
    · rw [hc.pend t _ (waitSound_nil g obs)]; exact h0

/-! ## Non-vacuity: a diamond with a shuffle phase and a lost task -/

def exG : Graph :=
  { n := 4
    deps := fun t => if t = 2 then [0] else if t = 3 then [2] else []
    group := fun t => if t = 0 ∨ t = 1 then [0, 1] else [] }

def exObs : Nat → TState := fun t => if t = 0 then .ok else if t = 1 then .lost else .init

theorem exG_groupsOK : GroupsOK exG := by
  intro t u hu
  simp only [exG] at *
  split at hu
  · rename_i h
    simp at hu
    rcases hu with rfl | rfl <;> simp [h]
  · cases hu

example : (enqueue exG exObs 5 3 EState.empty).1.todo = [1] := by decide
example : ¬ (enqueue exG exObs 5 3 EState.empty).2 = 0 := by decide

end BS.Eval
