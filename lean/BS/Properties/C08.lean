import BS.Model.Compile
/-!
# C08 — an invocation compiles to the same well-formed task graph everywhere

`compile` is a function of the invocation's slice DAG, the machine-combiner
flag and the argument results: determinism is by construction (the Go sources
of nondeterminism — map iteration, pointer identity — do not occur in the data
it consults).  The theorems below are the well-formedness the evaluator relies
on (C03's `Acyc`): every dependency points to an earlier task.
-/
namespace BS.Compile
open BS.Prog

/-- every dependency head of every task precedes the task -/
def TWF (ts : List MTask) : Prop := ∀ (i : Nat) (t : MTask), ts[i]? = some t → ∀ d ∈ t.deps, d.head < i

def IdsOK (st : CState) (ids : List Nat) : Prop := ∀ i ∈ ids, i < st.tasks.length

/-- state invariant: dependencies point backwards, memoised task sets and the argument results'
tasks exist -/
def StWF (env : Env) (st : CState) : Prop :=
  TWF st.tasks ∧ (∀ e ∈ st.memo, IdsOK st e.2) ∧ ∀ rts ∈ env.results, IdsOK st rts

theorem setGroup_length (ts : List MTask) (ids : List Nat) : (setGroup ts ids).length = ts.length := by
  unfold setGroup; split <;> simp

theorem setGroup_deps (ts : List MTask) (ids : List Nat) (i : Nat) (t : MTask)
    (h : (setGroup ts ids)[i]? = some t) : ∃ t', ts[i]? = some t' ∧ t'.deps = t.deps := by
  unfold setGroup at h
  split at h
  · exact ⟨t, h, rfl⟩
  · simp only [List.getElem?_mapIdx] at h
    cases ht : ts[i]? with
    | none => simp [ht] at h
    | some t' =>
      simp only [ht, Option.map_some, Option.some.injEq] at h
      refine ⟨t', rfl, ?_⟩
      subst h
      split <;> rfl

theorem twf_setGroup (ts : List MTask) (ids : List Nat) (h : TWF ts) : TWF (setGroup ts ids) := by
  intro i t ht d hd
  obtain ⟨t', h1, h2⟩ := setGroup_deps ts ids i t ht
  exact h i t' h1 d (h2 ▸ hd)

theorem finish_spec (env : Env) (sid : Nat) (part : Part) (st : CState) (ids : List Nat) (hw : StWF env st) (hi : IdsOK st ids) :
    StWF env (finish sid part st ids).1 ∧ (finish sid part st ids).1.tasks.length = st.tasks.length ∧
      (finish sid part st ids).2 = ids := by
  obtain ⟨h1, h2, h3⟩ := hw
  unfold finish
  simp only
  have key : ∀ (st' : CState), st'.tasks.length = st.tasks.length → TWF st'.tasks → st'.memo = st.memo →
      StWF env (if (!part.comb && !part.custom) = true then { st' with memo := ((sid, part.np), ids) :: st'.memo } else st') ∧
      (if (!part.comb && !part.custom) = true then { st' with memo := ((sid, part.np), ids) :: st'.memo } else st').tasks.length
        = st.tasks.length := by
    intro st' hl ht hm
    split
    · refine ⟨⟨ht, ?_, ?_⟩, hl⟩
      · intro e he
        simp only [List.mem_cons] at he
        rcases he with rfl | he
        · intro i hi'; simp only [IdsOK] at hi ⊢; rw [hl]; exact hi i hi'
        · intro i hi'; rw [hl]; exact h2 e (hm ▸ he) i hi'
      · intro rts hr i hi'; rw [hl]; exact h3 rts hr i hi'
    · refine ⟨⟨ht, ?_, ?_⟩, hl⟩
      · intro e he i hi'
        rw [hl]; exact h2 e (hm ▸ he) i hi'
      · intro rts hr i hi'; rw [hl]; exact h3 rts hr i hi'
  have h1st : ∀ (b : Bool), let st1 := if b = true then { st with tasks := setGroup st.tasks ids } else st
      st1.tasks.length = st.tasks.length ∧ TWF st1.tasks ∧ st1.memo = st.memo := by
    intro b
    cases b
    · exact ⟨rfl, h1, rfl⟩
    · exact ⟨setGroup_length _ _, twf_setGroup _ _ h1, rfl⟩
  obtain ⟨a, b, c⟩ := h1st (part.np != 0)
  have := key _ a b c
  exact ⟨this.1, this.2, by first | rfl | trivial⟩

/-- what a (recursive) call of `compile` guarantees -/
def CallSpec (env : Env) (rec : Nat → Part → CState → Option (CState × List Nat)) : Prop :=
  ∀ sid part st st' ids, StWF env st → rec sid part st = some (st', ids) →
    StWF env st' ∧ st.tasks.length ≤ st'.tasks.length ∧ IdsOK st' ids

theorem goDeps_spec (env : Env) (rec) (hr : CallSpec env rec) (n : Nat) (lc : Bool) (ck : String) (deps : List SDep) :
    ∀ (st : CState) (acc : List (List TDep)) (st' : CState) (out : List (List TDep)),
      StWF env st → (∀ ds ∈ acc, ∀ d ∈ ds, d.head < st.tasks.length) →
      goDeps rec n lc ck deps st acc = some (st', out) →
      StWF env st' ∧ st.tasks.length ≤ st'.tasks.length ∧ (∀ ds ∈ out, ∀ d ∈ ds, d.head < st'.tasks.length) := by
  induction deps with
  | nil =>
    intro st acc st' out hw ha h
    simp only [goDeps, Option.some.injEq, Prod.mk.injEq] at h
    obtain ⟨rfl, rfl⟩ := h
    exact ⟨hw, Nat.le_refl _, ha⟩
  | cons dep rest ih =>
    intro st acc st' out hw ha h
    simp only [goDeps] at h
    split at h
    · -- non-shuffle
      split at h
      · cases h
      · rename_i st1 ids hrec
        obtain ⟨w1, l1, i1⟩ := hr _ _ _ _ _ hw hrec
        split at h
        · cases h
        · obtain ⟨w2, l2, o2⟩ := ih st1 _ st' out w1 (by
            intro ds hds d hd
            simp only [List.mem_map] at hds
            obtain ⟨⟨ds0, id⟩, hz, rfl⟩ := hds
            simp only [List.mem_append, List.mem_singleton] at hd
            rcases hd with hd | rfl
            · exact Nat.lt_of_lt_of_le (ha ds0 (List.of_mem_zip hz).1 d hd) l1
            · exact i1 id (List.of_mem_zip hz).2) h
          exact ⟨w2, Nat.le_trans l1 l2, o2⟩
    · -- shuffle
      split at h
      · cases h
      · cases h
      · rename_i st1 hd tl hrec
        obtain ⟨w1, l1, i1⟩ := hr _ _ _ _ _ hw hrec
        obtain ⟨w2, l2, o2⟩ := ih st1 _ st' out w1 (by
          intro ds hds d hdd
          simp only [List.mem_map] at hds
          obtain ⟨⟨ds0, p⟩, hz, rfl⟩ := hds
          simp only [List.mem_append, List.mem_singleton] at hdd
          rcases hdd with hdd | rfl
          · have : ds0 ∈ acc := List.mem_of_getElem? (List.mem_zipIdx_iff_getElem?.mp hz)
            exact Nat.lt_of_lt_of_le (ha ds0 this d hdd) l1
          · exact i1 hd (by simp)) h
        exact ⟨w2, Nat.le_trans l1 l2, o2⟩

theorem goDeps_length (rec) (n : Nat) (lc : Bool) (ck : String) (deps : List SDep) :
    ∀ (st : CState) (acc : List (List TDep)) (st' : CState) (out : List (List TDep)),
      acc.length = n → goDeps rec n lc ck deps st acc = some (st', out) → out.length = n := by
  induction deps with
  | nil =>
    intro st acc st' out ha h
    simp only [goDeps, Option.some.injEq, Prod.mk.injEq] at h
    rw [← h.2]; exact ha
  | cons dep rest ih =>
    intro st acc st' out ha h
    simp only [goDeps] at h
    split at h
    · split at h
      · cases h
      · rename_i st1 ids hrec
        split at h
        · cases h
        · rename_i hlen
          have hlen' : ids.length = n := by simpa using hlen
          exact ih st1 _ st' out (by simp [ha, hlen']) h
    · split at h
      · cases h
      · cases h
      · exact ih _ _ st' out (by simp [ha]) h

theorem twf_append (ts new : List MTask) (h : TWF ts)
    (hn : ∀ t ∈ new, ∀ d ∈ t.deps, d.head < ts.length) : TWF (ts ++ new) := by
  intro i t ht d hd
  by_cases hi : i < ts.length
  · rw [List.getElem?_append_left hi] at ht
    exact h i t ht d hd
  · rw [List.getElem?_append_right (by omega)] at ht
    have := hn t (List.mem_of_getElem? ht) d hd
    omega

theorem stwf_append (env : Env) (st : CState) (new : List MTask) (namer) (hw : StWF env st)
    (hn : ∀ t ∈ new, ∀ d ∈ t.deps, d.head < st.tasks.length) :
    StWF env { st with namer := namer, tasks := st.tasks ++ new } := by
  obtain ⟨h1, h2, h3⟩ := hw
  refine ⟨twf_append _ _ h1 hn, ?_, ?_⟩
  · intro e he i hi; have := h2 e he i hi; simp only [List.length_append]; omega
  · intro rts hr i hi; have := h3 rts hr i hi; simp only [List.length_append]; omega

theorem idsOK_range (st : CState) (base n : Nat) (h : base + n ≤ st.tasks.length) :
    IdsOK st ((List.range n).map (· + base)) := by
  intro i hi
  simp only [List.mem_map, List.mem_range] at hi
  obtain ⟨k, hk, rfl⟩ := hi
  omega

theorem resOK_getD (env : Env) (st : CState) (r : Nat) (hw : StWF env st) : IdsOK st (env.results.getD r []) := by
  intro i hi
  by_cases hlt : r < env.results.length
  · have : env.results.getD r [] ∈ env.results := by
      simp [List.getD_eq_getElem?_getD, hlt]
    exact hw.2.2 _ this i hi
  · have hn : env.results[r]? = none := List.getElem?_eq_none (by omega)
    simp [List.getD_eq_getElem?_getD, hn] at hi

theorem compileResult_spec (env : Env) (sid : Nat) (part : Part) (st : CState) (r : Nat) (st' : CState)
    (ids : List Nat) (hw : StWF env st) (h : compileResult env sid part st r = some (st', ids)) :
    StWF env st' ∧ st.tasks.length ≤ st'.tasks.length ∧ IdsOK st' ids := by
  have hres := resOK_getD env st r hw
  unfold compileResult at h
  simp only at h
  split at h
  · cases h
  · split at h
    · simp only [Option.some.injEq] at h
      obtain ⟨a, b, c⟩ := finish_spec env sid part st _ hw hres
      rw [h] at a b c
      simp only at a b c
      refine ⟨a, by omega, ?_⟩
      rw [c]; intro i hi; rw [b]; exact hres i hi
    · simp only [Option.some.injEq] at h
      generalize hnn : namerNew st.namer _ = nn at h
      generalize hnew : (List.zipIdx (env.results.getD r [])).map _ = new at h
      have hdeps : ∀ t ∈ new, ∀ dd ∈ t.deps, dd.head < st.tasks.length := by
        intro t ht dd hdd
        rw [← hnew] at ht
        simp only [List.mem_map] at ht
        obtain ⟨⟨rt, shard⟩, hz, rfl⟩ := ht
        simp only [List.mem_singleton] at hdd
        subst hdd
        exact hres rt (List.mem_of_getElem? (List.mem_zipIdx_iff_getElem?.mp hz))
      have hlen : new.length = (env.results.getD r []).length := by rw [← hnew]; simp
      have hst := stwf_append env st new nn.1 hw hdeps
      have hids : IdsOK { st with namer := nn.1, tasks := st.tasks ++ new }
          ((List.range (env.results.getD r []).length).map (· + st.tasks.length)) :=
        idsOK_range _ _ _ (by simp only [List.length_append]; omega)
      obtain ⟨a, b, c⟩ := finish_spec env sid part _ _ hst hids
      rw [h] at a b c
      simp only at a b c
      refine ⟨a, by rw [b]; simp, ?_⟩
      rw [c]
      intro i hi
      rw [b]
      exact hids i hi

theorem compileGeneral_spec (env : Env) (d : Dag) (rec) (hr : CallSpec env rec) (sid : Nat) (part : Part)
    (st st' : CState) (ids : List Nat) (hw : StWF env st) (h : compileGeneral env d rec sid part st = some (st', ids)) :
    StWF env st' ∧ st.tasks.length ≤ st'.tasks.length ∧ IdsOK st' ids := by
  unfold compileGeneral at h
  simp only at h
  generalize hnn : namerNew st.namer _ = nn at h
  split at h
  · cases h
  · rename_i st1 depLists hgo
    simp only [Option.some.injEq] at h
    obtain ⟨w1, l1, o1⟩ := goDeps_spec env _ hr _ _ _ _ _ _ _ _
      (show StWF env { st with namer := nn.1 } from ⟨hw.1, hw.2.1, hw.2.2⟩)
      (by intro ds hds; simp only [List.mem_replicate] at hds; rw [hds.2]; intro dd hd; cases hd) hgo
    generalize hnew : newTasks _ _ _ part (d.get sid).numShard depLists = new at h
    have hdeps : ∀ t ∈ new, ∀ dd ∈ t.deps, dd.head < st1.tasks.length := by
      intro t ht dd hdd
      rw [← hnew] at ht
      simp only [newTasks, List.mem_map] at ht
      obtain ⟨⟨ds, shard⟩, hz, rfl⟩ := ht
      exact o1 ds (List.mem_of_getElem? (List.mem_zipIdx_iff_getElem?.mp hz)) dd hdd
    have hdl : depLists.length = (d.get sid).numShard := goDeps_length _ _ _ _ _ _ _ _ _ (by simp) hgo
    have hlen : new.length = (d.get sid).numShard := by rw [← hnew]; simp [newTasks, hdl]
    have hst := stwf_append env st1 new st1.namer w1 hdeps
    have hids : IdsOK { st1 with namer := st1.namer, tasks := st1.tasks ++ new }
        ((List.range (d.get sid).numShard).map (· + st1.tasks.length)) :=
      idsOK_range _ _ _ (by simp only [List.length_append]; omega)
    obtain ⟨a, b, c⟩ := finish_spec env sid part _ _ hst hids
    rw [h] at a b c
    simp only at a b c
    refine ⟨a, ?_, ?_⟩
    · rw [b]; simp only [List.length_append]; simp only at l1; omega
    · rw [c]
      intro i hi
      rw [b]
      exact hids i hi

/-- **Main lemma**: `compile` keeps every dependency pointing to an earlier task, returns
existing task ids, and never removes tasks. -/
theorem compile_spec (env : Env) (d : Dag) (fuel : Nat) : CallSpec env (compile env d fuel) := by
  induction fuel with
  | zero => intro sid part st st' ids _ h; simp [compile] at h
  | succ fuel ih =>
    intro sid part st st' ids hw h
    simp only [compile] at h
    split at h
    · rename_i mids hm
      simp only [Option.some.injEq, Prod.mk.injEq] at h
      obtain ⟨rfl, rfl⟩ := h
      refine ⟨hw, Nat.le_refl _, ?_⟩
      split at hm
      · simp only [Option.map_eq_some_iff] at hm
        obtain ⟨e, he, rfl⟩ := hm
        exact hw.2.1 e (List.mem_of_find?_eq_some he)
      · cases hm
    · split at h
      · exact compileResult_spec env sid part st _ st' ids hw h
      · exact compileGeneral_spec env d _ ih sid part st st' ids hw h

/-- **acyclic / well-founded for the evaluator**: compiling any program from an empty task table
yields a graph in which every dependency (head) precedes the depending task — so dependency
phases can be evaluated by recursion on task ids (C03's `Acyc`). -/
theorem compile_acyclic (env : Env) (d : Dag) (fuel sid : Nat) (st : CState) (st' : CState) (ids : List Nat)
    (hw : StWF env st) (h : compile env d fuel sid Part.none st = some (st', ids)) :
    TWF st'.tasks ∧ IdsOK st' ids :=
  let r := compile_spec env d fuel sid Part.none st st' ids hw h
  ⟨r.1.1, r.2.2⟩

theorem stwf_empty (env : Env) (h : env.results = []) : StWF env ⟨[], [], []⟩ := by
  refine ⟨?_, ?_, ?_⟩
  · intro i t ht; simp at ht
  · intro e he; cases he
  · intro rts hr; rw [h] at hr; cases hr


/-- **shuffle wiring**: for a shuffle dependency, consumer shard `p` reads partition `p` of the
producer phase, identified by its first task `h`; the producer is compiled with as many partitions
as the consumer has shards. -/
theorem shuffle_wiring (rec) (n : Nat) (lc : Bool) (ck : String) (dep : SDep) (st st1 : CState)
    (acc : List (List TDep)) (h : Nat) (tl : List Nat) (hs : dep.shuffle = true)
    (hrec : rec dep.slice ⟨n, dep.custom, lc, ck⟩ st = some (st1, h :: tl)) :
    goDeps rec n lc ck [dep] st acc
      = some (st1, acc.zipIdx.map fun (ds, p) => ds ++ [⟨h, p, dep.expand, ck⟩]) := by
  simp [goDeps, hs, hrec]

/-- non-shuffle dependencies are wired shard to shard, partition 0 -/
theorem direct_wiring (rec) (n : Nat) (lc : Bool) (ck : String) (dep : SDep) (st st1 : CState)
    (acc : List (List TDep)) (ids : List Nat) (hs : dep.shuffle = false) (hl : ids.length = n)
    (hrec : rec dep.slice Part.none st = some (st1, ids)) :
    goDeps rec n lc ck [dep] st acc
      = some (st1, (acc.zip ids).map fun (ds, id) => ds ++ [⟨id, 0, dep.expand, ""⟩]) := by
  simp [goDeps, hs, hrec, hl]

/-- one task per shard of a stage, each with the stage's partition configuration -/
theorem newTasks_spec (opName : String) (names : List String) (mat : Bool) (part : Part) (n : Nat)
    (depLists : List (List TDep)) (hl : depLists.length = n) :
    (newTasks opName names mat part n depLists).length = n ∧
    ∀ i (h : i < (newTasks opName names mat part n depLists).length),
      let t := (newTasks opName names mat part n depLists)[i]
      t.shard = i ∧ t.numShard = n ∧ t.op = opName ∧ t.hasPart = true ∧
        t.np = (if part.np == 0 then 1 else part.np) ∧ t.comb = part.comb ∧ t.ck = part.ck := by
  refine ⟨by simp [newTasks, hl], ?_⟩
  intro i h
  simp [newTasks]

/-- a pipeline never crosses a shuffle dependency, a Materialize pragma or a reused result -/
theorem pipeline_stops (d : Dag) (fuel sid : Nat) (dep : SDep) (hd : (d.get sid).deps = [dep])
    (hnr : (d.get sid).isResult = none)
    (hstop : dep.shuffle = true ∨ (d.get dep.slice).mat = true) :
    pipeline d (fuel + 1) sid = [sid] := by
  simp only [pipeline, hnr, Option.isSome_none, Bool.false_eq_true, if_false, hd]
  rcases hstop with h | h
  · simp [h]
  · by_cases hs : dep.shuffle = true <;> simp [hs, h]

theorem pipeline_result (d : Dag) (fuel sid : Nat) (r : Nat) (h : (d.get sid).isResult = some r) :
    pipeline d (fuel + 1) sid = [] := by
  simp [pipeline, h]

/-! ## Non-vacuity: a reduce over a mapped const, compiled from the empty table -/
def exDag : Dag :=
  { nodes := [⟨"const", 2, [], false, false, none, none⟩, ⟨"map", 2, [⟨0, false, false, false⟩], false, false, none, none⟩,
              ⟨"reduce", 2, [⟨1, true, false, true⟩], true, false, none, none⟩],
    ofNode := [0, 1, 2] }
def exEnv : Env := { mc := true, inv := "X", results := [] }

example : ((compile exEnv exDag 5 2 Part.none ⟨[], [], []⟩).map fun r => (r.2, r.1.tasks.length)) = some ([2, 3], 4) := by
  decide

end BS.Compile
