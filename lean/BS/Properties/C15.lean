import BS.Model.Store
/-!
# C15 — task stores are commit-atomic; remote reads resume without gaps or repeats
-/
namespace BS.Store

/-! ## stores -/

theorem create_invisible (s : St) (k : Key) : (create s k).vis = s.vis := rfl
theorem write_invisible (s : St) (i : Nat) (b : List UInt8) : (write s i b).vis = s.vis := rfl
theorem discardW_invisible (s : St) (i : Nat) : (discardW s i).vis = s.vis := rfl

/-- data become visible only through a successful commit: a commit that does not report
success leaves the visible entries unchanged (and `create`, `write`, `discardW` never change them) -/
theorem visible_only_after_commit (s : St) (i n : Nat) (p : Bool) (h : (commit s i n p).2 ≠ .ok) :
    (commit s i n p).1.vis = s.vis := by
  unfold commit at h ⊢
  cases hw : s.ws[i]? with
  | none => rfl
  | some w =>
    simp only [hw] at h ⊢
    cases ha : w.alive <;> cases p <;> simp_all

theorem lookup_cons_same (k : Key) (v) (l) : lookup k ((k, v) :: l) = some v := by simp [lookup]

/-- after a successful commit exactly the committed bytes (from any offset) and the record
count are returned -/
theorem committed_bytes_exact (s : St) (i n : Nat) (w : Writer) (hw : s.ws[i]? = some w) (ha : w.alive = true)
    (off : Nat) (ho : off ≤ w.buf.length) :
    let s' := (commit s i n true).1
    (commit s i n true).2 = .ok ∧ «open» s' w.key off = .data (w.buf.drop off) ∧
      stat s' w.key = .stat w.buf.length n := by
  simp [commit, hw, ha, «open», stat, lookup_cons_same, ho]

/-- a commit that could not persist the data reports an error and publishes nothing -/
theorem failed_commit_reports_error (s : St) (i n : Nat) :
    (commit s i n false).2 = .err ∧ (commit s i n false).1.vis = s.vis := by
  unfold commit
  cases hw : s.ws[i]? with
  | none => simp
  | some w => cases ha : w.alive <;> simp [ha]

theorem lookup_erase_self (k : Key) (l : List (Key × (List UInt8 × Nat))) : lookup k (erase k l) = none := by
  induction l with
  | nil => rfl
  | cons p ps ih =>
    obtain ⟨a, v⟩ := p
    unfold erase at ih ⊢
    rw [List.filter_cons]
    split
    · rename_i h
      have hne : a ≠ k := by simpa using h
      simp only [lookup, hne, if_false]; exact ih
    · exact ih

/-- after a discard the entry cannot be opened -/
theorem discard_hides (s : St) (k : Key) (off : Nat) : «open» (discard s k).1 k off = .err := by
  unfold discard «open»
  cases h : lookup k s.vis with
  | none => simp [h]
  | some v => simp [lookup_erase_self]

/-! ## the retrying reader -/

def RInv (r : RR) : Prop :=
  r.bytes ≤ r.data.length ∧ (∀ pos, r.conn = some pos → pos = r.bytes) ∧
    (r.status = .eof → r.bytes = r.data.length)

theorem take_drop_length_le (d : List UInt8) (p w : Nat) (hp : p ≤ d.length) :
    p + ((d.drop p).take w).length ≤ d.length := by
  simp only [List.length_take, List.length_drop]; omega

theorem deliver_exact (r : RR) (want k : Nat) (later : Bool) (sc : List Ev) (hi : RInv r) (hw : want ≤ k) :
    let x := r.deliver r.bytes want later sc
    RInv x.1 ∧ x.2 = (r.data.drop r.bytes).take x.2.length ∧ x.1.bytes = r.bytes + x.2.length ∧
      x.2.length ≤ k ∧ x.1.data = r.data := by
  obtain ⟨h1, h2, h3⟩ := hi
  have hlen := take_drop_length_le r.data r.bytes want h1
  have hout : ((r.data.drop r.bytes).take want).length ≤ k := by
    simp only [List.length_take]; omega
  refine ⟨⟨hlen, ?_, ?_⟩, by simp [RR.deliver], by simp [RR.deliver], hout, by simp [RR.deliver]⟩
  · intro p hp
    simp only [RR.deliver, Option.some.injEq] at hp
    exact hp.symm
  · intro he
    simp only [RR.deliver] at he ⊢
    split at he
    · rename_i hend
      simp only [Bool.and_eq_true, beq_iff_eq] at hend
      exact hend.1
    · cases he

theorem fail_inv (r : RR) (sc : List Ev) (hi : RInv r) (hm : r.status = .more) :
    RInv (r.fail sc) ∧ (r.fail sc).bytes = r.bytes ∧ (r.fail sc).data = r.data ∧ (r.fail sc).status ≠ .eof := by
  obtain ⟨h1, h2, h3⟩ := hi
  unfold RR.fail
  simp only
  split
  · exact ⟨⟨h1, by simp, fun h => by cases h⟩, by simp, by simp, by simp⟩
  · exact ⟨⟨h1, by simp, by simp [hm]⟩, by simp, by simp, by simp [hm]⟩

/-- **retry_exact (one call)**: whatever the failure script, a `Read` returns the next bytes
of the committed stream — none skipped, none repeated — and at most `k` of them. -/
theorem read_exact (fuel : Nat) : ∀ (r : RR) (k : Nat), RInv r →
    let x := RR.read fuel r k
    RInv x.1 ∧ x.2 = (r.data.drop r.bytes).take x.2.length ∧ x.1.bytes = r.bytes + x.2.length ∧
      x.2.length ≤ k ∧ x.1.data = r.data := by
  induction fuel with
  | zero =>
    intro r k hi
    simp only [RR.read]
    exact ⟨⟨hi.1, hi.2.1, fun h => by cases h⟩, by simp, by simp, by simp, by simp⟩
  | succ fuel ih =>
    intro r k hi
    have triv : RInv r ∧ ([] : List UInt8) = (r.data.drop r.bytes).take ([] : List UInt8).length ∧
        r.bytes = r.bytes + ([] : List UInt8).length ∧ ([] : List UInt8).length ≤ k ∧ r.data = r.data :=
      ⟨hi, by simp, by simp, by simp, rfl⟩
    simp only [RR.read]
    split
    · exact triv
    · rename_i hst
      have hm : r.status = .more := by simpa using hst
      -- a failed attempt followed by the rest of the loop
      have retry : ∀ sc, let r' := r.fail sc
          let x := if r'.status = .err then (r', ([] : List UInt8)) else RR.read fuel r' k
          RInv x.1 ∧ x.2 = (r.data.drop r.bytes).take x.2.length ∧ x.1.bytes = r.bytes + x.2.length ∧
            x.2.length ≤ k ∧ x.1.data = r.data := by
        intro sc
        obtain ⟨f1, f2, f3, _⟩ := fail_inv r sc hi hm
        simp only
        split
        · exact ⟨f1, by simp, by simp [f2], by simp, f3⟩
        · have := ih (r.fail sc) k f1
          rw [f2, f3] at this
          exact this
      split
      · exact retry _
      · have hi' : RInv { r with conn := some r.bytes } := ⟨hi.1, by simp, hi.2.2⟩
        exact ih _ k hi'
      · exact retry _
      · rename_i pos sc hc _
        have hi' : RInv { r with script := sc } := ⟨hi.1, hi.2.1, hi.2.2⟩
        exact ih _ k hi'
      · rename_i pos n sc hc _
        have : pos = r.bytes := hi.2.1 pos hc
        subst this
        exact deliver_exact r (min n k) k false sc hi (by omega)
      · rename_i pos sc hc _
        have : pos = r.bytes := hi.2.1 pos hc
        subst this
        exact deliver_exact r k k true sc hi (Nat.le_refl _)
      · rename_i pos hc _
        have : pos = r.bytes := hi.2.1 pos hc
        subst this
        exact deliver_exact r k k false [] hi (Nat.le_refl _)

/-- **retry_exact**: for every failure script and buffer size, the bytes delivered by
successive reads are a prefix of the committed stream from the starting offset, and the whole
of it when end-of-stream is reported. -/
theorem drain_exact (k : Nat) (fuel : Nat) : ∀ (r : RR), RInv r →
    let x := RR.drain k fuel r
    (∃ m, x.1 = (r.data.drop r.bytes).take m) ∧ (x.2 = .eof → x.1 = r.data.drop r.bytes) := by
  induction fuel with
  | zero =>
    intro r hi
    simp only [RR.drain]
    refine ⟨⟨0, by simp⟩, ?_⟩
    intro he
    have := hi.2.2 he
    simp [this]
  | succ fuel ih =>
    intro r hi
    simp only [RR.drain]
    obtain ⟨a, b, c, d, e⟩ := read_exact (2 * r.script.length + 3) r k hi
    generalize hx : RR.read (2 * r.script.length + 3) r k = x at a b c d e
    cases hs : x.1.status with
    | more =>
      simp only
      obtain ⟨⟨m, hm⟩, hf⟩ := ih x.1 a
      rw [e, c] at hm hf
      refine ⟨⟨x.2.length + m, ?_⟩, ?_⟩
      · rw [hm, ← List.drop_drop, List.take_add]
        congr 1
      · intro he
        rw [hf he, ← List.drop_drop]
        conv => lhs; arg 1; rw [b]
        exact List.take_append_drop _ _
    | eof =>
      simp only
      refine ⟨⟨x.2.length, b⟩, fun _ => ?_⟩
      have hb := a.2.2 hs
      rw [c, e] at hb
      rw [b]
      apply List.take_of_length_le
      simp only [List.length_drop]; omega
    | err =>
      simp only
      exact ⟨⟨x.2.length, b⟩, fun h => by cases h⟩

example : RR.drain 4 20 ⟨[1, 2, 3, 4, 5, 6, 7], 0, none, 0,
    [.openFail, .short 2, .readFail 3, .short 1, .openFail, .eofLater], .more⟩ = ([1, 2, 3, 4, 5, 6, 7], .eof) := by
  decide

end BS.Store
