import BS.Model.MergeErr
import BS.Properties.C10m
/-!
# C10 (read errors) — an input's error is reported, never swallowed as end-of-stream

For the reducing merge over any number of inputs, each of which may end with an error after any number of rows:
the reader ends with end-of-stream only if no input fails, and then it delivers the keyed fold of all rows
(`no_failing_input`, `clean_eof_is_complete`); if some input fails the reader ends with an error, whatever the other
inputs hold (`error_reported`); and every row it delivered before that is a row of the output the same inputs' rows
prescribe — a prefix of it, no row combined from partial data (`rows_before_error_correct`).
-/
namespace BS.Merge
open BS.KV

variable (comb : Int → Int → Int)

theorem advance_eq_map (k : Int) (ss : List (List KV)) : advance k ss = ss.map (adv1 k) := by
  unfold advance
  apply List.map_congr_left
  intro s _
  cases s with
  | nil => rfl
  | cons a t => obtain ⟨k', v⟩ := a; rfl

theorem rowsOf_advE (k : Int) (ss : List ES) : rowsOf (advE k ss) = advance k (rowsOf ss) := by
  rw [advance_eq_map]; simp [rowsOf, advE, List.map_map, Function.comp_def]

theorem fails_advE (k : Int) (ss : List ES) : (advE k ss).map (·.fails) = ss.map (·.fails) := by
  simp [advE, List.map_map, Function.comp_def]

def noFail (ss : List ES) : Prop := ∀ s ∈ ss, s.fails = false

theorem noFail_advE (k : Int) (ss : List ES) (h : noFail ss) : noFail (advE k ss) := by
  intro s hs
  simp only [advE, List.mem_map] at hs
  obtain ⟨s0, h0, rfl⟩ := hs
  exact h s0 h0

theorem anyDead_noFail (ss : List ES) (h : noFail ss) : anyDead ss = false := by
  simp only [anyDead, List.any_eq_false, dead]
  intro s hs; simp [h s hs]

/-- without a failing input the reader is the plain reduce-merge machine, ending with end-of-stream -/
theorem no_failing_input (fuel : Nat) (ss : List ES) (h : noFail ss) :
    ereduce comb fuel ss = (run comb fuel (rowsOf ss), false) := by
  simp only [ereduce, anyDead_noFail ss h]
  induction fuel generalizing ss with
  | zero => simp [erun, run]
  | succ fuel ih =>
    simp only [erun, run, step, Bool.false_eq_true, if_false]
    cases hm : minKey (rowsOf ss) with
    | none => rfl
    | some k =>
      simp only [anyDead_noFail _ (noFail_advE k ss h), Bool.false_eq_true, if_false]
      have := ih _ (noFail_advE k ss h)
      simp only [Bool.false_eq_true, if_false] at this
      rw [this, rowsOf_advE]

/-- whatever fails, the rows delivered are a prefix of what the inputs' rows prescribe -/
theorem rows_before_error_correct (fuel : Nat) (ss : List ES) :
    (ereduce comb fuel ss).1 <+: run comb fuel (rowsOf ss) := by
  simp only [ereduce]
  split
  · exact List.nil_prefix
  · rename_i hnd0
    clear hnd0
    induction fuel generalizing ss with
    | zero => simp [erun, run]
    | succ fuel ih =>
      simp only [erun, run, step]
      cases hm : minKey (rowsOf ss) with
      | none => exact List.prefix_refl _
      | some k =>
        simp only
        split
        · exact List.nil_prefix
        · rw [← rowsOf_advE]
          exact List.prefix_cons_inj _ |>.mpr (ih _)

theorem total_advE_lt (k : Int) (ss : List ES) (hm : minKey (rowsOf ss) = some k) :
    (rowsOf (advE k ss)).flatten.length < (rowsOf ss).flatten.length := by
  rw [rowsOf_advE]
  have h1 := flatten_length_advance k (rowsOf ss)
  have h2 : headVals k (rowsOf ss) ≠ [] := headVals_ne_nil hm
  have : 0 < (headVals k (rowsOf ss)).length := List.length_pos_iff.mpr h2
  omega

theorem exists_fail_advE (k : Int) (ss : List ES) (h : ∃ s ∈ ss, s.fails = true) : ∃ s ∈ advE k ss, s.fails = true := by
  obtain ⟨s, hs, hf⟩ := h
  exact ⟨{ s with rows := adv1 k s.rows }, by simp only [advE, List.mem_map]; exact ⟨s, hs, rfl⟩, hf⟩

theorem dead_of_no_rows (ss : List ES) (h : ∃ s ∈ ss, s.fails = true) (hm : minKey (rowsOf ss) = none) :
    anyDead ss = true := by
  obtain ⟨s, hs, hf⟩ := h
  have hflat := minKey_none hm
  have : s.rows = [] := by
    have hmem : s.rows ∈ rowsOf ss := List.mem_map.mpr ⟨s, hs, rfl⟩
    cases hr : s.rows with
    | nil => rfl
    | cons a t =>
      have : a ∈ (rowsOf ss).flatten := List.mem_flatten.mpr ⟨s.rows, hmem, by simp [hr]⟩
      rw [hflat] at this; cases this
  simp only [anyDead, List.any_eq_true]
  exact ⟨s, hs, by simp [dead, this, hf]⟩

/-- **an input's error is reported**: if some input fails, the reader ends with an error (given fuel for every row) -/
theorem error_reported (fuel : Nat) (ss : List ES) (h : ∃ s ∈ ss, s.fails = true)
    (hf : (rowsOf ss).flatten.length < fuel) : (ereduce comb fuel ss).2 = true := by
  simp only [ereduce]
  split
  · rfl
  · rename_i hnd
    induction fuel generalizing ss with
    | zero => omega
    | succ fuel ih =>
      simp only [erun]
      cases hm : minKey (rowsOf ss) with
      | none => exact absurd (dead_of_no_rows ss h hm) hnd
      | some k =>
        simp only
        split
        · rfl
        · rename_i hnd'
          have := total_advE_lt k ss hm
          exact ih _ (exists_fail_advE k ss h) (by omega) hnd'

/-- **end-of-stream means complete**: the reader ends without an error exactly when no input fails, and then what
it delivered is the keyed fold of all the inputs' rows (for strictly sorted inputs, as combiners produce them) -/
theorem clean_eof_is_complete (hc : ∀ a b, comb a b = comb b a) (ha : ∀ a b c, comb (comb a b) c = comb a (comb b c))
    (ss : List ES) (hs : AllStrict (rowsOf ss)) :
    let r := ereduce comb ((rowsOf ss).flatten.length + 1) ss
    (r.2 = false ↔ noFail ss) ∧ (r.2 = false → r.1 = reduceAll comb (rowsOf ss)) := by
  have key : ∀ (h : noFail ss), ereduce comb ((rowsOf ss).flatten.length + 1) ss = (reduceAll comb (rowsOf ss), false) := by
    intro h
    rw [no_failing_input comb _ ss h, reduce_machine_spec comb hc ha _ hs]
  have iff : (ereduce comb ((rowsOf ss).flatten.length + 1) ss).2 = false ↔ noFail ss := by
    constructor
    · intro h s hsm
      cases hf : s.fails with
      | false => rfl
      | true =>
        have := error_reported comb _ ss ⟨s, hsm, hf⟩ (Nat.lt_succ_self _)
        rw [this] at h; cases h
    · intro h; rw [key h]
  exact ⟨iff, fun h => by rw [key (iff.mp h)]⟩

/-- non-vacuity: the second input fails after its row for key 2 — rows 1 and (with the last good row consumed in the
round of key 2) nothing more are delivered, then the error; without the failure all three keys come out -/
example : ereduce (· + ·) 10 [⟨[(1, 1), (4, 4)], false⟩, ⟨[(1, 10), (2, 2)], true⟩] = ([(1, 11)], true) := by decide
example : ereduce (· + ·) 10 [⟨[(1, 1), (4, 4)], false⟩, ⟨[(1, 10), (2, 2)], false⟩] = ([(1, 11), (2, 2), (4, 4)], false) := by decide
example : ereduce (· + ·) 10 [⟨[], true⟩, ⟨[(1, 10)], false⟩] = ([], true) := by decide

end BS.Merge
