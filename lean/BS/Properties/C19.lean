import BS.Model.Elect
/-!
# C19 — shared tasks are executed by one of the concurrent runs and awaited by the others

For any number of evaluators and *any* interleaving of their steps with the executor's (`Act` sequences of any length):
a run of the task is in flight exactly while the task is WAITING or RUNNING, and then exactly one evaluator is its
runner (`one_runner`, `reachable_inv`); every other evaluator that looked at the task meanwhile waits; an evaluator
reports the task done only when it is OK or ERR (`done_only_when_final`); after LOST the task is elected again, by
exactly one evaluator.  (The bookkeeping of *consecutive* losses by the former runner is outside this model: D14.)
-/
namespace BS.Elect

theorem filter_set_other (ev : List PC) (i : Nat) (p : PC) (h : ev[i]? ≠ some .runner) (hp : p ≠ .runner) :
    ((ev.set i p).filter (· == .runner)).length = (ev.filter (· == .runner)).length := by
  induction ev generalizing i with
  | nil => rfl
  | cons a as ih =>
    cases i with
    | zero =>
      simp only [List.set_cons_zero, List.filter_cons]
      have ha : a ≠ .runner := by simpa using h
      have h1 : (p == PC.runner) = false := by cases p <;> simp_all
      have h2 : (a == PC.runner) = false := by cases a <;> simp_all
      simp [h1, h2]
    | succ i =>
      simp only [List.set_cons_succ, List.filter_cons]
      have := ih i (by simpa using h)
      split <;> simp [this]

theorem filter_set_idle_runner (ev : List PC) (i : Nat) (h : ev[i]? = some .idle) :
    ((ev.set i .runner).filter (· == .runner)).length = (ev.filter (· == .runner)).length + 1 := by
  induction ev generalizing i with
  | nil => simp at h
  | cons a as ih =>
    cases i with
    | zero =>
      have ha : a = .idle := by simpa using h
      subst ha
      simp [List.filter_cons]
    | succ i =>
      simp only [List.set_cons_succ, List.filter_cons]
      have := ih i (by simpa using h)
      split <;> simp [this]

theorem filter_demote (ev : List PC) :
    ((ev.map fun p => if p = PC.runner then PC.waiter else p).filter (· == .runner)).length = 0 := by
  induction ev with
  | nil => rfl
  | cons a as ih =>
    simp only [List.map_cons, List.filter_cons]
    cases a <;> simp [ih]

theorem mem_set_of {ev : List PC} {i : Nat} {p q : PC} (h : q ∈ ev.set i p) : q = p ∨ q ∈ ev := by
  induction ev generalizing i with
  | nil => simp at h
  | cons a as ih =>
    cases i with
    | zero => simp only [List.set_cons_zero, List.mem_cons] at h ⊢; rcases h with h | h <;> simp [h]
    | succ i =>
      simp only [List.set_cons_succ, List.mem_cons] at h ⊢
      rcases h with h | h
      · exact Or.inr (Or.inl h)
      · rcases ih h with h | h
        · exact Or.inl h
        · exact Or.inr (Or.inr h)

theorem inv_step (s : S) (a : Act) (h : Inv s) : Inv (step s a) := by
  obtain ⟨h1, h0, hd⟩ := h
  cases a with
  | elect i =>
    simp only [step]
    cases he : s.ev[i]? with
    | none => exact ⟨h1, h0, hd⟩
    | some p =>
      cases p with
      | idle =>
        simp only
        split
        · rename_i hc
          have hnf : ¬ inFlight s := by unfold inFlight; rcases hc with hc | hc <;> rw [hc] <;> simp
          refine ⟨fun _ => ?_, fun hn => absurd (Or.inl rfl) hn, ?_⟩
          · unfold runners; simp only
            rw [filter_set_idle_runner s.ev i he]
            have := h0 hnf; unfold runners at this; omega
          · intro hm
            rcases mem_set_of hm with hm | hm
            · cases hm
            · have := hd hm
              rcases hc with hc | hc <;> rw [hc] at this <;> simp at this
        · rename_i hc
          have hr : runners { s with ev := s.ev.set i .waiter } = runners s := by
            unfold runners; exact filter_set_other s.ev i .waiter (by rw [he]; simp) (by simp)
          refine ⟨fun h => by rw [hr]; exact h1 h, fun h => by rw [hr]; exact h0 h, ?_⟩
          intro hm
          rcases mem_set_of hm with hm | hm
          · cases hm
          · exact hd hm
      | runner => exact ⟨h1, h0, hd⟩
      | waiter => exact ⟨h1, h0, hd⟩
      | done => exact ⟨h1, h0, hd⟩
  | start =>
    simp only [step]
    split
    · rename_i hw
      refine ⟨fun _ => h1 (Or.inl hw), fun hn => absurd (Or.inr rfl) hn, ?_⟩
      intro hm
      have := hd hm
      rw [hw] at this; simp at this
    · exact ⟨h1, h0, hd⟩
  | finish r =>
    simp only [step]
    split
    · rename_i hc
      obtain ⟨hrun, hr⟩ := hc
      have hnf : ¬ inFlight (⟨r, s.ev.map fun p => if p = .runner then .waiter else p⟩ : S) := by
        unfold inFlight; rcases hr with hr | hr | hr <;> rw [hr] <;> simp
      refine ⟨fun hf => absurd hf hnf, fun _ => ?_, ?_⟩
      · unfold runners; exact filter_demote s.ev
      · intro hm
        simp only [List.mem_map] at hm
        obtain ⟨p, hp, hpe⟩ := hm
        have : p = .done := by
          split at hpe
          · cases hpe
          · exact hpe
        subst this
        have := hd hp
        rw [hrun] at this; simp at this
    · exact ⟨h1, h0, hd⟩
  | observe i =>
    simp only [step]
    cases he : s.ev[i]? with
    | none => exact ⟨h1, h0, hd⟩
    | some p =>
      cases p with
      | waiter =>
        simp only
        have hne : s.ev[i]? ≠ some PC.runner := by rw [he]; simp
        split
        · rename_i hf
          have hr : runners { s with ev := s.ev.set i .done } = runners s := by
            unfold runners; exact filter_set_other s.ev i .done hne (by simp)
          exact ⟨fun h => by rw [hr]; exact h1 h, fun h => by rw [hr]; exact h0 h, fun _ => hf⟩
        · split
          · rename_i hl
            have hr : runners { s with ev := s.ev.set i .idle } = runners s := by
              unfold runners; exact filter_set_other s.ev i .idle hne (by simp)
            refine ⟨fun h => by rw [hr]; exact h1 h, fun h => by rw [hr]; exact h0 h, ?_⟩
            intro hm
            rcases mem_set_of hm with hm | hm
            · cases hm
            · exact hd hm
          · exact ⟨h1, h0, hd⟩
      | idle => exact ⟨h1, h0, hd⟩
      | runner => exact ⟨h1, h0, hd⟩
      | done => exact ⟨h1, h0, hd⟩

theorem inv_init (n : Nat) : Inv (init n) := by
  refine ⟨fun h => ?_, fun _ => ?_, fun h => ?_⟩
  · unfold inFlight init at h; simp at h
  · unfold runners init
    simp only
    induction n with
    | zero => rfl
    | succ n ih => simp [List.replicate_succ, List.filter_cons, ih]
  · simp [init, List.mem_replicate] at h

/-- every state reachable by any interleaving satisfies the invariant -/
theorem reachable_inv (n : Nat) (as : List Act) : Inv (run (init n) as) := by
  have gen : ∀ (as : List Act) (s : S), Inv s → Inv (run s as) := by
    intro as
    induction as with
    | nil => intro s h; exact h
    | cons a as ih => intro s h; exact ih _ (inv_step s a h)
  exact gen as _ (inv_init n)

/-- **at most one evaluator runs a shared task at any time** -/
theorem one_runner (n : Nat) (as : List Act) : runners (run (init n) as) ≤ 1 := by
  have h := reachable_inv n as
  by_cases hf : inFlight (run (init n) as)
  · rw [h.1 hf]; exact Nat.le_refl _
  · rw [h.2.1 hf]; exact Nat.zero_le _

/-- an evaluator reports the task done only when it is OK or ERR -/
theorem done_only_when_final (n : Nat) (as : List Act) (h : PC.done ∈ (run (init n) as).ev) :
    (run (init n) as).t = .ok ∨ (run (init n) as).t = .err :=
  (reachable_inv n as).2.2 h

/-- non-vacuity: three evaluators, the task is lost once and elected again by another evaluator -/
example : run (init 3) [.elect 0, .elect 1, .start, .finish .lost, .observe 1, .elect 1, .elect 2, .start, .finish .ok,
    .observe 0, .observe 1, .observe 2] = ⟨.ok, [.done, .done, .done]⟩ := by decide

end BS.Elect
