import BS.Model.Combine
import BS.Properties.C09
/-!
# C06 (retries of combining tasks) — "a failure that goes away on retry does not fail the run" *and yields the right rows*

`retry_commits_exactly_one_attempt`: whatever failed attempts precede it and however far each got, the combiners that are
committed hold exactly the rows of the one successful attempt, hence their fold is the fold of the task's rows.
`unrepaired_counts_twice` is the trace of D26: without discarding on failure the rows of a failed attempt are combined again.
-/
namespace BS.Combine
open BS.KV

theorem run_flushes (fixed : Bool) (c : List KV) (chunks : List (List KV)) :
    run fixed (.idle c) (chunks.map Ev.flush) = .idle (c ++ chunks.flatten) := by
  induction chunks generalizing c with
  | nil => simp [run]
  | cons r rs ih =>
    simp only [run, List.map_cons, List.foldl_cons, step] at ih ⊢
    rw [ih]; simp

theorem run_flushes_none (fixed : Bool) (chunks : List (List KV)) :
    run fixed .none (chunks.map Ev.flush) = (if chunks = [] then .none else .idle chunks.flatten) := by
  cases chunks with
  | nil => simp [run]
  | cons r rs =>
    have := run_flushes fixed r rs
    simp only [run, List.map_cons, List.foldl_cons, step] at this ⊢
    rw [this]; simp

/-- a failed attempt leaves nothing behind -/
theorem failed_attempt_leaves_none (chunks : List (List KV)) : run true .none (attempt chunks false) = .none := by
  simp only [attempt, run, List.foldl_append, Bool.false_eq_true, if_false]
  have := run_flushes_none true chunks
  simp only [run] at this
  rw [this]
  split <;> simp [step]

theorem failed_attempts_leave_none (failed : List (List (List KV))) :
    run true .none (failed.flatMap (attempt · false)) = .none := by
  induction failed with
  | nil => rfl
  | cons a as ih =>
    simp only [List.flatMap_cons, run, List.foldl_append] at ih ⊢
    have := failed_attempt_leaves_none a
    simp only [run] at this
    rw [this]; exact ih

/-- **retry_commits_exactly_one_attempt** -/
theorem retry_commits_exactly_one_attempt (failed : List (List (List KV))) (chunks : List (List KV)) :
    run true .none (history failed chunks) = .committed chunks.flatten := by
  simp only [history, run, List.foldl_append]
  have h := failed_attempts_leave_none failed
  simp only [run] at h
  rw [h]
  have := run_flushes_none true chunks
  simp only [attempt, List.foldl_append, run, if_true] at this ⊢
  rw [this]
  split
  · rename_i hc; subst hc; simp [step]
  · simp [step]

/-- so the committed combiners fold to the fold of the task's rows, however the successful attempt was cut into chunks -/
theorem retry_folds_once (comb : Int → Int → Int) (failed : List (List (List KV))) (chunks : List (List KV)) (rows : List KV)
    (h : chunks.flatten = rows) :
    ∃ c, run true .none (history failed chunks) = .committed c ∧ foldMap comb c = foldMap comb rows :=
  ⟨chunks.flatten, retry_commits_exactly_one_attempt failed chunks, by rw [h]⟩

/-- D26: before the repair, one failed attempt that had flushed a row makes the committed fold count it twice -/
theorem unrepaired_counts_twice :
    run false .none (history [[[(5, 5)]]] [[(5, 5)], [(6, 3)]]) = .committed [(5, 5), (5, 5), (6, 3)] ∧
    foldMap (· + ·) [(5, 5), (5, 5), (6, 3)] ≠ foldMap (· + ·) [(5, 5), (6, 3)] := by decide

example : run true .none (history [[[(5, 5)]], []] [[(5, 5)], [(6, 3)]]) = .committed [(5, 5), (6, 3)] := by decide

end BS.Combine
