import BS.Proofs.Cogroup
import BS.Properties.C10
/-!
# C17 (the cogroup reader as it runs) — `cogroupReader`, cogroup.go

`BS.Merge.cgRun` is the round structure of the reader: take the least current key, gather from every (sorted) input all of
its rows under that key, emit one row, go on with what is left.  `cogroup_machine_spec`: for every number of inputs and every
length the emitted rows have strictly ascending keys, each carries exactly the values every input holds for its key (in
the input's order), and every key that occurs gets a row.  The inputs are sorted first (`sortio.SortReader`, C10):
`cogroup_of_unsorted` relates the groups to the original inputs.
-/
namespace BS.Merge
open BS.KV

theorem cogroup_machine_spec (ss : List (List KV)) (hs : AllSorted ss) :
    let out := cgRun (ss.flatten.length + 1) ss
    out.Pairwise (fun a b => a.1 < b.1) ∧
    (∀ row ∈ out, row.2 = groupsOf row.1 ss ∧ ∃ x ∈ ss.flatten, x.1 = row.1) ∧
    (∀ x ∈ ss.flatten, ∃ row ∈ out, row.1 = x.1) :=
  cgRun_spec _ ss hs (Nat.lt_succ_self _)

/-- the inputs arrive unsorted and are sorted per input first: under every key, the group of a sorted input is a
rearrangement of the values the input holds for the key -/
theorem cogroup_of_unsorted (s : List KV) (k : Int) :
    (((sortKV s).filter fun r => r.1 = k).map (·.2)).Perm ((s.filter fun r => r.1 = k).map (·.2)) :=
  ((sortKV_perm s).filter _).map _

theorem groupsOf_sorted (ins : List (List KV)) (k : Int) :
    groupsOf k (ins.map sortKV) = ins.map fun s => ((sortKV s).filter fun r => r.1 = k).map (·.2) := by
  simp [groupsOf, List.map_map, Function.comp]

theorem sorted_inputs (ins : List (List KV)) : AllSorted (ins.map sortKV) := by
  intro s hs
  obtain ⟨r, _, rfl⟩ := List.mem_map.mp hs
  exact sortKV_sorted r

example : cgRun 9 [[(1, 10), (1, 11), (3, 30)], [], [(1, 12), (2, 20)]] =
    [(1, [[10, 11], [], [12]]), (2, [[], [], [20]]), (3, [[30], [], []])] := by decide

end BS.Merge
