import BS.Properties.C02
/-!
# C02 (progress) — once losses stop, recomputation completes

The second half of the property: "when replacement machines can be started and losses stop, it completes
successfully by recomputing the lost task outputs".  In the abstract task graph of `BS.Loss`: in every state —
whatever was lost, whenever — in which some output is missing there is a missing task all of whose
dependencies are present (`never_stuck`: the evaluator always has something it may hand out); running *any*
such task (every scheduler choice) takes exactly one off the number of missing outputs (`run_decreases`); so
every loss-free continuation that only runs ready tasks has all outputs present after exactly `missing s`
task executions (`recovery_completes`), and by `loss_safe` those outputs are the failure-free ones
(`recovery_correct`).
-/
namespace BS.Loss

variable {V : Type}

def missing (s : St V) : Nat := (s.filter Option.isNone).length

/-- task `t` may be (re)computed: its output is missing and every dependency's output is present -/
def Ready (g : Graph V) (s : St V) (t : Nat) : Prop :=
  t < g.n ∧ s.get t = none ∧ ∀ d ∈ g.deps t, (s.get d).isSome

def WF (g : Graph V) : Prop := ∀ t, t < g.n → ∀ d ∈ g.deps t, d < t

theorem get_none_of_missing (s : St V) (h : 0 < missing s) : ∃ t, t < s.length ∧ s.get t = none := by
  induction s with
  | nil => simp [missing] at h
  | cons a r ih =>
    cases a with
    | none => exact ⟨0, by simp, by simp [St.get]⟩
    | some v =>
      have : 0 < missing r := by simpa [missing] using h
      obtain ⟨t, ht, hn⟩ := ih this
      exact ⟨t + 1, by simp; omega, by simpa [St.get] using hn⟩

theorem get_isSome_of_ne_none (s : St V) (t : Nat) (h : s.get t ≠ none) : (s.get t).isSome := by
  cases hh : s.get t with
  | none => exact absurd hh h
  | some v => rfl

/-- **never stuck**: while an output is missing, some missing task has all its dependencies present -/
theorem never_stuck (g : Graph V) (hw : WF g) (s : St V) (hl : s.length = g.n) (h : 0 < missing s) :
    ∃ t, Ready g s t := by
  obtain ⟨t0, ht0, hn0⟩ := get_none_of_missing s h
  suffices ∀ k, k ≤ g.n → (∃ t, t < k ∧ s.get t = none) → ∃ t, Ready g s t from
    this g.n (Nat.le_refl _) ⟨t0, by omega, hn0⟩
  intro k
  induction k with
  | zero => intro _ ⟨t, ht, _⟩; omega
  | succ k ih =>
    intro hk ⟨t, ht, hn⟩
    by_cases hex : ∃ u, u < k ∧ s.get u = none
    · exact ih (by omega) hex
    · have htk : t = k := by
        by_cases e : t = k
        · exact e
        · exact absurd ⟨t, by omega, hn⟩ hex
      subst htk
      refine ⟨t, by omega, hn, ?_⟩
      intro d hd
      have hdt := hw t (by omega) d hd
      apply get_isSome_of_ne_none
      intro hnone
      exact hex ⟨d, hdt, hnone⟩

/-- running a task whose output is missing takes exactly one off the number of missing outputs -/
theorem run_decreases (s : St V) (t : Nat) (v : V) (ht : t < s.length) (hn : s.get t = none) :
    missing (apply s (.run t v)) + 1 = missing s := by
  induction s generalizing t with
  | nil => simp at ht
  | cons a r ih =>
    cases t with
    | zero =>
      simp [St.get] at hn
      subst hn
      simp [apply, missing]
    | succ t =>
      have := ih t (by simpa using ht) (by simpa [St.get] using hn)
      simp only [apply, missing, List.set_cons_succ] at this ⊢
      cases a <;> simp [List.filter_cons] <;> omega

theorem run_length (s : St V) (t : Nat) (v : V) : (apply s (.run t v)).length = s.length := by
  simp [apply]

/-- a loss-free continuation that only runs ready tasks (any choice among them, any outputs) -/
def ReadyRuns (g : Graph V) : St V → List (Nat × V) → Prop
  | _, [] => True
  | s, (t, v) :: r => Ready g s t ∧ ReadyRuns g (apply s (.run t v)) r

def runs (s : St V) (evs : List (Nat × V)) : St V := evs.foldl (fun s e => apply s (.run e.1 e.2)) s

theorem missing_after (g : Graph V) (evs : List (Nat × V)) : ∀ (s : St V), s.length = g.n → ReadyRuns g s evs →
    missing (runs s evs) + evs.length = missing s := by
  induction evs with
  | nil => intro s _ _; simp [runs]
  | cons e r ih =>
    intro s hl hr
    obtain ⟨t, v⟩ := e
    obtain ⟨⟨h1, h2, _⟩, hr'⟩ := hr
    have := run_decreases s t v (by omega) h2
    have := ih (apply s (.run t v)) (by rw [run_length]; exact hl) hr'
    simp only [runs, List.foldl_cons, List.length_cons] at *
    omega

theorem all_present_of_missing_zero (s : St V) (h : missing s = 0) (t : Nat) (ht : t < s.length) :
    (s.get t).isSome := by
  apply get_isSome_of_ne_none
  intro hn
  induction s generalizing t with
  | nil => simp at ht
  | cons a r ih =>
    cases a with
    | none => simp [missing] at h
    | some v =>
      cases t with
      | zero => simp [St.get] at hn
      | succ t => exact ih (by simpa [missing] using h) t (by simpa using ht) (by simpa [St.get] using hn)

/-- **recovery completes**: from any state, every loss-free continuation that runs ready tasks — whichever
ready task is chosen each time — cannot be longer than the number of missing outputs, and when it has that
length every task has an output.  Together with `never_stuck` (a shorter continuation can always be
extended): recomputation terminates after exactly `missing s` task executions. -/
theorem recovery_completes (g : Graph V) (s : St V) (hl : s.length = g.n) (evs : List (Nat × V))
    (hr : ReadyRuns g s evs) :
    evs.length ≤ missing s ∧
      (evs.length = missing s → ∀ t, t < g.n → ((runs s evs).get t).isSome) := by
  have h := missing_after g evs s hl hr
  refine ⟨by omega, ?_⟩
  intro he t ht
  have hlen : (runs s evs).length = g.n := by
    clear h he hr
    induction evs generalizing s with
    | nil => simpa [runs] using hl
    | cons e r ih => simp only [runs, List.foldl_cons]; exact ih _ (by rw [run_length]; exact hl)
  exact all_present_of_missing_zero _ (by omega) t (by omega)


/-- **recovery is correct**: if moreover each of those executions is legal in the sense of `loss_safe` (its output is
equivalent to `f` of the dependency outputs it read), then after them every task has an output and each is
equivalent to the output of the failure-free reference run. -/
theorem recovery_correct (R : V → V → Prop)
    (hcongr : ∀ (g : Graph V) t (xs ys : List V), Rel R xs ys → R (g.f t xs) (g.f t ys))
    (htrans : ∀ a b c, R a b → R b c → R a c)
    (g : Graph V) (s : St V) (hi : Inv R g s) (evs : List (Nat × V)) (hr : ReadyRuns g s evs)
    (hleg : ∀ pre e post, evs = pre ++ e :: post → Legal R g (runs s pre) (.run e.1 e.2))
    (he : evs.length = missing s) :
    ∀ t, t < g.n → ∃ v r, (runs s evs).get t = some v ∧ (refVals g g.n)[t]? = some r ∧ R v r := by
  intro t ht
  have hall := (recovery_completes g s hi.1 evs hr).2 he t ht
  have hinv : Inv R g (runs s evs) := by
    have := loss_safe R hcongr htrans g (evs.map fun e => Ev.run e.1 e.2) s hi (by
      intro pre e post h
      rw [List.map_eq_append_iff] at h
      obtain ⟨l1, l2, h1, h2, h3⟩ := h
      rw [List.map_eq_cons_iff] at h3
      obtain ⟨a, l3, h4, h5, h6⟩ := h3
      have := hleg l1 a l3 (by rw [h1, h4])
      subst h2 h5
      simpa [runs, List.foldl_map] using this)
    simpa [runs, List.foldl_map] using this
  cases hv : (runs s evs).get t with
  | none => simp [hv] at hall
  | some v =>
    obtain ⟨r, h1, h2⟩ := hinv.2 t v hv
    exact ⟨v, r, rfl, h1, h2⟩

/-- non-vacuity: the demo graph after the loss of tasks 0 and 2 — task 0 is ready, task 2 is not; two
executions restore everything -/
example : missing ([none, some 6, none] : St Nat) = 2 := by decide
example : Ready demoG ([none, some 6, none] : St Nat) 0 := by
  refine ⟨by decide, by decide, ?_⟩; intro d hd; simp [demoG] at hd
example : ¬ Ready demoG ([none, some 6, none] : St Nat) 2 := by
  intro ⟨_, _, h⟩; have := h 0 (by simp [demoG]); simp [St.get] at this
example : runs ([none, some 6, none] : St Nat) [(0, 5), (2, 11)] = [some 5, some 6, some 11] := by decide

end BS.Loss
