import BS.Model.Wake
/-!
# C19 / C03 (wake-ups) — no evaluation is left waiting for a task state change that has happened

`no_lost_wakeup`: along every interleaving of waits, broadcasts, abandoned waits and wake-ups of any number of goroutines,
every blocked waiter blocks on the channel the next broadcast will close, or on one that is closed already.
`abandon_clears_loses_wakeup` is the trace of the seeded change of round 8 (an abandoned wait forgets the shared channel).
-/
namespace BS.Wake

def Inv (s : St) : Prop :=
  NoLostWakeup s ∧ (∀ c, s.cur = some c → c < s.next) ∧ (∀ c ∈ s.closed, c < s.next) ∧ (∀ p ∈ s.waiting, p.2 < s.next)

theorem inv_init : Inv init := by
  refine ⟨?_, ?_, ?_, ?_⟩ <;> simp [init, NoLostWakeup]

theorem step_inv (s : St) (op : Op) (h : Inv s) : Inv (step false s op) := by
  obtain ⟨h1, h2, h3, h4⟩ := h
  cases op with
  | wait w =>
    cases hc : s.cur with
    | some c =>
      simp only [step, hc]
      refine ⟨?_, ?_, h3, ?_⟩
      · intro p hp
        rcases List.mem_cons.mp hp with rfl | hp'
        · exact Or.inl rfl
        · have := h1 p hp'; rw [hc] at this; exact this
      · intro c' hc'; exact h2 c' (by rw [hc]; exact hc')
      · intro p hp
        rcases List.mem_cons.mp hp with rfl | hp'
        · exact h2 c hc
        · exact h4 p hp'
    | none =>
      simp only [step, hc]
      refine ⟨?_, ?_, ?_, ?_⟩
      · intro p hp
        rcases List.mem_cons.mp hp with rfl | hp'
        · exact Or.inl rfl
        · have := h1 p hp'
          rw [hc] at this
          rcases this with h | h
          · cases h
          · exact Or.inr h
      · intro c' hc'; cases hc'; exact Nat.lt_succ_self _
      · intro c' hc'; exact Nat.lt_succ_of_lt (h3 c' hc')
      · intro p hp
        rcases List.mem_cons.mp hp with rfl | hp'
        · exact Nat.lt_succ_self _
        · exact Nat.lt_succ_of_lt (h4 p hp')
  | broadcast =>
    cases hc : s.cur with
    | some c =>
      simp only [step, hc]
      refine ⟨?_, ?_, ?_, h4⟩
      · intro p hp
        have := h1 p hp
        rw [hc] at this
        rcases this with h | h
        · cases h; exact Or.inr List.mem_cons_self
        · exact Or.inr (List.mem_cons_of_mem _ h)
      · intro c' hc'; cases hc'
      · intro c' hc'
        rcases List.mem_cons.mp hc' with rfl | h
        · exact h2 c' hc
        · exact h3 c' h
    | none =>
      have : step false s .broadcast = s := by simp [step, hc]
      rw [this]
      exact ⟨h1, h2, h3, h4⟩
  | abandon w =>
    simp only [step, Bool.false_eq_true, if_false]
    refine ⟨?_, h2, h3, ?_⟩
    · intro p hp; exact h1 p (List.mem_filter.mp hp).1
    · intro p hp; exact h4 p (List.mem_filter.mp hp).1
  | wake w =>
    simp only [step]
    refine ⟨?_, h2, h3, ?_⟩
    · intro p hp; exact h1 p (List.mem_filter.mp hp).1
    · intro p hp; exact h4 p (List.mem_filter.mp hp).1

/-- **no_lost_wakeup**: for every schedule -/
theorem no_lost_wakeup (ops : List Op) : NoLostWakeup (ops.foldl (step false) init) := by
  have : ∀ (ops : List Op) (s : St), Inv s → Inv (ops.foldl (step false) s) := by
    intro ops
    induction ops with
    | nil => intro s h; exact h
    | cons op ops ih => intro s h; exact ih _ (step_inv s op h)
  exact (this ops init inv_init).1

/-- hence a waiter that is still blocked after a broadcast that followed its registration can wake: its channel is closed -/
theorem woken_after_broadcast (ops : List Op) (w c : Nat)
    (hw : (w, c) ∈ (ops.foldl (step false) init).waiting) (hcur : (ops.foldl (step false) init).cur ≠ some c) :
    c ∈ (ops.foldl (step false) init).closed := by
  rcases no_lost_wakeup ops (w, c) hw with h | h
  · exact absurd h hcur
  · exact h

/-- the seeded change of round 8: waiter 1 and waiter 2 block on channel 0; waiter 1 gives up and clears the shared channel;
the broadcast closes nothing; waiter 2 is stranded on a channel that is neither current nor closed -/
theorem abandon_clears_loses_wakeup :
    ¬ NoLostWakeup ([Op.wait 1, Op.wait 2, Op.abandon 1, Op.broadcast].foldl (step true) init) := by
  intro h
  have := h (2, 0) (by decide)
  revert this
  decide

example : ([Op.wait 1, Op.wait 2, Op.abandon 1, Op.broadcast, Op.wake 2].foldl (step false) init).waiting = [] := by decide

end BS.Wake
