import BS.Model.History
import BS.Properties.C04
/-!
# C12 — results can be reused, rescanned and discarded without changing their rows

`history_refines`: along every history of runs (each under its own valid strategy), recomputations
of earlier results under other strategies (what discards and losses cause) and scans, every result —
and hence everything a scan or a consuming program observes — agrees with the value fixed by the
first evaluation in the reference (identical where the order is fixed, equal as multisets otherwise).
-/
namespace BS.Exec

theorem All2.take {α β} {R : α → β → Prop} {xs ys} (h : All2 R xs ys) (k : Nat) : All2 R (xs.take k) (ys.take k) := by
  induction h generalizing k with
  | nil => simpa using All2.nil
  | cons h _ ih =>
    cases k with
    | zero => simpa using All2.nil
    | succ k => simpa using All2.cons h (ih k)

theorem All2.set {α β} {R : α → β → Prop} {xs ys} (h : All2 R xs ys) (k : Nat) (a : α) (b : β) (hab : R a b) :
    All2 R (xs.set k a) (ys.set k b) := by
  induction h generalizing k with
  | nil => simpa using All2.nil
  | cons h t ih =>
    cases k with
    | zero => simpa using All2.cons hab t
    | succ k => simpa using All2.cons h (ih k)

theorem All2.getElem? {α β} {R : α → β → Prop} {xs ys} (h : All2 R xs ys) (k : Nat) :
    (xs[k]? = none ∧ ys[k]? = none) ∨ ∃ a b, xs[k]? = some a ∧ ys[k]? = some b ∧ R a b := by
  induction h generalizing k with
  | nil => left; simp
  | cons h _ ih =>
    cases k with
    | zero => right; exact ⟨_, _, by simp, by simp, h⟩
    | succ k => simpa using ih k

end BS.Exec

namespace BS.History
open BS.Prog BS.Sem BS.Exec

/-- a consumer of Sim-related results produces Sim-related output, whatever the two strategies -/
theorem consumer_congr (σ₁ σ₂ : Strategy) (h₁ : σ₁.Valid) (h₂ : σ₂.Valid) (q : Program) {res₁ res₂ : List Shards}
    (hr : All2 Sim res₁ res₂) (hwf : wfNodes res₂ q.nodes [] = true) :
    Sim (exec σ₁ q res₁).2 (exec σ₂ q res₂).2 :=
  (exec_refines_sem σ₁ h₁ q hr hwf).2.join (exec_refines_sem σ₂ h₂ q (All2.refl Sim.rfl' res₂) hwf).2

def EntrySim (a b : Entry) : Prop := a.prog = b.prog ∧ Sim a.val b.val

def opValid : HOp → Prop
  | .run _ σ => σ.Valid
  | .recompute _ σ => σ.Valid
  | .scan _ => True

theorem vals_sim {s t : List Entry} (h : All2 EntrySim s t) : All2 Sim (s.map (·.val)) (t.map (·.val)) :=
  h.map _ _ fun _ _ e => e.2

/-- the invariant: every stored result agrees with the reference, and every entry of the reference is
the reference evaluation of its program on the reference values that preceded it -/
structure Inv (s t : List Entry) : Prop where
  sim : All2 EntrySim s t
  defd : ∀ k e, t[k]? = some e → e.val = (eval e.prog ((t.take k).map (·.val))).2 ∧
    wfNodes ((t.take k).map (·.val)) e.prog.nodes [] = true

theorem step_inv {s t : List Entry} (hi : Inv s t) (op : HOp) (hv : opValid op)
    (hwf : opWf t op = true) :
    Inv (step s op).1 (specStep t op).1 ∧
      (match (step s op).2, (specStep t op).2 with
        | some a, some b => Sim a b
        | none, none => True
        | _, _ => False) := by
  cases op with
  | run p σ =>
    simp only [step, specStep]
    have hs := (exec_refines_sem σ hv p (vals_sim hi.sim) hwf).2
    refine ⟨⟨hi.sim.append (.cons ⟨rfl, hs⟩ .nil), ?_⟩, trivial⟩
    intro k e hk
    have hlen := hi.sim.length_eq
    by_cases hlt : k < t.length
    · rw [List.getElem?_append_left hlt] at hk
      have := hi.defd k e hk
      rw [List.take_append_of_le_length (by omega)]
      exact this
    · have hk' : k = t.length := by
        rcases Nat.lt_or_ge k (t.length + 1) with h | h
        · omega
        · rw [List.getElem?_eq_none (by simp; omega)] at hk; cases hk
      subst hk'
      simp only [List.getElem?_concat_length, Option.some.injEq] at hk
      subst hk
      simp only [List.take_left']
      exact ⟨by first | rfl | trivial, hwf⟩
  | recompute k σ =>
    simp only [step, specStep]
    rcases hi.sim.getElem? k with ⟨hn, _⟩ | ⟨a, b, ha, hb, hab⟩
    · rw [hn]; exact ⟨hi, trivial⟩
    · rw [ha]
      simp only
      have hd := hi.defd k b hb
      have hsim : Sim (exec σ a.prog ((s.take k).map (·.val))).2 b.val := by
        rw [hd.1, hab.1]
        exact (exec_refines_sem σ hv b.prog (vals_sim (hi.sim.take k)) hd.2).2
      have hset := hi.sim.set k ⟨a.prog, (exec σ a.prog ((s.take k).map (·.val))).2⟩ b ⟨hab.1, hsim⟩
      have hb' : t.set k b = t := by
        apply List.ext_getElem?
        intro i
        by_cases hik : i = k
        · subst hik
          rw [List.getElem?_set_self' ]
          simp [hb]
        · rw [List.getElem?_set_ne (Ne.symm hik)]
      rw [hb'] at hset
      exact ⟨⟨hset, hi.defd⟩, trivial⟩
  | scan k =>
    simp only [step, specStep]
    refine ⟨hi, ?_⟩
    rcases hi.sim.getElem? k with ⟨hn, hn'⟩ | ⟨a, b, ha, hb, hab⟩
    · rw [hn, hn']; trivial
    · rw [ha, hb]; exact hab.2

/-- observations of two histories agree -/
def ObsSim : List (Option Shards) → List (Option Shards) → Prop
  | [], [] => True
  | some a :: as, some b :: bs => Sim a b ∧ ObsSim as bs
  | none :: as, none :: bs => ObsSim as bs
  | _, _ => False

/-- **C12**: every history refines the reference: all results, and all scans, observe the rows of
the first evaluation -/
theorem history_refines : ∀ (ops : List HOp) {s t : List Entry}, Inv s t → (∀ op ∈ ops, opValid op) →
    wfOps t ops = true →
    Inv (runHist step s ops).1 (runHist specStep t ops).1 ∧ ObsSim (runHist step s ops).2 (runHist specStep t ops).2 := by
  intro ops
  induction ops with
  | nil => intro s t hi _ _; exact ⟨hi, trivial⟩
  | cons op ops ih =>
    intro s t hi hv hwf
    simp only [wfOps, Bool.and_eq_true] at hwf
    have h1 := step_inv hi op (hv op (by simp)) hwf.1
    have h2 := ih h1.1 (fun o ho => hv o (by simp [ho])) hwf.2
    simp only [runHist]
    refine ⟨h2.1, ?_⟩
    have h3 := h1.2
    revert h3
    cases (step s op).2 <;> cases (specStep t op).2 <;> simp only [ObsSim] <;> intro h3
    · exact h2.2
    · exact h3.elim
    · exact h3.elim
    · exact ⟨h3, h2.2⟩

theorem inv_nil : Inv [] [] := ⟨.nil, by intro k e h; simp at h⟩

/-- discarding (recomputing) never changes the reference: its results are fixed by the runs alone -/
theorem spec_ignores_recompute (t : List Entry) (k : Nat) (σ : Strategy) : (specStep t (.recompute k σ)).1 = t := rfl

end BS.History
