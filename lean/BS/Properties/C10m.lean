import BS.Proofs.Merge
import BS.Proofs.MergeSort
import BS.Properties.C10
/-!
# C10 (the reduce-merge machine) — `sortio.Reduce` as it runs

`BS.Merge.run` is the round structure of `sortio/reader.go`: pop every cursor at the smallest key, combine, emit,
advance.  `reduce_machine_spec`: on strictly sorted streams (the output of combiners and of earlier reduces) it emits,
for every number and length of streams, exactly the keyed fold of all rows — one row per distinct key, ascending.
-/
namespace BS.Merge
open BS.KV

theorem reduce_machine_spec (comb : Int → Int → Int) (hc : ∀ a b, comb a b = comb b a)
    (ha : ∀ a b c, comb (comb a b) c = comb a (comb b c)) (ss : List (List KV)) (hs : AllStrict ss) :
    run comb (ss.flatten.length + 1) ss = reduceAll comb ss :=
  run_spec comb hc ha _ ss hs (Nat.lt_succ_self _)

/-- in particular the output is strictly sorted -/
theorem reduce_machine_sorted (comb : Int → Int → Int) (hc : ∀ a b, comb a b = comb b a)
    (ha : ∀ a b c, comb (comb a b) c = comb a (comb b c)) (ss : List (List KV)) (hs : AllStrict ss) :
    StrictSorted (run comb (ss.flatten.length + 1) ss) := by
  rw [reduce_machine_spec comb hc ha ss hs]; exact reduceAll_strictSorted comb ss

example : run (· + ·) 10 [[(1, 1), (4, 4)], [], [(1, 10), (2, 2), (4, 40)]] = [(1, 11), (2, 2), (4, 44)] := by decide

/-! ## the plain merge reader as it runs (`NewMergeReader`, sortio/sort.go:161-222)

`mrun choose` emits the row under *a* cursor whose key is least and advances that cursor; which of several equal cursors
is at the top of the heap is left to `choose`.  For **every** legal choice, every number of streams and every length:
the output is a permutation of all rows and sorted by key. -/
theorem merge_machine_spec (choose : List (List KV) → Nat) (hch : ∀ ss, minKey ss ≠ none → Legal ss (choose ss))
    (ss : List (List KV)) (hs : AllSorted ss) :
    (mrun choose ss.flatten.length ss).Perm ss.flatten ∧ Sorted (mrun choose ss.flatten.length ss) :=
  mrun_spec choose hch _ ss hs (Nat.le_refl _)

/-- the hypothesis is satisfiable: taking the first least cursor is a legal choice (the oracle of the driver) -/
theorem merge_machine_leftmost (ss : List (List KV)) (hs : AllSorted ss) :
    (mrun leftmost ss.flatten.length ss).Perm ss.flatten ∧ Sorted (mrun leftmost ss.flatten.length ss) :=
  merge_machine_spec leftmost leftmost_legal ss hs

example : mrun leftmost 6 [[(1, 1), (4, 4)], [], [(1, 10), (2, 2), (4, 40)]] = [(1, 1), (1, 10), (2, 2), (4, 4), (4, 40)] := by
  decide

end BS.Merge
