import BS.Proofs.Merge
import BS.Properties.C10
/-!
# C10 (the reduce-merge machine) — `sortio.Reduce` as it runs

`BS.Merge.run` is the round structure of `sortio/reader.go`: pop every cursor at the smallest key, combine, emit,
advance.  `reduce_machine_spec`: on strictly sorted streams (the output of combiners and of earlier reduces) it emits,
for every number and length of streams, exactly the keyed fold of all rows — one row per distinct key, ascending.
-/
namespace BS.Merge
open BS.KV

theorem reduce_machine_spec (comb : Int → Int → Int) (hc : ∀ a b, comb a b = comb b a)
    (ha : ∀ a b c, comb (comb a b) c = comb a (comb b c)) (ss : List (List KV)) (hs : AllStrict ss) :
    run comb (ss.flatten.length + 1) ss = reduceAll comb ss :=
  run_spec comb hc ha _ ss hs (Nat.lt_succ_self _)

/-- in particular the output is strictly sorted -/
theorem reduce_machine_sorted (comb : Int → Int → Int) (hc : ∀ a b, comb a b = comb b a)
    (ha : ∀ a b c, comb (comb a b) c = comb a (comb b c)) (ss : List (List KV)) (hs : AllStrict ss) :
    StrictSorted (run comb (ss.flatten.length + 1) ss) := by
  rw [reduce_machine_spec comb hc ha ss hs]; exact reduceAll_strictSorted comb ss

example : run (· + ·) 10 [[(1, 1), (4, 4)], [], [(1, 10), (2, 2), (4, 40)]] = [(1, 11), (2, 2), (4, 44)] := by decide

end BS.Merge
