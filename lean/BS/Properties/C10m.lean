import BS.Proofs.Merge
import BS.Proofs.MergeSort
import BS.Properties.C10
/-!
# C10 (the reduce-merge machine) — `sortio.Reduce` as it runs

`BS.Merge.run` is the round structure of `sortio/reader.go`: pop every cursor at the smallest key, combine, emit,
advance.  `reduce_machine_spec`: on strictly sorted streams (the output of combiners and of earlier reduces) it emits,
for every number and length of streams, exactly the keyed fold of all rows — one row per distinct key, ascending.
-/
namespace BS.Merge
open BS.KV

theorem reduce_machine_spec (comb : Int → Int → Int) (hc : ∀ a b, comb a b = comb b a)
    (ha : ∀ a b c, comb (comb a b) c = comb a (comb b c)) (ss : List (List KV)) (hs : AllStrict ss) :
    run comb (ss.flatten.length + 1) ss = reduceAll comb ss :=
  run_spec comb hc ha _ ss hs (Nat.lt_succ_self _)

/-- in particular the output is strictly sorted -/
theorem reduce_machine_sorted (comb : Int → Int → Int) (hc : ∀ a b, comb a b = comb b a)
    (ha : ∀ a b c, comb (comb a b) c = comb a (comb b c)) (ss : List (List KV)) (hs : AllStrict ss) :
    StrictSorted (run comb (ss.flatten.length + 1) ss) := by
  rw [reduce_machine_spec comb hc ha ss hs]; exact reduceAll_strictSorted comb ss

example : run (· + ·) 10 [[(1, 1), (4, 4)], [], [(1, 10), (2, 2), (4, 40)]] = [(1, 11), (2, 2), (4, 44)] := by decide

/-- **combine, spill, reduce-merge — the machines composed**: however a Reduce's input is cut into segments (by producer
task, spill threshold, machine combiner), folding each segment (`foldMap`, what a combining frame holds — `C09t`) and
running the reduce-merge machine over the folded runs yields the fold of the whole input. -/
theorem combine_then_reduce_machine (comb : Int → Int → Int) (hc : ∀ a b, comb a b = comb b a)
    (ha : ∀ a b c, comb (comb a b) c = comb a (comb b c)) (segs : List (List KV)) :
    run comb ((segs.map (foldMap comb)).flatten.length + 1) (segs.map (foldMap comb)) = foldMap comb segs.flatten := by
  rw [reduce_machine_spec comb hc ha]
  · exact spill_runs_spec comb hc ha segs
  · intro s hs
    obtain ⟨seg, _, rfl⟩ := List.mem_map.mp hs
    exact foldMap_strictSorted comb seg

/-! ## the plain merge reader as it runs (`NewMergeReader`, sortio/sort.go:161-222)

`mrun choose` emits the row under *a* cursor whose key is least and advances that cursor; which of several equal cursors
is at the top of the heap is left to `choose`.  For **every** legal choice, every number of streams and every length:
the output is a permutation of all rows and sorted by key. -/
theorem merge_machine_spec (choose : List (List KV) → Nat) (hch : ∀ ss, minKey ss ≠ none → Legal ss (choose ss))
    (ss : List (List KV)) (hs : AllSorted ss) :
    (mrun choose ss.flatten.length ss).Perm ss.flatten ∧ Sorted (mrun choose ss.flatten.length ss) :=
  mrun_spec choose hch _ ss hs (Nat.le_refl _)

/-- the hypothesis is satisfiable: taking the first least cursor is a legal choice (the oracle of the driver) -/
theorem merge_machine_leftmost (ss : List (List KV)) (hs : AllSorted ss) :
    (mrun leftmost ss.flatten.length ss).Perm ss.flatten ∧ Sorted (mrun leftmost ss.flatten.length ss) :=
  merge_machine_spec leftmost leftmost_legal ss hs

/-- **external sort — sort runs, spill, merge — composed**: however the input is cut into runs (spill sizes, canary), sorting
each run and running the merge machine over them, with any legal heap behaviour, yields the input's rows sorted by key -/
theorem sort_runs_then_merge_machine (choose : List (List KV) → Nat)
    (hch : ∀ ss, minKey ss ≠ none → Legal ss (choose ss)) (runs : List (List KV)) :
    let out := mrun choose (runs.map sortKV).flatten.length (runs.map sortKV)
    out.Perm runs.flatten ∧ Sorted out := by
  have hs : AllSorted (runs.map sortKV) := by
    intro s hs
    obtain ⟨r, _, rfl⟩ := List.mem_map.mp hs
    exact sortKV_sorted r
  have hflat : ∀ rs : List (List KV), (rs.map sortKV).flatten.Perm rs.flatten := by
    intro rs
    induction rs with
    | nil => exact List.Perm.refl _
    | cons r rs ih =>
      simp only [List.map_cons, List.flatten_cons]
      exact List.Perm.append (sortKV_perm r) ih
  obtain ⟨hp, hso⟩ := merge_machine_spec choose hch (runs.map sortKV) hs
  exact ⟨hp.trans (hflat runs), hso⟩

example : mrun leftmost 6 [[(1, 1), (4, 4)], [], [(1, 10), (2, 2), (4, 40)]] = [(1, 1), (1, 10), (2, 2), (4, 4), (4, 40)] := by
  decide

end BS.Merge
