import BS.Model.Codec
import BS.Proofs.Reader
/-!
# C07 — row streams decode to the rows written; corruption is detected, never returned
-/
namespace BS.Codec
open BS.Reader

def Dec.rem {α} (d : Dec α) : List α := d.buf ++ (goodPrefix d.batches).1
def Dec.mu {α} (d : Dec α) : Nat := d.batches.length

/-- **decode ∘ encode**: every destination-size sequence (each ≥ 1) and every batching,
including empty batches and batches larger than the destination, yields the rows written,
then a clean end-of-stream; a damaged batch yields an error after exactly the rows of the
batches before it (`prefix_determinism`: what is delivered before batch `k` depends only on
batches `< k`). -/
theorem drainDec_spec {α} (dest : Nat → Nat) (hd : ∀ i, 0 < dest i) :
    ∀ (fuel i : Nat) (d : Dec α), d.failed = false → d.batches.length + d.buf.length + (goodPrefix d.batches).1.length < fuel →
      drainDec dest fuel i d = (d.rem, if (goodPrefix d.batches).2 then .err else .eof) := by
  intro fuel
  induction fuel with
  | zero => intro i d _ hf; omega
  | succ fuel ih =>
    intro i d hfail hf
    obtain ⟨batches, buf, failed⟩ := d
    simp only at hfail
    subst hfail
    simp only [drainDec, Dec.read, Bool.false_eq_true, if_false]
    cases buf with
    | cons x xs =>
      have hne : (x :: xs) ≠ [] := by simp
      simp only [ne_eq, hne, not_false_eq_true, if_true]
      rw [ih (i + 1) ⟨batches, (x :: xs).drop (dest i), false⟩ rfl
        (by simp only [List.length_drop, List.length_cons] at hf ⊢; have := hd i; omega)]
      simp only [Dec.rem, Prod.mk.injEq, and_true]
      rw [← List.append_assoc, List.take_append_drop]
    | nil =>
      simp only [ne_eq, not_true_eq_false, if_false]
      cases batches with
      | nil => simp [Dec.rem, goodPrefix]
      | cons b bs =>
        cases b with
        | bad => simp [Dec.rem, goodPrefix]
        | ok rows =>
          simp only [goodPrefix, List.length_nil, List.length_cons, List.length_append] at hf
          by_cases hle : rows.length ≤ dest i
          · simp only [hle, if_true]
            rw [ih (i + 1) ⟨bs, [], false⟩ rfl (by simp only [List.length_nil]; omega)]
            simp only [Dec.rem, goodPrefix, List.nil_append]
            rfl
          · simp only [hle, if_false]
            rw [ih (i + 1) ⟨bs, rows.drop (dest i), false⟩ rfl
              (by simp only [List.length_drop]; have := hd i; omega)]
            simp only [Dec.rem, goodPrefix, List.nil_append, Prod.mk.injEq]
            rw [← List.append_assoc, List.take_append_drop]
            exact ⟨rfl, rfl⟩

/-- the undamaged case, stated directly -/
theorem decode_encode {α} (batches : List (List α)) (dest : Nat → Nat) (hd : ∀ i, 0 < dest i) :
    ∃ fuel, drainDec dest fuel 0 ⟨okBatches batches, [], false⟩ = (batches.flatten, .eof) := by
  have hg : ∀ bs : List (List α), goodPrefix (okBatches bs) = (bs.flatten, false) := by
    intro bs
    induction bs with
    | nil => rfl
    | cons b bs ih => simp [okBatches, goodPrefix] at ih ⊢; simp [ih]
  refine ⟨(okBatches batches).length + 0 + batches.flatten.length + 1, ?_⟩
  rw [drainDec_spec dest hd _ 0 _ rfl (by simp [hg])]
  simp [Dec.rem, hg]

/-- a damaged batch is never returned: the reader fails at it, having delivered exactly
the rows of the intact batches before it -/
theorem damaged_batch_rejected {α} (pre : List (List α)) (post : List (Batch α)) (dest : Nat → Nat)
    (hd : ∀ i, 0 < dest i) :
    ∃ fuel, drainDec dest fuel 0 ⟨okBatches pre ++ .bad :: post, [], false⟩ = (pre.flatten, .err) := by
  have hg : ∀ bs : List (List α), goodPrefix (okBatches bs ++ Batch.bad :: post) = (bs.flatten, true) := by
    intro bs
    induction bs with
    | nil => rfl
    | cons b bs ih => simp [okBatches, goodPrefix] at ih ⊢; simp [ih]
  refine ⟨(okBatches pre ++ Batch.bad :: post).length + 0 + pre.flatten.length + 1, ?_⟩
  rw [drainDec_spec dest hd _ 0 _ rfl (by simp [hg])]
  simp [Dec.rem, hg]

/-- every call returns at most the requested number of rows -/
theorem dec_read_le {α} (d : Dec α) (k : Nat) : (d.read k).2.1.length ≤ k := by
  unfold Dec.read
  split
  · simp
  · split
    · simp; omega
    · split
      · simp
      · simp
      · split <;> simp <;> omega

/-- errors and end-of-stream are sticky -/
theorem dec_sticky {α} (d : Dec α) (k k' : Nat) (h : (d.read k).2.2 ≠ .more) :
    ((d.read k).1.read k').2 = ([], (d.read k).2.2) := by
  obtain ⟨batches, buf, failed⟩ := d
  cases failed
  · cases buf with
    | cons x xs => simp [Dec.read] at h
    | nil =>
      cases batches with
      | nil => simp [Dec.read]
      | cons b bs =>
        cases b with
        | bad => simp [Dec.read]
        | ok rows =>
          simp only [Dec.read, Bool.false_eq_true, if_false, ne_eq, not_true_eq_false] at h
          split at h <;> exact absurd rfl h
  · simp [Dec.read]

example : drainDec (fun _ => 2) 10 0 ⟨[.ok [1, 2, 3], .ok [], .ok [4], .bad, .ok [5]], [], false⟩
    = ([1, 2, 3, 4], .err) := by decide

end BS.Codec
