import BS.Proofs.Crc
/-!
# C07 (checksums) — what the per-batch CRC-32 detects

The codec writes, after every batch, the CRC-32 (IEEE) of the batch's bytes and the decoder recomputes it over the bytes
it consumed (sliceio/codec.go).  `BS.Codec` abstracts a batch as intact or damaged; this file proves, for the real
checksum function, which damage *cannot* go unnoticed: any change confined to a window of at most 32 consecutive bits —
in particular every single flipped bit and every damaged run of up to four bytes — at any position of a batch of any
length changes the checksum.  (Longer damage escapes with probability 2^-32; that part stays a property of CRCs that
is not proved here.)
-/
namespace BS.Crc

/-- bit level, from every register state (so also for the continuation of a longer stream) -/
theorem checksum_detects_bit_burst (s : BitVec 32) (pre suf w w' : List Bool) (hl : w.length = w'.length)
    (h32 : w.length ≤ 32) (hne : w ≠ w') : run s (pre ++ w ++ suf) ≠ run s (pre ++ w' ++ suf) :=
  burst_detected s pre suf w w' hl h32 hne

/-- byte level: damage confined to at most four consecutive bytes of a batch changes its CRC-32 -/
theorem checksum_detects_byte_burst (pre suf w w' : List (BitVec 8)) (hl : w.length = w'.length) (h4 : w.length ≤ 4)
    (hne : w ≠ w') : crc32 (pre ++ w ++ suf) ≠ crc32 (pre ++ w' ++ suf) :=
  crc32_burst pre suf w w' hl h4 hne

/-- every single flipped bit is detected -/
theorem checksum_detects_bit_flip (s : BitVec 32) (pre suf : List Bool) (b : Bool) :
    run s (pre ++ [b] ++ suf) ≠ run s (pre ++ [!b] ++ suf) :=
  burst_detected s pre suf [b] [!b] rfl (by simp) (by cases b <;> simp)

/-- the model is the IEEE checksum: the standard check value ("123456789") -/
example : crc32 [0x31#8, 0x32#8, 0x33#8, 0x34#8, 0x35#8, 0x36#8, 0x37#8, 0x38#8, 0x39#8] = 0xCBF43926#32 := by decide +kernel

example : crc32 [0x61#8, 0x62#8, 0x63#8] ≠ crc32 [0x61#8, 0x62#8 ^^^ 0x10#8, 0x63#8] :=
  checksum_detects_byte_burst [0x61#8] [0x63#8] [0x62#8] [0x62#8 ^^^ 0x10#8] rfl (by simp) (by decide)

end BS.Crc
