import BS.Model.Limiter
/-!
# C14 (local mode) — at most `p` tasks run at once, an Exclusive task runs alone

For every parallelism `p ≥ 1` and every sequence of acquire / release events of any
number of task goroutines (every interleaving): the tokens held plus the tokens in
the limiter are always `p`, every running task holds at least one, hence at most
`p` run at once; a task that holds `p` tokens (an Exclusive one) is the only one
running; when nothing runs all tokens are back (no leak), and then every request
can be served (no deadlock at rest).
-/
namespace BS.Limiter

def Inv (s : LState) : Prop :=
  s.avail + total s.held = s.p ∧ ∀ x ∈ s.held, 1 ≤ x.2

theorem need_pos (p : Nat) (hp : 1 ≤ p) (e : Bool) : 1 ≤ need p e := by
  unfold need; split <;> omega

theorem total_erase (t : Nat) (l : List (Nat × Nat)) (n : Nat) (h : lookup t l = some n) :
    total (erase t l) + n = total l := by
  induction l with
  | nil => simp [lookup] at h
  | cons a r ih =>
    obtain ⟨a, m⟩ := a
    simp only [lookup] at h
    simp only [erase]
    split at h
    · rename_i he; cases h; simp [he, total]; omega
    · rename_i hne; have := ih h; simp [hne, total]; omega

theorem mem_erase (t : Nat) (l : List (Nat × Nat)) (x : Nat × Nat) (h : x ∈ erase t l) : x ∈ l := by
  induction l with
  | nil => simp [erase] at h
  | cons a r ih =>
    obtain ⟨a, m⟩ := a
    simp only [erase] at h
    split at h
    · exact List.mem_cons_of_mem _ h
    · rcases List.mem_cons.mp h with h | h
      · simp [h]
      · exact List.mem_cons_of_mem _ (ih h)

theorem step_p (s : LState) (e : Ev) : (step s e).p = s.p := by
  cases e <;> simp only [step]
  · split <;> rfl
  · split <;> rfl

theorem step_inv (s : LState) (hp : 1 ≤ s.p) (h : Inv s) (e : Ev) : Inv (step s e) := by
  obtain ⟨h1, h2⟩ := h
  cases e with
  | acquire t ex =>
    simp only [step]
    split
    · rename_i hc
      refine ⟨?_, ?_⟩
      · simp [total]; omega
      · intro x hx
        rcases List.mem_cons.mp hx with rfl | hx
        · exact need_pos _ hp _
        · exact h2 x hx
    · exact ⟨h1, h2⟩
  | release t =>
    simp only [step]
    split
    · rename_i n hl
      refine ⟨?_, fun x hx => h2 x (mem_erase t _ x hx)⟩
      have := total_erase t s.held n hl
      simp; omega
    · exact ⟨h1, h2⟩

theorem run_p (s : LState) (evs : List Ev) : (run s evs).p = s.p := by
  induction evs generalizing s with
  | nil => rfl
  | cons e es ih => simp only [run, List.foldl] at *; rw [ih, step_p]

/-- the invariant holds in every reachable state -/
theorem limiter_inv (p : Nat) (hp : 1 ≤ p) (evs : List Ev) : Inv (run (init p) evs) := by
  suffices ∀ s, 1 ≤ s.p → Inv s → Inv (run s evs) from this (init p) hp ⟨by simp [init, total], by simp [init]⟩
  induction evs with
  | nil => intro s _ h; exact h
  | cons e es ih =>
    intro s hp h
    simp only [run, List.foldl]
    exact ih (step s e) (by rw [step_p]; exact hp) (step_inv s hp h e)

theorem length_le_total (l : List (Nat × Nat)) (h : ∀ x ∈ l, 1 ≤ x.2) : l.length ≤ total l := by
  induction l with
  | nil => simp [total]
  | cons a r ih =>
    obtain ⟨a, m⟩ := a
    have := h (a, m) (by simp)
    have := ih (fun x hx => h x (List.mem_cons_of_mem _ hx))
    simp [total] at *; omega

/-- **at most `p` tasks run at once** -/
theorem at_most_p_running (p : Nat) (hp : 1 ≤ p) (evs : List Ev) :
    (run (init p) evs).held.length ≤ p := by
  obtain ⟨h1, h2⟩ := limiter_inv p hp evs
  have := length_le_total _ h2
  rw [run_p] at h1; have : (init p).p = p := rfl; omega

theorem total_mem (l : List (Nat × Nat)) (x : Nat × Nat) (hx : x ∈ l) (h : ∀ y ∈ l, 1 ≤ y.2) :
    x.2 + (l.length - 1) ≤ total l := by
  induction l with
  | nil => cases hx
  | cons a r ih =>
    obtain ⟨a, m⟩ := a
    rcases List.mem_cons.mp hx with rfl | hx
    · have := length_le_total r (fun y hy => h y (List.mem_cons_of_mem _ hy))
      simp [total]; omega
    · have := ih hx (fun y hy => h y (List.mem_cons_of_mem _ hy))
      have := h (a, m) (by simp)
      have : 1 ≤ r.length := by cases r <;> simp at hx ⊢
      simp [total] at *; omega

/-- **an Exclusive task runs alone**: a task holding all `p` tokens is the only running task -/
theorem exclusive_runs_alone (p : Nat) (hp : 1 ≤ p) (evs : List Ev) (t : Nat)
    (h : (t, p) ∈ (run (init p) evs).held) : (run (init p) evs).held = [(t, p)] := by
  obtain ⟨h1, h2⟩ := limiter_inv p hp evs
  have h3 := total_mem _ _ h h2
  rw [run_p] at h1; have hip : (init p).p = p := rfl
  have hl : (run (init p) evs).held.length ≤ 1 := by simp at h3; omega
  match hh : (run (init p) evs).held, h, hl with
  | [x], h, _ => simp at h; simp [h]
  | [], h, _ => cases h
  | _ :: _ :: _, _, hl => simp at hl

/-- what an exclusive acquire takes is all `p` tokens (so the theorem above applies to it) -/
theorem exclusive_takes_all (s : LState) (t : Nat) (h : step s (.acquire t true) ≠ s) :
    (t, s.p) ∈ (step s (.acquire t true)).held := by
  simp only [step] at *
  split
  · simp [need]
  · rename_i hc; simp [hc] at h

/-- **no token leaks**: when no task runs, all `p` tokens are in the limiter -/
theorem idle_all_tokens (p : Nat) (hp : 1 ≤ p) (evs : List Ev) (h : (run (init p) evs).held = []) :
    (run (init p) evs).avail = p := by
  obtain ⟨h1, _⟩ := limiter_inv p hp evs
  rw [run_p, h] at h1; have hip : (init p).p = p := rfl; simp [total] at h1; omega

/-- **no deadlock at rest**: when no task runs, every request (also an Exclusive one) is served -/
theorem idle_serves_any (p : Nat) (hp : 1 ≤ p) (evs : List Ev) (h : (run (init p) evs).held = [])
    (t : Nat) (e : Bool) : (step (run (init p) evs) (.acquire t e)).held = [(t, need p e)] := by
  have ha := idle_all_tokens p hp evs h
  have hpp : (run (init p) evs).p = p := run_p (init p) evs
  simp only [step]
  have : need (run (init p) evs).p e ≤ (run (init p) evs).avail := by
    rw [ha, hpp]; unfold need; split <;> omega
  rw [if_pos ⟨this, by rw [h]; rfl⟩, h, hpp]

/-- **a request that has to wait waits for somebody**: if an acquire cannot be served, some task holds tokens — whose
deferred release will come (there is no state in which a request waits while nothing runs) -/
theorem blocked_has_holder (p : Nat) (hp : 1 ≤ p) (evs : List Ev) (t : Nat) (e : Bool)
    (hb : step (run (init p) evs) (.acquire t e) = run (init p) evs) : (run (init p) evs).held ≠ [] := by
  intro h
  have := idle_serves_any p hp evs h t e
  rw [hb, h] at this
  cases this

/-- a release by a task that holds nothing changes nothing (the deferred release is the only one) -/
theorem release_unheld (s : LState) (t : Nat) (h : lookup t s.held = none) : step s (.release t) = s := by
  simp [step, h]

/-- non-vacuity: p = 3, two plain tasks run, an exclusive one waits until both have finished -/
example : (run (init 3) [.acquire 0 false, .acquire 1 false, .acquire 2 true]).held = [(1, 1), (0, 1)] := by decide
example : (run (init 3) [.acquire 0 false, .acquire 1 false, .acquire 2 true, .release 0, .release 1,
    .acquire 2 true, .acquire 3 false]).held = [(2, 3)] := by decide

end BS.Limiter
