import BS.Model.WorkerTask
/-!
# C12 (worker side) — whatever calls overlap, a task the worker reports OK has its output

For any number of `Worker.Run` and `Worker.Discard` calls for one task, issued and interleaved in any way (the originals
of retried RPCs included), as long as no *waiting* call's context is cancelled (`NoCancel`; see `cancel_breaks_one_holder`): at most one call holds the task at a time — it is executed by one call and awaited by the
others, never executed twice at once nor executed while it is being discarded (`one_holder`) —; whenever the task is OK
the store holds its output (`ok_has_output`), so every success a `Run` call reports is backed by output
(`success_reply_has_output`).  A `Run` call that waited while the output was being discarded reports `ErrTaskLost`; were a
LOST task taken for success there, the worker would hold a task for OK without output (`lost_as_success_unsafe`: the
trace of that hypothetical change, not a behaviour of the code).
-/
namespace BS.WorkerTask

def Inv (s : S) : Prop :=
  active s.ths = (if s.st = .running then 1 else 0) ∧ (s.st = .ok → s.out = true)

theorem active_set (l : List Th) (i : Nat) (t : Th) (h : i < l.length) :
    active (l.set i t) + act (l.getD i .idle) = active l + act t := by
  induction l generalizing i with
  | nil => simp at h
  | cons a r ih =>
    cases i with
    | zero => simp only [active, List.set_cons_zero, List.map_cons, List.sum_cons, List.getD_cons_zero]; omega
    | succ i =>
      have := ih i (by simpa using h)
      simp only [active, List.set_cons_succ, List.map_cons, List.sum_cons, List.getD_cons_succ] at this ⊢; omega

theorem getD_lt (l : List Th) (i : Nat) (h : l.getD i .idle ≠ .idle) : i < l.length := by
  by_cases hi : i < l.length
  · exact hi
  · simp [List.getD, List.getElem?_eq_none (Nat.le_of_not_gt hi)] at h

/-- replacing call `i`'s mode `old` by `new` while the state goes to `st'` keeps the count in step, given the arithmetic -/
theorem upd (s : S) (i : Nat) (old new : Th) (st' : WSt) (hold : s.th i = old) (hlt : i < s.ths.length)
    (h1 : active s.ths = (if s.st = .running then 1 else 0))
    (hnum : (if s.st = .running then 1 else 0) + act new = (if st' = .running then 1 else 0) + act old) :
    active (s.ths.set i new) = (if st' = .running then 1 else 0) := by
  have := active_set s.ths i new hlt
  simp only [S.th] at hold
  rw [hold] at this
  omega

/-- a call that holds the task exists only while the task is RUNNING -/
theorem holder_running (s : S) (i : Nat) (old : Th) (hold : s.th i = old) (ha : act old = 1)
    (h1 : active s.ths = (if s.st = .running then 1 else 0)) : s.st = .running ∧ i < s.ths.length := by
  have hlt : i < s.ths.length := getD_lt s.ths i (by
    simp only [S.th] at hold; rw [hold]; intro h; rw [h] at ha; cases ha)
  have := active_set s.ths i .idle hlt
  simp only [S.th] at hold
  rw [hold, ha] at this
  have h0 : act Th.idle = 0 := rfl
  refine ⟨?_, hlt⟩
  by_cases hr : s.st = .running
  · exact hr
  · rw [if_neg hr] at h1; omega

theorem step_inv (s : S) (h : Inv s) (e : Ev) (hnc : e.isCancel = false) : Inv (step true s e) := by
  obtain ⟨h1, h2⟩ := h
  cases e with
  | cancel i => cases hnc
  | runEnter i =>
    simp only [step]
    split
    · rename_i hc
      cases hst : s.st
      · exact ⟨upd s i .idle .exec .running hc.1 hc.2 h1 (by simp [hst, act]), by simp⟩
      · exact ⟨by simpa [S.setTh, hst] using upd s i .idle .wait .running hc.1 hc.2 h1 (by simp [hst, act]), by simp [S.setTh, hst]⟩
      · exact ⟨by simpa [S.setTh, hst] using upd s i .idle .wait .ok hc.1 hc.2 h1 (by simp [hst, act]), by simpa [S.setTh, hst] using h2⟩
      · exact ⟨upd s i .idle .exec .running hc.1 hc.2 h1 (by simp [hst, act]), by simp⟩
      · exact ⟨upd s i .idle .exec .running hc.1 hc.2 h1 (by simp [hst, act]), by simp⟩
    · exact ⟨h1, h2⟩
  | finOk i =>
    simp only [step]
    split
    · rename_i hc
      obtain ⟨hr, hlt⟩ := holder_running s i .exec hc rfl h1
      exact ⟨upd s i .exec .idle .ok hc hlt h1 (by simp [hr, act]), by simp⟩
    · exact ⟨h1, h2⟩
  | finErr i =>
    simp only [step]
    split
    · rename_i hc
      obtain ⟨hr, hlt⟩ := holder_running s i .exec hc rfl h1
      exact ⟨upd s i .exec .idle .err hc hlt h1 (by simp [hr, act]), by simp⟩
    · exact ⟨h1, h2⟩
  | wake i =>
    simp only [step]
    split
    · rename_i hc
      have hlt : i < s.ths.length := getD_lt s.ths i (by simp only [S.th] at hc; rw [hc]; simp)
      cases hst : s.st
      · exact ⟨by simpa [hst] using h1, by simp [hst]⟩
      · exact ⟨by simpa [hst] using h1, by simp [hst]⟩
      · exact ⟨by simpa [S.setTh, hst] using upd s i .wait .idle .ok hc hlt h1 (by simp [hst, act]), by simpa [S.setTh, hst] using h2⟩
      · exact ⟨by simpa [S.setTh, hst] using upd s i .wait .idle .err hc hlt h1 (by simp [hst, act]), by simp [S.setTh, hst]⟩
      · exact ⟨by simpa [S.setTh, hst] using upd s i .wait .idle .err hc hlt h1 (by simp [hst, act]), by simp [S.setTh]⟩
    · exact ⟨h1, h2⟩
  | discEnter i =>
    simp only [step]
    split
    · rename_i hc
      split
      · rename_i hok
        exact ⟨upd s i .idle (.disc false) .running hc.1 hc.2 h1 (by simp [hok, act]), by simp⟩
      · exact ⟨h1, h2⟩
    · exact ⟨h1, h2⟩
  | discStore i =>
    simp only [step]
    split
    · rename_i hc
      obtain ⟨hr, hlt⟩ := holder_running s i (.disc false) hc rfl h1
      exact ⟨by simpa [S.setTh, hr] using upd s i (.disc false) (.disc true) .running hc hlt h1 (by simp [hr, act]),
        by simp [S.setTh, hr]⟩
    · exact ⟨h1, h2⟩
  | discFin i =>
    simp only [step]
    split
    · rename_i hc
      obtain ⟨hr, hlt⟩ := holder_running s i (.disc true) hc rfl h1
      exact ⟨upd s i (.disc true) .idle .lost hc hlt h1 (by simp [hr, act]), by simp⟩
    · exact ⟨h1, h2⟩

theorem inv_init (n : Nat) : Inv (init n) := by
  refine ⟨?_, by simp [init]⟩
  simp only [init, active]
  induction n with
  | zero => simp
  | succ n ih => simp [List.replicate_succ, act] at ih ⊢

/-- histories in which no waiting call's context is cancelled -/
def NoCancel (evs : List Ev) : Prop := ∀ e ∈ evs, e.isCancel = false

theorem reachable_inv (n : Nat) (evs : List Ev) (hnc : NoCancel evs) : Inv (run true (init n) evs) := by
  suffices ∀ s, Inv s → Inv (run true s evs) from this _ (inv_init n)
  induction evs with
  | nil => intro s h; exact h
  | cons e es ih =>
    intro s h
    exact ih (fun e' he' => hnc e' (List.mem_cons_of_mem _ he')) _ (step_inv s h e (hnc e (by simp)))

/-- **at most one call holds the task**: it is never executed twice at once, nor executed while being discarded -/
theorem one_holder (n : Nat) (evs : List Ev) (hnc : NoCancel evs) : active (run true (init n) evs).ths ≤ 1 := by
  have := (reachable_inv n evs hnc).1
  split at this <;> omega

/-- **a task the worker holds for OK has its output**, under every interleaving of any number of calls -/
theorem ok_has_output (n : Nat) (evs : List Ev) (hnc : NoCancel evs) (h : (run true (init n) evs).st = .ok) :
    (run true (init n) evs).out = true := (reachable_inv n evs hnc).2 h

/-- every success a `Run` call reports is given in a state in which the task is OK with its output in the store -/
theorem success_reply_has_output (s : S) (h : Inv s) (e : Ev) (hnc : e.isCancel = false) (i : Nat)
    (hr : (step true s e).replies = (i, .ok) :: s.replies) :
    (step true s e).st = .ok ∧ (step true s e).out = true := by
  have hinv := step_inv s h e hnc
  suffices (step true s e).st = .ok from ⟨this, hinv.2 this⟩
  cases e <;> simp only [step] at hr ⊢ <;> (try split at hr) <;> (try split at hr) <;> (try split at hr) <;>
    simp_all [S.setTh]

/-- what the cancellation of a waiting call's context makes possible (the code's behaviour, outside the theorems above):
call 1 waits for call 0, its context is cancelled — the task is marked failed although call 0 still executes it — and
call 2 then takes the "failed" task and executes it a second time, concurrently -/
theorem cancel_breaks_one_holder :
    active (run true (init 3) [.runEnter 0, .runEnter 1, .cancel 1, .runEnter 2]).ths = 2 := by decide

/-- were a LOST task taken for success by a waiting Run call (not what the code does): a Run call that waits while a
Discard call deletes the output would report success and mark the task OK — a task held for OK whose output is gone -/
theorem lost_as_success_unsafe :
    let s := run false (init 3) [.runEnter 0, .finOk 0, .discEnter 1, .runEnter 2, .discStore 1, .discFin 1, .wake 2]
    s.st = .ok ∧ s.out = false ∧ s.replies.head? = some (2, .ok) := by decide

/-- the same calls with the code's behaviour: the waiting call reports the loss; the next Run call revives the task -/
example :
    let s := run true (init 4) [.runEnter 0, .finOk 0, .discEnter 1, .runEnter 2, .discStore 1, .discFin 1, .wake 2,
      .runEnter 3, .finOk 3]
    s.st = .ok ∧ s.out = true ∧ s.ths = [.idle, .idle, .idle, .idle] ∧ s.replies.map (·.2) = [.ok, .err, .none, .ok] := by decide

end BS.WorkerTask
