import BS.Model.Part
import BS.Proofs.Frame
/-!
# C05 — keyed redistribution puts each key in one shard, chosen by the key alone
-/
namespace BS.Part
open BS.Hash

/-- the shard is a valid shard index -/
theorem part_lt (n : Nat) (key : List KVal) (h : 0 < n) : part n key < n := Nat.mod_lt _ h

/-- `+0.0` and `-0.0` (equal keys in Go) have the same hashed representation. -/
theorem f64_zero_sign_irrelevant : f64bitsQuarter true 0 = f64bitsQuarter false 0 := rfl
theorem f32_zero_sign_irrelevant : f32bitsQuarter true 0 = f32bitsQuarter false 0 := rfl

/-! ### rows, keys, and the shuffle -/

variable {ρ : Type}

/-- partition `p` of a producer's rows: what consumer shard `p` reads from it
(local.go:214-231, bigmachine.go:958-1003) -/
def splitByPart (key : ρ → List KVal) (n : Nat) (rows : List ρ) (p : Nat) : List ρ :=
  rows.filter fun r => part n (key r) == p

/-- a row is in the partition its key hashes to, and in no other -/
theorem mem_split_iff (key : ρ → List KVal) (n : Nat) (rows : List ρ) (p : Nat) (r : ρ) :
    r ∈ splitByPart key n rows p ↔ r ∈ rows ∧ part n (key r) = p := by
  simp [splitByPart]

/-- **equal keys, same shard** — whatever the producer, the position in a frame or the batch:
the shard is a function of the key and the shard count. -/
theorem equal_keys_same_shard (key : ρ → List KVal) (n : Nat) (rows₁ rows₂ : List ρ) (p q : Nat) (r s : ρ)
    (hr : r ∈ splitByPart key n rows₁ p) (hs : s ∈ splitByPart key n rows₂ q) (hk : key r = key s) : p = q := by
  rw [mem_split_iff] at hr hs
  rw [← hr.2, ← hs.2, hk]

theorem filter_or_perm (l : List ρ) (a b : ρ → Bool) (hd : ∀ x, ¬ (a x = true ∧ b x = true)) :
    (l.filter a ++ l.filter b).Perm (l.filter fun x => a x || b x) := by
  induction l with
  | nil => exact List.Perm.refl _
  | cons x xs ih =>
    simp only [List.filter_cons]
    cases ha : a x <;> cases hb : b x
    · simpa using ih
    · simp only [Bool.false_or, if_true, Bool.false_eq_true, if_false]
      exact (List.perm_middle).trans (List.Perm.cons x ih)
    · simp only [Bool.true_or, if_true, Bool.false_eq_true, if_false, List.cons_append]
      exact List.Perm.cons x ih
    · exact absurd ⟨ha, hb⟩ (hd x)

theorem split_below_perm (key : ρ → List KVal) (n : Nat) (rows : List ρ) (m : Nat) :
    ((List.range m).flatMap (splitByPart key n rows)).Perm (rows.filter fun r => decide (part n (key r) < m)) := by
  induction m with
  | zero => simp
  | succ m ih =>
    rw [List.range_succ, List.flatMap_append]
    simp only [List.flatMap_cons, List.flatMap_nil, List.append_nil]
    refine (List.Perm.append_right _ ih).trans ?_
    refine (filter_or_perm rows _ _ ?_).trans ?_
    · intro x ⟨h1, h2⟩
      have h1' : part n (key x) < m := by simpa using h1
      have h2' : part n (key x) = m := by simpa using h2
      omega
    · apply List.Perm.of_eq
      apply List.filter_congr
      intro x _
      rw [Bool.eq_iff_iff]
      simp only [Bool.or_eq_true, decide_eq_true_eq, beq_iff_eq]
      omega

/-- **no row lost, duplicated or invented by a shuffle**: the partitions of a producer,
taken over all consumer shards, are a permutation of its rows. -/
theorem shuffle_partitions_perm (key : ρ → List KVal) (n : Nat) (hn : 0 < n) (rows : List ρ) :
    ((List.range n).flatMap (splitByPart key n rows)).Perm rows := by
  refine (split_below_perm key n rows n).trans ?_
  apply List.Perm.of_eq
  rw [List.filter_eq_self]
  intro r _
  simp [part_lt n (key r) hn]

/-- **keyed aggregations emit each key once**: if every shard's output has unique keys
(C09/C10) and every row sits in the shard of its key, the whole result has unique keys. -/
theorem aggregate_unique_keys (key : ρ → List KVal) (n : Nat) (out : Nat → List ρ)
    (hloc : ∀ p r, r ∈ out p → part n (key r) = p)
    (huniq : ∀ p, ((out p).map key).Nodup) :
    ∀ m, (((List.range m).flatMap out).map key).Nodup := by
  intro m
  induction m with
  | zero => simp
  | succ m ih =>
    rw [List.range_succ, List.flatMap_append, List.map_append]
    simp only [List.flatMap_cons, List.flatMap_nil, List.append_nil]
    rw [List.nodup_append]
    refine ⟨ih, huniq m, ?_⟩
    intro a ha b hb hab
    subst hab
    simp only [List.mem_map, List.mem_flatMap, List.mem_range] at ha hb
    obtain ⟨r, ⟨p, hp, hr⟩, rfl⟩ := ha
    obtain ⟨s, hs, hks⟩ := hb
    have h1 := hloc p r hr
    have h2 := hloc m s hs
    rw [hks] at h2
    omega

/-! ### position independence (with `BS.Frame`) -/

open BS.Frame in
/-- The hash (hence the shard) of row `i` of a frame depends only on that row's key
columns, not on the view's offset or the store it lives in. -/
theorem hash_position_independent (enc : Int → KVal) (seed : UInt32)
    (m₁ m₂ : Mem) (f g : Frame) (i j : Nat) (hi : i < f.len) (hj : j < g.len) (hp : f.pfx = g.pfx)
    (hrow : (view m₁ f).getD i [] = (view m₂ g).getD j []) :
    hashRow seed (((rowAt m₁ f.sid (idx f.off i)).take f.pfx).map enc)
      = hashRow seed (((rowAt m₂ g.sid (idx g.off j)).take g.pfx).map enc) := by
  rw [← view_getD m₁ f i hi, ← view_getD m₂ g j hj, hrow, hp]

/-! ### non-vacuity -/
example : part 7 [.w64 42, .bytes [104, 105]] < 7 := part_lt _ _ (by decide)

end BS.Part
