import Driver.C01
namespace Driver.C02
open BS.Prog BS.Sem BS.KV Driver

def bodyOf (obs : String) : String := (obs.splitOn " | kills=").headD ""

def run (c obs : String) : String × String × Bool :=
  let segs := c.splitOn ";;"
  let cfg := words (segs.headD "")
  let mc := cfg.contains "MC"
  let progs := segs.drop 2
  let outs := obs.splitOn " ## "
  let rec go (ps os : List String) (i : Nat) (results : List Shards) (ctrs : List C01.RunCtr) : String × String × Bool :=
    match ps, os with
    | [], _ => ("", "ok", true)
    | p :: ps', o :: os' =>
      let body := bodyOf o
      if body.startsWith "hang" || body.startsWith "scanhang" || body.startsWith "HANG" then
        ("", s!"program {i}: the run (or the scan of its result) blocked after a machine was lost", false)
      else if body.startsWith "CRASH" || body.startsWith "MISSING" then
        ("", s!"program {i}: the driver process died: {body.take 150}", false)
      else if body.startsWith "ok |" then
        match C01.checkProgram p results ctrs body (lenient := true) with
        | .ok (sh, c, _) => go ps' os' (i + 1) (results ++ [sh]) (ctrs ++ [c])
        | .error e =>
          let (pp, _) := ProgParse.parseProgram p
          let unordered := !(eval pp results).2.ordered
          ("", s!"program {i}: success reported with wrong rows after a machine loss{if unordered then " (the program does not fix the row order of its result)" else ""}: {e}", false)
      else if body.startsWith "scan" then
        -- the run succeeded, the scan of the result reported an error: allowed (never other rows)
        ("", "ok", true)
      else if mc then
        -- recovery is documented as not implemented with machine combiners: an error is the allowed outcome
        ("", "ok", true)
      else
        ("", s!"program {i}: replacement machines were available and losses stopped, but the run failed: {body.take 200}", false)
    | _ :: _, [] => ("", s!"program {i} was not run", false)
  go progs outs 0 [] []

end Driver.C02
