/-! Line-protocol helpers for the model driver (core-only). -/
namespace Driver

def splitOn1 (s : String) (c : Char) : List String := s.splitOn (String.singleton c)

def words (s : String) : List String :=
  (s.splitOn " ").filter (· ≠ "")

def toInt! (s : String) : Int := s.toInt?.getD 0
def toNat! (s : String) : Nat := s.toNat?.getD 0

def joinWith (sep : String) (xs : List String) : String := sep.intercalate xs

def pad4 (n : Nat) : String :=
  let s := toString n
  String.mk (List.replicate (4 - s.length) '0') ++ s

end Driver
