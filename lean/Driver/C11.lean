import BS.Model.Frame
import BS.Model.Hash
import Driver.Util
/-! C11 driver: replays an op sequence on `BS.Frame` and prints the same dump as the Go harness. -/
namespace Driver.C11
open BS.Frame BS.Hash Driver

structure St where
  kinds : List String
  mem : Mem
  frames : List Frame

def valBytes (pre : Char) (v : Int) : List UInt8 :=
  if v = 0 then [] else (String.mk [pre] ++ pad4 v.toNat).toUTF8.toList

/-- the harness spreads the small naturals over all bytes of the wider integer types (kinds.go `kindScale`) -/
def kindScale (k : String) : Int :=
  match k with
  | "i16" => 257
  | "u16" => 701
  | "i32" | "u32" => 16843009
  | "i64" | "u64" | "int" | "uint" | "uptr" => 72340172838076673
  | _ => 1

def hashCol (k : String) (v0 : Int) (seed : UInt32) : UInt32 :=
  let v := v0 * kindScale k
  match k with
  | "i64" | "int" | "u64" | "uint" | "uptr" => hash64 (intToU64 v) seed
  | "i32" | "i16" | "i8" | "u8" | "u16" | "u32" => hash32 (intToU32 v) seed
  | "str" => murmur3 (valBytes 'k' v0) seed
  | "bytes" => murmur3 (valBytes 'b' v0) seed
  | "f64" => hash64 (f64bitsOfNat v0.toNat) seed
  | "f32" => hash32 (f32bitsOfNat v0.toNat) seed
  | "bool" => if v0 ≠ 0 then seed + 1 else seed
  | _ => 0

def hashRow (kinds : List String) (pfx : Nat) (r : Row) (seed : UInt32) : UInt32 :=
  ((kinds.zip r).take pfx).foldl (fun h (k, v) => h ^^^ hashCol k v seed) 0

def showRows (rs : List Row) : String :=
  "[" ++ joinWith ";" (rs.map fun r => joinWith "," (r.map toString)) ++ "]"

/-- The harness identifies allocations by address, so zero-capacity allocations
(`make 0 0`) are invisible to it: number only the non-empty stores. -/
def renum (m : Mem) (sid : Nat) : Nat := ((m.take sid).filter (· ≠ [])).length

def dump (s : St) : String :=
  let stores := (List.range s.mem.length).filterMap fun i =>
    if storeOf s.mem i = [] then none else some s!"s{renum s.mem i}={showRows (storeOf s.mem i)} "
  let frames := (List.range s.frames.length).map fun i =>
    let f := s.frames.getD i ⟨0, 0, 0, 0, 1⟩
    let loc := if f.cap = 0 then "-,-" else s!"{renum s.mem f.sid},{f.off}"
    s!" f{i}=({loc},{f.len},{f.cap},{f.pfx}){showRows (view s.mem f)}"
  String.join stores ++ "|" ++ String.join frames

def hasKeyDup (pfx : Nat) (rs : List Row) : Bool :=
  let n := rs.length
  (List.range n).any fun i => (List.range n).any fun j =>
    i < j && !(lexLt pfx (rs.getD i []) (rs.getD j [])) && !(lexLt pfx (rs.getD j []) (rs.getD i []))

def step (s : St) (op : List String) : St × String :=
  let nc := s.kinds.length
  let fr (t : String) : Option Frame := match t.toInt? with
    | some a => if a < 0 then none else s.frames[a.toNat]?
    | none => none
  let push (m : Mem) (f : Frame) : St × String := ({ s with mem := m, frames := s.frames ++ [f] }, "ok")
  match op with
  | ["slice", a, i, j] =>
    match fr a, i.toInt?, j.toInt? with
    | some f, some i, some j =>
      if i < 0 ∨ j < 0 then (s, "panic") else
      match slice f i.toNat j.toNat with
      | some g => push s.mem g
      | none => (s, "panic")
    | _, _, _ => (s, "panic")
  | ["pfx", a, p] =>
    match fr a, p.toInt? with
    | some f, some p =>
      if p < 0 then (s, "panic") else
      match prefixed nc f p.toNat with
      | some g => push s.mem g
      | none => (s, "panic")
    | _, _ => (s, "panic")
  | ["grow", a, n] =>
    match fr a, n.toInt? with
    | some f, some n =>
      if n < 0 then (s, "panic") else   -- i1 < i0: slice bounds / overflow panic
      let r := grow nc s.mem f n.toNat
      push r.1 r.2.1
    | _, _ => (s, "panic")
  | ["ensure", a, n] =>
    match fr a, n.toInt? with
    | some f, some n =>
      if n < 0 then (s, "panic") else
      let r := ensure nc s.mem f n.toNat
      push r.1 r.2
    | _, _ => (s, "panic")
  | ["make", l, c] =>
    match l.toInt?, c.toInt? with
    | some l, some c =>
      if l < 0 ∨ c < 0 then (s, "panic") else
      match make nc s.mem l.toNat c.toNat with
      | some (m, f) => push m f
      | none => (s, "panic")
    | _, _ => (s, "panic")
  | ["copy", a, b] =>
    match fr a, fr b with
    | some d, some sr => let r := copy s.mem d sr; ({ s with mem := r.1 }, toString r.2)
    | _, _ => (s, "panic")
  | ["codec", a] =>
    -- encode the view, decode into a fresh frame: a new allocation holding exactly the view's rows
    match fr a with
    | some f =>
      match make nc s.mem f.len f.len with
      | some (m, g) => let r := copy m g f; ({ s with mem := r.1, frames := s.frames ++ [g] }, "ok")
      | none => (s, "panic")
    | none => (s, "panic")
  | ["append", a, b] =>
    match fr a, fr b with
    | some d, some sr => let r := appendFrame nc s.mem d sr; push r.1 r.2
    | _, _ => (s, "panic")
  | ["swap", a, i, j] =>
    match fr a, i.toInt?, j.toInt? with
    | some f, some i, some j =>
      if i < 0 ∨ j < 0 ∨ i ≥ f.len ∨ j ≥ f.len then (s, "skip")
      else ({ s with mem := swap s.mem f i.toNat j.toNat }, "ok")
    | _, _, _ => (s, "panic")
  | ["zero", a] =>
    match fr a with
    | some f => ({ s with mem := zero nc s.mem f }, "ok")
    | none => (s, "panic")
  | ["less", a, i, j] =>
    match fr a, i.toInt?, j.toInt? with
    | some f, some i, some j =>
      if i < 0 ∨ j < 0 ∨ i ≥ f.len ∨ j ≥ f.len then (s, "skip")
      else (s, if less s.mem f i.toNat j.toNat then "1" else "0")
    | _, _, _ => (s, "panic")
  | ["hash", a, i, seed] =>
    match fr a, i.toInt? with
    | some f, some i =>
      if i < 0 ∨ i ≥ f.len then (s, "skip")
      else (s, toString (hashRow s.kinds f.pfx (rowAt s.mem f.sid (idx f.off i.toNat)) (UInt32.ofNat (toNat! seed))).toNat)
    | _, _ => (s, "panic")
  | ["sort", a] =>
    match fr a with
    | some f =>
      if hasKeyDup f.pfx (view s.mem f) then (s, "skip")
      else ({ s with mem := sortView s.mem f }, "ok")
    | none => (s, "panic")
  | ["ptr", a, c, i] =>
    match fr a, c.toInt?, i.toInt? with
    | some f, some c, some i =>
      if i < 0 ∨ i ≥ f.len ∨ c < 0 ∨ c ≥ nc then (s, "skip")
      else (s, toString ((rowAt s.mem f.sid (idx f.off i.toNat)).getD c.toNat 0))
    | _, _, _ => (s, "panic")
  | _ => (s, "panic")

def chunk (n : Nat) (xs : List Int) : Nat → List Row
  | 0 => []
  | fuel+1 => if xs.isEmpty ∨ n = 0 then [] else xs.take n :: chunk n (xs.drop n) fuel

/-- case: `K kinds N n V vals… ; op ; op …` -/
def run (c : String) : String :=
  let parts := splitOn1 c ';'
  match parts with
  | [] => "bad-case"
  | h :: ops =>
    match words h with
    | "K" :: ks :: "N" :: n :: "V" :: vals =>
      let kinds := splitOn1 ks ','
      let n := toNat! n
      let rows := chunk kinds.length (vals.map toInt!) n
      let f0 : Frame := { sid := 0, off := 0, len := n, cap := n, pfx := 1 }
      let s0 : St := { kinds := kinds, mem := [rows], frames := [f0] }
      let (_, outs) := ops.foldl (fun (acc : St × List String) o =>
        let ws := words o
        if ws.isEmpty then acc else
        let (s', ret) := step acc.1 ws
        (s', acc.2 ++ [ret ++ "|" ++ dump s'])) (s0, ["init|" ++ dump s0])
      joinWith " # " outs
    | _ => "bad-case"

end Driver.C11
