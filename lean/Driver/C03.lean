import BS.Model.Eval
import Driver.Util
namespace Driver.C03
open BS.Eval Driver

structure G where
  n : Nat
  deps : List (Nat × List Nat)
  groups : List (List Nat)

def G.toGraph (g : G) : Graph :=
  { n := g.n
    deps := fun t => (lookup t g.deps).getD []
    group := fun t => (g.groups.find? (·.contains t)).getD [] }

def parseNats (s : String) : List Nat := ((splitOn1 s ',').filter (· ≠ "")).map toNat!

def parseGraph (ws : List String) : G :=
  let rec go (mode : String) (ws : List String) (g : G) : G :=
    match ws with
    | [] => g
    | w :: rest =>
      if w == "N" ∨ w == "D" ∨ w == "G" then go w rest g
      else match mode with
        | "N" => go mode rest { g with n := toNat! w }
        | "D" => match splitOn1 w ':' with
          | [t, hs] =>
            let t := toNat! t
            let old := (lookup t g.deps).getD []
            go mode rest { g with deps := upsert t (old ++ parseNats hs) g.deps }
          | _ => go mode rest g
        | "G" => go mode rest { g with groups := g.groups ++ [parseNats w] }
        | _ => go mode rest g
  go "" ws ⟨0, [], []⟩

def parseState : String → TState
  | "i" => .init | "w" => .waiting | "r" => .running | "o" => .ok | "e" => .err | _ => .lost

def showState : TState → String
  | .init => "i" | .waiting => "w" | .running => "r" | .ok => "o" | .err => "e" | .lost => "l"

def sortNats (l : List Nat) : List Nat := (l.toArray.qsort (· < ·)).toList
def showSet (l : List Nat) : String := joinWith "," ((sortNats l).map toString)

def runSM (c : String) : String :=
  match splitOn1 c ';' with
  | [] => "bad-case"
  | h :: ops =>
    let gg := parseGraph (words h)
    let g := gg.toGraph
    let fuel := gg.n + 2
    -- fold manually to render strings
    let (_, _, outs) := ops.foldl (fun (acc : EState × List (Nat × TState) × List String) o =>
      let (s, sts, outs) := acc
      let obs : Nat → TState := fun t => (lookup t sts).getD .init
      let render (r : String) (s : EState) : String :=
        s!"{r} todo=[{showSet s.todo}] pending=[{showSet s.pending}] done={if s.isDone then 1 else 0} err={if s.err then 1 else 0}"
      match words o with
      | [] => acc
      | ["set", t, st] => (s, upsert (toNat! t) (parseState st) sts, outs ++ [render "-" s])
      | ["enq", t] => let r := enqueue g obs fuel (toNat! t) s; (r.1, sts, outs ++ [render (toString r.2) r.1])
      | ["ret", t] =>
        match ret g obs fuel (toNat! t) (obs (toNat! t)) s with
        | none => (s, sts, outs ++ [render "panic" s])
        | some s' => (s', sts, outs ++ [render "-" s'])
      | ["run"] => let r := runnable s; (r.1, sts, outs ++ [render ("[" ++ showSet r.2 ++ "]") r.1])
      | ["retp", k, st] =>
        let ps := sortNats s.pending
        if ps.isEmpty then (s, sts, outs ++ [render "skip" s]) else
        let t := ps.getD (toNat! k % ps.length) 0
        let sts := upsert t (parseState st) sts
        let obs : Nat → TState := fun t => (lookup t sts).getD .init
        match ret g obs fuel t (obs t) s with
        | none => (s, sts, outs ++ [render "panic" s])
        | some s' => (s', sts, outs ++ [render (toString t) s'])
      | _ => (s, sts, outs ++ ["bad-op"])) (EState.empty, [], [])
    joinWith " # " outs

end Driver.C03

namespace Driver.C03
open BS.Eval Driver

/-! ### oracle for the real `exec.Eval` under a scripted executor -/

def kvs (ws : List String) : List (Nat × String) :=
  ws.filterMap fun w => match splitOn1 w '=' with
    | [a, b] => some (toNat! a, b)
    | _ => none

/-- does the script of a task end in an error (fatal outcome, or 5 consecutive losses)
before its first success? -/
def scriptFails (s : String) : Bool :=
  let cs := s.toList
  let ls := cs.takeWhile (· == 'l')
  ls.length ≥ 5 || (cs.drop ls.length).head? == some 'e'

partial def neededFrom (g : Graph) (init : Nat → TState) (front : List Nat) (seen : List Nat) : List Nat :=
  match front with
  | [] => seen
  | t :: rest =>
    if seen.contains t then neededFrom g init rest seen
    else if init t == .ok then neededFrom g init rest seen
    else
      let ds := (g.deps t).flatMap fun h => g.phase h
      neededFrom g init (ds ++ rest) (t :: seen)

partial def reachFrom (g : Graph) (front : List Nat) (seen : List Nat) : List Nat :=
  match front with
  | [] => seen
  | t :: rest =>
    if seen.contains t then reachFrom g rest seen
    else reachFrom g (((g.deps t).flatMap fun h => g.phase h) ++ rest) (t :: seen)

def runEval (c obs : String) : String × String × Bool :=
  match splitOn1 c ';' with
  | [] => ("bad-case", "bad-case", false)
  | h :: rest =>
    let gg := parseGraph (words h)
    let g := gg.toGraph
    let sect (name : String) : List String :=
      (rest.map words).filter (fun ws => ws.head? == some name) |>.flatMap (·.drop 1)
    let initS := kvs (sect "init")
    let script := kvs (sect "script")
    let init : Nat → TState := fun t => (lookup t (initS.map fun (a, b) => (a, parseState b))).getD .init
    let rootsets : List (List Nat) := (splitOn1 (String.join (sect "roots")) '|').map parseNats
    -- expected results
    -- With `lose` directives a completed task may be re-run from the start of its script,
    -- at a moment that depends on timing: then the result is predicted only when it cannot matter.
    let hasLose := !(sect "lose").isEmpty
    let anyFailing := script.any fun (_, s) => scriptFails s
    let expected := rootsets.map fun roots =>
      let need := neededFrom g init (roots.flatMap fun r => g.phase r) []
      let bad := need.any fun t => init t == .err || scriptFails ((lookup t script).getD "")
      if bad then "err" else if hasLose && anyFailing then "any" else "ok"
    let model := joinWith "," expected
    match obs.splitOn " | " with
    | [log, results, _final] =>
      let events := (log.splitOn " / ").map words |>.filter (!·.isEmpty)
      let reach := reachFrom g (rootsets.flatten.flatMap fun r => g.phase r) []
      -- replay the log
      let check : Except String Unit := do
        let mut everOk : List Nat := (List.range gg.n).filter fun t => init t == .ok
        let mut okNow : List Nat := everOk
        let mut consec : List (Nat × Nat) := []
        let mut dead : List Nat := []
        for ev in events do
          match ev with
          | "run" :: t :: _st :: deps :: more =>
            let t := toNat! t
            if more.contains "DOUBLE" then throw s!"task {t} handed to the executor twice at the same time"
            if !(reach.contains t) then throw s!"task {t} was run but no root needs it"
            if okNow.contains t then throw s!"task {t} was run although it had completed and was not lost"
            if dead.contains t then throw s!"task {t} was resubmitted after being lost 5 times in a row"
            for (d, x) in kvs (splitOn1 ((deps.drop 5).toString) ',') do
              if x != "o" && !(everOk.contains d) then
                throw s!"task {t} handed to the executor while dependency {d} is in state {x} and never completed"
          | ["lose", t] => okNow := okNow.filter (· != toNat! t)
          | ["end", t, o] =>
            let t := toNat! t
            if o == "o" || o == "s" then
              everOk := t :: everOk
              okNow := t :: okNow
              consec := upsert t 0 consec
            else if o == "l" then
              let k := (lookup t consec).getD 0 + 1
              consec := upsert t k consec
              if k ≥ 5 then dead := t :: dead
            else pure ()
          | _ => pure ()
        let rs := splitOn1 results ','
        for (r, roots) in rs.zip rootsets do
          if r == "hang" then throw "evaluation did not return (idle with work outstanding, or blocked)"
          if r == "ok" then
            for root in roots.flatMap fun r => g.phase r do
              if !(everOk.contains root) then throw s!"Eval reported success but root task {root} never completed successfully"
        for ((r, e), i) in (rs.zip expected).zipIdx do
          if e != "any" && r != e then throw s!"evaluation {i} returned {r}, the outcome script requires {e}"
        pure ()
      let same := ((splitOn1 results ',').zip expected).all fun (r, e) => e == "any" || r == e
      match check with
      | .ok _ => (model, "ok", same)
      | .error e => (model, e, same)
    | _ => (model, "unparsable-observation", false)

end Driver.C03
