import BS.Model.WorkerTask
import Driver.Util
/-! Driver of sub-check C12wk: the in-process worker under overlapping Run/Discard calls, against `BS.WorkerTask`. -/
namespace Driver.C12wk
open BS.WorkerTask Driver

def stText : WSt → String
  | .init => "INIT" | .running => "RUNNING" | .ok => "OK" | .err => "ERROR" | .lost => "LOST"

def replyText : Reply → String
  | .ok => "ok" | .err => "err" | .none => "none"

def idxOf (names : List String) (x : String) : Nat := (names.findIdx? (· == x)).getD names.length

def findTh (s : S) (p : Th → Bool) : Option Nat := s.ths.findIdx? p

/-- wake every waiting call, in index order -/
def wakeAll (s : S) : S :=
  (List.range s.ths.length).foldl (fun s i => if s.th i = .wait then step true s (.wake i) else s) s

def sortStrings (l : List String) : List String := l.mergeSort (fun a b => decide (a ≤ b))

def entry (names : List String) (before s : S) : String :=
  let newReplies := (s.replies.take (s.replies.length - before.replies.length)).map fun (i, r) =>
    s!"{names.getD i "?"}:{replyText r}"
  let ex := match findTh s (· == .exec) with | some i => names.getD i "?" | none => "-"
  s!"st={stText s.st} out={if s.out then 1 else 0} exec={ex} replies={joinWith "," (sortStrings newReplies)}"

def run (c obs : String) : String × String × Bool :=
  let ops := ((splitOn1 c ';').map words).filter (· ≠ [])
  -- call names in order of first appearance
  let names := ops.foldl (fun acc ws => match ws with
    | [op, x] => if (op == "run" || op == "discard") && !acc.contains x then acc ++ [x] else acc
    | _ => acc) ([] : List String)
  let s0 := init names.length
  let (_, outs) := ops.foldl (fun (acc : S × List String) ws =>
    let (s, outs) := acc
    match ws with
    | ["run", x] =>
      -- a call that finds the task past RUNNING goes through its wait loop without waiting
      let s' := wakeAll (step true s (.runEnter (idxOf names x))); (s', outs ++ [entry names s s'])
    | ["cancel", x] =>
      let s' := wakeAll (step true s (.cancel (idxOf names x))); (s', outs ++ [entry names s s'])
    | ["discard", x] => let s' := step true s (.discEnter (idxOf names x)); (s', outs ++ [entry names s s'])
    | ["fin", o] =>
      match findTh s (· == .exec) with
      | none => (s, outs ++ ["noexec"])
      | some i =>
        let s' := wakeAll (step true s (if o == "ok" then .finOk i else .finErr i))
        (s', outs ++ [entry names s s'])
    | ["dfin"] =>
      match findTh s (fun t => t == .disc false || t == .disc true) with
      | none => (s, outs ++ [entry names s s])
      | some i =>
        let s' := wakeAll (step true (step true s (.discStore i)) (.discFin i))
        (s', outs ++ [entry names s s'])
    | _ => (s, outs ++ ["bad-op"])) (s0, [])
  let model := joinWith " | " outs
  -- the property itself, on the implementation's observation
  let bad := (obs.splitOn " | ").find? fun e =>
    let ws := words e
    let st := ws.getD 0 ""
    let out := ws.getD 1 ""
    let rep := ((ws.getD 3 "").drop 8).toString
    (st == "st=OK" && out != "out=1") ||
      (((rep.splitOn ",").any fun r => r.endsWith ":ok") && !(st == "st=OK" && out == "out=1"))
  let oracle := match bad with
    | some e => s!"the worker holds the task for OK (or a Run call reported success) without its output in the store: {e}"
    | none => "ok"
  (model, oracle, model == obs)

end Driver.C12wk
