import BS.Model.Fault
import Driver.C01
namespace Driver.C06
open BS.Prog BS.Sem BS.KV BS.Fault Driver

def parseMode : String → Mode
  | "err" => .err | "tmp" => .tmp | "panic" => .panic | "oob" => .oob | _ => .neg

def siteOf : Op → Site
  | .reader _ _ _ => .reader
  | .writer _ => .writer
  | .scan _ => .scan
  | .map _ _ _ => .map
  | .filter _ _ => .filter
  | .flatmap _ _ => .flatmap
  | .fold _ => .fold
  | .reduce _ _ => .combiner
  | .repartition _ _ => .partitioner
  | _ => .map

/-- the faulty program: (node, mode, once) from its FAULT statement -/
def parseFault (prog : String) : Option (String × Mode × Bool) :=
  ((splitOn1 prog ';').map words).findSome? fun ws => match ws with
    | ["FAULT", node, mode, _, o] => some (node, parseMode mode, o == "once")
    | _ => none

def firedOf (obs : String) : Nat := toNat! ((obs.splitOn " | fired=").getD 1 "0")
def bodyOf (obs : String) : String := (obs.splitOn " | fired=").getD 0 ""

def checkFaulty (prog obs : String) : Except String String := do
  let some (node, mode, once) := parseFault prog | throw "case without FAULT"
  let (p, names) := ProgParse.parseProgram prog
  let site := siteOf (p.nodes.getD ((names.findIdx? (· == node)).getD 0) default)
  let fired := firedOf obs
  let body := bodyOf obs
  let d := demand site mode once fired
  let model := s!"demand={repr d}"
  if body.startsWith "hang" || body.startsWith "scanhang" then throw "Run (or the scan of its result) did not return: hang"
  if body.startsWith "CRASH" || body.startsWith "HANG" || body.startsWith "MISSING" then
    throw s!"the driver process crashed or hung: {body.take 200}"
  if (body.splitOn "PANIC in Run").length > 1 then throw "Run panicked in the caller's goroutine instead of returning an error"
  let ok := body.startsWith "ok |"
  match d with
  | .succeed => if !ok then throw s!"the failure went away (fired {fired}x, once={once}) but Run failed: {body.take 200}"
  | .fail => if ok then throw s!"a persistent failure (fired {fired}x) was not reported: Run succeeded"
  | .failWithMessage =>
    if ok then throw s!"a persistent failure (fired {fired}x) was not reported: Run succeeded"
    if (body.splitOn s!"injected-fault-{node}").length < 2 then throw s!"the error does not carry the user's message: {body.take 200}"
  | .either => pure ()
  if ok then
    -- never a partial result: a successful run holds the prescribed rows
    let (_, out) := eval p []
    let isScan := match p.out with
      | .node i => match p.nodes.getD i default with | .scan _ => true | _ => false
      | _ => false
    match body.splitOn " | " with
    | _ :: scan :: _ =>
      let got := ((scan.drop 5).toString.splitOn ";").filter (· ≠ "")
      let want := if isScan then [] else out.rows.flatten.map C01.showKV
      if !(C01.sameRows out.ordered got want) then
        throw s!"Run succeeded with rows [{joinWith ";" got}], the operators prescribe [{joinWith ";" want}] (a partial or wrong result)"
    | _ => throw "unparsable observation"
  pure model

def run (c obs : String) : String × String × Bool :=
  let segs := c.splitOn ";;"
  let outs := obs.splitOn " ## "
  match segs.drop 1, outs with
  | [faulty, healthy], o1 :: rest =>
    match checkFaulty faulty o1 with
    | .error e => ("", s!"faulty run: {e}", false)
    | .ok m =>
      match rest with
      | [o2] =>
        match C01.checkProgram healthy [] [] (bodyOf o2) with
        | .ok _ => (m, "ok", true)
        | .error e => (m, s!"the session is not usable after the failed run: {e}", false)
      | _ => (m, "the healthy program was not run after the faulty one", false)
  | _, _ => ("", s!"bad case or observation: {obs.take 100}", false)

end Driver.C06

namespace Driver.C06
open BS.Fault Driver

def sevOfInt (i : Int) : Sev := if i == -2 then .retriable else if i == -1 then .temporary else if i == 1 then .fatal else .unknown
def sevToInt : Sev → Int | .retriable => -2 | .temporary => -1 | .unknown => 0 | .fatal => 1

/-- the severity classifiers of the model on one case -/
def runSev (c : String) : String :=
  match words c with
  | ["revise", app, s] => toString (sevToInt (reviseSev (app == "1") (sevOfInt (toInt! s))))
  | ["reader", s] | ["writer", s] => toString (sevToInt (wrapErr (if s == "plain" then .unknown else sevOfInt (toInt! s))))
  | _ => "bad-case"

end Driver.C06
