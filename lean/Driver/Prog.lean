import BS.Model.Prog
import Driver.Util
/-! Parser for the program language (shared by the C01/C04/C08/… drivers). -/
namespace Driver.ProgParse
open BS.Prog BS.KV Driver

def parseKVs (ws : List String) : List KV := ws.filterMap fun t => match splitOn1 t ':' with
  | [a, b] => some (toInt! a, toInt! b)
  | _ => none

/-- names are `N<k>` / `R<k>`; node names are mapped to positions in definition order -/
def parseRef (names : List String) (t : String) : Ref :=
  if t.startsWith "R" then .result (toNat! (t.drop 1).toString)
  else .node ((names.findIdx? (· == t)).getD 0)

def parseOp (names : List String) (ws : List String) : Op :=
  let r := parseRef names
  match ws with
  | "const" :: n :: rows => .const (toNat! n) (parseKVs rows)
  | "reader" :: n :: c :: rows => .reader (toNat! n) (toNat! c) (parseKVs rows)
  | ["lines", n, k] => .lines (toNat! n) (toNat! k)
  | ["map", s, f] | ["mapc", s, f] => .map (r s) f .none
  | ["mapm", s, f] => .map (r s) f .mat
  | ["mapp", s, f, n] => .map (r s) f (.procs (toNat! n))
  | ["mapx", s, f] => .map (r s) f .excl
  | ["count", s, c] | ["countm", s, c] => .count (r s) (toNat! c)
  | ["filter", s, p] => .filter (r s) p
  | ["flatmap", s, g] => .flatmap (r s) g
  | ["fold", s] => .fold (r s)
  | ["head", s, n] => .head (r s) (toNat! n)
  | ["reduce", s, c] => .reduce (r s) c
  | ["cogroup", a, b] => .cogroup (r a) (r b)
  | ["reshuffle", s] => .reshuffle (r s)
  | ["reshuffle2", s] => .reshuffle2 (r s)
  | ["repartition", s, pf] => .repartition (r s) pf
  | ["reshard", s, m] => .reshard (r s) (toNat! m)
  | ["scan", s] => .scan (r s)
  | ["writer", s] => .writer (r s)
  | ["cache", s, name] => .cache (r s) false name
  | ["cachepartial", s, name] => .cache (r s) true name
  | ["readcache", n, name] => .readcache (toNat! n) name
  | _ => .const 1 []

/-- `N0=const 3 1:1 ; N1=map N0 inc ; OUT N1` -/
def parseProgram (s : String) : Program × List String :=
  let stmts := (splitOn1 s ';').map words |>.filter (!·.isEmpty)
  let (nodes, names, out) := stmts.foldl (fun (acc : List Op × List String × Ref) ws =>
    let (nodes, names, out) := acc
    match ws with
    | ["OUT", t] => (nodes, names, parseRef names t)
    | first :: rest =>
      match first.splitOn "=" with
      | [name, op0] => (nodes ++ [parseOp names (op0 :: rest)], names ++ [name], out)
      | _ => acc
    | [] => acc) ([], [], .node 0)
  (⟨nodes, out⟩, names)

end Driver.ProgParse
