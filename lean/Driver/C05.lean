import BS.Model.Part
import Driver.Util
namespace Driver.C05
open BS.Part BS.Hash Driver

def kval (kind tok : String) : KVal :=
  match kind with
  | "str" => .bytes (tok.drop 2).toString.toUTF8.toList
  | "bytes" => .bytes (tok.drop 2).toString.toUTF8.toList
  | "f64" =>
    let t := (tok.drop 2).toString
    let neg := t.startsWith "-"
    .w64 (f64bitsQuarter neg (toNat! (t.dropWhile fun c => c == '-' || c == '+').toString))
  | "f32" =>
    let t := (tok.drop 2).toString
    let neg := t.startsWith "-"
    .w32 (f32bitsQuarter neg (toNat! (t.dropWhile fun c => c == '-' || c == '+').toString))
  | "bool" => .bool (tok == "1")
  | "unit" => .unit
  | "i64" | "int" | "u64" | "uint" | "uptr" => .w64 (intToU64 (toInt! tok))
  | _ => .w32 (intToU32 (toInt! tok))       -- i8 i16 i32 u8 u16 u32

def run (c obs : String) : String × String × Bool :=
  match splitOn1 c ';' with
  | [] => ("bad-case", "bad-case", false)
  | h :: rows =>
    match words h with
    | ["K", ks, "P", p, "N", n, "OFF", _, "S", seed] =>
      let kinds := splitOn1 ks ','
      let pfx := toNat! p
      let n := toNat! n
      let seed := UInt32.ofNat (toNat! seed)
      let keys := (rows.map fun r => (splitOn1 (r.trimAscii.toString) ',')).filter (· ≠ [""]) |>.map fun toks =>
        ((kinds.zip toks).take pfx).map fun (k, t) => kval k t
      let shards := keys.map fun k => toString (part n k)
      let hashes := keys.map fun k => toString (hashRow seed k).toNat
      let m := "shards=" ++ joinWith "," shards ++ " hashes=" ++ joinWith "," hashes
      (m, if m == obs then "ok" else "shard-is-not-the-documented-function-of-the-key", m == obs)
    | _ => ("bad-case", "bad-case", false)

def runRange (c obs : String) : String × String × Bool :=
  match words c with
  | ["R", kind, lo, hi, "N", n] =>
    let lo := toInt! lo
    let cnt := ((toInt! hi) - lo + 1).toNat
    let n := toNat! n
    let m := joinWith "," ((List.range cnt).map fun (i : Nat) => toString (part n [kval kind (toString (lo + Int.ofNat i))]))
    (if m == obs then "same-as-implementation" else "differs", if m == obs then "ok" else "shard-is-not-the-documented-function-of-the-key", m == obs)
  | _ => ("bad-case", "bad-case", false)

end Driver.C05
