import Driver.C01
namespace Driver.C12
open BS.Prog BS.Sem BS.KV Driver

structure St where
  vals : List (Option Shards) := []
  ctrs : List C01.RunCtr := []
  discarded : List Nat := []
  models : List String := []
  killed : Bool := false

def valsD (s : St) : List Shards := s.vals.map (·.getD default)

def checkScan (sh : Shards) (gone : Bool) (obs : String) : Except String Unit := do
  if obs.startsWith "rows=" then
    let got := ((obs.drop 5).toString.splitOn ";").filter (· ≠ "")
    let want := sh.rows.flatten.map C01.showKV
    if !(C01.sameRows sh.ordered got want) then
      throw s!"a scan yielded [{joinWith ";" got}], the first evaluation fixed [{joinWith ";" want}]"
  else if obs.startsWith "err:" || obs.startsWith "fatal:" then
    if !gone then throw s!"scanning a result that was not discarded failed: {obs.take 200}"
  else throw s!"a scan did not complete: {obs.take 100}"

def mentioned (p : Program) : List Nat :=
  ((p.out :: p.nodes.flatMap refsOf).filterMap fun r => match r with | .result i => some i | _ => none).eraseDups

/-- the harness passes every mentioned result as an argument -/
def usesAll (s : St) (p : Program) : Bool := (mentioned p).all fun i => (s.vals.getD i none).isSome

def stepOp (s : St) (op obs : String) : Except String St := do
  let ws := words op
  match ws with
  | "run" :: _ =>
    let prog := (op.drop 4).toString
    let (p, _) := ProgParse.parseProgram prog
    if !usesAll s p then
      if obs != "skipped" then throw "a run using a failed result was not skipped by the harness"
      return { s with vals := s.vals ++ [none], ctrs := s.ctrs ++ [{}] }
    -- after a machine was lost, tasks are recomputed: side effects of recomputed tasks happen again (only rows are judged)
    match C01.checkProgram prog (valsD s) s.ctrs obs (lenient := s.killed) with
    | .ok (sh, c, m) => return { s with vals := s.vals ++ [some sh], ctrs := s.ctrs ++ [c], models := s.models ++ [m] }
    | .error e => throw e
  | ["scan", k] =>
    match s.vals.getD (toNat! k) none with
    | some sh => checkScan sh (s.discarded.contains (toNat! k)) obs; return s
    | none => return s
  | ["scan2", k] =>
    match s.vals.getD (toNat! k) none with
    | some sh =>
      match obs.splitOn " ~~ " with
      | [a, b] => checkScan sh (s.discarded.contains (toNat! k)) a; checkScan sh (s.discarded.contains (toNat! k)) b; return s
      | _ => throw s!"two concurrent scans did not both complete: {obs.take 100}"
    | none => return s
  | ["discard", k] =>
    if obs == "skipped" then return s
    if obs != "done" then throw s!"Discard did not return: {obs}"
    -- discarding a result discards the outputs of its whole task graph, hence of the results it was computed from
    return { s with discarded := (List.range s.vals.length) ++ s.discarded }
  | "rundiscard" :: k :: _ =>
    let prog := joinWith " " (ws.drop 2)
    let (p, _) := ProgParse.parseProgram prog
    if obs == "skipped" then return { s with vals := s.vals ++ [none], ctrs := s.ctrs ++ [{}] }
    let s := { s with discarded := (List.range s.vals.length) ++ s.discarded }
    let _ := k
    if !usesAll s p then return { s with vals := s.vals ++ [none], ctrs := s.ctrs ++ [{}] }
    if obs.startsWith "err:" || obs.startsWith "fatal:" then
      -- an evaluation racing with a discard of its inputs may fail; it must not hang or return other rows
      return { s with vals := s.vals ++ [none], ctrs := s.ctrs ++ [{}] }
    match C01.checkProgram prog (valsD s) s.ctrs obs (lenient := true) with
    | .ok (sh, c, m) => return { s with vals := s.vals ++ [some sh], ctrs := s.ctrs ++ [c], models := s.models ++ [m] }
    | .error e => throw e
  | ["xconc"] =>
    -- C14 (local executor): the tasks of an Exclusive operator have the executor to themselves
    if !obs.startsWith "xconc=" then throw s!"bad xconc observation {obs}"
    if toNat! (obs.drop 6).toString > 1 then
      throw s!"calls of an Exclusive operator were in progress in {(obs.drop 6).toString} tasks at once on the local executor"
    return s
  | ["kill"] =>
    -- a machine is lost (C02 decides recovery in general; here: a Discard that meets the dead machine must still leave the
    -- discarded tasks recomputable)
    if obs != "killed" && obs != "skipped" then throw s!"bad kill observation {obs}"
    return { s with killed := s.killed || obs == "killed" }
  | ["procs"] =>
    -- C14: once every run has completed no machine has procs booked (and none is booked below zero)
    if !obs.startsWith "procs=" then throw s!"machine accounting was not reported: {obs.take 100}"
    for m in ((obs.drop 6).toString.splitOn ",").filter (· ≠ "") do
      match m.splitOn ":" with
      | [mx, used] =>
        if used != "0" then throw s!"after all runs completed a machine with {mx} task procs has {used} procs booked (capacity leaked or handed back twice)"
      | _ => throw s!"unparsable machine accounting {m}"
    return s
  | _ => throw s!"bad op {op}"

def run (c obs : String) : String × String × Bool :=
  let ops := ((c.splitOn ";;").drop 1).map fun o => (o.trimAscii).toString
  let outs := obs.splitOn " ## "
  let rec go (ops outs : List String) (i : Nat) (s : St) : String × String × Bool :=
    match ops, outs with
    | [], _ => (joinWith " ## " s.models, "ok", true)
    | op :: ops', o :: outs' =>
      match stepOp s op o with
      | .ok s' => go ops' outs' (i + 1) s'
      | .error e => (joinWith " ## " s.models, s!"op {i} ({(op.take 12)}…): {e}", false)
    | _ :: _, [] => (joinWith " ## " s.models, s!"op {i} was not run (the session hung or the harness stopped)", false)
  go ops outs 0 {}

end Driver.C12
