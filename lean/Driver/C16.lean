import BS.Model.Diff
import BS.Model.Inv
import Driver.Util
namespace Driver.C16
open BS.Diff Driver

def parseList (s : String) : List String := if s == "-" then [] else splitOn1 s ','

def parseLine (s : String) : Edit String :=
  if s.startsWith "+ " then .add (s.drop 2).toString
  else if s.startsWith "- " then .del (s.drop 2).toString
  else .keep s

/-- canonical observation: nil | L=<left>|R=<right> -/
def canon (lhs rhs : List String) (d : Option (List (Edit String))) : String :=
  match d with
  | none => "nil"
  | some es => s!"L={joinWith "," (leftOf es)} R={joinWith "," (rightOf es)}"

def runDiff (c obs : String) : String × String × Bool :=
  match words c with
  | ["L", l, "R", r] =>
    let lhs := parseList l
    let rhs := parseList r
    let m := diff lhs rhs
    let mtxt := match m with | none => "nil" | some es => joinWith "|" (es.map render)
    let impl : Option (List (Edit String)) :=
      if obs == "nil" then none else some ((splitOn1 obs '|').map parseLine)
    let oracle :=
      match impl with
      | none => if lhs = rhs then "ok" else "nil-diff-for-different-lists"
      | some es =>
        if lhs = rhs then "non-nil-diff-for-equal-lists"
        else if leftOf es ≠ lhs then "diff-does-not-reproduce-lhs"
        else if rightOf es ≠ rhs then "diff-does-not-reproduce-rhs"
        else "ok"
    (mtxt, oracle, canon lhs rhs m == canon lhs rhs impl)
  | _ => ("bad-case", "bad-case", false)

/-! ### invocation transport -/
open BS.Inv

def sigs : List (List (PKind × List String)) := [
  [(.other, ["int"]), (.other, ["str"])],
  [(.other, ["ints", "nilints", "nil"]), (.other, ["map", "nilmap", "nil"])],
  [(.other, ["st"]), (.other, ["pst", "nilpst", "nil"])],
  [(.iface, ["int", "i64", "str", "ints", "nilints", "map", "nilmap", "st", "impl", "nil", "f64", "bool", "u8", "bytes", "res"]),
   (.iface, ["impl", "nil"])],
  [(.resultPtr, ["res", "nil"]), (.iface, ["res", "nil"]), (.other, ["i64"])],
  [(.other, ["f64"]), (.other, ["bool"]), (.other, ["u8"]), (.other, ["bytes", "nil"])],
  [(.other, ["ints", "nilints", "nil"]), (.other, ["ints", "nilints", "nil"]), (.other, ["ints", "nilints", "nil"])],
  [(.other, ["st"]), (.other, ["st"]), (.other, ["map", "nilmap", "nil"]), (.other, ["map", "nilmap", "nil"])],
  [(.other, ["pst", "nilpst", "nil"]), (.other, ["pst", "nilpst", "nil"]), (.other, ["bytes", "nil"]), (.other, ["bytes", "nil"])]]

/-- an untyped nil passed for a slice, map or pointer parameter is the parameter's typed nil
(func.go: `isNilAssignable`; invocation.go: the typed zero value is encoded) -/
def coerceNil (pk : PKind) (allowed : List String) (a : AVal) : AVal :=
  match a, pk with
  | .nilv, .iface => .nilv
  | .nilv, .resultPtr => .nilptr
  | .nilv, .other =>
    match allowed.headD "" with
    | "ints" => .val "ints()"
    | "map" => .val "map()"
    | "bytes" => .val "bytes()"
    | _ => .nilptr
  | a, _ => a

def quarter (v : Nat) : String :=
  let q := v / 4
  match v % 4 with
  | 0 => toString q
  | 1 => s!"{q}.25"
  | 2 => s!"{q}.5"
  | _ => s!"{q}.75"

def argVal (spec : String) : String × AVal :=
  let (k, v) := match splitOn1 spec ':' with
    | [k] => (k, "")
    | k :: v :: _ => (k, v)
    | [] => ("", "")
  let ints := if v == "" then [] else splitOn1 v ','
  let a : AVal := match k with
    | "int" => .val s!"int({v})"
    | "i64" => .val s!"int64({v})"
    | "str" => .val s!"string({v})"
    | "ints" => if ints.isEmpty then .val "ints()" else .val s!"ints[{joinWith "," ints}]"
    | "nilints" => .val "ints()"
    | "map" => if ints.isEmpty then .val "map()" else .val s!"map[{joinWith "," (ints.map fun t => s!"k{t}:{t}")}]"
    | "nilmap" => .val "map()"
    | "st" => .val ("main.c16St({" ++ s!"{v},b{v},[{v}]" ++ "})")
    | "pst" => .val s!"pst({v},p{v})"
    | "nilpst" => .nilptr
    | "impl" => .val ("main.c16Impl({" ++ v ++ "})")
    | "nil" => .nilv
    | "res" => .result (toNat! v)
    | "f64" => .val s!"float64({quarter (toNat! v)})"
    | "bool" => .val s!"bool({if v == "1" then "true" else "false"})"
    | "u8" => .val s!"uint8({v})"
    | "bytes" => .val s!"bytes({v})"
    | _ => .unenc spec
  (k, a)

def showA : AVal → String
  | .val c => c
  | .nilv => "nil"
  | .nilptr => "nilpst"
  | .result _ => "result"
  | .ref i => s!"ref({i})"
  | .unenc c => c

def runInv (c obs : String) : String × String × Bool :=
  match words c with
  | "F" :: k :: specs =>
    let k := toNat! k
    let sig := sigs.getD k []
    let args := specs.map argVal
    let welltyped := sig.length == args.length &&
      (sig.zip args).all fun ((_, allowed), (kind, _)) => allowed.contains kind
    if !welltyped then
      ("typeerr", if obs == "typeerr" then "ok" else "ill-typed-arguments-accepted", obs == "typeerr")
    else
      let pargs := (sig.zip args).map fun ((pk, allowed), (_, a)) => (pk, coerceNil pk allowed a)
      let model := match encodeArgs pargs with
        | none => "encerr"
        | some ws =>
          let sent := joinWith ";" (args.map fun p => showA (subst p.2))
          s!"sent={sent}|func={k} idx=true excl=false loc=loc.go:7 args={joinWith ";" ((decodeArgs ws).map showA)}"
      -- oracle: the property on the implementation's own observation
      let oracle :=
        if model == "encerr" then
          (if obs == "encerr" then "ok" else "unencodable-argument-not-reported-as-error")
        else match splitOn1 obs '|' with
          | [sent, rest] =>
            -- what was sent, as the harness saw it; an untyped nil for a typed parameter counts as that type's nil
            let sentL := ((sent.drop 5).toString.splitOn ";").zip pargs |>.map fun (s, (_, a)) => if s == "nil" then showA a else s
            let want := "func=" ++ toString k ++ " idx=true excl=false loc=loc.go:7 args=" ++ joinWith ";" sentL
            if rest == want then "ok" else "invocation-changed-in-transport"
          | _ => "invocation-not-delivered"
      (model, oracle, model == obs)
  | _ => ("bad-case", "bad-case", false)

/-! ### arguments through a real session (C16e2e) -/

def runE2E (c obs : String) : String × String × Bool :=
  match c.splitOn ";;" with
  | [cfg, call] =>
    let bm := (words cfg).contains "bm"
    let ws := words call
    let (want, encodableArgs) : String × Bool := match ws with
      | ["E0", p, m, xs] =>
        let (_, pa) := argVal p
        let pa := coerceNil .other ["pst"] pa
        let a : Int := match p.splitOn ":" with | ["pst", v] => toInt! v | _ => -1
        let lenOf (s : String) : Nat := match s.splitOn ":" with
          | [_, v] => if v == "" then 0 else (v.splitOn ",").length
          | _ => 0
        (s!"ok rows={a},{100 * lenOf m + lenOf xs}", (encodeArgs [(.other, pa)]).isSome)
      | ["E1", _] => ("ok rows=7,0", (encodeArgs [(.other, .unenc "func")]).isSome)
      | ["E2", _] => ("ok rows=3,0", (encodeArgs [(.other, .unenc "chan")]).isSome)
      -- an argument the driver encodes but a worker cannot decode (payload version ≠ 1)
      | ["E3", v] => let n := (v.drop 4).toString; (s!"ok rows={n},0", n == "1")
      | _ => ("bad-case", true)
    let model := if bm && !encodableArgs then "error" else want
    let oracle :=
      if obs.startsWith "hang" || obs.startsWith "CRASH" || obs.startsWith "HANG" || (obs.splitOn "PANIC").length > 1 then
        s!"an invocation did not end with a result or an error: {obs.take 120}"
      else if bm && !encodableArgs then
        (if !(obs.startsWith "err:" || obs.startsWith "fatal:") then "unencodable-argument-not-reported-as-error"
         else if (obs.splitOn "deadline exceeded").length > 1 then
           "an argument that cannot be encoded was not reported at once: the run waited for a machine"
         else if (obs.splitOn "consecutive attempts").length > 1 then
           "an argument problem was retried as a lost task instead of failing fast with its cause"
         else "ok")
      else if obs == want then "ok" else s!"the invocation built a different slice: {obs.take 100}, expected {want}"
    (model, oracle, oracle == "ok")
  | _ => ("bad-case", "bad-case", false)

end Driver.C16
