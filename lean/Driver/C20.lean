import BS.Model.Metrics
import Driver.Util
namespace Driver.C20
open BS.Metrics Driver

abbrev St := List M   -- one per counter

def nScopes (st : St) : Nat := (st.headD ⟨[], []⟩).ref.length

def mapAt (st : St) (c : Nat) (f : M → M) : St :=
  (List.range st.length).map fun i => let m := st.getD i ⟨[], []⟩; if i = c then f m else m

def step (st : St) (op : List String) : St × String :=
  let n := nScopes st
  let ok (t : String) : Option Nat := match t.toInt? with
    | some a => if a < 0 ∨ a.toNat ≥ n then none else some a.toNat
    | none => none
  match op with
  | ["new"] => (st.map M.newScope, "ok")
  | ["incr", s, c, k] =>
    match ok s with
    | some s => (mapAt st (toNat! c) fun m => m.incr s (toInt! k), "ok")
    | none => (st, "skip")
  | ["value", s, c] =>
    match ok s with
    | some s =>
      let m := st.getD (toNat! c) ⟨[], []⟩
      let r := m.value s
      (mapAt st (toNat! c) fun _ => r.1, toString r.2)
    | none => (st, "skip")
  | ["merge", s, u] =>
    match ok s, ok u with
    | some s, some u => (st.map fun m => m.merge s u, "ok")
    | _, _ => (st, "skip")
  | ["reset", s, u] =>
    match ok s, ok u with
    | some s, some u => (st.map fun m => m.reset s u, "ok")
    | _, _ => (st, "skip")
  | ["resetnil", s] =>
    match ok s with
    | some s => (st.map fun m => m.resetNil s, "ok")
    | none => (st, "skip")
  | ["gob", s] =>
    match ok s with
    | some s => (st.map fun m => m.gob s, "ok")
    | none => (st, "skip")
  | _ => (st, "bad-op")

def run (c : String) : String :=
  let st0 : St := List.replicate 6 ⟨[], []⟩
  let (st, outs) := (splitOn1 c ';').foldl (fun (acc : St × List String) o =>
    let ws := words o
    if ws.isEmpty then acc else
    let (s', r) := step acc.1 ws
    (s', acc.2 ++ [r])) (st0, [])
  let n := nScopes st
  let dump := (List.range n).map fun s => joinWith "," (st.map fun m => toString (m.val s))
  joinWith " " outs ++ " | " ++ joinWith " " dump

end Driver.C20
