import BS.Model.Cluster
import Driver.Util
namespace Driver.C14
open BS.Cluster Driver

def parsePairs (ts : List String) : List (Int × Int) :=
  ts.filterMap fun t => match splitOn1 t ':' with
    | [a, b] => some (toInt! a, toInt! b)
    | _ => none

/-- schedule(): case `R p:n … M max:used …` -/
def runSched (c obs : String) : String × String × Bool :=
  let ws := words c
  let rpart := (ws.drop 1).takeWhile (· ≠ "M")
  let mpart := (ws.dropWhile (· ≠ "M")).drop 1
  let reqs : List Req := (parsePairs rpart).map fun (p, n) => ⟨p, n.toNat⟩
  let machs : List Mach := (parsePairs mpart).zipIdx.map fun ((mx, u), i) => ⟨i, mx.toNat, u.toNat⟩
  let m := match schedule (sortBy reqLess reqs) (sortBy machLess machs) with
    | none => "none"
    | some (r, m) => s!"{r.prio} {r.procs} {m.free}"
  -- oracle on the implementation's answer: it fits, is minimal in the heap order among
  -- zip positions (equivalent to agreeing with the model up to ties, which do not show
  -- in (priority, procs, free))
  (m, if m == obs then "ok" else "placement-differs-from-schedule-spec", m == obs)

/-! ### monitor for the live manager -/

structure MInfo where
  name : String
  max : Nat
  used : Nat
  health : Nat
deriving Repr

structure Snap where
  granted : List (Nat × String)
  machines : Nat
  info : List MInfo

def parseSnap (s : String) : Option Snap :=
  match words s with
  | [g, m, i] =>
    let gs := ((g.drop 8).toString.splitOn ",").filter (· ≠ "")
    let granted := gs.filterMap fun t => match splitOn1 t '@' with
      | [r, n] => some (toNat! r, n)
      | _ => none
    let ms := ((i.drop 5).toString.splitOn ",").filter (· ≠ "")
    let info := ms.filterMap fun t => match splitOn1 t ':' with
      | [n, a, b, c] => some ⟨n, toNat! a, toNat! b, toNat! c⟩
      | _ => none
    some ⟨granted, toNat! (m.drop 9).toString, info⟩
  | _ => none

structure Mon where
  machprocs : Nat
  maxp : Nat
  queue : List (Nat × Req)             -- offered, not yet granted/cancelled
  out : List (Nat × String × Nat)      -- outstanding: rid, machine, procs
  health : List (String × Nat)         -- expected health per machine
  need : Nat
  maxNeed : Nat

def lookupS (k : String) : List (String × Nat) → Nat
  | [] => 0
  | (a, b) :: r => if a == k then b else lookupS k r

def setS (k : String) (v : Nat) : List (String × Nat) → List (String × Nat)
  | [] => [(k, v)]
  | (a, b) :: r => if a == k then (a, v) :: r else (a, b) :: setS k v r

/-- apply one op of the case to the monitor, then check the snapshot taken after quiescence -/
def monStep (mon : Mon) (op : List String) (snap : Snap) : Except String Mon := do
  -- 1. the op
  let mon ← match op with
    | ["offer", rid, prio, procs] =>
      let p := toNat! procs
      pure { mon with queue := mon.queue ++ [(toNat! rid, ⟨toInt! prio, p⟩)], need := mon.need + p,
                      maxNeed := max mon.maxNeed (mon.need + p) }
    | ["cancel", rid] =>
      let r := toNat! rid
      match mon.queue.find? (·.1 == r) with
      | some (_, q) => pure { mon with queue := mon.queue.filter (·.1 != r), need := mon.need - q.procs }
      | none => pure mon
    | ["done", rid, kind] =>
      let r := toNat! rid
      match mon.out.find? (·.1 == r) with
      | some (_, m, p) =>
        let h := lookupS m mon.health
        let h' := if h == 0 then (if kind == "transport" then 1 else 0)
                  else if h == 1 then (if kind == "ok" then 0 else 1) else h
        pure { mon with out := mon.out.filter (·.1 != r), need := mon.need - p, health := setS m h' mon.health }
      | none => pure mon
    | ["kill", m] =>
      -- a machine that never received a grant has no name: the harness does nothing then
      if mon.health.any (·.1 == m) || snap.info.any (·.name == m) then pure { mon with health := setS m 2 mon.health } else pure mon
    | _ => throw "bad-op"
  -- 2. new grants
  let newG := snap.granted.filter fun (r, _) => !(mon.out.any (·.1 == r))
  let mut mon := mon
  for (r, m) in newG do
    match mon.queue.find? (·.1 == r) with
    | none => throw s!"request {r} granted but not queued"
    | some (_, q) =>
      if lookupS m mon.health != 0 then throw s!"machine {m} received work while on probation or stopped"
      mon := { mon with queue := mon.queue.filter (·.1 != r), out := mon.out ++ [(r, m, q.procs)] }
  -- grants must not disappear
  for (r, _, _) in mon.out do
    if !(snap.granted.any (·.1 == r)) then throw s!"grant {r} vanished"
  -- 3. accounting per machine
  for mi in snap.info do
    let sum := ((mon.out.filter fun (_, m, _) => m == mi.name).map (·.2.2)).sum
    if mi.used != sum then throw s!"machine {mi.name}: taskProcs {mi.used} but outstanding grants sum to {sum}"
    if sum > mi.max then throw s!"machine {mi.name} oversubscribed: {sum} > {mi.max}"
    if mi.max != mon.machprocs then throw s!"machine {mi.name}: capacity {mi.max} is not machprocs {mon.machprocs}"
    if mi.health != lookupS mi.name mon.health then throw s!"machine {mi.name}: health {mi.health}, expected {lookupS mi.name mon.health}"
  -- machines that hold grants must be listed
  for (_, m, _) in mon.out do
    if !(snap.info.any (·.name == m)) then throw s!"grant on unknown machine {m}"
  -- 4. nothing grantable is left waiting; otherwise a machine start must be impossible
  let okm : List Mach := (snap.info.filter (·.health == 0)).zipIdx.map fun (mi, i) => ⟨i, mi.max, mi.used⟩
  match schedule (sortBy reqLess (mon.queue.map (·.2))) (sortBy machLess okm) with
  | some (r, _) => throw s!"a queued request (priority {r.prio}, procs {r.procs}) fits on an available machine but was not granted"
  | none => pure ()
  -- stopped machines do not count: they must be replaced
  let live := (snap.info.filter (·.health != 2)).length
  let have_ := live * mon.machprocs
  if !mon.queue.isEmpty && have_ < mon.need && have_ < mon.maxp then
    throw s!"requests are waiting and capacity {have_} < need {mon.need}, maxp {mon.maxp}, yet no machine was started"
  -- 5. no more machines than demand and the parallelism limit justify
  if live != 0 && have_ ≥ min mon.maxNeed mon.maxp + mon.machprocs then
    throw s!"{live} machines started for need {mon.maxNeed}, maxp {mon.maxp}, machprocs {mon.machprocs}"
  if snap.machines < live then throw "machine count inconsistent"
  pure mon

def runLive (c obs : String) : String × String × Bool :=
  match splitOn1 c ';' with
  | [] => ("bad-case", "bad-case", false)
  | h :: ops =>
    match words h, obs.splitOn " # " with
    | ["P", mp, "MAXP", maxp, "LOAD", load], first :: snaps =>
      let machinep := toNat! mp
      let maxp := toNat! maxp
      let mprocs := machprocs machinep (toNat! load) 100
      let maxp' := if machinep * (toNat! load) / 100 < 1 then (maxp + machinep - 1) / machinep else maxp
      if first != s!"machprocs={mprocs}" then
        ("monitor", s!"machprocs: implementation {first}, model {mprocs}", false)
      else
        let ops := ops.map words |>.filter (!·.isEmpty)
        if ops.length != snaps.length then ("monitor", "observation-truncated", false) else
        let init : Mon := ⟨mprocs, maxp', [], [], [], 0, 0⟩
        let r := (ops.zip snaps).foldl (fun (acc : Except String Mon) (op, s) => do
          let mon ← acc
          match parseSnap s with
          | none => throw "unparsable-snapshot"
          | some sn => monStep mon op sn) (pure init)
        match r with
        | .ok _ => ("monitor", "ok", true)
        | .error e => ("monitor", e, false)
    | _, _ => ("bad-case", "bad-case", false)

end Driver.C14
