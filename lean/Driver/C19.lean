import Driver.C12
namespace Driver.C19
open BS.Prog BS.Sem BS.KV Driver

/-- one phase: all items ran concurrently against the results of earlier phases -/
def stepPhase (s : C12.St) (phase obs : String) : Except String C12.St := do
  let items := (phase.splitOn "||").map fun t => (t.trimAscii).toString
  let outs := (obs.splitOn " || ")
  if items.length != outs.length then throw s!"phase with {items.length} items has {outs.length} observations"
  -- results discarded in this phase (or earlier) may be gone while the others run
  let discardedNow := items.filterMap fun it => match words it with | ["discard", k] => some (toNat! k) | _ => none
  let anyDiscard := !discardedNow.isEmpty
  let gone := if anyDiscard then (List.range s.vals.length) ++ s.discarded else s.discarded
  let mut newVals : List (Option Shards) := []
  let mut newCtrs : List C01.RunCtr := []
  let mut models := s.models
  for (it, o) in items.zip outs do
    if o.startsWith "hang" || o == "scanhang" then throw s!"`{it.take 30}` blocked"
    match words it with
    | "run" :: _ =>
      let prog := (it.drop 4).toString
      let (p, _) := ProgParse.parseProgram prog
      if !(C12.usesAll s p) then
        newVals := newVals ++ [none]; newCtrs := newCtrs ++ [{}]
      else if o.startsWith "err:" || o.startsWith "fatal:" then
        if anyDiscard then
          newVals := newVals ++ [none]; newCtrs := newCtrs ++ [{}]
        else throw s!"a run failed although nothing was discarded concurrently: {o.take 200}"
      else
        match C01.checkProgram prog (C12.valsD s) s.ctrs o (lenient := true) with
        | .ok (sh, c, m) => newVals := newVals ++ [some sh]; newCtrs := newCtrs ++ [c]; models := models ++ [m]
        | .error e => throw s!"`{it.take 40}…` run concurrently: {e}"
    | ["scan", k] =>
      match s.vals.getD (toNat! k) none with
      | some sh => C12.checkScan sh (gone.contains (toNat! k)) o
      | none => pure ()
    | ["discard", _] => if o != "done" && o != "skipped" then throw s!"Discard did not return: {o}"
    | _ => throw s!"bad item {it}"
  return { s with vals := s.vals ++ newVals, ctrs := s.ctrs ++ newCtrs, discarded := gone, models := models }

def run (c obs : String) : String × String × Bool :=
  let phases := ((c.splitOn ";;").drop 1).map fun o => (o.trimAscii).toString
  let outs := obs.splitOn " ## "
  let rec go (ps os : List String) (i : Nat) (s : C12.St) : String × String × Bool :=
    match ps, os with
    | [], _ => (joinWith " ## " s.models, "ok", true)
    | p :: ps', o :: os' =>
      match stepPhase s p o with
      | .ok s' => go ps' os' (i + 1) s'
      | .error e => (joinWith " ## " s.models, s!"phase {i}: {e}", false)
    | _ :: _, [] => (joinWith " ## " s.models, s!"phase {i} was not run (an earlier one blocked)", false)
  go phases outs 0 {}

end Driver.C19
