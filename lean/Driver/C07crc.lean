import BS.Model.Crc
import Driver.Util
/-! C07crc: the CRC-32 model against `hash/crc32` on byte strings and damaged copies of them. -/
namespace Driver.C07crc
open Driver

def hexVal (c : Char) : Nat :=
  if '0' ≤ c && c ≤ '9' then c.toNat - '0'.toNat
  else if 'a' ≤ c && c ≤ 'f' then c.toNat - 'a'.toNat + 10
  else if 'A' ≤ c && c ≤ 'F' then c.toNat - 'A'.toNat + 10 else 0

def parseHex (s : String) : List (BitVec 8) :=
  let rec go : List Char → List (BitVec 8)
    | a :: b :: rest => BitVec.ofNat 8 (hexVal a * 16 + hexVal b) :: go rest
    | _ => []
  go s.toList

def run (c obs : String) : String × String × Bool :=
  match words c with
  | "CRC" :: h :: rest =>
    let data := if h == "-" then [] else parseHex h
    let dmg := match rest with
      | [";", "DMG", pos, w] =>
        let p := toNat! pos
        let wb := parseHex w
        data.take p ++ wb.take (data.length - p) ++ data.drop (p + wb.length)
      | _ => data
    let a := (BS.Crc.crc32 data).toNat
    let b := (BS.Crc.crc32 dmg).toNat
    let model := s!"{a} {b}"
    -- the theorem's claim on this instance: damage within four consecutive bytes changes the checksum
    let window := (rest.getD 3 "").length / 2
    let oracle :=
      match words obs with
      | [x, y] => if data != dmg && window ≤ 4 && x == y then "damage confined to four bytes left the checksum unchanged" else "ok"
      | _ => "unparsable-observation"
    (model, oracle, model == obs)
  | _ => ("bad-case", "bad-case", false)

end Driver.C07crc
