import Driver.C11
import Driver.C16
import Driver.C01
import Driver.C02
import Driver.C06
import Driver.C12
import Driver.C12wk
import Driver.C13
import Driver.C13wt
import Driver.C19
import Driver.C08
import Driver.C18
import Driver.C09
import Driver.C15
import Driver.C07
import Driver.C07crc
import Driver.C05
import Driver.C17
import Driver.C03
import Driver.C14
import Driver.C20
/-!
Model/oracle driver.  `bsdriver <property>`: stdin lines `id<TAB>case<TAB>obs`,
stdout lines `id<TAB>model-observation<TAB>oracle-verdict<TAB>same|differs`.
-/
open Driver

/-- (model observation, oracle verdict on the implementation's observation,
does the implementation agree with the model under the property's observation relation) -/
def dispatch (prop : String) (c obs : String) : String × String × Bool :=
  match prop with
  | "C11" => let m := C11.run c; (m, if m == obs then "ok" else "differs-from-plain-rows-model", m == obs)
  | "C20" => let m := C20.run c; (m, if m == obs then "ok" else "scope-values-differ-from-additive-model", m == obs)
  | "C03" => let m := C03.runSM c; (m, if m == obs then "ok" else "evaluator-state-differs-from-model", m == obs)
  | "C03eval" => C03.runEval c obs
  | "C17" => C17.run c obs
  | "C05" => C05.run c obs
  | "C05range" => C05.runRange c obs
  | "C07" => C07.run c obs
  | "C07crc" => C07crc.run c obs
  | "C15" => C15.runStore c obs
  | "C15retry" => C15.runRetry c obs
  | "C09" => C09.run c obs
  | "C10" => C09.run10 c obs
  | "C17red" => C09.run10 c obs
  | "C18" => C18.run c obs
  | "C08" => C08.run c obs
  | "C01" => C01.run c obs
  | "C04" => C01.run c obs
  | "C02" => C02.run c obs
  | "C12" => C12.run c obs
  | "C12wk" => C12wk.run c obs
  | "C13" => C13.run c obs
  | "C13wt" => C13wt.run c obs
  | "C19" => C19.run c obs
  | "C20e2e" => C12.run c obs
  | "C16res" => C12.run c obs
  | "C05e2e" => C12.run c obs
  | "C14e2e" => C12.run c obs
  | "C06" => C06.run c obs
  | "C06sev" => let m := C06.runSev c; (m, if m == obs then "ok" else "severity-differs-from-the-classifier-model", m == obs)
  | "C14" => C14.runSched c obs
  | "C14live" => C14.runLive c obs
  | "C16" => C16.runDiff c obs
  | "C16inv" => C16.runInv c obs
  | "C16e2e" => C16.runE2E c obs
  | _ => ("unknown-property", "unknown-property", false)

partial def loop (prop : String) (h : IO.FS.Stream) (out : IO.FS.Stream) : IO Unit := do
  let line ← h.getLine
  if line.isEmpty then return ()
  let line := (line.dropEndWhile (· == '\n')).toString
  match splitOn1 line '\t' with
  | [id, c, obs] =>
    let (m, o, t) := dispatch prop c obs
    out.putStrLn s!"{id}\t{m}\t{o}\t{if t then "same" else "differs"}"
  | [id, c] =>
    let (m, o, t) := dispatch prop c ""
    out.putStrLn s!"{id}\t{m}\t{o}\t{if t then "same" else "differs"}"
  | _ => out.putStrLn s!"?\tbad-line\tbad-line\tdiffers"
  loop prop h out

def main (args : List String) : IO Unit := do
  let prop := args.headD ""
  loop prop (← IO.getStdin) (← IO.getStdout)
