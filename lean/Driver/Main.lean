import Driver.C11
/-!
Model/oracle driver.  `bsdriver <property>`: stdin lines `id<TAB>case<TAB>obs`,
stdout lines `id<TAB>model-observation<TAB>oracle-verdict` (`ok` or a reason).
-/
open Driver

def dispatch (prop : String) (c obs : String) : String × String :=
  match prop with
  | "C11" => let m := C11.run c; (m, if m == obs then "ok" else "differs-from-plain-rows-model")
  | _ => ("unknown-property", "unknown-property")

partial def loop (prop : String) (h : IO.FS.Stream) (out : IO.FS.Stream) : IO Unit := do
  let line ← h.getLine
  if line.isEmpty then return ()
  let line := (line.dropEndWhile (· == '\n')).toString
  match splitOn1 line '\t' with
  | [id, c, obs] =>
    let (m, o) := dispatch prop c obs
    out.putStrLn s!"{id}\t{m}\t{o}"
  | [id, c] =>
    let (m, o) := dispatch prop c ""
    out.putStrLn s!"{id}\t{m}\t{o}"
  | _ => out.putStrLn s!"?\tbad-line\tbad-line"
  loop prop h out

def main (args : List String) : IO Unit := do
  let prop := args.headD ""
  loop prop (← IO.getStdin) (← IO.getStdout)
