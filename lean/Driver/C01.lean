import BS.Model.Sem
import Driver.Prog
import Driver.C17
namespace Driver.C01
open BS.Prog BS.Sem BS.KV Driver

def showKV (r : KV) : String := s!"{r.1},{r.2}"

def insertStr (x : String) : List String → List String
  | [] => [x]
  | y :: ys => if x ≤ y then x :: y :: ys else y :: insertStr x ys
def sortStrs (l : List String) : List String := l.foldl (fun acc x => insertStr x acc) []

/-- entries "tag(r;r)" of a WriterFunc log → (rows, number of eof entries, eof is last, any error tag) -/
def parseWriterLog (s : String) : List String × Nat × Bool × Bool :=
  let entries := words s
  let rows := entries.flatMap fun e =>
    ((((e.splitOn "(").getD 1 "").dropEnd 1).toString.splitOn ";").filter (· ≠ "")
  let eofs := (entries.filter (·.startsWith "eof")).length
  let lastEof := (entries.getLast?.map (·.startsWith "eof")).getD false
  (rows, eofs, lastEof, entries.any (·.startsWith "err"))

def sameRows (ordered : Bool) (got want : List String) : Bool :=
  if ordered then got == want else sortStrs got == sortStrs want

/-- what a completed run contributes to user counters: its own increments, and which earlier runs' task graphs its result
contains (through Result arguments, transitively).  A Result's scope merges the scopes of the tasks of its graph, each task
once: a run reached along several paths (`g(r0, f(r0))`) counts once. -/
structure RunCtr where
  own : List Nat := []
  clos : List Nat := []
deriving Inhabited, Repr

/-- expected counter totals: rows flowing through the `count` nodes of the program plus the increments of every earlier run
whose tasks the result's graph contains, each once -/
def counterTotals (p : Program) (env : List Shards) (hist : List RunCtr) (closUsed : List Nat) : List Nat :=
  let base := (List.range 3).map fun c => (closUsed.map fun j => (hist.getD j {}).own.getD c 0).foldl (· + ·) 0
  (base.zip (counters p env)).map fun (a, b) => a + b

/-- which results does the output of a program depend on -/
def usedResults (p : Program) : List Nat :=
  let reach := reachable p
  let refs := p.nodes.zipIdx.flatMap fun (op, i) => if reach.getD i false then refsOf op else []
  ((p.out :: refs).filterMap fun r => match r with | .result i => some i | _ => none).eraseDups

def checkProgram (prog : String) (results : List Shards) (hist : List RunCtr) (obs : String)
    (lenient : Bool := false) : Except String (Shards × RunCtr × String) := do
  let (p, names) := ProgParse.parseProgram prog
  let (env, out) := eval p results
  if !wfNodes results p.nodes [] then throw "the program applies Head to rows whose order it does not fix (outside the specified fragment)"
  let isScan := match p.out with
    | .node i => match p.nodes.getD i default with | .scan _ => true | _ => false
    | _ => false
  let want := out.rows.map (·.map showKV)
  let used := usedResults p
  let closUsed := (used.flatMap fun u => u :: (hist.getD u {}).clos).eraseDups
  let ctrs := counterTotals p env hist closUsed
  let model := s!"shards={joinWith " / " (want.map (joinWith ";"))} counters={joinWith "," (ctrs.map toString)}"
  match obs.splitOn " | " with
  | ["ok", scan, shards, writers, scans, counters] =>
    let scanRows := ((scan.drop 5).toString.splitOn ";").filter (· ≠ "")
    let shardLogs := (shards.drop 7).toString.splitOn " / "
    if !isScan then
      if shardLogs.length != want.length then throw s!"result has {shardLogs.length} shards, the program prescribes {want.length}"
      let mut allRows : List String := []
      for (log, (w, i)) in shardLogs.zip want.zipIdx do
        let (rows, eofs, lastEof, anyErr) := parseWriterLog log
        if anyErr && !lenient then throw s!"shard {i}: the writer observed an error in a failure-free run"
        if !lenient && !sameRows out.ordered rows w then
          throw s!"shard {i} holds [{joinWith ";" rows}], the operators prescribe [{joinWith ";" w}]{if out.ordered then "" else " (as a multiset)"}"
        if !lenient && (eofs != 1 || !lastEof) then throw s!"shard {i}: end-of-stream observed {eofs} times (expected once, at the end)"
        allRows := allRows ++ rows
      if !lenient && scanRows != allRows then throw "scanning the result does not yield the shards' rows in shard order"
      -- (with retried tasks the writer log holds the rows of every attempt: then only the scanned rows are judged)
      if lenient && !sameRows out.ordered scanRows want.flatten then
        throw s!"the result holds [{joinWith ";" scanRows}], the operators prescribe [{joinWith ";" want.flatten}]"
    else
      if !scanRows.isEmpty then throw "scanning a unit slice yielded rows"
    -- WriterFunc nodes of the program (with retried or recomputed tasks their logs hold every attempt: not judged then)
    for w in (if lenient then [] else ((writers.drop 8).toString.splitOn " ~ ").filter (· ≠ "")) do
      match w.splitOn "=" with
      | [key, log] =>
        match key.splitOn "/" with
        | [node, shard] =>
          let idx := (names.findIdx? (· == node)).getD 0
          let sh := env.getD idx default
          let wrows := (sh.rows.getD (toNat! shard) []).map showKV
          let (rows, eofs, lastEof, _) := parseWriterLog log
          if (feedsHead p).getD idx false then
            -- pipelined into a Head: the writer sees a prefix of the shard, and end-of-stream only if the Head read that far
            if !(C17.isPrefix rows wrows) || eofs > 1 then
              throw s!"WriterFunc {node} shard {shard} (under a Head) observed [{joinWith ";" rows}], not a prefix of [{joinWith ";" wrows}]"
            if rows != wrows || eofs != 1 then
              throw s!"WriterFunc {node} shard {shard} is pipelined into a Head and observed only what the Head pulled: {rows.length} of {wrows.length} rows, end-of-stream {eofs} times"
          if !sameRows sh.ordered rows wrows then throw s!"WriterFunc {node} shard {shard} observed [{joinWith ";" rows}], the shard holds [{joinWith ";" wrows}]"
          if eofs != 1 || !lastEof then throw s!"WriterFunc {node} shard {shard}: end-of-stream observed {eofs} times"
        | _ => throw "unparsable writer key"
      | _ => throw "unparsable writer log"
    -- Scan nodes
    for sc in (if lenient then [] else ((scans.drop 6).toString.splitOn " ~ ").filter (· ≠ "")) do
      match sc.splitOn "=" with
      | [key, log] =>
        match key.splitOn "/" with
        | [node, shard] =>
          let idx := (names.findIdx? (· == node)).getD 0
          let src := match p.nodes.getD idx default with
            | .scan s => (match s with | .node j => env.getD j default | .result j => results.getD j default)
            | _ => default
          let wrows := (src.rows.getD (toNat! shard) []).map showKV
          let calls := (words log)
          if calls.length != 1 then throw s!"Scan callback ran {calls.length} times for shard {shard}"
          let rows := (((calls.headD "").dropEnd 1).toString.splitOn ";").filter (· ≠ "")
          if !sameRows src.ordered rows wrows then throw s!"Scan {node} shard {shard} saw [{joinWith ";" rows}], the shard holds [{joinWith ";" wrows}]"
        | _ => throw "unparsable scan key"
      | _ => throw "unparsable scan log"
    if isScan && !lenient then
      let nshard := out.rows.length
      let seen := (((scans.drop 6).toString.splitOn " ~ ").filter (· ≠ "")).length
      if seen != nshard then throw s!"Scan callback ran for {seen} of {nshard} shards"
    let gotC := ((counters.drop 9).toString.splitOn ",").map toNat!
    if gotC != ctrs then
      if !countersDefined p && gotC.length == ctrs.length && (gotC.zip ctrs).all (fun (g, w) => g ≤ w) then
        throw s!"counters {gotC} depend on pipelining: a counting Map feeds a Head, which pulls only part of the {ctrs} rows"
      throw s!"counters {gotC}, the increments performed sum to {ctrs}"
    pure (out, ⟨BS.Sem.counters p env, closUsed⟩, model)
  | _ =>
    throw s!"a well-typed program did not run to completion: {obs.take 150}"

def run (c obs : String) : String × String × Bool :=
  let segs := c.splitOn ";;"
  let progs := segs.drop 1
  let outs := obs.splitOn " ## "
  let rec go (ps : List String) (os : List String) (results : List Shards) (ctrs : List RunCtr) (models : List String) :
      String × String × Bool :=
    match ps, os with
    | [], _ => (joinWith " ## " models, "ok", true)
    | p :: ps', o :: os' =>
      match checkProgram p results ctrs o with
      | .ok (sh, c, m) => go ps' os' (results ++ [sh]) (ctrs ++ [c]) (models ++ [m])
      | .error e => (joinWith " ## " models, s!"program {results.length}: {e}", false)
    | _ :: _, [] => (joinWith " ## " models, s!"program {results.length} was not run (an earlier one failed)", false)
  go progs outs [] [] []

end Driver.C01
