import BS.Model.Codec
import Driver.Util
namespace Driver.C07
open BS.Codec Driver

def parseBatch (ws : List String) : List String :=
  match ws with
  | [_] => []
  | [_, rows] => splitOn1 rows '|'
  | _ => []

def run (c obs : String) : String × String × Bool :=
  let parts := (splitOn1 c ';').map words
  let batches := (parts.filter fun ws => ws.head? == some "B").map parseBatch
  let dest := ((parts.find? fun ws => ws.head? == some "DEST").getD ["DEST", "4"]).drop 1 |>.map toNat!
  let dmg := ((parts.find? fun ws => ws.head? == some "DMG").getD ["DMG", "none"]).drop 1
  let destF : Nat → Nat := fun i => dest.getD (i % dest.length) 1
  let all := batches.flatten
  let total := all.length
  match obs.splitOn " | " with
  | head :: rest =>
    let offs := ((((words head).getD 0 "").drop 8).toString.splitOn ",").filter (· ≠ "") |>.map toNat!
    let rowsBefore (k : Nat) : Nat := ((batches.take k).map List.length).sum
    match dmg with
    | ["none"] =>
      let r := drainDec destF (total + batches.length + 5) 0 ⟨okBatches batches, [], false⟩
      let model := "rows=" ++ joinWith ";" r.1 ++ " | eof"
      match rest with
      | [calls, rows, st] =>
        let callOk := (words (calls.drop 6).toString).all fun t => match splitOn1 t ':' with
          | [k, n] => toNat! n ≤ toNat! k
          | _ => false
        let got := ((rows.drop 5).toString.splitOn ";").filter (· ≠ "")
        let oracle :=
          if !callOk then "a call returned more rows than requested"
          else if st != "eof" then s!"stream of intact batches ended with {st}"
          else if got != all then "decoded rows differ from the rows written"
          else "ok"
        (model, oracle, oracle == "ok")
      | _ => (model, "unparsable-observation", false)
    | _ =>
      -- damage: every entry pos:nrows:status:prefixok
      let isFlip := dmg.head? == some "flip" || dmg.head? == some "allflips" || dmg.head? == some "burst"
      let entries := (rest.flatMap words).filter (· ≠ "skip")
      let verdict := entries.foldl (fun (acc : Option String) e =>
        match acc with
        | some _ => acc
        | none =>
          match splitOn1 e ':' with
          | [pos, n, st, okp] =>
            let byte := if isFlip then toNat! pos / 8 else toNat! pos
            let k := (offs.filter (· ≤ byte)).length            -- index of the damaged batch
            let n := toNat! n
            if okp != "1" then some s!"rows delivered before the damage at {pos} are not the rows written"
            else if isFlip then
              if st != "err" && st != "integ" then some s!"bit flip at {pos} (batch {k}) ended the stream with {st} instead of an error"
              else if n > rowsBefore k then some s!"bit flip at {pos}: rows of the damaged batch {k} were delivered"
              else none
            else
              let boundary := byte == 0 || offs.contains byte
              if boundary then
                if st != "eof" then some s!"truncation at batch boundary {pos} ended with {st}"
                else if n != rowsBefore k then some s!"truncation at batch boundary {pos}: {n} rows delivered, {rowsBefore k} written before it"
                else none
              else if st != "err" && st != "integ" then some s!"truncation inside batch {k} at byte {pos} ended the stream with {st} instead of an error"
              else if n > rowsBefore k then some s!"truncation at {pos}: rows of the truncated batch were delivered"
              else none
          | _ => some ("unparsable-entry " ++ e)) none
      match verdict with
      | none => ("every damaged stream must fail at or before the damaged batch", "ok", true)
      | some v => ("every damaged stream must fail at or before the damaged batch", v, false)
  | _ => ("bad-observation", "unparsable-observation", false)

end Driver.C07
