import BS.Model.Store
import Driver.Util
namespace Driver.C15
open BS.Store Driver

def bytesOf (s : String) : List UInt8 := s.toUTF8.toList

/-- stores: replay the ops on the commit-atomic model; the implementation's result for every op
must be the model's, except that an op hit by the injected failure may fail instead (but may never
return wrong data or report a commit that did not persist). -/
def runStore (c obs : String) : String × String × Bool :=
  match splitOn1 c ';' with
  | [] => ("bad-case", "bad-case", false)
  | h :: ops =>
    let isFile := (words h).head? == some "file" || (words h).head? == some "lfile"
    let toks := words ((obs.splitOn " | ").getD 0 "")
    let ops := ops.map words |>.filter (!·.isEmpty)
    if toks.length != ops.length then ("model", "observation-truncated", false) else
    let key (t p : String) : Key := (t.hash.toNat, toNat! p)
    let step (acc : St × List Nat × Option String × List String × List Key) (x : List String × String) :=
      let (s, tainted, bad, outs, unk) := acc
      let (op, tok) := x
      let hit := tok.endsWith "!"
      let tok := if hit then (tok.dropEnd 1).toString else tok
      let fail (m : String) := (s, tainted, (bad.orElse fun _ => some m), outs ++ ["?"])
      -- a key whose writer committed after a failed Write holds unspecified data: unchecked from then on
      let keyOf : Option Key := match op with
        | ["open", t, p, _] => some (key t p)
        | ["stat", t, p] => some (key t p)
        | _ => none
      if (keyOf.map unk.contains).getD false then (s, tainted, bad, outs ++ [tok], unk) else
      let unk' : List Key := match op with
        | ["commit", i, _] => match s.ws[toNat! i]? with
          | some w => if tainted.contains (toNat! i) && tok == "ok" then w.key :: unk else unk
          | none => unk
        | _ => unk
      (fun (y : St × List Nat × Option String × List String) => (y.1, y.2.1, y.2.2.1, y.2.2.2, unk')) <|
      match op with
      | ["create", t, p] =>
        -- memory store refuses to create an entry that is already committed
        let exists_ := (lookup (key t p) s.vis).isSome
        if tok == "ok" then (create s (key t p), tainted, bad, outs ++ ["ok"])
        else if hit || (!isFile && exists_) then
          ({ s with ws := s.ws ++ [⟨key t p, [], false⟩] }, tainted, bad, outs ++ ["err"])
        else fail s!"create {t} {p} failed without an injected failure"
      | ["write", i, txt] =>
        let i := toNat! i
        match s.ws[i]? with
        | some w =>
          if !w.alive then (s, tainted, bad, outs ++ [tok])
          else if tok == "ok" then (write s i (bytesOf txt), tainted, bad, outs ++ ["ok"])
          else if hit then (s, i :: tainted, bad, outs ++ ["err"])
          else fail s!"write failed without an injected failure"
        | none => (s, tainted, bad, outs ++ [tok])
      | ["commit", i, n] =>
        let i := toNat! i
        match s.ws[i]? with
        | some w =>
          if !w.alive then (s, tainted, bad, outs ++ [tok]) else
          if tainted.contains (i + 1000000) then
            (if tok == "ok" then fail "commit reported success although the writer's file had been removed: nothing was persisted"
             else ((commit s i (toNat! n) false).1, tainted, bad, outs ++ ["err"])) else
          if tainted.contains i then ((commit s i (toNat! n) false).1, tainted, bad, outs ++ [tok]) else
          -- memory store: committing over an existing entry is refused
          let dup := !isFile && (lookup w.key s.vis).isSome
          if hit then
            if tok == "ok" then fail s!"commit reported success although an underlying file operation failed"
            else ((commit s i (toNat! n) false).1, tainted, bad, outs ++ ["err"])
          else if dup then
            if tok == "err" then ((commit s i (toNat! n) false).1, tainted, bad, outs ++ ["err"])
            else fail "commit over an existing entry succeeded"
          else if tok == "ok" then ((commit s i (toNat! n) true).1, tainted, bad, outs ++ ["ok"])
          else fail "commit failed without an injected failure"
        | none => (s, tainted, bad, outs ++ [tok])
      | ["breakdir"] =>
        -- the store's directory is removed under the live writers: every committed entry is gone, and the commit of a writer
        -- created before cannot persist (its temporary file is gone): it must report an error (doomed: index + 1000000)
        let doomed := (s.ws.zipIdx.filter (·.1.alive)).map (·.2 + 1000000)
        ({ s with vis := [] }, doomed ++ tainted, bad, outs ++ [tok])
      | ["discardw", i] => (discardW s (toNat! i), tainted, bad, outs ++ [tok])
      | ["open", t, p, off] =>
        let want := «open» s (key t p) (toNat! off)
        let sz := ((lookup (key t p) s.vis).map (·.1.length)).getD 0
        if toNat! off > sz then (s, tainted, bad, outs ++ [tok])      -- offsets beyond the size: unspecified
        else match want with
        | .data b =>
          let wtxt := "data:" ++ (String.fromUTF8! (ByteArray.mk b.toArray))
          if tok == wtxt then (s, tainted, bad, outs ++ [wtxt])
          else if hit && (tok == "err" || tok == "readerr") then (s, tainted, bad, outs ++ [tok])
          else fail s!"open {t} {p} at {off} returned {tok}, committed bytes from that offset are {wtxt}"
        | _ =>
          if tok == "err" || tok == "readerr" then (s, tainted, bad, outs ++ [tok])
          else fail s!"open {t} {p} returned {tok} for an entry that is not committed"
      | ["stat", t, p] =>
        match stat s (key t p) with
        | .stat sz n =>
          let wtxt := s!"stat:{sz}:{n}"
          if tok == wtxt then (s, tainted, bad, outs ++ [wtxt])
          else if hit && tok == "err" then (s, tainted, bad, outs ++ [tok])
          else fail s!"stat {t} {p} returned {tok}, expected {wtxt}"
        | _ =>
          if tok == "err" then (s, tainted, bad, outs ++ [tok])
          else fail s!"stat {t} {p} returned {tok} for an entry that is not committed"
      | ["discard", t, p] =>
        let r := discard s (key t p)
        if tok == "ok" then (r.1, tainted, bad, outs ++ ["ok"])
        else if hit then (s, tainted, bad, outs ++ ["err"])
        else match r.2 with
          | .err => (s, tainted, bad, outs ++ ["err"])
          | _ => fail s!"discard of a committed entry failed without an injected failure"
      | _ => fail "bad-op"
    let (_, _, bad, outs, _) := (ops.zip toks).foldl step (⟨[], []⟩, [], none, [], [])
    let model := joinWith " " outs
    match bad with
    | none => (model, "ok", true)
    | some m => (model, m, false)

def parseEv (k : Nat) (t : String) : Option Ev :=
  if t == "of" then some .openFail
  else if t == "rf" then some (.readFail 0)
  else if t.startsWith "rp" then some (.readFail (toNat! (t.drop 2).toString))
  else if t == "full" then some (.short (k + 1))
  else if t == "eoflater" then some .eofLater
  else if t.startsWith "s" then some (.short (toNat! (t.drop 1).toString))
  else none

def runRetry (c obs : String) : String × String × Bool :=
  match words c with
  | "DATA" :: d :: "BUF" :: k :: "SCRIPT" :: evs =>
    let data := if d == "-" then [] else bytesOf d
    let k := toNat! k
    let script := evs.filterMap (parseEv k)
    let r : RR := ⟨data, 0, none, 0, script, .more⟩
    let x := RR.drain k (data.length + script.length + 10) r
    let st := match x.2 with | .eof => "eof" | .err => "err" | .more => "noend"
    let got := String.fromUTF8! (ByteArray.mk x.1.toArray)
    let model := s!"{st} got={got}"
    -- oracle: delivered bytes are a prefix of the committed stream, all of it at end-of-stream
    let ows := words obs
    let ost := ows.getD 0 ""
    let ogot := ((ows.getD 1 "").drop 4).toString
    let oracle :=
      if ost == "noend" then "reader neither finished nor failed"
      else if !(d == "-" && ogot == "") && !(ogot.length ≤ d.length && (d.take ogot.length).toString == ogot) && d != "-" then
        "delivered bytes are not a prefix of the committed stream (a gap or a repeat)"
      else if ost == "eof" && ogot != (if d == "-" then "" else d) then "end-of-stream reported before the whole committed stream was delivered"
      else if ost != st then s!"reader ended with {ost}, the failure script and retry budget require {st}"
      else "ok"
    (model, oracle, s!"{ost} got={ogot}" == model)
  | _ => ("bad-case", "bad-case", false)

end Driver.C15
