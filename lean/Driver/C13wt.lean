import BS.Model.WriteThrough
import Driver.Util
/-! Driver of sub-check C13wt: the write-through reader, call by call, against `BS.WT`. -/
namespace Driver.C13wt
open BS.WT Driver

structure Obs where
  n : Nat
  st : String
  rows : String

def parseUps (ws : List String) : List (Nat × USt) :=
  ws.map fun t =>
    let n := toNat! (t.dropEnd 1).toString
    let st := match t.back with | 'e' => USt.eof | 'x' => USt.err | _ => USt.more
    (n, st)

/-- the script as calls, rows numbered 1,2,3,… over the script; after the script the upstream returns (0, EOF) -/
def mkCalls : List (Nat × USt) → Nat → List (Call Nat)
  | [], _ => []
  | (n, st) :: r, next => { rows := (List.range n).map (· + next + 1), st := st } :: mkCalls r (next + n)

def outText : Out → String
  | .ok => "ok" | .eof => "eof" | .upstreamErr => "uerr" | .ioErr => "ioerr"

/-- maximal runs of consecutive values, "a-b,c-d" -/
def runsOf : List Nat → List (Nat × Nat)
  | [] => []
  | x :: r =>
    match runsOf r with
    | (a, b) :: t => if a = x + 1 then (x, b) :: t else (x, x) :: (a, b) :: t
    | [] => [(x, x)]

def rowsText (l : List Nat) : String := joinWith "," ((runsOf l).map fun (a, b) => s!"{a}-{b}")

/-- the model's trace: one entry per call, and the final file -/
def trace : FileSt Nat → List (Call Nat) → List String × FileSt Nat
  | f, [] => ([], f)
  | f, c :: cs =>
    let r := read f c
    let e := s!"{r.2.1.length}:{outText r.2.2}:{rowsText r.2.1}"
    if r.2.2 = .ok then
      let t := trace r.1 cs
      (e :: t.1, t.2)
    else ([e], r.1)

def fileText : FileSt Nat → String
  | .published w => "rows:" ++ rowsText w
  | _ => "absent"

def setFlag (cs : List (Call Nat)) (k : Nat) (which : Nat) : List (Call Nat) :=
  cs.zipIdx.map fun (c, i) =>
    if i = k then
      match which with
      | 0 => { c with createFails := true }
      | 1 => { c with writeFails := true }
      | _ => { c with closeFails := true }
    else c

def run (c obs : String) : String × String × Bool :=
  let parts := (splitOn1 c ';').map words
  let ups := parseUps (((parts.find? fun ws => ws.head? == some "U").getD ["U"]).drop 1)
  let stop := toNat! ((((parts.find? fun ws => ws.head? == some "STOP").getD ["STOP", "0"]).drop 1).headD "0")
  let script := mkCalls ups 0
  -- after the script the scripted upstream keeps returning (0, EOF)
  let script := script ++ [{ rows := [], st := .eof }]
  let script := if stop > 0 then script.take stop else script
  match obs.splitOn " | " with
  | [calls, file, _ops] =>
    let ocalls := words (calls.drop 6).toString
    let ofile := (file.drop 5).toString
    let failing := ocalls.findIdx? fun e => (splitOn1 e ':').getD 1 "" == "ioerr"
    let cands : List (List (Call Nat)) :=
      match failing with
      | none => [script]
      | some k => [setFlag script k 0, setFlag script k 1, setFlag script k 2]
    let models := cands.map fun s => let t := trace .absent s; (joinWith " " t.1, fileText t.2)
    let matched := models.find? fun m => m.1 == joinWith " " ocalls && m.2 == ofile
    let model := match models with | m :: _ => s!"calls={m.1} | file={m.2}" | [] => ""
    -- the property itself, independently of the model's trace
    let complete := rowsText (upstreamRows script)
    let lastSt := (splitOn1 (ocalls.getLast?.getD "") ':').getD 1 ""
    let oracle :=
      if ofile == "absent" then
        (if lastSt == "eof" then "the reader was drained without an error but no shard file is visible" else "ok")
      else if ofile != "rows:" ++ complete then s!"a visible shard file does not hold the complete shard ({ofile}; the shard is {complete})"
      else if lastSt != "eof" then s!"a shard file is visible although the consumer's last call ended with {lastSt}"
      else "ok"
    (model, oracle, matched.isSome)
  | _ => ("bad-observation", "unparsable-observation", false)

end Driver.C13wt
