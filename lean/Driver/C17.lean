import BS.Model.Reader
import BS.Model.Merge
import Driver.Util
namespace Driver.C17
open BS.Reader Driver

abbrev Row := Int × Int

structure UpIn where
  rows : List Row
  script : List String
deriving Repr

def parseRow (t : String) : Row := match splitOn1 t ':' with
  | [a, b] => (toInt! a, toInt! b)
  | _ => (0, 0)

def parseUp (ws : List String) : UpIn :=
  let ins := (ws.drop 1).takeWhile (· ≠ "SCRIPT")
  let sc := ((ws.dropWhile (· ≠ "SCRIPT")).drop 1)
  ⟨ins.map parseRow, sc⟩

def hasFailure (u : UpIn) : Bool := u.script.any fun t => t == "err" || t == "tmp"

/-- rows an upstream delivers before its first failing step (all of them if none fails):
a failing step is reached after the rows allowed by the steps before it -/
def showRow (r : Row) : String := s!"{r.1},{r.2}"

def insertSorted (x : Int) : List Int → List Int
  | [] => [x]
  | y :: ys => if x ≤ y then x :: y :: ys else y :: insertSorted x ys
def sortInts (l : List Int) : List Int := l.foldl (fun acc x => insertSorted x acc) []

def constShard (n nshard shard : Nat) : Nat × Nat :=
  let quot := n / nshard
  let rem := n % nshard
  if shard < rem then (quot * shard + shard, quot + 1) else (quot * shard + rem, quot)

def groupSum (rows : List Row) : List Row :=
  let keys := sortInts (rows.map (·.1)).eraseDups
  keys.map fun k => (k, ((rows.filter (·.1 == k)).map (·.2)).foldl (· + ·) 0)

def showList (l : List Int) : String := "[" ++ joinWith " " ((sortInts l).map toString) ++ "]"

/-- the documented meaning of each reader kind on whole inputs -/
def spec (head : List String) (ups : List UpIn) : List String × Bool :=
  let all := ups.flatMap (·.rows)
  let r0 := (ups.headD ⟨[], []⟩).rows
  match head with
  | ["map"] => (r0.map fun (k, v) => showRow (k + 1, v * 2), true)
  | ["filter"] => ((r0.filter fun (k, _) => k % 3 != 0).map showRow, true)
  | ["flatmap"] => (r0.flatMap fun (k, v) => (List.range (k % 4).toNat).map fun (j : Nat) => showRow (k, v + Int.ofNat j), true)
  | ["head", n] => ((r0.take (toNat! n)).map showRow, true)
  | ["fold"] | ["foldint"] | ["foldstr"] => ((groupSum r0).map showRow, false)
  | ["const", ns, sh] =>
    let (off, cnt) := constShard r0.length (toNat! ns) (toNat! sh)
    (((r0.drop off).take cnt).map showRow, true)
  | ["taskbuf", np, part] =>
    let np := toNat! np
    ((ups.zipIdx.filter fun (_, i) => i % np == toNat! part).flatMap (fun (u, _) => u.rows.map showRow), true)
  | ["multi"] | ["emulti"] => (all.map showRow, true)
  | ["cogroup"] =>
    -- the cogroup reader machine (BS.Merge.cgRun) over the inputs, each sorted first; value lists are compared as multisets
    let ss := ups.map fun u => BS.KV.sortKV u.rows
    ((BS.Merge.cgRun (all.length + 1) ss).map fun (k, groups) =>
      joinWith "," (toString k :: groups.map showList), true)
  | ["scanner"] | ["scannerv"] =>
    -- the scanner model (BS.Reader.scanAll, buffer of 128 rows) over the scripted upstream; = r0 by `scanner_over_script`
    let u0 := ups.headD ⟨[], []⟩
    if u0.script.any (fun t => t == "err" || t == "tmp") then (r0.map showRow, true)
    else
      let u : BS.Reader.Up (Int × Int) := ⟨u0.rows, (u0.script.map fun t =>
        if t.endsWith "e" then ((t.dropEnd 1).toString.toNat!, true) else (t.toNat!, false)), false⟩
      ((BS.Reader.scanAll (BS.Reader.upRd (Int × Int)) 128 (fun s => s.rest.length + s.script.length + 4) (u0.rows.length + 1)
        ⟨u, [], false⟩).map showRow, true)
  | _ => (r0.map showRow, true)   -- writer, scan, readerfunc, frame, readfull, readall, closing

/-! ### step-level tie: the reader state machines of `BS.Reader`, run call by call -/

def parseScript (sc : List String) : List (Nat × Bool) :=
  sc.map fun t => if t.endsWith "e" then (toNat! (t.dropEnd 1).toString, true) else (toNat! t, false)

def upOf (u : UpIn) : Up Row := ⟨u.rows, parseScript u.script, false⟩

/-- (rows returned, end-of-stream?) of each call, for the requested destination sizes -/
def simCalls {α} (R : Rd α) : R.σ → List Nat → List (Nat × Bool)
  | _, [] => []
  | s, k :: ks => let r := R.read s k; (r.2.1.length, r.2.2 == .eof) :: simCalls R r.1 ks

def upFuel (u : Up Row) : Nat := u.rest.length + u.script.length + 4

/-- per-call behaviour the model predicts for the kinds that have a state-machine model -/
def simulate (head : List String) (ups : List UpIn) (ks : List Nat) : Option (List (Nat × Bool)) :=
  let u0 := upOf (ups.headD ⟨[], []⟩)
  match head with
  | ["map"] => some (simCalls (mapRd (upRd Row) fun (k, v) => (k + 1, v * 2)) u0 ks)
  | ["filter"] => some (simCalls (filterRd (upRd Row) (fun (k, _) => k % 3 != 0) upFuel) ⟨u0, false⟩ ks)
  | ["flatmap"] =>
    some (simCalls (flatRd (upRd Row) (fun (k, v) => (List.range (k % 4).toNat).map fun (j : Nat) => (k, v + Int.ofNat j)) upFuel)
      ⟨u0, [], [], false⟩ ks)
  | ["head", n] => some (simCalls (headRd (upRd Row)) ⟨u0, toNat! n⟩ ks)
  | ["multi"] | ["emulti"] =>
    some (simCalls (multiRd (upRd Row) fun q => (q.map fun u => upFuel u + 1).sum + 2) (ups.map upOf) ks)
  | ["frame"] => some (simCalls (frameRd Row) u0.rest ks)
  | _ => none

def insertStr (x : String) : List String → List String
  | [] => [x]
  | y :: ys => if x ≤ y then x :: y :: ys else y :: insertStr x ys
def sortStrs (l : List String) : List String := l.foldl (fun acc x => insertStr x acc) []

def isPrefix : List String → List String → Bool
  | [], _ => true
  | _, [] => false
  | a :: as, b :: bs => a == b && isPrefix as bs

/-- Judge a drained-reader observation `end calls=… | rows=… | altered=…[ | extra]` against the rows
the reader must deliver. -/
def judge (kind : String) (failing ordered : Bool) (want : List String) (obs : String)
    (sim : List Nat → Option (List (Nat × Bool)) := fun _ => none) : String × Bool :=
  match obs.splitOn " | " with
  | callsPart :: rowsPart :: alteredPart :: more =>
    let ended := callsPart.startsWith "end "
    let calls := (words ((callsPart.splitOn "calls=").getD 1 "")).map fun t => splitOn1 t ':'
    let got := ((rowsPart.drop 5).toString.splitOn ";").filter (· ≠ "")
    let check : Except String Unit := do
      if !ended then throw "reader did not reach end-of-stream (reads keep returning without progress)"
      let mut seenEnd := false
      for cl in calls do
        match cl with
        | [k, n, e, d] =>
          if toNat! n > toNat! k then throw s!"returned {n} rows for a destination of {k}"
          -- a call that fails with an error promises nothing about the destination
          if d != "0" && kind != "readerfunc" && (e == "-" || e == "eof") then throw s!"rows beyond the returned count were written (k={k}, n={n})"
          if seenEnd then
            if n != "0" then throw "rows delivered after end-of-stream"
            if e == "-" then throw "end-of-stream is not sticky: a later read reported more data"
          if e == "eof" then seenEnd := true
        | _ => throw "unparsable-call"
      if alteredPart != "altered=0" then throw "rows delivered by an earlier call were altered by a later call"
      let final := (calls.find? fun cl => cl.getD 2 "-" != "-").map (·.getD 2 "-")
      if failing then
        if final == some "eof" || final == none then throw "an input read error was swallowed as end-of-stream"
        if ordered && !(isPrefix got want) then throw "rows delivered before the error are not a prefix of the expected rows"
      else
        if final != some "eof" && kind != "scanner" then throw s!"stream ended with {final} instead of end-of-stream"
        if ordered then
          if got != want then throw "delivered rows differ from the operator's meaning on the whole input"
        else
          if sortStrs got != sortStrs want then throw "delivered rows differ (as a multiset) from the operator's meaning"
      if !failing then
        match sim (calls.map fun cl => toNat! (cl.getD 0 "0")) with
        | some want =>
          let gotc := calls.map fun cl => (toNat! (cl.getD 1 "0"), cl.getD 2 "-" == "eof")
          if gotc != want then
            throw s!"the calls (rows, end-of-stream) differ from the reader state machine of the model: model {want}"
        | none => pure ()
      if kind == "writer" && !failing then
        match more with
        | [w] =>
          let entries := words (w.drop 7).toString
          let rowsSeen := entries.flatMap fun e =>
            (((e.splitOn "(").getD 1 "").dropEnd 1).toString.splitOn ";" |>.filter (· ≠ "")
          if rowsSeen != want then throw "WriterFunc did not observe every row exactly once, in order"
          let eofs := entries.filter (·.startsWith "eof")
          if eofs.length != 1 || !((entries.getLast?.getD "").startsWith "eof") then
            throw "WriterFunc did not observe exactly one end-of-stream, at the end"
        | _ => throw "missing writer log"
      if kind == "scanner" then
        match more with
        | [w] => if w != "arity=false,true type=false,true later=false,true;false,true;false,true" then throw s!"scanner accepted a wrong destination: {w}"
        | _ => throw "missing scanner checks"
      pure ()
    match check with
    | .ok _ => ("ok", true)
    | .error e => (e, false)
  | _ => ("unparsable-observation", false)

def run (c obs : String) : String × String × Bool :=
  match splitOn1 c ';' with
  | [] => ("bad-case", "bad-case", false)
  | h :: rest =>
    let head := words h
    let ups := (rest.map words).filter (fun ws => ws.head? == some "IN") |>.map parseUp
    let (want, ordered) := spec head ups
    let failing := (obs.splitOn " | injected=").getD 1 "0" != "0"
    let obs := (obs.splitOn " | injected=").getD 0 ""
    let model := "rows=" ++ joinWith ";" want
    let scripted := ups.any fun u => u.script.any fun t => t == "err" || t == "tmp"
    let (o, s) := judge (head.headD "") failing ordered want obs
      (if scripted then fun _ => none else simulate head ups)
    (model, o, s)

end Driver.C17
