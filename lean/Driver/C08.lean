import BS.Model.Compile
import Driver.Prog
namespace Driver.C08
open BS.Prog BS.Compile Driver

def insertStr (x : String) : List String → List String
  | [] => [x]
  | y :: ys => if x ≤ y then x :: y :: ys else y :: insertStr x ys
def sortStrs (l : List String) : List String := l.foldl (fun acc x => insertStr x acc) []

partial def reach (ts : List MTask) (front : List Nat) (seen : List Nat) : List Nat :=
  match front with
  | [] => seen
  | t :: rest =>
    if seen.contains t then reach ts rest seen
    else
      let deps := ((ts[t]?).map (·.deps)).getD []
      let next := deps.flatMap fun d =>
        match (ts[d.head]?).bind (·.group) with
        | some (h, n) => (List.range n).map (· + h)
        | none => [d.head]
      reach ts (next ++ rest) (t :: seen)

def dump (ts : List MTask) (roots : List Nat) : List String :=
  let name (i : Nat) : String := match ts[i]? with
    | some t => s!"{t.op}@{t.numShard}:{t.shard}"
    | none => "?"
  let ntask (i : Nat) : Nat := match (ts[i]?).bind (·.group) with
    | some (_, n) => n
    | none => 1
  let b (x : Bool) : Nat := if x then 1 else 0
  let ids := reach ts roots []
  sortStrs <| ids.map fun i =>
    match ts[i]? with
    | none => "?"
    | some t =>
      let rootIdx := match roots.findIdx? (· == i) with | some k => k + 1 | none => 0
      let deps := t.deps.map fun d => s!"{name d.head}/p{d.partition}/e{b d.expand}/k{d.ck}/n{ntask d.head}"
      let group := match t.group with
        | some (h, n) => s!"{name h}+{n}"
        | none => "-"
      s!"{name i} root={rootIdx} np={t.np} part={b t.hasPart} custom={b t.custom} comb={b t.comb} ck={t.ck} group={group} mat={t.mat} deps=[{joinWith " " deps}] ops=[{joinWith "," t.ops}]"

/-- compile a list of PRE programs and the main program on one task table -/
def compileAll (mcMain : Bool) (progs : List String) : Option (List MTask × List Nat) :=
  let n := progs.length
  let rec go (ps : List String) (k : Nat) (st : CState) (results : List (List Nat)) (shards : List Nat) :
      Option (List MTask × List Nat) :=
    match ps with
    | [] => none
    | p :: rest =>
      let isMain := rest.isEmpty
      let (prog, _) := ProgParse.parseProgram p
      let (dag, outSlice) := elaborate prog (if isMain then shards else [])
      let env : Env := { mc := isMain && mcMain, inv := if isMain then "X" else s!"R{k}",
                         results := if isMain then results else [] }
      -- each invocation has its own namer and memo; the task table is shared
      match compile env dag (dag.nodes.length + 2) outSlice Part.none { st with namer := [], memo := [] } with
      | none => none
      | some (st, roots) =>
        if isMain then some (st.tasks, roots)
        else go rest (k + 1) st (results ++ [roots]) (shards ++ [roots.length])
  let _ := n
  go progs 0 ⟨[], [], []⟩ [] []

def run (c obs : String) : String × String × Bool :=
  let segs := c.splitOn ";;"
  match (segs.headD "").splitOn ";" with
  | head :: firstProg =>
    let mc := (words head).getD 1 "0" == "1"
    let progs := (joinWith ";" firstProg) :: segs.drop 1
    match compileAll mc progs with
    | none => ("compileerr", if obs.startsWith "compileerr" then "ok" else "compilation should fail", obs.startsWith "compileerr")
    | some (ts, roots) =>
      let model := joinWith " || " (dump ts roots)
      let obsDump := (obs.splitOn " ## ").getD 0 ""
      let same := (obs.splitOn " ## same=").getD 1 ""
      let oracle :=
        if obs == "preerr envwritable" then
          "after Session.Run the tasks carry an invocation whose compile environment is still writable (workers would record their own view of the cache files)"
        else if obs.startsWith "compileerr" || obs.startsWith "preerr" then "compilation failed: " ++ obs
        else if (same.splitOn ",").getD 0 "" != "1" then "compiling the same invocation twice gave different task graphs"
        else if (same.splitOn ",").getD 1 "" == "0" then "a worker compiling the transported invocation gets a different task graph"
        else if (same.splitOn ",").getD 1 "" == "err" then "the invocation does not survive transport"
        else if (same.splitOn ",").getD 1 "" == "envwritable" then
          "the compile environment a worker receives is writable: the worker records its own view of the cache files and may compile another graph than the driver"
        else if obsDump != model then "task graph differs from the documented compilation (names, shard/partition counts, combiner keys or wiring)"
        else "ok"
      (model, oracle, oracle == "ok")
  | [] => ("bad-case", "bad-case", false)

end Driver.C08
