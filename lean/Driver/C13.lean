import BS.Model.Cache
import Driver.C01
namespace Driver.C13
open BS.Prog BS.Sem BS.KV BS.Cache Driver

def parseRows (s : String) : List KV :=
  (s.splitOn ";").filterMap fun t => match t.splitOn "," with
    | [a, b] => some (toInt! a, toInt! b)
    | _ => none

/-- "name/shard=rows" entries of an observation; `none` rows = BAD file -/
def parseFiles (s : String) : List (String × Nat × Option (List KV) × String) :=
  (words s).filterMap fun e =>
    if e.startsWith "STRAY:" then none else
    match e.splitOn "=" with
    | [key, rows] =>
      match key.splitOn "/" with
      | [name, sh] => some (name, toNat! sh, if rows.startsWith "BAD" then none else some (parseRows rows), rows)
      | _ => none
    | _ => none

def field (obs key : String) : String :=
  ((obs.splitOn (" | " ++ key ++ "=")).getD 1 "").splitOn " | " |>.headD ""

/-- replace `readcache n name` by a reference to a result holding the files' content -/
def substReadCache (f : Files) (prog : String) : String × List Shards × Bool :=
  let stmts := (prog.splitOn ";").map fun s => (s.trimAscii).toString
  let (out, res, ok) := stmts.foldl (fun (acc : List String × List Shards × Bool) st =>
    let (out, res, ok) := acc
    match words st with
    | [lhs, n, name] =>
      if lhs.endsWith "=readcache" then
        let n' := toNat! n
        let shards := (List.range n').map fun q => f.get name q
        let all := shards.all (·.isSome)
        (out ++ [s!"{(lhs.splitOn "=").headD ""}=reshard R{res.length} {n}"],
          res ++ [⟨shards.map (·.getD []), true⟩], ok && all)
      else (out ++ [st], res, ok)
    | _ => (out ++ [st], res, ok)) ([], [], true)
  (joinWith " ; " out, res, ok)

def hasHead (p : Program) : Bool := p.nodes.any fun op => match op with | .head _ _ => true | _ => false

abbrev Owners := List (String × Shards)

def stepRun (f : Files) (owners : Owners) (injected : Bool) (progText obs : String) (afterFailure : Bool := false) :
    Except String (Files × Owners) := do
  let (prog, results, readable) := substReadCache f progText
  let (p, names) := ProgParse.parseProgram prog
  let env := evalNodes results p.nodes []
  let body := (obs.splitOn " | calls=").headD ""
  -- which shards the cache names of this program stand for
  let owners := p.nodes.zipIdx.foldl (fun (ow : Owners) (op, i) => match op with
    | .cache _ _ nm => (ow.filter (·.1 != nm)) ++ [(nm, env.getD i default)]
    | _ => ow) owners
  let ok := body.startsWith "ok |"
  if body.startsWith "hang" || body.startsWith "scanhang" || body.startsWith "CRASH" || body.startsWith "HANG" then
    throw s!"the run did not complete: {body.take 100}"
  -- (i) every shard file present is the complete encoded shard
  let files := parseFiles (field obs "files")
  let mut newFiles : Files := []
  for (name, q, rows, raw) in files do
    let some rows := rows | throw s!"cache file {name}/{q} is present but is not a complete encoded shard ({raw.take 60})"
    let node := p.nodes.zipIdx.find? fun (op, _) => match op with | .cache _ _ nm => nm == name | _ => false
    match node with
    | some (_, i) =>
      let sh := env.getD i default
      let want := sh.rows.getD q []
      if !(C01.sameRows sh.ordered (rows.map C01.showKV) (want.map C01.showKV)) then
        throw s!"cache file {name}/{q} holds [{joinWith ";" (rows.map C01.showKV)}], the shard is [{joinWith ";" (want.map C01.showKV)}]"
    | none =>
      -- not written by this program: unchanged, or completed meanwhile by a task of an earlier (failed) run
      if f.get name q != some rows then
        match owners.find? (·.1 == name) with
        | some (_, sh) =>
          if !(C01.sameRows sh.ordered (rows.map C01.showKV) ((sh.rows.getD q []).map C01.showKV)) then
            throw s!"cache file {name}/{q} holds [{joinWith ";" (rows.map C01.showKV)}], which is not the shard it stands for"
        | none => throw s!"cache file {name}/{q} appeared although no cache operator wrote it"
    newFiles := newFiles ++ [((name, q), rows)]
  -- files never disappear during a run
  for ((name, q), _) in f do
    if (newFiles.find? fun e => e.1 == (name, q)).isNone then throw s!"cache file {name}/{q} disappeared during a run"
  if !ok then
    if !injected && readable then throw s!"a failure-free run failed: {body.take 200}"
    return (newFiles, owners)
  if !readable then throw "ReadCache of an incomplete cache did not fail"
  -- (ii) rows are those of the program without the cache (the cache is transparent)
  -- (the counted Maps also report through user counter 0: judged below against the calls, not by the reference semantics)
  let bodyNoCtr := match body.splitOn " | counters=" with
    | [a, b] => a ++ " | counters=0,0,0" ++ (((b.splitOn " | ").drop 1).foldl (fun acc x => acc ++ " | " ++ x) "")
    | _ => body
  match C01.checkProgram prog results [] bodyNoCtr (lenient := true) with
  | .error e => throw e
  | .ok _ => pure ()
  if !injected && !afterFailure then
    -- (ii') the result's metrics scope reports exactly the increments that were executed (each counted Map call adds 1)
    let total := ((field obs "calls").splitOn "," |>.filterMap fun t => match t.splitOn ":" with
      | [_, c] => some (toNat! c) | _ => none).foldl (· + ·) 0
    let reported := toNat! ((((body.splitOn " | counters=").getD 1 "").splitOn ",").headD "0")
    if reported != total then
      throw s!"the result's scope reports {reported} increments of the counted Maps, {total} were executed"
  if !injected && !hasHead p then
    -- (iii) the upstream of a cached shard is not executed: call counts of the counted maps
    let dem := demand f p (fun i => (env.getD i default).rows.length)
    -- after a failed run its remaining tasks may still complete shard files until this run is compiled: such shards
    -- (absent before, present now) may or may not have been served from the cache
    let fMax : Files := if afterFailure then f ++ (newFiles.filter fun e => (f.get e.1.1 e.1.2).isNone) else f
    let demMin := demand fMax p (fun i => (env.getD i default).rows.length)
    let calls := (field obs "calls").splitOn "," |>.filterMap fun t => match t.splitOn ":" with
      | [n, c] => some (n, toNat! c) | _ => none
    for (op, i) in p.nodes.zipIdx do
      match op with
      | .map s _ _ =>
        let nm := names.getD i ""
        if (progText.splitOn s!"{nm}=mapc ").length > 1 then
          let src := getRef env results s
          let want := ((dem.getD i []).zipIdx.map fun (b, q) => if b then (src.rows.getD q []).length else 0).sum
          let wantMin := ((demMin.getD i []).zipIdx.map fun (b, q) => if b then (src.rows.getD q []).length else 0).sum
          let got := ((calls.find? fun c => c.1 == nm).map (·.2)).getD 0
          if got > want || got < wantMin then
            throw s!"{nm} was called {got} times; {want} rows belong to shards that are not served from the cache"
      | _ => pure ()
    -- (iv) every computed shard of a cache node has been written
    let after := filesAfter f p env dem
    for ((name, q), _) in after do
      if (newFiles.find? fun e => e.1 == (name, q)).isNone then
        throw s!"the run completed but cache file {name}/{q} was not written"
  return (newFiles, owners)

def run (c obs : String) : String × String × Bool :=
  let ops := ((c.splitOn ";;").drop 1).map fun o => (o.trimAscii).toString
  let outs := obs.splitOn " ## "
  let failed (o : String) : Bool := !(o.startsWith "ok |") && !(o.startsWith "done")
  let rec go (ops outs : List String) (i : Nat) (st : Files × Owners) (af : Bool := false) : String × String × Bool :=
    let (f, ow) := st
    match ops, outs with
    | [], _ => ("", "ok", true)
    | op :: ops', o :: outs' =>
      let ws := words op
      match ws with
      | "run" :: _ =>
        match stepRun f ow false (op.drop 4).toString o af with
        | .ok f' => go ops' outs' (i + 1) f' (af || failed o)
        | .error e => ("", s!"op {i}: {e}", false)
      | "runx" :: _ =>
        match stepRun f ow true (op.drop 5).toString o af with
        | .ok f' => go ops' outs' (i + 1) f' (af || failed o)
        | .error e => ("", s!"op {i} (a user function fails): {e}", false)
      | "runfailw" :: k :: _ =>
        match stepRun f ow true (joinWith " " (ws.drop 2)) o af with
        | .ok f' => go ops' outs' (i + 1) f' (af || failed o)
        | .error e => ("", s!"op {i} (writes from file operation {k} on fail): {e}", false)
      | "runfailp" :: k :: _ =>
        match stepRun f ow true (joinWith " " (ws.drop 2)) o af with
        | .ok f' => go ops' outs' (i + 1) f' (af || failed o)
        | .error e => ("", s!"op {i} (file operations from {k} on fail): {e}", false)
      | "runfail" :: k :: _ =>
        match stepRun f ow true (joinWith " " (ws.drop 2)) o af with
        | .ok f' => go ops' outs' (i + 1) f' (af || failed o)
        | .error e => ("", s!"op {i} (file operation {k} fails): {e}", false)
      | ["rm", name, q] =>
        go ops' outs' (i + 1) (f.filter (fun e => e.1 != (name, toNat! q)), ow) af
      | _ => ("", s!"bad op {op}", false)
    | _ :: _, [] => ("", s!"op {i} was not run", false)
  go ops outs 0 ([], [])

end Driver.C13
