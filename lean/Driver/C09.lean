import BS.Model.KV
import BS.Model.Table
import BS.Model.Merge
import BS.Model.MergeErr
import BS.Model.Part
import Driver.C17
namespace Driver.C09
open BS.KV Driver

def parseKVs (ws : List String) : List KV := ws.map fun t => match splitOn1 t ':' with
  | [a, b] => (toInt! a, toInt! b)
  | _ => (0, 0)

def showKV (r : KV) : String := s!"{r.1},{r.2}"

/-- the load threshold of a table of capacity `cap` (combiner.go:118) -/
def thr (cap : Nat) : Nat := 7 * cap / 10

/-- growth of the combining frame: every *new* key bumps `len`; when it exceeds the threshold the
capacity doubles (combiner.go:165-176) -/
def addKeys (keys : List Int) (seen : List Int) (len cap : Nat) : List Int × Nat × Nat :=
  keys.foldl (fun (acc : List Int × Nat × Nat) k =>
    let (seen, len, cap) := acc
    if seen.contains k then acc
    else
      let len := len + 1
      (k :: seen, len, if len > thr cap then cap * 2 else cap)) (seen, len, cap)

/-- `frame.HashWithSeed(i, hashSeed)` of an int64 key column (exec/combiner.go:43,154) -/
def cfHash (k : Int) : Nat := (BS.Part.hashRow 0x9acb0442 [.w64 (BS.Hash.intToU64 k)]).toNat

def showSlots (tb : BS.Table.T) : String :=
  joinWith "," ((List.range tb.cap).filterMap fun i => (tb.slots i).map fun kv => s!"{i}:{kv.1}:{kv.2}")

def runCF (ws : List String) (ops : List (List String)) (obs : String) : String × String × Bool :=
  let cap0 := toNat! (ws.getD 1 "1")
  -- the hash table model is stepped row by row; `rows`/`seen`/`len`/`cap` are the independent list-level account
  let step (acc : List KV × List Int × Nat × Nat × Option BS.Table.T × List String) (op : List String) :=
    let (rows, seen, len, cap, tb, outs) := acc
    match op with
    | "combine" :: kvs =>
      let new := parseKVs kvs
      let (seen, len, cap) := addKeys (new.map (·.1)) seen len cap
      let tb := tb.bind fun t => BS.Table.combineAll (· + ·) cfHash t new
      let slots := match tb with | some t => showSlots t | none => "TABLE-FULL"
      (rows ++ new, seen, len, cap, tb, outs ++ [s!"len={len} cap={cap} thr={thr cap} slots={slots}"])
    | ["compact"] =>
      let m := foldMap (· + ·) rows
      ([], [], 0, cap, tb.map (fun t => BS.Table.empty t.cap), outs ++ [s!"rows={joinWith ";" (m.map showKV)} len=0"])
    | _ => acc
  let (_, _, _, _, _, outs) := ops.foldl step ([], [], 0, cap0, some (BS.Table.empty cap0), [s!"thr={thr cap0}"])
  let model := joinWith " # " outs
  -- the property speaks about the rows; length/capacity/threshold are compared as the tie only
  let rowsOf (s : String) : List String := (s.splitOn " # ").filterMap fun seg =>
    if seg.startsWith "rows=" then some ((words seg).headD "") else none
  let oracle := if rowsOf model == rowsOf obs then "ok"
    else "compacted rows are not one correctly folded row per key"
  (model, oracle, model == obs)

def runCB (ops : List (List String)) (obs : String) : String × String × Bool :=
  let rows := (ops.filter fun op => op.head? == some "combine").flatMap fun op => parseKVs (op.drop 1)
  let want := (foldMap (· + ·) rows).map showKV
  let model := "rows=" ++ joinWith ";" want
  let segs := obs.splitOn " # "
  let hasReader := ops.any fun op => op.head? == some "reader"
  let dirs := segs.getLast?.getD ""
  if dirs != "spilldirs=0" then (model, s!"temporary spill files were left behind ({dirs})", false)
  else if segs.any (fun s => s == "combineerr" || s == "readererr" || s == "discarderr" || s == "newerr") then
    (model, "combiner operation failed", false)
  else if !hasReader then (model, "ok", true)
  else
    let (o, s) := C17.judge "combiner" false true want (segs.headD "")
    (model, o, s)

def run (c obs : String) : String × String × Bool :=
  match (splitOn1 c ';').map words with
  | h :: ops =>
    -- "CBT <kind> …": the same combiner over another key type (keys shown converted back): judged like CB
    if h.head? == some "CF" then runCF h (ops.filter (!·.isEmpty)) obs
    else runCB (ops.filter (!·.isEmpty)) obs
  | [] => ("bad-case", "bad-case", false)

/-! C10 -/
def run10 (c obs : String) : String × String × Bool :=
  match splitOn1 c ';' with
  | [] => ("bad-case", "bad-case", false)
  | h :: rest =>
    let head := words h
    let ups := (rest.map words).filter (fun ws => ws.head? == some "IN") |>.map fun ws =>
      parseKVs ((ws.drop 1).takeWhile (· ≠ "SCRIPT"))
    let failing := (((obs.splitOn " | injected=").getD 1 "0").takeWhile (· != ' ')).toString != "0"
    let body := (obs.splitOn " | spilldirs=").getD 0 ""
    let dirs := ((((obs.splitOn " | spilldirs=").getD 1 "?").splitOn " | ").getD 0 "?")
    let kind := head.headD ""
    -- the order among rows with equal keys is not specified: compare keys in order, rows as a multiset
    let (want, keysWant) : List String × List Int := match kind with
      | "sort" => let s := sortKV (ups.headD []); (s.map showKV, s.map (·.1))
      | "merge" =>
        -- the merge reader machine (BS.Merge.mrun, first least cursor) on sorted streams; the list merge otherwise
        let sorted := ups.all fun s => (s.zip (s.drop 1)).all fun (a, b) => a.1 ≤ b.1
        let s := if sorted then BS.Merge.mrun BS.Merge.leftmost ups.flatten.length ups else mergeAll ups
        (s.map showKV, s.map (·.1))
      | _ =>
        -- the reduce-merge machine (BS.Merge) on strictly sorted streams, the keyed fold otherwise (equal: run_spec)
        let strict := ups.all fun s => (s.zip (s.drop 1)).all fun (a, b) => a.1 < b.1
        let s := if strict then BS.Merge.run (· + ·) (ups.flatten.length + 1) ups else reduceAll (· + ·) ups
        (s.map showKV, s.map (·.1))
    let model := "rows=" ++ joinWith ";" want
    if dirs != "0" then (model, s!"spill files outlive the reader's creation (spilldirs={dirs})", false) else
    let (o, s) := C17.judge kind failing false want body
    if !s then (model, o, false) else
    -- a failing input of the reduce-merge: exactly the rows `BS.Merge.ereduce` delivers before it reports the error
    let scripts := (rest.map words).filter (fun ws => ws.head? == some "IN") |>.map fun ws =>
      (ws.dropWhile (· ≠ "SCRIPT")).drop 1
    let goodOf (sc : List String) : Option Nat :=
      let pre := sc.takeWhile fun t => t != "err" && t != "tmp"
      if pre.length == sc.length then none
      else some ((pre.map fun t => toNat! (if t.endsWith "e" then (t.dropEnd 1).toString else t)).sum)
    let strictIn := ups.all fun s => (s.zip (s.drop 1)).all fun (a, b) => a.1 < b.1
    if kind == "reduce" && failing && strictIn then
      let ess : List BS.Merge.ES := (ups.zip (scripts ++ List.replicate ups.length [])).map fun (rows, sc) =>
        match goodOf sc with
        | some g => if g < rows.length then ⟨rows.take g, true⟩ else ⟨rows, false⟩
        | none => ⟨rows, false⟩
      let r := BS.Merge.ereduce (· + ·) (ups.flatten.length + 1) ess
      let gotRows := ((((body.splitOn " | ").getD 1 "").drop 5).toString.splitOn ";").filter (· ≠ "")
      let m2 := "rows=" ++ joinWith ";" (r.1.map showKV) ++ (if r.2 then " | error" else " | eof")
      if r.2 && gotRows != r.1.map showKV then (m2, "ok", false) else (m2, "ok", true)
    else
    -- key order
    let got := ((((body.splitOn " | ").getD 1 "").drop 5).toString.splitOn ";").filter (· ≠ "")
    let gotKeys := got.map fun r => toInt! ((splitOn1 r ',').headD "0")
    if !failing && gotKeys != keysWant then (model, "rows are not in non-decreasing key order", false)
    else (model, "ok", true)

end Driver.C09
