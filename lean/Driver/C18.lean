import BS.Model.Typecheck
import Driver.Util
namespace Driver.C18
open BS.Typecheck Driver

partial def parseTy (s : String) : Ty :=
  if s.startsWith "[]" then .slice (parseTy (s.drop 2).toString)
  else match s with
    | "int" => .int | "i64" => .i64 | "str" => .str | "bool" => .bool | "f64" => .f64 | "err" => .err
    | "S" => .strct | "I" => .iface | "H" => .honly | "L" => .lonly | _ => .impl

partial def showTy : Ty → String
  | .int => "int" | .i64 => "i64" | .str => "str" | .bool => "bool" | .f64 => "f64" | .err => "err"
  | .strct => "S" | .iface => "I" | .impl => "T" | .honly => "H" | .lonly => "L" | .slice t => "[]" ++ showTy t

def parseTys (s : String) : List Ty := if s == "" || s == "-" then [] else (splitOn1 s ',').map parseTy

def kv (ws : List String) (k : String) : String :=
  ((ws.find? fun w => w.startsWith (k ++ "=")).map fun w => (w.drop (k.length + 1)).toString).getD ""

def run (c obs : String) : String × String × Bool :=
  let parts := (splitOn1 c ';').map words |>.filter (!·.isEmpty)
  match parts with
  | [] => ("bad-case", "bad-case", false)
  | head :: rest =>
    let slices : List (STy × Nat) := (rest.filter fun ws => ws.head? == some "S").map fun ws =>
      (⟨parseTys (ws.getD 1 ""), toNat! (ws.getD 3 "1")⟩, toNat! (ws.getD 5 "1"))
    let fnw := rest.find? fun ws => ws.head? == some "F"
    let notFn := rest.any fun ws => ws.head? == some "NF"
    let fn : Option Fn := fnw.map fun ws => ⟨parseTys (kv ws "in"), parseTys (kv ws "out"), kv ws "var" == "1"⟩
    let s0 := (slices.headD (⟨[], 1⟩, 1)).1
    let n0 := (slices.headD (⟨[], 1⟩, 1)).2
    let withFn (f : Fn → Option STy) : Option STy := if notFn then none else fn.bind f
    let res : Option (STy × Nat) := match head with
      | ["map"] => (withFn (checkMap s0)).map (·, n0)
      | ["filter"] => (withFn (checkFilter s0)).map (·, n0)
      | ["flatmap"] => (withFn (checkFlatmap s0)).map (·, n0)
      | ["fold"] => (withFn (checkFold s0)).map (·, n0)
      | ["reduce"] => (withFn (checkReduce s0)).map (·, n0)
      | ["readerfunc", n] => (withFn checkReaderFunc).map (·, toNat! n)
      | ["writerfunc"] => (withFn (checkWriterFunc s0)).map (·, n0)
      | ["repartition"] => (withFn (checkRepartition s0)).map (·, n0)
      | ["reshuffle"] => (checkReshuffle s0).map (·, n0)
      | ["reshard", n] => (checkReshuffle s0).map (·, toNat! n)
      | ["prefixed", p] => (checkPrefixed s0 (toNat! p)).map (·, n0)
      | ["cogroup"] => (checkCogroup (slices.map (·.1))).map (·, (slices.map (·.2)).foldl max 0)
      | ["head", _] => some (s0, n0)
      | _ => none
    let model := match res with
      | some (s, n) => s!"accept out={joinWith "," (s.cols.map showTy)} prefix={s.pfx} shards={n}"
      | none => "typeerr here=1"
    let oracle :=
      if obs == model then "ok"
      else if obs.startsWith "panic" then "constructor panicked with something other than a typecheck error"
      else if obs == "typeerr here=0" && model.startsWith "typeerr" then "typecheck error is not attributed to the caller's source location"
      else if obs.startsWith "accept" && model.startsWith "typeerr" then "constructor accepted a combination outside its documented schema"
      else if obs.startsWith "typeerr" then "constructor rejected a combination that fits its documented schema"
      else "returned slice does not have the documented columns, key prefix or shard count"
    (model, oracle, obs == model)

end Driver.C18
