#!/usr/bin/env python3
"""uncovered.py [file-substring…]  — lists the statement blocks of the repository that no generated case reached, from
.cache/coverage.txt (written by tools/coverage.sh).  A survey aid, not a check."""
import sys, re, collections, os
blocks = collections.defaultdict(int)
stm = {}
for line in open(os.path.join(os.path.dirname(__file__), "..", ".cache", "coverage.txt")):
    m = re.match(r"(\S+):(\d+)\.(\d+),(\d+)\.(\d+) (\d+) (\d+)", line)
    if not m:
        continue
    key = (m.group(1), int(m.group(2)), int(m.group(4)))
    blocks[key] += int(m.group(7))
    stm[key] = int(m.group(6))
want = sys.argv[1:]
byfile = collections.defaultdict(list)
for (f, a, b), c in blocks.items():
    if c == 0 and "zz_" not in f:
        byfile[f].append((a, b, stm[(f, a, b)]))
for f in sorted(byfile):
    short = f.replace("github.com/grailbio/bigslice/", "")
    if want and not any(w in short for w in want):
        continue
    tot = sum(1 for k in blocks if k[0] == f)
    print("== %s: %d of %d blocks never reached" % (short, len(byfile[f]), tot))
    src = None
    try:
        src = open("/repo/" + short).read().split("\n")
    except OSError:
        pass
    for a, b, n in sorted(byfile[f]):
        text = src[a - 1].strip()[:110] if src and a <= len(src) else ""
        print("   %4d-%-4d %s" % (a, b, text))
