#!/usr/bin/env python3
"""survey.py <PID> [tier] [sub]: run all generated cases in the debug work copy and tabulate the oracle verdicts."""
import sys, os, collections, importlib
sys.path.insert(0, os.path.dirname(os.path.abspath(__file__)))
import vlib, check
pid = sys.argv[1]; tier = sys.argv[2] if len(sys.argv) > 2 else "quick"; sub = sys.argv[3] if len(sys.argv) > 3 else None
mod = importlib.import_module("props." + pid.lower())
ROOT = "/var/tmp/verif-dbg"
w = vlib.WorkCopy.__new__(vlib.WorkCopy)
w.root = ROOT; w.repo = ROOT + "/repo"; w.tmp = ROOT + "/tmp"; w.env = dict(os.environ); w.env.update(vlib.GOENV); w.env["TMPDIR"] = w.tmp
w.env.setdefault("GOCACHE", os.path.join(vlib.VERIF, ".cache", "gocache")); w.bin = ROOT + "/bsharness"
r = vlib.SplitMix(vlib.seed_from_env()).fork()
cases = list(mod.gen(r, tier, sub) if sub else mod.gen(r, tier))
res = check.run_cases(w, pid, cases, sub=sub, timeout=3000, par=getattr(mod, "PARALLEL", {}).get(sub or pid, 1))
cnt = collections.Counter(); ex = {}
for c, (obs, model, oracle, same) in zip(cases, res):
    key = (oracle if oracle != "ok" else ("ok" if same else "ok-but-differs"))[:90]
    cnt[key] += 1
    ex.setdefault(key, []).append((c, obs))
for k, v in cnt.most_common():
    print(v, k)
    for c, o in ex[k][:int(os.environ.get("NEX", "2"))]:
        print("     ", c[:260]); print("       ->", o[:360])
