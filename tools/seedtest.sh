#!/bin/bash
# seedtest.sh <seeded-dir> <check-id>...   applies the seeded change to /repo, runs the quick checks, undoes it.
# Prints one line per check: CAUGHT / MISSED.
set -u
D=$1; shift
cd /repo || exit 2
if [ -n "$(git status --porcelain)" ]; then echo "/repo is not clean"; exit 2; fi
git apply "$D/patch.diff" || { echo "patch does not apply"; exit 2; }
trap 'git -C /repo checkout -- . ' EXIT
cd /verif
for p in "$@"; do
  out=$(VERIF_TIER=${TIER:-quick} python3 tools/check.py $p --tier ${TIER:-quick} 2>&1 | grep -v "^KNOWN-FINDING" | tail -4)
  if echo "$out" | grep -q "^VIOLATION"; then
    r=$(echo "$out" | grep "^VIOLATION" | head -1 | sed 's/.*replay=//; s/ .*//')
    echo "CAUGHT $p $(basename $D): $(python3 -c "import json,sys; d=json.load(open('$r')); print((d.get('oracle') or d.get('error') or d.get('theorem') or '')[:160].replace(chr(10),' '))")"
  else
    echo "MISSED $p $(basename $D): $(echo "$out" | tail -1 | cut -c1-100)"
  fi
done
