#!/bin/bash
# seedtest.sh <seeded-dir> <check-id>...   runs the quick checks against a scratch copy of /repo's working tree that carries the
# seeded change (VERIF_REPO), writing evidence and replays under the scratch directory (VERIF_OUT): /repo, /verif/evidence and
# /verif/replays are not touched, so registered checks may run at the same time.  Prints one line per check: CAUGHT / MISSED.
set -u
D=$1; shift
S=$(mktemp -d /var/tmp/verif-seed-XXXXXX)
trap 'rm -rf "$S"' EXIT
rsync -a --exclude .git /repo/ "$S/repo/"
( cd "$S/repo" && git apply "$D/patch.diff" ) || { echo "patch does not apply"; exit 2; }
cd /verif
for p in "$@"; do
  out=$(VERIF_REPO="$S/repo" VERIF_OUT="$S/out" VERIF_TIER=${TIER:-quick} python3 tools/check.py $p --tier ${TIER:-quick} 2>&1 | grep -v "^KNOWN-FINDING" | tail -4)
  if echo "$out" | grep -q "^VIOLATION"; then
    r=$(echo "$out" | grep "^VIOLATION" | head -1 | sed 's/.*replay=//; s/ .*//')
    echo "CAUGHT $p $(basename $D): $(python3 -c "import json,sys; d=json.load(open('$r')); print((d.get('oracle') or d.get('error') or d.get('theorem') or '')[:160].replace(chr(10),' '))")"
  else
    echo "MISSED $p $(basename $D): $(echo "$out" | tail -1 | cut -c1-100)"
  fi
done
