"""Generator of programs in the shared program language (Go: harness/bsharness/prog.go, Lean: BS.Model.Prog)."""

MAPS = ["inc", "swap", "id", "mod3", "mod5"]
PMAPS = ["pid", "pinc"]
PREDS = ["kmod3", "vodd", "none", "all"]


def rows(r, maxn=20, keys=8):
    n = r.choice([0, 1, 2, 3, 5, 8, 13, r.rng(0, maxn)])
    if maxn > 100:
        # sizes straddling the internal vector size (128 rows) and its multiples, with enough distinct keys
        n = r.choice([127, 128, 129, 130, 200, 255, 256, 257, 300, 384, 512, r.rng(100, 400)])
        keys = r.choice([8, 40, 200, 1000])
    return " ".join("%d:%d" % (min(r.below(keys), r.below(keys)) if r.chance(1, 2) else r.below(keys), r.rng(0, 30)) for _ in range(n))


def gen_program(r, maxnodes=8, results=(), allow=None, big=False, e2e=False, result_ordered=()):
    """returns program text; `results` = shard counts of available results (R0, R1).
    With e2e=True the program is meant to be run: Head is applied only where the row order is fixed,
    WriterFunc/count/Scan only wrap the output (so they are computed by exactly one task per shard)."""
    nodes = []      # (name, nshard)
    stmts = []
    ordered = {}
    for i, o in enumerate(result_ordered):
        ordered["R%d" % i] = o
    pfx2 = set()    # nodes whose key prefix is 2 (below a reshuffle2): Reduce/Cogroup do not type-check on them

    def src():
        if results and (r.chance(1, 3) or not nodes):
            k = r.below(len(results))
            return "R%d" % k, results[k]
        if not nodes:
            return None, None
        # prefer recent nodes; sometimes share an old one
        k = len(nodes) - 1 if r.chance(2, 3) else r.below(len(nodes))
        return nodes[k]

    def add(opname, text, nshard, srcs=()):
        name = "N%d" % len(nodes)
        stmts.append("%s=%s" % (name, text))
        nodes.append((name, nshard))
        if opname in ("const", "reader", "lines", "reduce", "cogroup"):
            ordered[name] = True
        elif opname in ("fold", "reshuffle", "reshuffle2", "repartition", "reshard"):
            ordered[name] = False
        else:
            ordered[name] = all(ordered.get(s, True) for s in srcs)
        # a slice inherits the key prefix of its (first) argument; Map over Prefixed(src, 2) ("p…" functions) has prefix 2
        fn = text.split()[2] if opname.startswith("map") else ""
        if fn.startswith("q"):
            pass        # Map over Prefixed(src, 1)
        elif opname == "reshuffle2" or (any(s in pfx2 for s in srcs) and opname not in ("reduce", "cogroup")) or fn.startswith("p"):
            pfx2.add(name)

    nn = r.rng(1, maxnodes)
    for i in range(nn):
        s, sh = src()
        k = r.below(100)
        if s is None or k < 12:
            nshard = r.rng(1, 4)
            kk = r.below(10)
            if kk < 6:
                add("const", "const %d %s" % (nshard, rows(r, 150 if big else 20)), nshard)
            elif kk < 9:
                add("reader", "reader %d %d %s" % (nshard, r.rng(1, 5) + (10 if r.chance(1, 3) else 0), rows(r, 150 if big else 20)), nshard)
            else:
                add("lines", "lines %d %d" % (nshard, r.rng(0, 9)), nshard)
            continue
        if allow and k >= 12:
            pass
        if k < 30:
            kind = r.choice(["map", "map", "map", "mapm", "mapp", "mapx"])
            # "p…": the function applied to Prefixed(src, 2); mostly directly over a result argument
            fn = r.choice(PMAPS) if r.chance(1, 2 if s.startswith("R") else 8) else r.choice(MAPS)
            if kind == "mapp":
                add(kind, "mapp %s %s %d" % (s, fn, r.rng(1, 3)), sh, (s,))
            else:
                add(kind, "%s %s %s" % (kind, s, fn), sh, (s,))
        elif k < 38:
            add("filter", "filter %s %s" % (s, r.choice(PREDS)), sh, (s,))
        elif k < 45:
            add("flatmap", "flatmap %s %s" % (s, r.choice(["dup", "two"])), sh, (s,))
        elif k < 50:
            if s in pfx2:
                # the model's keyed operators are written for a one-column key: over a prefix-2 slice only reshuffle2 is used
                add("map", "map %s id" % s, sh, (s,))
            else:
                add("fold", "fold %s" % s, sh, (s,))
        elif k < 55:
            if e2e and not ordered.get(s, True):
                add("filter", "filter %s all" % s, sh, (s,))
            else:
                add("head", "head %s %d" % (s, r.choice([0, 1, 2, 5])), sh, (s,))
        elif k < 68:
            if s in pfx2:
                add("map", "map %s %s" % (s, r.choice(["id", "qid"])), sh, (s,))
            else:
                add("reduce", "reduce %s %s" % (s, r.choice(["add", "max"])), sh)
        elif k < 76:
            s2, sh2 = src()
            if s2 is None:
                s2, sh2 = s, sh
            if s in pfx2 or s2 in pfx2:
                add("filter", "filter %s all" % s, sh, (s,))
            else:
                add("cogroup", "cogroup %s %s" % (s, s2), max(sh, sh2))
        elif k < 82:
            kind = r.choice(["reshuffle", "reshuffle", "reshuffle2"] if not s.startswith("R") else ["reshuffle", "reshuffle2"])
            if s in pfx2:
                kind = "reshuffle2"
            add(kind, "%s %s" % (kind, s), sh, (s,))
        elif k < 87:
            add("repartition", "repartition %s %s" % (s, r.choice(["byval", "zero"])), sh, (s,))
        elif k < 93:
            m = r.rng(1, 5) if s not in pfx2 else sh
            add("reshard", "reshard %s %d" % (s, m), m, (s,))
            if m == sh:
                ordered[nodes[-1][0]] = ordered.get(s, True)   # Reshard returns its argument
        elif k < 97:
            if e2e:
                add("map", "map %s id" % s, sh, (s,))
            else:
                add("writer", "writer %s" % s, sh, (s,))
        else:
            if e2e:
                add("filter", "filter %s vodd" % s, sh, (s,))
            else:
                add("count", "count %s %d" % (s, r.below(3)), sh, (s,))
    out = nodes[-1][0] if r.chance(4, 5) else r.choice(nodes)[0]
    if out in pfx2:
        # a result has key prefix 1: Map over Prefixed(out, 1)
        name = "N%d" % len(nodes)
        stmts.append("%s=map %s %s" % (name, out, r.choice(["qid", "qid", "qinc"])))
        nodes.append((name, dict(nodes)[out]))
        ordered[name] = ordered.get(out, True)
        out = name
    if e2e and r.chance(1, 4):
        kind = r.choice(["count", "count", "writer", "scan"])
        name = "N%d" % len(nodes)
        if kind == "count":
            stmts.append("%s=count %s %d" % (name, out, r.below(3)))
        else:
            stmts.append("%s=%s %s" % (name, kind, out))
        nodes.append((name, dict(nodes)[out]))
        ordered[name] = ordered.get(out, True)
        out = name
    if e2e:
        return " ; ".join(stmts) + " ; OUT " + out, dict(nodes)[out], ordered.get(out, True), stmts[-1].split("=")[1].startswith("scan")
    return " ; ".join(stmts) + " ; OUT " + out, dict(nodes)[out]
