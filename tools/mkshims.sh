#!/bin/bash
# Build the private, patched copies of grailbio/base v0.0.9 and bigmachine v0.5.8
# under /verif/.cache/shims (DESIGN.md §2 F1, Appendix A).  Idempotent.
set -euo pipefail
V=$(cd "$(dirname "$0")/.." && pwd)
S=$V/.cache/shims
MC=$(go env GOMODCACHE 2>/dev/null || echo /root/go/pkg/mod)
if [ -f "$S/.ok" ]; then exit 0; fi
rm -rf "$S"; mkdir -p "$S"
cp -r "$MC/github.com/grailbio/base@v0.0.9" "$S/base"
cp -r "$MC/github.com/grailbio/bigmachine@v0.5.8" "$S/bigmachine"
chmod -R u+w "$S"
cp $V/harness/compat/base_errors_cleanup_compat.go "$S/base/errors/cleanup_compat.go"
cp $V/harness/compat/base_retry_maxretries_compat.go "$S/base/retry/maxretries_compat.go"
cp $V/harness/compat/base_limitbuf_compat.go "$S/base/limitbuf/compat.go"
cp $V/harness/compat/testsystem_rpchook.go "$S/bigmachine/testsystem/rpchook_verif.go"
python3 - "$S" <<'PY'
import sys,re
S=sys.argv[1]
p=S+'/base/limitbuf/limitbuf.go'
t=open(p).read()
assert 'func NewLogger(maxLen int) *Logger' in t
t=t.replace('func NewLogger(maxLen int) *Logger','func NewLogger(maxLen int, opts ...LoggerOption) *Logger')
open(p,'w').write(t)
p=S+'/bigmachine/rpc/client.go'
t=open(p).read()
old='\tcase io.Reader:\n\t\tbody = arg\n'
assert old in t
new='\tcase func() (io.Reader, error):\n\t\tr, rerr := arg()\n\t\tif rerr != nil {\n\t\t\treturn rerr\n\t\t}\n\t\tbody = r\n\t\tcontentType = "application/octet-stream"\n'+old
t=t.replace(old,new,1)
open(p,'w').write(t)
# testsystem: route every RPC through the kill hook (harness/compat/testsystem_rpchook.go)
p=S+'/bigmachine/testsystem/testsystem.go'
t=open(p).read()
old='\t\tmux.Handle(bigmachine.RpcPrefix, server)\n\t\thttpServer := httptest.NewServer(mux)\n\t\tm := &bigmachine.Machine{'
assert old in t, "testsystem.Start changed"
new='\t\tvar m *bigmachine.Machine\n\t\tmux.Handle(bigmachine.RpcPrefix, hookHandler{s, &m, server})\n\t\thttpServer := httptest.NewServer(mux)\n\t\tm = &bigmachine.Machine{'
t=t.replace(old,new,1)
# a killed machine keeps its port and aborts every connection (no address reuse while the driver holds the old address)
old='\tm.Cancel()\n\tm.Server.CloseClientConnections()\n\tm.Server.Close()\n\tm.Server.Listener.Close()\n\tm.Server.Config.SetKeepAlivesEnabled(false)\n'
assert old in t, "testsystem machine.Kill changed"
new='\tm.Cancel()\n\tmarkDead(m.Machine.Addr)\n\tm.Server.CloseClientConnections()\n\tm.Server.Config.SetKeepAlivesEnabled(false)\n'
t=t.replace(old,new,1)
open(p,'w').write(t)
PY
# bigmachine must itself use the patched base
cd "$S/bigmachine"
if ! grep -q 'replace github.com/grailbio/base' go.mod; then
  printf '\nreplace github.com/grailbio/base => %s/base\n' "$S" >> go.mod
fi
touch "$S/.ok"
