#!/usr/bin/env python3
"""Interactive helper: keeps one work copy in /var/tmp/verif-dbg and runs the harness and driver on given cases.
usage: dbg.py build | run <sub> <case...>(one per line on stdin) | clean"""
import sys, os, shutil, subprocess
sys.path.insert(0, os.path.dirname(os.path.abspath(__file__)))
import vlib

ROOT = "/var/tmp/verif-dbg"

def wc():
    w = vlib.WorkCopy.__new__(vlib.WorkCopy)
    w.root = ROOT
    w.repo = ROOT + "/repo"
    w.tmp = ROOT + "/tmp"
    w.env = dict(os.environ); w.env.update(vlib.GOENV); w.env["TMPDIR"] = w.tmp
    w.env.setdefault("GOCACHE", os.path.join(vlib.VERIF, ".cache", "gocache"))
    w.bin = ROOT + "/bsharness"
    return w

cmd = sys.argv[1]
if cmd == "clean":
    subprocess.run(["chmod", "-R", "u+w", ROOT]); shutil.rmtree(ROOT, ignore_errors=True)
elif cmd == "build":
    subprocess.run(["chmod", "-R", "u+w", ROOT]); shutil.rmtree(ROOT, ignore_errors=True)
    os.makedirs(ROOT + "/tmp")
    w = wc(); w.build(); w.build_harness(); print("built", w.bin)
elif cmd == "run":
    sub = sys.argv[2]
    text = sys.stdin.read()
    w = wc()
    p = w.run_harness(["run", sub], input_text=text, timeout=600)
    print("RC", p.returncode); print(p.stdout if os.environ.get("FULL") else p.stdout[-6000:]); print(p.stderr[-int(os.environ.get("ERRTAIL", "6000")):])
