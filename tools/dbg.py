#!/usr/bin/env python3
"""Interactive helper: keeps one work copy in /var/tmp/verif-dbg and runs the harness and driver on given cases.
usage: dbg.py build | run <sub> <case...>(one per line on stdin) | clean"""
import sys, os, shutil, subprocess
sys.path.insert(0, os.path.dirname(os.path.abspath(__file__)))
import vlib

ROOT = "/var/tmp/verif-dbg"

def wc():
    w = vlib.WorkCopy.__new__(vlib.WorkCopy)
    w.root = ROOT
    w.repo = ROOT + "/repo"
    w.tmp = ROOT + "/tmp"
    w.env = dict(os.environ); w.env.update(vlib.GOENV); w.env["TMPDIR"] = w.tmp
    w.env.setdefault("GOCACHE", os.path.join(vlib.VERIF, ".cache", "gocache"))
    w.bin = ROOT + "/bsharness"
    return w

cmd = sys.argv[1]
if cmd == "clean":
    subprocess.run(["chmod", "-R", "u+w", ROOT]); shutil.rmtree(ROOT, ignore_errors=True)
elif cmd == "build":
    subprocess.run(["chmod", "-R", "u+w", ROOT]); shutil.rmtree(ROOT, ignore_errors=True)
    os.makedirs(ROOT + "/tmp")
    w = wc(); w.build(); w.build_harness(); print("built", w.bin)
elif cmd == "run":
    sub = sys.argv[2]
    text = sys.stdin.read()
    w = wc()
    p = w.run_harness(["run", sub], input_text=text, timeout=600)
    print("RC", p.returncode); print(p.stdout if os.environ.get("FULL") else p.stdout[-6000:]); print(p.stderr[-int(os.environ.get("ERRTAIL", "6000")):])
elif cmd == "judge":
    # run <sub> on the cases of stdin and print the model's verdict per case
    sub = sys.argv[2]
    cases = {}
    for line in sys.stdin.read().split("\n"):
        if line.strip():
            i, c = line.split(" ", 1)
            cases[i] = c
    w = wc()
    p = w.run_harness(["run", sub], input_text="".join("%s %s\n" % kv for kv in cases.items()), timeout=600)
    lines = ""
    for l in p.stdout.split("\n"):
        if "\t" in l:
            i, o = l.split("\t", 1)
            lines += "%s\t%s\t%s\n" % (i, cases[i], o)
    for l in vlib.run_driver([sub], lines).split("\n"):
        parts = l.split("\t")
        if len(parts) == 4:
            print(parts[0], parts[3], "|", parts[2][:300])
            if os.environ.get("FULL"):
                print("   model:", parts[1][:2000])
