#!/bin/bash
# Runs the pinned baseline suite against a scratch copy of /repo's working tree (never inside /repo itself:
# -mod=mod would rewrite go.mod/go.sum).  Prints the number of passing tests.
set -e
D=$(mktemp -d /var/tmp/verif-baseline-XXXXXX)
trap 'chmod -R u+w "$D" 2>/dev/null; rm -rf "$D"' EXIT
rsync -a --exclude .git /repo/ "$D/repo/"
cd "$D/repo"
export GOFLAGS=-mod=mod GOPROXY=off GOSUMDB=off GOTOOLCHAIN=local TMPDIR="$D"
go test -json -vet=off -count=1 -timeout 25m ./... 2>/dev/null > "$D/out.json" || true
python3 - "$D/out.json" <<'PY'
import json,sys
ok=set(); bad=set()
for l in open(sys.argv[1]):
    try: d=json.loads(l)
    except Exception: continue
    if d.get("Test"):
        k=d["Package"]+"::"+d["Test"]
        if d.get("Action")=="pass": ok.add(k)
        if d.get("Action")=="fail": bad.add(k)
base=set(json.load(open("/root/.vp/BASELINE.json"))["stable_pass"])
print("baseline tests passing: %d/%d; failing: %s" % (len(base&ok), len(base), sorted(bad)))
sys.exit(0 if base<=ok else 1)
PY
