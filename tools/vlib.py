"""Shared machinery for /verif checks (DESIGN.md §3, §4).

A check = proofs (lake build + axiom audit) + tie T2 (facts regenerated from the
work copy, re-checked by Lean) + tie T1 (real code vs Lean model/oracle on the
same cases) + verdict.
"""
import fcntl
import hashlib
import json
import os
import re
import shutil
import subprocess
import sys
import tempfile
import time

VERIF = os.path.dirname(os.path.dirname(os.path.abspath(__file__)))
REPO = os.environ.get("VERIF_REPO", "/repo")
# where evidence/ and replays/ are written: /verif, unless a seeded-change test redirects them ($VERIF_OUT)
OUT = os.environ.get("VERIF_OUT") or None
LEAN_DIR = os.path.join(VERIF, "lean")
SHIMS = os.path.join(VERIF, ".cache", "shims")
GOENV = {
    "GOFLAGS": "-mod=mod",
    "GOPROXY": "off",
    "GOSUMDB": "off",
    "GOTOOLCHAIN": "local",
}
ALLOWED_AXIOMS = {"propext", "Classical.choice", "Quot.sound"}


def log(*a):
    print(*a, file=sys.stderr, flush=True)


class SplitMix:
    """One PRNG stream; every random choice of a run derives from VERIF_SEED."""

    def __init__(self, seed):
        self.s = seed & 0xFFFFFFFFFFFFFFFF

    def next(self):
        self.s = (self.s + 0x9E3779B97F4A7C15) & 0xFFFFFFFFFFFFFFFF
        z = self.s
        z = ((z ^ (z >> 30)) * 0xBF58476D1CE4E5B9) & 0xFFFFFFFFFFFFFFFF
        z = ((z ^ (z >> 27)) * 0x94D049BB133111EB) & 0xFFFFFFFFFFFFFFFF
        return z ^ (z >> 31)

    def below(self, n):
        return self.next() % n if n > 0 else 0

    def rng(self, lo, hi):
        return lo + self.below(hi - lo + 1)

    def choice(self, xs):
        return xs[self.below(len(xs))]

    def chance(self, num, den):
        return self.below(den) < num

    def fork(self):
        return SplitMix(self.next())


def seed_from_env():
    try:
        return int(os.environ.get("VERIF_SEED", "1"))
    except ValueError:
        return 1


# --------------------------------------------------------------------------
# work copy


class WorkCopy:
    """A patched scratch copy of /repo's *working tree* (never /repo itself)."""

    def __init__(self, tag="bs"):
        base = "/var/tmp"
        os.makedirs(base, exist_ok=True)
        self.root = tempfile.mkdtemp(prefix="verif-%s-" % tag, dir=base)
        self.repo = os.path.join(self.root, "repo")
        self.tmp = os.path.join(self.root, "tmp")
        os.makedirs(self.tmp)
        self.env = dict(os.environ)
        self.env.update(GOENV)
        self.env["TMPDIR"] = self.tmp
        self.env.setdefault("GOCACHE", os.path.join(VERIF, ".cache", "gocache"))
        self.bin = None

    def build(self):
        subprocess.run([os.path.join(VERIF, "tools", "mkshims.sh")], check=True)
        subprocess.run(
            ["rsync", "-a", "--exclude", ".git", REPO + "/", self.repo + "/"], check=True
        )
        # go.mod: go 1.17 + replaces (Appendix A)
        gm = os.path.join(self.repo, "go.mod")
        t = open(gm).read()
        t = re.sub(r"(?m)^go 1\.\d+\s*$", "go 1.17", t, count=1)
        t += "\nreplace github.com/grailbio/base => %s/base\n" % SHIMS
        t += "replace github.com/grailbio/bigmachine => %s/bigmachine\n" % SHIMS
        open(gm, "w").write(t)
        # exec/config.go: de-genericise the config constructor
        cf = os.path.join(self.repo, "exec", "config.go")
        if os.path.exists(cf):
            t = open(cf).read()
            t = t.replace("*config.Constructor[*Session]", "*config.Constructor")
            t = t.replace("func() (*Session, error)", "func() (interface{}, error)")
            open(cf, "w").write(t)
        # inject accessors and the harness
        inj = os.path.join(VERIF, "harness", "inject")
        for dirpath, _, files in os.walk(inj):
            rel = os.path.relpath(dirpath, inj)
            for f in files:
                dst = os.path.join(self.repo, rel)
                os.makedirs(dst, exist_ok=True)
                shutil.copy(os.path.join(dirpath, f), os.path.join(dst, f))
        hdst = os.path.join(self.repo, "cmd", "zz_bsharness")
        shutil.copytree(os.path.join(VERIF, "harness", "bsharness"), hdst)
        return self

    def go(self, args, **kw):
        return subprocess.run(["go"] + args, cwd=self.repo, env=self.env, **kw)

    def build_harness(self, race=False):
        out = os.path.join(self.root, "bsharness" + ("-race" if race else ""))
        args = ["build", "-tags", "verif", "-o", out]
        if race:
            args.append("-race")
        if os.environ.get("VERIF_COVERDIR") and not race:
            # coverage survey (tools/coverage.sh): which statements of the repository do the generated cases reach
            args += ["-cover", "-coverpkg=github.com/grailbio/bigslice/..."]
        args.append("./cmd/zz_bsharness")
        p = self.go(args, capture_output=True, text=True)
        if p.returncode != 0:
            raise BuildError(p.stdout + p.stderr)
        if not race:
            self.bin = out
        return out

    def run_harness(self, args, input_text=None, timeout=600, binary=None, extra_env=None):
        env = dict(self.env)
        env.setdefault("GOMEMLIMIT", "6GiB")
        env.setdefault("VERIF_HANGDIR", os.path.join(OUT or VERIF, "replays", "hangs"))
        env.setdefault("VERIF_CASE_LIMIT", "240")
        if os.environ.get("VERIF_COVERDIR"):
            env["GOCOVERDIR"] = os.environ["VERIF_COVERDIR"]
        if extra_env:
            env.update(extra_env)
        p = subprocess.run(
            [binary or self.bin] + args,
            input=input_text,
            capture_output=True,
            text=True,
            cwd=self.root,
            env=env,
            timeout=timeout,
        )
        return p

    def cleanup(self):
        subprocess.run(["chmod", "-R", "u+w", self.root], check=False)
        shutil.rmtree(self.root, ignore_errors=True)

    def __enter__(self):
        return self

    def __exit__(self, *a):
        self.cleanup()


class BuildError(Exception):
    pass


# --------------------------------------------------------------------------
# Lean side


def _lake_lock():
    os.makedirs(os.path.join(VERIF, ".cache"), exist_ok=True)
    f = open(os.path.join(VERIF, ".cache", "lake.lock"), "w")
    fcntl.flock(f, fcntl.LOCK_EX)
    return f


def lake_build(targets, timeout=3000):
    """Returns (ok, output).  Serialised: several checks may run concurrently."""
    lk = _lake_lock()
    try:
        p = subprocess.run(
            ["lake", "build"] + list(targets),
            cwd=LEAN_DIR,
            capture_output=True,
            text=True,
            timeout=timeout,
        )
        return p.returncode == 0, p.stdout + p.stderr
    finally:
        lk.close()


def lean_run_file(path, timeout=1200, args=None, input_text=None):
    """`lake env lean <file>` (elaborate+kernel check one file outside the lake tree)."""
    cmd = ["lake", "env", "lean"]
    if args is not None:
        cmd += ["--run", path] + list(args)
    else:
        cmd += [path]
    p = subprocess.run(
        cmd, cwd=LEAN_DIR, capture_output=True, text=True, timeout=timeout, input=input_text
    )
    return p.returncode == 0, p.stdout, p.stderr


def driver_path():
    return os.path.join(LEAN_DIR, ".lake", "build", "bin", "bsdriver")


def run_driver(args, input_text, timeout=1800):
    """The Lean model/oracle driver (compiled, core-only)."""
    exe = driver_path()
    if not os.path.exists(exe):
        ok, out = lake_build(["bsdriver"])
        if not ok:
            raise BuildError("lean driver does not build:\n" + out)
    p = subprocess.run(
        [exe] + list(args), input=input_text, capture_output=True, text=True, timeout=timeout
    )
    if p.returncode != 0:
        raise BuildError("lean driver failed: rc=%d\n%s" % (p.returncode, p.stderr[-2000:]))
    return p.stdout


FORBIDDEN = re.compile(
    r"\b(sorry|admit|native_decide|bv_decide|implemented_by|unsafe)\b|^\s*axiom\s|maxHeartbeats\s+0"
)


def strip_lean_comments(text):
    # block comments (nesting-aware) and line comments
    out = []
    i = 0
    depth = 0
    n = len(text)
    while i < n:
        if text.startswith("/-", i):
            depth += 1
            i += 2
            continue
        if depth > 0 and text.startswith("-/", i):
            depth -= 1
            i += 2
            continue
        if depth > 0:
            if text[i] == "\n":
                out.append("\n")
            i += 1
            continue
        if text.startswith("--", i):
            while i < n and text[i] != "\n":
                i += 1
            continue
        out.append(text[i])
        i += 1
    return "".join(out)


def grep_forbidden(files):
    hits = []
    for f in files:
        try:
            t = strip_lean_comments(open(f).read())
        except OSError:
            continue
        # string literals may legitimately mention words; strip them
        t = re.sub(r'"(\\.|[^"\\])*"', '""', t)
        for ln, line in enumerate(t.split("\n"), 1):
            if FORBIDDEN.search(line):
                hits.append("%s:%d: %s" % (os.path.relpath(f, VERIF), ln, line.strip()))
    return hits


def lean_sources():
    res = []
    for dp, _, fs in os.walk(os.path.join(LEAN_DIR, "BS")):
        for f in fs:
            if f.endswith(".lean"):
                res.append(os.path.join(dp, f))
    for dp, _, fs in os.walk(os.path.join(LEAN_DIR, "Driver")):
        for f in fs:
            if f.endswith(".lean"):
                res.append(os.path.join(dp, f))
    return sorted(res)


def audit_axioms(pid):
    """Elaborate BS/Audit/<pid>.lean (a list of `#print axioms thm`) and parse.

    Returns (theorems: {name: [axioms]}, problems: [str])."""
    path = os.path.join(LEAN_DIR, "BS", "Audit", pid + ".lean")
    ok, out, err = lean_run_file(path)
    thms = {}
    problems = []
    if not ok:
        problems.append("audit file does not elaborate: " + (out + err)[-1500:])
        return thms, problems
    # messages: "'name' depends on axioms: [a, b]"  or "'name' does not depend on any axioms"
    text = out
    for m in re.finditer(r"'([^']+)' depends on axioms: \[([^\]]*)\]", text, re.S):
        ax = [a.strip() for a in m.group(2).replace("\n", " ").split(",") if a.strip()]
        thms[m.group(1)] = ax
        bad = [a for a in ax if a not in ALLOWED_AXIOMS]
        if bad:
            problems.append("%s depends on non-standard axioms %s" % (m.group(1), bad))
    for m in re.finditer(r"'([^']+)' does not depend on any axioms", text):
        thms[m.group(1)] = []
    wanted = re.findall(r"(?m)^#print axioms\s+(\S+)", open(path).read())
    for w in wanted:
        if w not in thms:
            problems.append("no axiom report for " + w)
    return thms, problems


# --------------------------------------------------------------------------
# evidence / verdicts


def load_known_findings():
    p = os.path.join(VERIF, "known_findings.json")
    if not os.path.exists(p):
        return []
    return json.load(open(p)).get("findings", [])


class Check:
    """Collects what a run did and writes evidence + verdict."""

    def __init__(self, pid, tier, seed):
        self.pid = pid
        self.tier = tier
        self.seed = seed
        self.t0 = time.time()
        self.cov = {
            "evaluations": 0,
            "distinct_nontrivial": 0,
            "rule": "",
            "samples": [],
            "obligations": 0,
            "discharged": 0,
            "checker_cmd": "",
            "trusted_base": [],
            "traces_validated_against_impl": 0,
        }
        self.assumptions = []
        self.violations = []  # (replay_path, suffix)
        self.known = []
        self._distinct = set()
        self.replay_n = 0
        rd = os.path.join(OUT or VERIF, "replays")
        if os.path.isdir(rd):
            for f in os.listdir(rd):
                if f.startswith("%s-%d-" % (pid, seed)):
                    os.unlink(os.path.join(rd, f))

    # -- coverage accounting
    def count_case(self, case_text, nontrivial=True):
        self.cov["evaluations"] += 1
        if nontrivial:
            self._distinct.add(hashlib.sha1(case_text.encode()).digest()[:10])

    def sample(self, s, limit=6):
        if len(self.cov["samples"]) < limit:
            self.cov["samples"].append(s)

    # -- replay / verdict
    def replay_file(self, kind, body):
        os.makedirs(os.path.join(OUT or VERIF, "replays"), exist_ok=True)
        self.replay_n += 1
        path = os.path.join(
            OUT or VERIF, "replays", "%s-%d-%d.json" % (self.pid, self.seed, self.replay_n)
        )
        d = {"property": self.pid, "kind": kind, "seed": self.seed, "tier": self.tier}
        d.update(body)
        with open(path, "w") as f:
            json.dump(d, f, indent=1, default=str)
        return path

    def is_known(self, key):
        """records and reports whether `key` is the matcher of an open known finding of this property"""
        for kf in load_known_findings():
            if kf.get("property") == self.pid and kf.get("status") == "open" and kf.get("matcher") == key:
                if key not in [k for k, _ in self.known]:
                    self.known.append((key, kf.get("summary", "")))
                return True
        return False

    def violation(self, kind, body, found_input=True):
        """kind: impl-counterexample | tie-T1-broken | tie-T2-broken | proof-broken"""
        # known findings: matched on a stable 'finding_key' the caller puts in body
        key = body.get("finding_key")
        if key:
            for kf in load_known_findings():
                if kf.get("property") == self.pid and kf.get("status") == "open" and kf.get("matcher") == key:
                    if key not in [k for k, _ in self.known]:
                        self.known.append((key, kf.get("summary", "")))
                    return None
        path = self.replay_file(kind, body)
        self.violations.append((path, "" if found_input else " no-failing-input-found"))
        return path

    def finish(self, level="proof"):
        self.cov["distinct_nontrivial"] = len(self._distinct)
        ev = {
            "property_id": self.pid,
            "tier": self.tier,
            "seed": self.seed,
            "level": level,
            "coverage": self.cov,
            "assumptions": self.assumptions,
            "wall_s": round(time.time() - self.t0, 2),
            "violations": len(self.violations),
        }
        os.makedirs(os.path.join(OUT or VERIF, "evidence"), exist_ok=True)
        with open(os.path.join(OUT or VERIF, "evidence", self.pid + ".json"), "w") as f:
            json.dump(ev, f, indent=1, default=str)
        # every open finding listed for this property is printed on every run (the file is never
        # written here); whether this run reproduced it is stated, since some are timing-dependent
        seen = {k for k, _ in self.known}
        for kf in load_known_findings():
            if kf.get("property") == self.pid and kf.get("status") == "open":
                tag = "reproduced in this run" if kf.get("matcher") in seen else "not reproduced in this run"
                print("KNOWN-FINDING: property=%s %s: %s [%s]" % (self.pid, kf.get("matcher"), kf.get("summary", ""), tag), flush=True)
        # at most a handful of VIOLATION lines; first one is the most shrunk
        # violations that come with a failing input first; a broken tie is then explained by them
        self.violations.sort(key=lambda v: v[1] != "")
        if any(v[1] == "" for v in self.violations):
            shown = [v for v in self.violations if v[1] == ""]
        else:
            shown = self.violations
        for path, suffix in shown[:5]:
            print("VIOLATION property=%s replay=%s%s" % (self.pid, path, suffix), flush=True)
        if self.violations:
            return 1
        print(
            "OK property=%s tier=%s obligations=%d/%d evaluations=%d distinct=%d wall=%.1fs"
            % (
                self.pid,
                self.tier,
                self.cov["discharged"],
                self.cov["obligations"],
                self.cov["evaluations"],
                self.cov["distinct_nontrivial"],
                time.time() - self.t0,
            ),
            flush=True,
        )
        return 0


def proofs_step(chk, pid, extra_targets=()):
    """Step A of §4: build the property's theorems, audit axioms, grep.

    Records obligations/discharged.  A failure here is a `proof-broken`
    violation without input (should only happen if /verif was edited)."""
    targets = ["BS.Properties." + pid] + list(extra_targets)
    ok, out = lake_build(targets)
    chk.cov["checker_cmd"] = (
        "cd lean && lake build %s && lake env lean BS/Audit/%s.lean  (# print axioms; "
        "allowed: propext, Classical.choice, Quot.sound) + grep for sorry/admit/axiom/native_decide"
        % (" ".join(targets), pid)
    )
    if not ok:
        chk.cov["obligations"] = max(chk.cov["obligations"], 1)
        chk.violation(
            "proof-broken",
            {"theorem": "BS.Properties." + pid, "lean_output": out[-4000:]},
            found_input=False,
        )
        return False
    thms, problems = audit_axioms(pid)
    hits = grep_forbidden(lean_sources())
    chk.cov["obligations"] += len(thms)
    chk.cov["theorems"] = sorted(thms)
    chk.cov["axioms_used"] = sorted({a for v in thms.values() for a in v})
    if problems or hits:
        chk.violation(
            "proof-broken",
            {"theorem": "axiom audit of BS.Properties." + pid, "problems": problems, "forbidden": hits},
            found_input=False,
        )
        return False
    chk.cov["discharged"] += len(thms)
    if chk.tier == "thorough":
        lk = _lake_lock()
        try:
            p = subprocess.run(
                ["lake", "env", "leanchecker", "BS.Properties." + pid] + [x for x in extra_targets if x.startswith("BS.Properties.")],
                cwd=LEAN_DIR, capture_output=True, text=True, timeout=3000,
            )
        finally:
            lk.close()
        chk.cov["leanchecker"] = "ok" if p.returncode == 0 else "FAILED"
        if p.returncode != 0:
            chk.violation(
                "proof-broken",
                {"theorem": "leanchecker BS.Properties." + pid, "lean_output": (p.stdout + p.stderr)[-3000:]},
                found_input=False,
            )
            return False
    return True


BASE_TRUST = [
    "Lean 4.33 kernel; axioms limited to propext, Classical.choice, Quot.sound (audited by #print axioms on every run)",
    "the Lean model is hand-written; it is tied to /repo's working tree on every run by the correspondence harness (tools/check.py + harness/bsharness, differential, generator-bounded)",
    "compat shims that make the anchored packages build offline (DESIGN.md Appendix A) and the injected //go:build verif accessors",
    "the Go runtime, reflect/unsafe, encoding/gob, container/heap, sort.Sort, the local file system (modelled by contract, not verified)",
]


# --------------------------------------------------------------------------
# tie T2: facts regenerated from the work copy, re-checked by Lean


def build_gofacts(wc):
    out = os.path.join(wc.root, "gofacts")
    if os.path.exists(out):
        return out
    p = subprocess.run(
        ["go", "build", "-o", out, "."],
        cwd=os.path.join(VERIF, "harness", "gofacts"),
        env=wc.env,
        capture_output=True,
        text=True,
    )
    if p.returncode != 0:
        raise BuildError("gofacts: " + p.stdout + p.stderr)
    return out


def gofacts(wc, *args):
    exe = build_gofacts(wc)
    a = list(args)
    # file arguments are relative to the work copy of /repo
    a[1] = os.path.join(wc.repo, a[1])
    p = subprocess.run([exe] + a, capture_output=True, text=True)
    return p.returncode, p.stdout, p.stderr


def t2_check(chk, wc, name, imports, generated, ties):
    """generated: Lean text produced from the Go source on this run.
    ties: list of (theorem name, Lean text of the theorem incl. proof, go_ref).
    Each tie is one obligation; a failing one is a `tie-T2-broken` violation."""
    header = "".join("import %s\n" % i for i in imports)
    ns = "namespace BS.Generated.%s\n" % name
    chk.cov.setdefault("t2_ties", [])
    chk.cov.setdefault("t2_generated", {})
    chk.cov["t2_generated"][name] = generated[:1500]

    def run(text, tag):
        path = os.path.join(wc.root, "T2_%s_%s.lean" % (name, tag))
        open(path, "w").write(text)
        ok, out, err = lean_run_file(path)
        return ok, (out + err)

    full = header + ns + generated + "\n" + "\n".join(t[1] for t in ties) + "\nend BS.Generated.%s\n" % name
    bad_tokens = grep_forbidden_text(full)
    ok, out = run(full, "all")
    if ok and not bad_tokens:
        for t in ties:
            chk.cov["obligations"] += 1
            chk.cov["discharged"] += 1
            chk.cov["t2_ties"].append(t[0])
        return True
    allok = True
    for i, t in enumerate(ties):
        chk.cov["obligations"] += 1
        ok1, out1 = run(header + ns + generated + "\n" + t[1] + "\nend BS.Generated.%s\n" % name, str(i))
        if ok1 and not grep_forbidden_text(t[1]):
            chk.cov["discharged"] += 1
            chk.cov["t2_ties"].append(t[0])
            continue
        allok = False
        chk.violation(
            "tie-T2-broken",
            {
                "theorem": "BS.Generated.%s.%s" % (name, t[0]),
                "go_source": t[2],
                "generated_lean": generated,
                "tie_theorem": t[1],
                "lean_output": out1[-2500:],
                "note": "the Lean fact regenerated from /repo's source no longer matches the model/theorem",
            },
            found_input=False,
        )
    return allok


def grep_forbidden_text(text):
    t = strip_lean_comments(text)
    t = re.sub(r'"(\\.|[^"\\])*"', '""', t)
    return [l for l in t.split("\n") if FORBIDDEN.search(l)]
