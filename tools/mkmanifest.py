#!/usr/bin/env python3
"""Regenerates MANIFEST.json from the per-property modules in tools/props (claimed)
and the NOT_YET table below (listed under not_applicable with the reason)."""
import importlib
import json
import os
import subprocess
import sys

HERE = os.path.dirname(os.path.abspath(__file__))
sys.path.insert(0, HERE)
VERIF = os.path.dirname(HERE)

props = [json.loads(l) for l in open(os.path.join(VERIF, "properties.jsonl"))]
checks = []
na = []
for p in props:
    pid = p["id"]
    path = os.path.join(HERE, "props", pid.lower() + ".py")
    if not os.path.exists(path):
        na.append({"property_id": pid, "reason": "no check is registered for this property yet: its Lean model, theorems and correspondence harness have not been built (not a limitation of the technique; see DESIGN.md §7 for the planned model)"})
        continue
    mod = importlib.import_module("props." + pid.lower())
    checks.append({
        "property_id": pid,
        "quick_cmd": "python3 tools/check.py %s --tier quick" % pid,
        "thorough_cmd": "python3 tools/check.py %s --tier thorough" % pid,
        "evidence_file": "evidence/%s.json" % pid,
        "replay_cmd_template": "python3 tools/check.py %s --replay {path}" % pid,
        "engine": "lean4+bsharness",
        "level_claimed": {
            "category": "proof",
            "text": getattr(mod, "LEVEL_TEXT", "Lean 4 theorems about a hand-written executable model of the anchored code, quantified over all inputs/op sequences/histories; the model is tied to /repo on every run by differential correspondence (real code vs model on generated cases, judged by the Lean oracle)."),
            "design_ref": "DESIGN.md §7 " + pid,
        },
        "level_note": getattr(mod, "LEVEL_NOTE", "Trusted: Lean kernel (+propext, Classical.choice, Quot.sound); the hand-written model, tied by generator-bounded differential testing; compat shims; Go runtime pieces modelled by contract."),
        "technique": getattr(mod, "TECHNIQUE", "Lean 4 proof over an executable model + differential correspondence with the Go implementation"),
    })

head = subprocess.run(["git", "-C", "/repo", "log", "--format=%h %s"], capture_output=True, text=True).stdout
hooks = [l.split()[0] for l in head.split("\n") if l and " hook:" in l]
m = {
    "version": 1,
    "setup_cmd": "bash tools/setup.sh",
    "hooks": {
        "guard": "verif",
        "enable": "checks copy /repo's working tree to a scratch dir, add //go:build verif accessor files (harness/inject) and build with -tags verif; /repo itself carries no hook code",
        "baseline_off_cmd": "for m in $(cat /w/out/gomods.txt); do MF=$(cd /repo/$m && . /w/out/goenv.sh && gomodflag); (cd /repo/$m && go test $MF -json -vet=off -count=1 -timeout 25m ./...); done",
        "source_commits": hooks,
        "add_only": True,
    },
    "engines": [
        {"name": "lean4+bsharness", "path": "tools/check.py", "serves_properties": [c["property_id"] for c in checks],
         "kind_free_text": "Lean 4 model+theorems (lean/BS), compiled Lean driver (lean/Driver) as model/oracle, Go harness (harness/bsharness) running the real code from a patched work copy of /repo"}
    ],
    "checks": checks,
    "not_applicable": na,
    "notes": "See DESIGN.md. known_findings.json lists genuine defects (fixed ones suppress nothing).",
}
json.dump(m, open(os.path.join(VERIF, "MANIFEST.json"), "w"), indent=1)
print("claimed:", [c["property_id"] for c in checks])
