#!/bin/bash
# Run every registered check's quick (or $1) tier on /repo as it is; summary at the end.
cd "$(dirname "$0")/.."
tier=${1:-quick}
ids=$(python3 -c "import json; print(' '.join(c['property_id'] for c in json.load(open('MANIFEST.json'))['checks']))")
mkdir -p .cache/runall
for id in $ids; do
  ( python3 tools/check.py $id --tier $tier > .cache/runall/$id.out 2>&1; echo "$id rc=$?" >> .cache/runall/summary.$$ ) &
  # at most 4 at a time
  while [ $(jobs -r | wc -l) -ge 4 ]; do sleep 0.5; done
done
wait
sort .cache/runall/summary.$$; rm -f .cache/runall/summary.$$
grep -h "VIOLATION\|KNOWN-FINDING" .cache/runall/*.out | cut -c1-200
