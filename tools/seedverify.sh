#!/bin/bash
# seedverify.sh <agent-out-dir> <demo-package-dir>   confirms a seeded change myself, in a scratch copy of /repo's working tree:
# the patch applies, the tree builds, the 30 baseline tests pass with it, the demonstration fails with it and passes without it.
set -u
O=$1; PKG=${2:-exec}
S=$(mktemp -d /var/tmp/verif-sv-XXXXXX)
trap 'chmod -R u+w "$S" 2>/dev/null; rm -rf "$S"' EXIT
export GOFLAGS=-mod=mod GOPROXY=off GOSUMDB=off GOTOOLCHAIN=local TMPDIR="$S/tmp"; mkdir -p "$S/tmp"
rsync -a --exclude .git /repo/ "$S/plain/"
( cd "$S/plain" && git apply "$O/patch.diff" ) || { echo "PATCH-DOES-NOT-APPLY"; exit 2; }
# baseline suite on the patched tree (plain go.mod, as BASELINE.json runs it)
( cd "$S/plain" && go test -json -vet=off -count=1 -timeout 25m ./... 2>/dev/null > "$S/out.json" || true )
python3 - "$S/out.json" <<'PY'
import json,sys
ok=set()
for l in open(sys.argv[1]):
    try: d=json.loads(l)
    except Exception: continue
    if d.get("Test") and d.get("Action")=="pass": ok.add(d["Package"]+"::"+d["Test"])
base=set(json.load(open("/root/.vp/BASELINE.json"))["stable_pass"])
print("baseline with change: %d/%d" % (len(base&ok), len(base)))
PY
mk() { # $1 = dir with tree -> buildable copy in place
  ( cd "$1" && sed -i -E 's/^go 1\.[0-9]+\s*$/go 1.17/' go.mod && printf '\nreplace github.com/grailbio/base => /verif/.cache/shims/base\nreplace github.com/grailbio/bigmachine => /verif/.cache/shims/bigmachine\n' >> go.mod && sed -i 's/\*config.Constructor\[\*Session\]/*config.Constructor/; s/func() (\*Session, error)/func() (interface{}, error)/' exec/config.go )
}
rsync -a --exclude .git /repo/ "$S/without/"; mk "$S/without"
rsync -a "$S/plain/" "$S/with/"; mk "$S/with"
for w in with without; do
  cp "$O/zz_demo_test.go" "$S/$w/$PKG/zz_demo_test.go"
  ( cd "$S/$w" && go test -count=1 -timeout 15m -run 'ZZ|Demo|Seed|Zz' ./$PKG > "$S/$w.log" 2>&1; echo "demo $w the change: exit $?"; tail -4 "$S/$w.log" | cut -c1-220 )
done
