"""C01 — programs run in a session vs the sequential reference evaluation (BS.Sem)."""
import sys, os
sys.path.insert(0, os.path.dirname(os.path.dirname(os.path.abspath(__file__))))
import progen

PID = "C01"
PARALLEL = {"C01": 8}
RULE = ("bounded-exhaustive: every chain source -> op of 5 sources x 22 operator instances (depth 1; depth 2 complete in the "
        "thorough tier, sampled in the quick tier; depth 3 sampled in the thorough tier); then random operator DAGs of 1..8 nodes over Const/ReaderFunc/ScanReader inputs (0..20 rows, or up to 150 rows to straddle "
        "the vector size; 1..4 shards; skewed and colliding keys) through Map/Filter/Flatmap/Fold/Head/Reduce/Cogroup/"
        "Reshuffle(prefix 1 and 2)/Repartition/Reshard/Scan/WriterFunc, shared sub-slices, nested shuffles; run on the local "
        "executor with vector sizes {1,2,4,8,128}; the output is wrapped in a WriterFunc so that shard boundaries and the "
        "end-of-stream are observed; compared per shard with the reference (as a list where the program fixes the order, "
        "else as a multiset); non-trivial = contains a shuffle or at least 3 operators")
BM_NOTE = "plus 60 (quick) / 1500 (thorough) programs on bigmachine testsystem clusters"
TRUST = ["user functions come from fixed families evaluated identically on both sides (affine maps, modular predicates, "
         "replicating flatmaps, + and max combiners)"]
ASSUMPTIONS = ["failure-free runs (faults are C02/C06)", "Head is applied only where the program fixes the row order (wfNodes)",
               "exec_refines_sem is about BS.Exec: reader state machines (tied call by call, C17) drained with arbitrary "
               "destination sizes and upstream chunking, shuffles as arbitrary valid rearrangements of the producers' "
               "partitions, combiner = foldMap (C09), merge = reduceAll (C10), partition = murmur3 model (C05); that real "
               "runs are such executions is tied by this correspondence (real runs vs BS.Sem), not proved",
               "columns are (int64,int64) in the end-to-end programs; other column types are covered per layer (C05, C07, C11)"]

SRC = ["const 1 1:1 2:2 1:3 4:4 2:5", "const 2 1:1 2:2 1:3 4:4 2:5", "const 3 1:1 2:2 1:3 4:4 2:5", "reader 2 2 3:1 1:2 3:3 0:4",
       "lines 2 5"]
UNARY = ["map %s inc", "map %s swap", "map %s mod3", "filter %s kmod3", "filter %s vodd", "filter %s none", "flatmap %s dup",
         "flatmap %s two", "fold %s", "head %s 0", "head %s 2", "reduce %s add", "reduce %s max", "cogroup %s %s", "reshuffle %s",
         "repartition %s byval", "repartition %s zero", "reshard %s 1", "reshard %s 2", "reshard %s 3", "writer %s", "count %s 1"]
UNORD = ("fold", "reshuffle", "repartition", "reshard")
REORD = ("reduce", "cogroup")


BIGROWS = " ".join("%d:%d" % ((i * 37) % 301, i) for i in range(300))
SRC_BIG = ["const 1 " + BIGROWS, "const 2 " + BIGROWS, "reader 1 128 " + " ".join("%d:%d" % (i % 150, i) for i in range(260)),
           # exactly the sort canary (256 rows) and canary + one spill run
           "const 1 " + " ".join("%d:%d" % ((i * 11) % 256, i) for i in range(256)),
           "const 1 " + " ".join("%d:%d" % ((i * 11) % 97, i) for i in range(384))]


def exhaustive(depth, sources=None):
    """every chain source -> op1 -> ... -> op_depth (Head only where the order is fixed)"""
    def rec(stmts, ordered, d):
        if d == 0:
            yield " ; ".join(stmts) + " ; OUT N%d" % (len(stmts) - 1)
            return
        prev = "N%d" % (len(stmts) - 1)
        for u in UNARY:
            kind = u.split()[0]
            if kind == "head" and not ordered:
                continue
            o = False if kind in UNORD else True if kind in REORD else ordered
            text = u % ((prev,) * u.count("%s"))
            yield from rec(stmts + ["N%d=%s" % (len(stmts), text)], o, d - 1)
    for s in (sources or SRC):
        yield from rec(["N0=" + s], True, depth)


def shared_shuffles():
    """one slice consumed by two shuffling operators in the same program (their compiled producers must not be confused:
    different partition functions, partition counts, combiners)"""
    rows = "1:1 2:2 1:3 4:4 2:5 7:6 1:7 3:8 2:9 5:10"
    cons = ["repartition N0 byval", "repartition N0 zero", "reshuffle N0", "fold N0", "reduce N0 add", "reshard N0 2", "reshard N0 3"]
    for nsh in (2, 3):
        for a in cons:
            for b in cons:
                if a == b:
                    continue
                yield "N0=const %d %s ; N1=%s ; N2=%s ; N3=cogroup N1 N2 ; OUT N3" % (nsh, rows, a, b)
                yield "N0=const %d %s ; N1=%s ; N2=cogroup N1 N0 ; OUT N2" % (nsh, rows, a)
                yield "N0=const %d %s ; N1=%s ; N2=cogroup N0 N1 ; OUT N2" % (nsh, rows, a)


def two_repartitions():
    """one slice repartitioned twice in one program, by different functions and to the same shard count (always run in full):
    each consumer must see the placement of its own function"""
    rows = "1:1 2:2 1:3 4:4 2:5 7:6 1:7 3:8 2:9 5:10 6:11 8:12"
    for nsh in (2, 3):
        for a, b in (("byval", "zero"), ("zero", "byval")):
            # the WriterFuncs observe, shard by shard, where each Repartition put the rows
            yield ("N0=const %d %s ; N1=repartition N0 %s ; N2=writer N1 ; N3=repartition N0 %s ; N4=writer N3 ; "
                   "N5=cogroup N2 N4 ; OUT N5" % (nsh, rows, a, b))
            yield ("N0=const %d %s ; N1=repartition N0 %s ; N2=map N1 inc ; N3=writer N2 ; N4=repartition N0 %s ; N5=writer N4 ; "
                   "N6=reshuffle N5 ; N7=cogroup N3 N6 ; OUT N7" % (nsh, rows, a, b))


def wide_keyed():
    """keyed operators over a few hundred distinct keys in one or two shards (every merging / decoding reader works through
    several of its 128-row buffers), followed by readers that ask for fewer rows than a batch holds"""
    for n in (300, 600):
        rows = " ".join("%d:%d" % (i, 1) for i in range(n))
        for nsh in (1, 2):
            yield "N0=const %d %s ; N1=reduce N0 add ; N2=filter N1 kmod3 ; OUT N2" % (nsh, rows)
            yield "N0=const %d %s ; N1=cogroup N0 N0 ; N2=filter N1 vodd ; OUT N2" % (nsh, rows)
            yield "N0=const %d %s ; N1=map N0 inc ; N2=cogroup N0 N1 ; OUT N2" % (nsh, rows)
            yield "N0=const %d %s ; N1=reshuffle N0 ; N2=flatmap N1 two ; N3=filter N2 kmod3 ; N4=reduce N3 add ; OUT N4" % (nsh, rows)


def direct_and_shuffled():
    """a (materialised or pipelined) slice consumed both without a shuffle and through a shuffle into 1..3 partitions,
    compiled in either order (always run in full)"""
    rows = "1:1 2:2 1:3 4:4 2:5 7:6 1:7 3:8 2:9 5:10"
    for nsh in (2, 3):
        for m in ("mapm", "map"):
            for k in (1, 2, 3):
                if k == nsh:
                    continue
                head = "N0=const %d %s ; N1=%s N0 id ; N2=map N1 inc ; N3=reshard N1 %d" % (nsh, rows, m, k)
                yield head + " ; N4=cogroup N2 N3 ; OUT N4"
                yield head + " ; N4=cogroup N3 N2 ; OUT N4"


def gen(r, tier):
    ss = list(shared_shuffles())
    if tier == "quick":
        ss = [c for c in ss if r.below(3) == 0]
    for p in ss + list(direct_and_shuffled()) + list(two_repartitions()):
        yield "local CH%d ;; %s" % (r.choice([2, 128]), p)
    for p in wide_keyed():
        yield "local ;; " + p
        yield "%s ;; %s" % (r.choice(["bm M2 P4", "bm M1 P3", "bm M4 P8 MC"]), p)
    # bounded-exhaustive part: all chains of depth 1 (and 2 in the thorough tier; a sample of them in the quick tier)
    for p in exhaustive(1):
        yield "local CH%d ;; %s" % (r.choice([1, 2, 128]), p)
    # inputs larger than the internal vector size (128 rows), so that every merging reader refills its buffers
    for p in exhaustive(1, SRC_BIG):
        yield "local CH%d ;; %s" % (r.choice([8, 128]), p)
    d2 = list(exhaustive(2))
    if tier == "quick":
        d2 = [d2[r.below(len(d2))] for _ in range(300)]
    for p in d2:
        yield "local CH%d ;; %s" % (r.choice([1, 2, 128]), p)
    if tier != "quick":
        d3 = list(exhaustive(3))
        for _ in range(6000):
            yield "local CH%d ;; %s" % (r.choice([1, 2, 4, 128]), d3[r.below(len(d3))])
    n = 700 if tier == "quick" else 15000
    for i in range(n):
        cfg = "local CH%d P%d" % (r.choice([1, 2, 4, 8, 128, 128]), r.rng(1, 4))
        p, sh, ordr, isscan = progen.gen_program(r, 8, e2e=True, big=(i % 7 == 0))
        yield "%s ;; %s" % (cfg, p)
    # the same meaning on the cluster executor (C04 varies the strategy systematically; here: that a program's rows are the
    # prescribed ones there at all — several machines, machine combiners, many reduce tasks per machine)
    # many map-side tasks of one Reduce on one machine with a shared (machine) combiner: contention for the combiner
    for rows, keys in ((40000, 1000), (24000, 64)):
        for cfg in ("bm M8 P8 MC", "bm M6 P6 MC CH8"):
            yield "%s ;; N0=lines 8 %d ; N1=map N0 mod%d ; N2=reduce N1 add ; OUT N2" % (cfg, rows, keys)
    n = 60 if tier == "quick" else 1500
    for i in range(n):
        cfg = r.choice(["bm M2 P4", "bm M2 P4 MC", "bm M1 P3", "bm M4 P8 MC CH8", "bm M2 P6 MC"])
        if i % 2 == 0:
            # several machines with several tasks each (machine combiners shared by the tasks of a machine)
            yield "%s ;; N0=lines %d %d ; N1=map N0 mod%d ; N2=reduce N1 add ; OUT N2" % (
                r.choice(["bm M4 P8 MC", "bm M4 P8 MC", "bm M2 P4 MC", "bm M2 P6 MC CH8", "bm M4 P12 MC"]), r.choice([8, 12]), r.choice([400, 4000]), r.choice([12, 64]))
        else:
            p, sh, ordr, isscan = progen.gen_program(r, 7, e2e=True, big=(i % 5 == 0))
            yield "%s ;; %s" % (cfg, p)


def nontrivial(case, obs):
    return any(w in case for w in ("reduce", "cogroup", "reshuffle", "reshard", "fold", "repartition")) or case.count("=") >= 3


def shrink_candidates(case):
    cfg, _, main = case.partition(" ;; ")
    stmts = [s.strip() for s in main.split(" ; ") if s.strip()]
    body = [s for s in stmts if not s.startswith("OUT")]
    if len(body) > 1:
        nb = body[:-1]
        yield cfg + " ;; " + " ; ".join(nb) + " ; OUT " + nb[-1].split("=")[0]
    # shrink input rows
    for i, s in enumerate(body):
        toks = s.split()
        if toks[0].split("=")[1] in ("const", "reader"):
            first = 2 if "=const" in toks[0] else 3
            for j in range(len(toks) - 1, first - 1, -1):
                nb = list(body)
                nb[i] = " ".join(toks[:j] + toks[j + 1:])
                yield cfg + " ;; " + " ; ".join(nb) + " ; " + [x for x in stmts if x.startswith("OUT")][0]
                break


def finding_key(case, obs, model, oracle):
    # D16: a counting Map pipelined into a Head is pulled only as far as the Head reads
    if "depend on pipelining: a counting Map feeds a Head" in oracle:
        return "counters-depend-on-pipelining-under-head"
    # D23: a WriterFunc pipelined into a Head observes only what the Head pulls
    if "is pipelined into a Head and observed only what the Head pulled" in oracle:
        return "writer-under-head-observes-prefix"
    return None


def t2(chk, wc, tier, seed):
    """constShard's arithmetic and ScanReader's skip distances, regenerated from slice.go / scan.go."""
    import vlib
    gen = []
    rc, out, err = vlib.gofacts(wc, "kernel", "slice.go", "constShard", "constShardG")
    gen.append(out if rc == 0 else "-- gofacts kernel constShard failed: " + err.strip().split("\n")[0])
    rc, out, err = vlib.gofacts(wc, "callargs", "scan.go", "ScanReader", "skip", "scanSkipG")
    gen.append(out if rc == 0 else "-- gofacts callargs ScanReader failed: " + err.strip().split("\n")[0])
    ties = [
        ("constShard_tie",
         "theorem constShard_tie (n nshard shard : Nat) :\n"
         "    constShardG n nshard shard = (((BS.Sem.constShard n nshard shard).1 : Int), ((BS.Sem.constShard n nshard shard).2 : Int)) := by\n"
         "  unfold constShardG BS.Sem.constShard\n"
         "  simp only [Int.tdiv_eq_ediv_of_nonneg (Int.natCast_nonneg n), Int.tmod_eq_emod_of_nonneg (Int.natCast_nonneg n)]\n"
         "  split <;> split <;> simp_all <;> omega",
         "slice.go constShard"),
        ("scanSkip_first_tie", "theorem scanSkip_first_tie (shard : Int) : scanSkipG_0_1 shard = shard + 1 := by unfold scanSkipG_0_1; omega",
         "scan.go ScanReader: first line of shard s is line s (skip shard+1, Text = last scanned)"),
        ("scanSkip_next_tie", "theorem scanSkip_next_tie (nshard : Int) : scanSkipG_1_1 nshard = nshard := by unfold scanSkipG_1_1; omega",
         "scan.go ScanReader: then every nshard-th line"),
    ]
    vlib.t2_check(chk, wc, "C01", ["BS.Model.Sem", "BS.Tie.Tactic"], "\n".join(gen), ties)
