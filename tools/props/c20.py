"""C20 — metric scopes: op sequences (incr/value/merge/reset/gob) against BS.Metrics."""
PID = "C20"
RULE = ("random op sequences new/incr/value/merge/reset/resetnil/gob over up to 6 scopes and 6 registered counters, "
        "including merges between scopes that share instances after Reset(u) and self-merges; observation = every op's "
        "result and the final value of every counter in every scope; non-trivial = contains merge, reset or gob")
TRUST = ["encoding/gob transports []interface{} of registered *counterValue unchanged"]
ASSUMPTIONS = ["int64 counters do not overflow", "single goroutine (the atomics are not exercised concurrently here; see C19)"]


def gen(r, tier):
    n = 3000 if tier == "quick" else 60000
    for _ in range(n):
        ops = ["new"]
        ns = 1
        for _ in range(r.rng(2, 25)):
            k = r.below(100)
            s = r.below(ns)
            if k < 12 and ns < 6:
                ops.append("new")
                ns += 1
            elif k < 45:
                ops.append("incr %d %d %d" % (s, r.below(6), r.rng(-5, 40)))
            elif k < 55:
                ops.append("value %d %d" % (s, r.below(6)))
            elif k < 75:
                ops.append("merge %d %d" % (s, r.below(ns)))
            elif k < 85:
                ops.append("reset %d %d" % (s, r.below(ns)))
            elif k < 90:
                ops.append("resetnil %d" % s)
            elif ns < 6:
                ops.append("gob %d" % s)
                ns += 1
        yield " ; ".join(ops)


def nontrivial(case, obs):
    return any(w in case for w in ("merge", "reset", "gob"))


def shrink_candidates(case):
    ops = case.split(" ; ")
    for i in range(len(ops) - 1, 0, -1):
        if ops[i].split()[0] not in ("new", "gob"):
            yield " ; ".join(ops[:i] + ops[i + 1:])
    if len(ops) > 1:
        yield " ; ".join(ops[:-1])
