"""C20 — metric scopes: op sequences (incr/value/merge/reset/gob) against BS.Metrics."""
PID = "C20"
CASE_LIMIT = {"C20": 45}   # seconds: these cases are function calls, not sessions
RULE = ("(C20e2e) counting programs run end to end on both executors, their results consumed by later runs with discards in "
        "between: the counters of every result equal the increments of one execution per task; (C20) random op sequences new/incr/value/merge/reset/resetnil/gob over up to 6 scopes and 6 registered counters, "
        "including merges between scopes that share instances after Reset(u) and self-merges; observation = every op's "
        "result and the final value of every counter in every scope; non-trivial = contains merge, reset or gob")
TRUST = ["encoding/gob transports []interface{} of registered *counterValue unchanged"]
ASSUMPTIONS = ["int64 counters do not overflow", "single goroutine (the atomics are not exercised concurrently here; see C19)"]


SUBS = ["C20", "C20e2e"]
PARALLEL = {"C20e2e": 8}


def gen(r, tier, sub):
    if sub == "C20e2e":
        # end to end: counting programs, their results consumed by later runs, with discards in between
        # (recomputed tasks must report their increments once); judged by the C12 oracle (rows and counters)
        n = 60 if tier == "quick" else 1500
        cfgs = ["local", "bm M2 P2", "bm M1 P3", "bm M4 P4 MC"]
        # counting operators fused in front of every kind of shuffle (the counting task then is a producer: with a combiner
        # for Reduce, with partitioned output for the others), and behind it
        rows9 = "1:1 2:2 3:3 1:4 2:5 6:6 7:7 1:8 9:9 4:1 5:2"
        for cfg in cfgs + ["bm M2 P4 MC"]:
            for nsh in (1, 3):
                for sh in ("reduce N1 add", "fold N1", "reshuffle N1", "reshard N1 2", "cogroup N1 N0", "repartition N1 byval"):
                    yield "%s ;; run N0=const %d %s ; N1=count N0 1 ; N2=%s ; OUT N2" % (cfg, nsh, rows9, sh)
                yield "%s ;; run N0=const %d %s ; N1=count N0 0 ; N2=reduce N1 add ; N3=count N2 2 ; OUT N3 ;; run N0=count R0 0 ; N1=reduce N0 max ; OUT N1" % (cfg, nsh, rows9)
        for i in range(n):
            nsh = r.rng(1, 3)
            rows = " ".join("%d:%d" % (r.below(6), r.rng(0, 20)) for _ in range(r.rng(1, 12)))
            ops = ["run N0=const %d %s ; N1=count N0 %d ; OUT N1" % (nsh, rows, r.below(3))]
            for _ in range(r.rng(1, 5)):
                k = r.below(100)
                if k < 40:
                    ops.append("discard %d" % r.below(sum(1 for o in ops if o.startswith("run"))))
                elif k < 55:
                    ops.append("scan %d" % r.below(sum(1 for o in ops if o.startswith("run"))))
                else:
                    src = r.below(sum(1 for o in ops if o.startswith("run")))
                    body = r.choice(["N0=map R%d id ; OUT N0", "N0=reduce R%d add ; OUT N0", "N0=reshuffle R%d ; N1=count N0 %d ; OUT N1" ,
                                     "N0=filter R%d vodd ; N1=count N0 %d ; OUT N1"])
                    ops.append("run " + (body % ((src, r.below(3)) if body.count("%d") == 2 else (src,))))
            yield "%s ;; %s" % (r.choice(cfgs), " ;; ".join(ops))
        return
    n = 3000 if tier == "quick" else 60000
    for _ in range(n):
        ops = ["new"]
        ns = 1
        for _ in range(r.rng(2, 25)):
            k = r.below(100)
            s = r.below(ns)
            if k < 12 and ns < 6:
                ops.append("new")
                ns += 1
            elif k < 45:
                ops.append("incr %d %d %d" % (s, r.below(6), r.rng(-5, 40)))
            elif k < 55:
                ops.append("value %d %d" % (s, r.below(6)))
            elif k < 75:
                ops.append("merge %d %d" % (s, r.below(ns)))
            elif k < 85:
                ops.append("reset %d %d" % (s, r.below(ns)))
            elif k < 90:
                ops.append("resetnil %d" % s)
            elif ns < 6:
                ops.append("gob %d" % s)
                ns += 1
        yield " ; ".join(ops)


def nontrivial(case, obs):
    return any(w in case for w in ("merge", "reset", "gob", "discard"))


def shrink_candidates(case):
    ops = case.split(" ; ")
    for i in range(len(ops) - 1, 0, -1):
        if ops[i].split()[0] not in ("new", "gob"):
            yield " ; ".join(ops[:i] + ops[i + 1:])
    if len(ops) > 1:
        yield " ; ".join(ops[:-1])


def t2(chk, wc, tier, seed):
    """Result.Scope merges the scope of every task of the result's graph: the walk it uses (exec/slicestatus.go iterTasks)
    follows every dependency of every task to all of the dependency's tasks, without a filter; and Result.Scope merges inside
    that walk (exec/session.go)."""
    import re
    import vlib
    src = open(wc.repo + "/exec/slicestatus.go").read()
    try:
        body = src[src.index("func iterTasks("):]
        body = body[:body.index("\n}\n")]
    except ValueError:
        body = ""
    m = re.search(r"for _, d := range t\.Deps \{\s*for i := 0; i < d\.NumTask\(\); i\+\+ \{\s*if err := walk\(\[\]\*Task\{d\.Task\(i\)\}\); err != nil \{", body)
    every_dep = m is not None
    applies_f = re.search(r"if err := f\(t\); err != nil \{", body) is not None
    sess = open(wc.repo + "/exec/session.go").read()
    scope = re.search(r"func \(r \*Result\) Scope\(\) \*metrics\.Scope \{\s*r\.initScope\.Do\(func\(\) \{\s*_ = iterTasks\(r\.tasks, func\(task \*Task\) error \{\s*r\.scope\.Merge\(&task\.Scope\)", sess) is not None
    gen = "def walkFollowsEveryDepG : Bool := %s\ndef walkAppliesToEveryTaskG : Bool := %s\ndef scopeMergesInWalkG : Bool := %s" % tuple(
        "true" if b else "false" for b in (every_dep, applies_f, scope))
    ties = [("result_scope_walk_tie",
             "theorem result_scope_walk_tie : walkFollowsEveryDepG = true ∧ walkAppliesToEveryTaskG = true ∧ scopeMergesInWalkG = true := by decide",
             "exec/slicestatus.go iterTasks, exec/session.go (*Result).Scope: the task list that BS.Metrics.result_scope_is_sum sums over is the whole graph")]
    vlib.t2_check(chk, wc, "C20", ["BS.Model.Metrics"], gen, ties)
