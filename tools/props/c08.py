"""C08 — compilation: the real compile() against BS.Compile on generated operator DAGs, twice, and after a gob round trip."""
import sys, os
sys.path.insert(0, os.path.dirname(os.path.dirname(os.path.abspath(__file__))))
import progen

PID = "C08"
CASE_LIMIT = {"C08": 45}   # seconds: these cases are function calls, not sessions
RULE = ("random operator DAGs of 1..8 nodes (shared sub-slices, multi-input cogroup, nested shuffles, prefix-2 reshuffles, "
        "custom partitioners, reduce combiners with and without machine combiners, Materialize/Procs/Exclusive pragmas, "
        "reshard to the same and to other shard counts), with 0..2 earlier results as arguments (used through pipelined and "
        "shuffling operators); each is compiled twice and once more from the gob-transported invocation; the canonical dump "
        "(name, shard/partition counts, partitioner, combiner, combine key, group, materialize, dependency wiring, pipeline "
        "ops) is compared with the Lean model; non-trivial = a shuffle or a result argument")
TRUST = ["task and slice identity is by pointer in Go and by id in the model"]
ASSUMPTIONS = ["cache operators are covered by C13"]


def gen(r, tier):
    n = 1200 if tier == "quick" else 25000
    for i in range(n):
        mc = r.below(2)
        if i % 4 == 0:
            pres = []
            shards = []
            for _ in range(r.rng(1, 2)):
                p, sh = progen.gen_program(r, 3)
                # results must be computable on the local executor: no repartition to invalid shards etc.
                pres.append(p)
                shards.append(sh)
            main, _ = progen.gen_program(r, 6, results=tuple(shards))
            yield "MC %d ; %s ;; %s" % (mc, " ;; ".join(pres), main)
        else:
            p, _ = progen.gen_program(r, 8)
            yield "MC %d ; %s" % (mc, p)


def nontrivial(case, obs):
    return any(w in case for w in ("reduce", "cogroup", "reshuffle", "reshard", "fold", "repartition", ";;"))


def shrink_candidates(case):
    # drop trailing statements of the main program (keeping OUT on the new last node)
    head, sep, main = case.rpartition(";;")
    if not sep:
        h2, _, main = case.partition(" ; ")
        head = h2
        sep = " ; "
    stmts = [s.strip() for s in main.split(" ; ") if s.strip()]
    body = [s for s in stmts if not s.startswith("OUT")]
    if len(body) > 1:
        nb = body[:-1]
        last = nb[-1].split("=")[0]
        yield head + sep + " " + " ; ".join(nb) + " ; OUT " + last


def t2(chk, wc, tier, seed):
    """compile.go facts: no iteration over a map (determinism), the fields set on re-shuffle tasks (D5),
    and the arguments of the shuffle-dependency partitioner."""
    import re
    import vlib
    src = open(wc.repo + "/exec/compile.go").read()
    fn = src[src.index("func (c *compiler) compile("):]
    fn = fn[:fn.index("\ntype taskNamer")]
    # 1. every `range` in compile ranges over a slice/array expression we know (tasks, result.tasks, slices...)
    ranges = sorted(set(re.findall(r"range ([A-Za-z_.\[\]0-9]+)", fn)))
    # 2. fields of the Task literal in the Result branch
    res = fn[fn.index("shuffleOpName :="):]
    res = res[:res.index("// Pipeline slices and create a task")]
    fields = sorted(set(re.findall(r"^\s*([A-Z][A-Za-z]+):", res, re.M)))
    # 3. the partitioner handed to a shuffle dependency
    m = re.search(r"depPart := partitioner\{\s*([^}]*)\}", fn, re.S)
    dep = re.sub(r"\s+", " ", m.group(1)).strip() if m else "?"
    # 4. Session.run freezes the compile environment of its own copy and of the copies the tasks carry (D25)
    ssrc = open(wc.repo + "/exec/session.go").read()
    try:
        run = ssrc[ssrc.index("func (s *Session) run("):]
        run = run[:run.index("\n}\n")]
    except ValueError:
        run = ""
    after = run[run.find("compile(inv, slice, s.machineCombiners)"):] if "compile(inv, slice, s.machineCombiners)" in run else ""
    frozen = ("inv.Env.Freeze()" in after and
              re.search(r"iterTasks\(tasks, func\(task \*Task\) error \{[^}]*task\.Invocation\.Env\.Freeze\(\)", after, re.S) is not None)
    gen = [
        "def envFrozenInTaskCopiesG : Bool := %s" % ("true" if frozen else "false"),
        "def compileRangesG : List String := [%s]" % ", ".join('"%s"' % x for x in ranges),
        "def reshuffleFieldsG : List String := [%s]" % ", ".join('"%s"' % x for x in fields),
        'def depPartG : String := "%s"' % dep,
    ]
    ties = [
        ("env_frozen_in_task_copies", "theorem env_frozen_in_task_copies : envFrozenInTaskCopiesG = true := by decide",
         "exec/session.go (*Session).run: after compile the environment is frozen in the session's copy and in every task's copy of the invocation"),
        ("ranges_tie", 'theorem ranges_tie : compileRangesG = ["result.tasks", "tasks"] := by decide',
         "exec/compile.go compile: iterates only over task slices (no map iteration)"),
        ("reshuffle_fields_tie",
         'theorem reshuffle_fields_tie : ∀ f ∈ ["NumPartition", "Partitioner", "Combiner", "CombineKey", "Deps", "Name"], f ∈ reshuffleFieldsG := by decide',
         "exec/compile.go Result branch: re-shuffle tasks carry the partition configuration"),
        ("deppart_tie",
         'theorem deppart_tie : depPartG = "slice.NumShard(), dep.Partitioner, lastSlice.Combiner(), combineKey," := by decide',
         "exec/compile.go: a shuffle dependency is compiled with the consumer's shard count as partition count"),
    ]
    vlib.t2_check(chk, wc, "C08", ["BS.Model.Compile"], "\n".join(gen), ties)
