"""C09 — combining frames (any initial capacity, scratch size) and spilling combiners (any spill threshold)."""
import itertools

PID = "C09"
CASE_LIMIT = {"C09": 60}   # seconds: these cases are function calls, not sessions
RULE = ("combining frame: exhaustive over all key sequences of length <= 5 (quick) / <= 7 (thorough) over a 5-key alphabet on "
        "tables of initial capacity 1 and 8 with scratch 1 and 2, compacted at the end and once in the middle; random op "
        "sequences combine/compact with capacities {1,2,4,8,16}, scratch {1,2,3,8}, up to 60 rows, Zipf-like keys; "
        "observed after every op: rows (sorted), Len, Cap, threshold and every occupied slot (index, key, value) of the hash table; combiner: chunk {1,2,4,8}, spill target 1..6, up to 8 "
        "Combine calls, Reader drained with random destination sizes, spill directories counted; plus combiners fed 200..1000 "
        "rows over 140..500 keys with spill targets 130..1000, so that spilled runs exceed the 128-row merge buffers; the combiner "
        "over int16/uint16/int32/uint32/int/uint64/string/int8/uint8 keys (typed images of the keys, spread over all bytes), and over a value "
        "column with a custom frame codec; "
        "non-trivial = a key occurs twice or the table grows")
TRUST = ["sort.Sort sorts given Frame.Less/Swap (C11)", "sliceio.Spiller stores and returns the frames it is given (C07 codec)"]
ASSUMPTIONS = ["the combine function is commutative and associative for the spill/merge laws (the harness uses +); the hash "
               "table theorem BS.Table.combining_frame_spec needs neither",
               "the hash table model BS.Table (hashing with murmur3/hashSeed, triangular probing, equality test, threshold, "
               "doubling, rehash) is compared slot by slot with the real combining frame after every Combine"]
EXTRA_TARGETS = ("BS.Proofs.Probe", "BS.Proofs.Table")


def gen(r, tier):
    L = 5 if tier == "quick" else 7
    for n in range(0, L + 1):
        for seq in itertools.product(range(5), repeat=n):
            if tier == "quick" and n == L and seq[0] > 1:
                continue
            rows = " ".join("%d:%d" % (k, i + 1) for i, k in enumerate(seq))
            for init, scratch in ((1, 1), (8, 2)):
                yield "CF %d %d ; combine %s ; compact" % (init, scratch, rows)
            if n >= 2:
                a = " ".join("%d:%d" % (k, i + 1) for i, k in enumerate(seq[: n // 2]))
                b = " ".join("%d:%d" % (k, i + 7) for i, k in enumerate(seq[n // 2:]))
                yield "CF 8 1 ; combine %s ; compact ; combine %s ; compact" % (a, b)
    for _ in range(1500 if tier == "quick" else 30000):
        ops = []
        for _ in range(r.rng(1, 6)):
            if r.chance(1, 4):
                ops.append("compact")
            else:
                rows = ["%d:%d" % (min(r.below(12), r.below(12)) * (1 if r.chance(3, 4) else 7), r.rng(-5, 30)) for _ in range(r.rng(0, 20))]
                ops.append("combine " + " ".join(rows))
        ops.append("compact")
        yield "CF %d %d ; %s" % (r.choice([1, 2, 4, 8, 16]), r.choice([1, 2, 3, 8]), " ; ".join(ops))
    for _ in range(800 if tier == "quick" else 15000):
        ops = []
        for _ in range(r.rng(0, 8)):
            rows = ["%d:%d" % (min(r.below(15), r.below(15)), r.rng(0, 30)) for _ in range(r.rng(0, 9))]
            ops.append("combine " + " ".join(rows))
        if r.chance(9, 10):
            ops.append("reader DEST " + " ".join(str(r.rng(1, 6)) for _ in range(r.rng(1, 3))))
        else:
            ops.append("discard")
        yield "CB %d %d ; %s" % (r.choice([1, 2, 4, 8]), r.rng(1, 6), " ; ".join(ops))


def gen_big(r, n):
    """spilled runs longer than the 128-row buffers of the reduce-merge: the refill paths of sortio's reader"""
    for _ in range(n):
        ops = []
        nkeys = r.choice([140, 200, 300, 500])
        for _ in range(r.rng(2, 4)):
            rows = ["%d:%d" % (r.below(nkeys), r.rng(0, 30)) for _ in range(r.rng(100, 260))]
            ops.append("combine " + " ".join(rows))
        # a few rows that stay in memory
        ops.append("combine " + " ".join("%d:%d" % (r.below(nkeys), 100) for _ in range(r.rng(0, 5))))
        ops.append("reader DEST " + " ".join(str(r.choice([1, 7, 64, 128, 200])) for _ in range(r.rng(1, 3))))
        if r.chance(1, 3):
            # spill batches larger than the 128-row merge buffers
            yield "CBS %d %d %d ; %s" % (r.choice([129, 256, 300, 512]), r.choice([8, 128]), r.choice([130, 150, 256, 300, 1000]), " ; ".join(ops))
        else:
            yield "CB %d %d ; %s" % (r.choice([8, 128]), r.choice([130, 150, 256, 300, 1000]), " ; ".join(ops))


_gen_small = gen


def gen_typed(r, n):
    """the combiner over other key types (spilled and merged through the typed frame operations)"""
    for i in range(n):
        kind = ["i16", "u16", "i32", "u32", "int", "u64", "str", "i8", "u8"][i % 9]
        ops = []
        for _ in range(r.rng(1, 6)):
            rows = ["%d:%d" % (min(r.below(60), r.below(90)), r.rng(0, 30)) for _ in range(r.rng(0, 40))]
            ops.append("combine " + " ".join(rows))
        ops.append("reader DEST " + " ".join(str(r.rng(1, 9)) for _ in range(r.rng(1, 3))))
        yield "CBT %s %d %d ; %s" % (kind, r.choice([1, 2, 8, 128]), r.choice([1, 3, 6, 20, 1000]), " ; ".join(ops))


def gen_codec(r, n):
    """a value column with a custom frame codec, spilled in several batches (views at non-zero offsets)"""
    for i in range(n):
        ops = []
        nkeys = r.choice([20, 140, 300, 500])
        for _ in range(r.rng(1, 4)):
            rows = ["%d:%d" % (r.below(nkeys), r.rng(0, 30)) for _ in range(r.choice([5, 60, 150, 300]))]
            ops.append("combine " + " ".join(rows))
        ops.append("reader DEST " + " ".join(str(r.choice([1, 7, 64, 128, 200])) for _ in range(r.rng(1, 3))))
        yield "CBV %d %d ; %s" % (r.choice([8, 128]), r.choice([3, 20, 130, 256, 300, 1000]), " ; ".join(ops))


def gen(r, tier):
    yield from _gen_small(r, tier)
    yield from gen_typed(r, 180 if tier == "quick" else 4000)
    yield from gen_codec(r, 60 if tier == "quick" else 1500)
    yield from gen_big(r, 60 if tier == "quick" else 1500)


def nontrivial(case, obs):
    ks = [t.split(":")[0] for t in case.split() if ":" in t]
    return len(ks) != len(set(ks)) or len(set(ks)) > 2


def t2(chk, wc, tier, seed):
    """the probing and growth arithmetic of the combining frame, regenerated from exec/combiner.go: the first slot is
    `hash & mask`, every further probe `idx = (idx + try) & mask` with try = 1, 2, … (BS.Table.pidxRec; closed form pidx by
    BS.Table.probe_recurrence), mask = capacity - 1, the table doubles when len exceeds the threshold (load factor 0.7),
    both in `combine` and in the rehash of `added`."""
    import re
    import vlib
    src = open(wc.repo + "/exec/combiner.go").read()
    first = re.findall(r"idx := int\((?:c\.scratch|data0)\.HashWithSeed\(i, hashSeed\)\) & c\.mask", src)
    loops = re.findall(r"for try := 1; ; try\+\+ \{", src)
    steps = re.findall(r"idx = \(idx \+ try\) & c\.mask", src)
    mask = re.search(r"c\.mask = ndata - 1", src) is not None
    m = re.search(r"combiningFrameLoadFactor\s*=\s*([0-9.]+)", src)
    load = m.group(1) if m else "?"
    thr = re.search(r"c\.threshold = int\(combiningFrameLoadFactor \* float64\(ndata\)\)", src) is not None
    grow = re.search(r"c\.len \+= 1\n\tif c\.len <= c\.threshold \{\n\t\treturn\n\t\}", src) is not None
    dbl = re.search(r"n := c\.cap \* 2\n", src) is not None
    gen = ("def firstProbesG : Nat := %d\ndef probeLoopsG : Nat := %d\ndef probeStepsG : Nat := %d\ndef maskIsCapMinusOneG : Bool := %s\n"
           'def loadFactorG : String := "%s"\ndef thresholdFromLoadG : Bool := %s\ndef growsAboveThresholdG : Bool := %s\ndef doublesG : Bool := %s') % (
        len(first), len(loops), len(steps), "true" if mask else "false", load, "true" if thr else "false",
        "true" if grow else "false", "true" if dbl else "false")
    ties = [("probe_arithmetic_tie",
             'theorem probe_arithmetic_tie : firstProbesG = 2 ∧ probeLoopsG = 2 ∧ probeStepsG = 2 ∧ maskIsCapMinusOneG = true ∧ '
             'loadFactorG = "0.7" ∧ thresholdFromLoadG = true ∧ growsAboveThresholdG = true ∧ doublesG = true := by decide',
             "exec/combiner.go combine / added: hash & mask, idx = (idx + try) & mask from try = 1, mask = cap - 1, threshold = 0.7 cap, "
             "doubling when len exceeds it (BS.Table.pidxRec, threshold, grow)"),
            ("threshold_model_tie",
             "theorem threshold_model_tie : ∀ m, m < 31 → BS.Table.threshold (2 ^ m) = 7 * 2 ^ m / 10 := by intro m _; rfl",
             "BS.Table.threshold is the integer part of 0.7 cap (compared slot by slot with the real frame by T1)")]
    vlib.t2_check(chk, wc, "C09", ["BS.Model.Table"], gen, ties)
