"""C05 — keyed redistribution: the default partitioner against the Lean murmur3/partition model;
exhaustive over 8/16-bit keys; assignments compared across two OS processes."""
import sys, os
sys.path.insert(0, os.path.dirname(os.path.dirname(os.path.abspath(__file__))))
PID = "C05"
CASE_LIMIT = {"C05": 45, "C05range": 45}   # seconds: these cases are function calls, not sessions
SUBS = ["C05range", "C05", "C05e2e"]
PARALLEL = {"C05e2e": 8}
RULE = ("C05range: every key of int8/uint8 (quick) and int16/uint16 (thorough; quick samples 4 shard counts) for shard counts "
        "1..17, each compared with the Lean model (exhaustive over the key range); C05: random frames over all key kinds "
        "(ints of every width, uint, uintptr, string, []byte, bool, struct{}, float32/64 incl. +0/-0 and negatives), "
        "1..3-column prefixes, view offsets 0..5, shard counts 1..64, two seeds; every case is additionally run in a "
        "second, separately started process and the two outputs must be identical; C05e2e: every keyed operator (reduce, "
        "fold, cogroup, reshuffle on 1- and 2-column prefixes, reshard, repartition) over sources, pipelines and results of "
        "earlier invocations (bare and re-prefixed), 1..5 shards, 3..300 rows, on the local executor and on clusters "
        "(vector sizes 1, 2, 128): the rows of every output shard are compared with the shard the Lean partition model "
        "prescribes for their key; non-trivial = at least two rows")
TRUST = ["spaolacci/murmur3 Sum32WithSeed is re-implemented in Lean (BS.Hash.murmur3) and compared on every case"]
ASSUMPTIONS = ["NaN keys are out of scope (as the property says)", "floats are quarter-integers m/4, |m| < 2^20, and the two zeros"]
EXTRA_TARGETS = ()

KINDS = ["i8", "i16", "i32", "i64", "int", "u8", "u16", "u32", "u64", "uint", "uptr", "str", "bytes", "bool", "f64", "f32", "unit"]


def val(r, k):
    if k in ("i8",):
        return str(r.rng(-128, 127))
    if k in ("i16",):
        return str(r.rng(-32768, 32767))
    if k in ("i32", "i64", "int"):
        return str(r.choice([r.rng(-5, 5), r.rng(-2**31, 2**31 - 1), r.rng(-1000, 1000)]))
    if k == "u8":
        return str(r.rng(0, 255))
    if k == "u16":
        return str(r.rng(0, 65535))
    if k in ("u32", "u64", "uint", "uptr"):
        return str(r.choice([r.rng(0, 9), r.rng(0, 2**32 - 1)]))
    if k == "str":
        # short keys, keys around small-buffer sizes (16, 32, 64 bytes) and long keys
        return "s:" + r.choice(["", "a", "ab", "abc", "abcd", "hello", "k%04d" % r.rng(0, 50), "x" * r.rng(0, 11),
                                "k" * r.choice([15, 16, 17, 31, 32, 33, 63, 64, 65]) + "%d" % r.rng(0, 9),
                                "".join(r.choice("abcdefgh") for _ in range(r.rng(12, 90)))])
    if k == "bytes":
        return "b:" + r.choice(["", "a", "abcde", "q%d" % r.rng(0, 99), "z" * r.choice([31, 32, 33, 64, 65]),
                                "".join(r.choice("abcdefgh") for _ in range(r.rng(12, 90)))])
    if k == "bool":
        return str(r.below(2))
    if k in ("f64", "f32"):
        return "q:" + r.choice(["+0", "-0", "+0", "-0", "%+d" % r.rng(-40, 40), "%+d" % r.rng(-(2**20), 2**20)])
    if k == "unit":
        return "u"
    raise ValueError(k)


KEYED = ["reduce %s add", "fold %s", "cogroup %s %s", "reshuffle %s", "reshuffle2 %s", "reshard %s 3", "reshard %s 2",
         "repartition %s byval"]
E2E_CFGS = ["local", "local CH1", "bm M2 P4", "bm M1 P3 CH2", "bm M3 P3 CH1", "bm M2 P2 CH128"]


def gen_e2e(r, tier):
    """keyed operators end to end, judged shard by shard (the C12 driver: rows of shard p = rows whose key the model sends
    to p)"""
    import progen
    import props.c01 as c01
    # Repartition places each row in the shard its function returned — also when the same slice is repartitioned twice
    for p in c01.two_repartitions():
        for cfg in ("local", "bm M2 P4"):
            yield "%s ;; run %s" % (cfg, p)
    # keyed aggregations emit every distinct key once also when an input spans several read buffers
    for p in c01.wide_keyed():
        yield "%s ;; run %s" % (r.choice(["local", "bm M2 P4"]), p)
    # many producer tasks of one Repartition running at the same time in one process (the partition function's argument
    # vector must not be shared between them)
    for cfg, n in (("local P8", 24000), ("bm M4 P8", 16000), ("local P4 CH2", 6000)):
        yield "%s ;; run N0=lines 8 %d ; N1=map N0 swap ; N2=repartition N1 byval ; OUT N2" % (cfg, n)
    # a keyed redistribution applied directly to another one (no operator in between), back to the shard count of a source that
    # is not partitioned by key: every stage has to shuffle
    for a, b in ((4, 8), (3, 2), (2, 3), (5, 1), (2, 4)):
        rows = progen.rows(r, 40, keys=8)
        for src in ("N0=const %d %s" % (a, rows), "N0=reader %d 3 %s" % (a, rows)):
            for cfg in ("local", "bm M2 P4"):
                yield "%s ;; run %s ; N1=reshard N0 %d ; N2=reshard N1 %d ; OUT N2" % (cfg, src, b, a)
                yield "%s ;; run %s ; N1=reshard N0 %d ; N2=reshard N1 %d ; N3=reshard N2 %d ; OUT N3" % (cfg, src, b, a, b)
                yield "%s ;; run %s ; N1=reshuffle N0 ; N2=reshard N1 %d ; N3=reshard N2 %d ; OUT N3" % (cfg, src, b, a)
    n = 6 if tier == "quick" else 120
    for op in KEYED:
        for feed in ("src", "pipe", "result", "presult", "twostage"):
            for _ in range(n if feed != "src" else max(2, n // 2)):
                nsh = r.rng(1, 5)
                rows = progen.rows(r, 150 if r.chance(1, 4) else 24, keys=r.choice([3, 8, 40]))
                src = "N0=const %d %s" % (nsh, rows) if r.chance(2, 3) else "N0=reader %d %d %s" % (nsh, r.rng(1, 5) + (10 if r.chance(1, 3) else 0), rows)
                cfg = r.choice(E2E_CFGS)
                k = op.count("%s")
                if feed == "src":
                    yield "%s ;; run %s ; N1=%s ; OUT N1" % (cfg, src, op % (("N0",) * k))
                elif feed == "pipe":
                    yield "%s ;; run %s ; N1=map N0 %s ; N2=filter N1 %s ; N3=%s ; OUT N3" % (
                        cfg, src, r.choice(["inc", "swap", "mod5", "id"]), r.choice(["all", "vodd", "kmod3"]), op % (("N2",) * k))
                elif feed == "result":
                    yield "%s ;; run %s ; OUT N0 ;; run N0=%s ; OUT N0" % (cfg, src, op % (("R0",) * k))
                elif feed == "presult":
                    # the result re-prefixed to two key columns (a Reshuffle then places by both), then keyed again
                    second = "N0=reshuffle2 R0 ; N1=map N0 qid ; N2=%s ; OUT N2" % (op % (("N1",) * k))
                    if op.startswith("reshuffle2"):
                        second = "N0=reshuffle2 R0 ; N1=map N0 qinc ; OUT N1"
                    yield "%s ;; run %s ; N1=map N0 swap ; OUT N1 ;; run %s" % (cfg, src, second)
                else:
                    if op.startswith("reshuffle2"):
                        yield "%s ;; run %s ; N1=reshuffle2 N0 ; N2=map N1 pinc ; N3=reshuffle2 N2 ; N4=map N3 qid ; OUT N4" % (cfg, src)
                    else:
                        yield "%s ;; run %s ; N1=reshuffle N0 ; N2=map N1 mod5 ; N3=%s ; OUT N3" % (cfg, src, op % (("N2",) * k))


def gen(r, tier, sub):
    if sub == "C05e2e":
        yield from gen_e2e(r, tier)
        return
    if sub == "C05range":
        for kind, lo, hi in (("i8", -128, 127), ("u8", 0, 255)):
            for n in range(1, 18):
                yield "R %s %d %d N %d" % (kind, lo, hi, n)
        ns = range(1, 18) if tier == "thorough" else (1, 2, 7, 16)
        for kind, lo, hi in (("i16", -32768, 32767), ("u16", 0, 65535)):
            for n in ns:
                yield "R %s %d %d N %d" % (kind, lo, hi, n)
    else:
        n = 3000 if tier == "quick" else 60000
        for _ in range(n):
            nk = r.rng(1, 3)
            kinds = [r.choice(KINDS) for _ in range(nk)]
            pfx = r.rng(1, nk)
            rows = [",".join(val(r, k) for k in kinds) for _ in range(r.rng(1, 12))]
            yield "K %s P %d N %d OFF %d S %d ; %s" % (",".join(kinds), pfx, r.choice([1, 2, 3, 5, 7, 16, 17, 64, r.rng(1, 64)]),
                                                       r.rng(0, 5), r.choice([0, 2596996162, 1]), " ; ".join(rows))


def nontrivial(case, obs):
    if ";;" in case:
        return case.count(":") >= 2
    return case.startswith("R") or case.count(";") >= 2


def custom(chk, wc, tier, seed):
    """Assignments must be identical in two separately started OS processes."""
    import vlib
    r = vlib.SplitMix(seed ^ 0x5EED)
    cases = list(gen(r, "quick", "C05"))[:800]
    inp = "".join("%d %s\n" % (i, c) for i, c in enumerate(cases))
    a = wc.run_harness(["run", "C05"], inp).stdout
    b = wc.run_harness(["run", "C05"], inp).stdout
    chk.cov["cross_process_cases"] = len(cases)
    if a != b or a.count("\n") != len(cases):
        la, lb = a.split("\n"), b.split("\n")
        k = next((i for i in range(min(len(la), len(lb))) if la[i] != lb[i]), 0)
        chk.violation("impl-counterexample", {"case": cases[min(k, len(cases) - 1)], "sub": "C05",
                      "impl_observation": la[k] if k < len(la) else "", "model_observation": lb[k] if k < len(lb) else "",
                      "oracle": "shard assignment differs between two separately started processes"}, found_input=True)


def t2(chk, wc, tier, seed):
    """defaultPartitioner's expression and the byte splitting of hash32/hash64, regenerated from the source."""
    import re
    import vlib
    gen = []
    src = open(wc.repo + "/exec/compile.go").read()
    m = re.search(r"shards\[i\]\s*=\s*(.+)", src)
    expr = m.group(1).strip() if m else "?"
    gen.append('def defaultPartitionerExprG : String := "%s"' % expr.replace('"', "'"))
    ops = open(wc.repo + "/frame/ops_builtin.go").read()
    def shifts(fn):
        body = ops[ops.index("func %s(" % fn):]
        body = body[:body.index("\n}")]
        return re.findall(r"b\[(\d+)\] = byte\(x(?: >> (\d+))?\)", body)
    for fn in ("hash32", "hash64"):
        sh = shifts(fn)
        gen.append("def %sShiftsG : List (Nat × Nat) := [%s]" % (fn, ", ".join("(%s, %s)" % (i, s or "0") for i, s in sh)))
    ties = [
        ("partitioner_tie", 'theorem partitioner_tie : defaultPartitionerExprG = "int(frame.Hash(i) % uint32(nshard))" := by decide',
         "exec/compile.go defaultPartitioner"),
        ("hash32_tie", "theorem hash32_tie : hash32ShiftsG = [(0, 0), (1, 8), (2, 16), (3, 24)] := by decide", "frame/ops_builtin.go hash32 (little-endian bytes, as BS.Hash.bytes32)"),
        ("hash64_tie", "theorem hash64_tie : hash64ShiftsG = [(0, 0), (1, 8), (2, 16), (3, 24), (4, 32), (5, 40), (6, 48), (7, 56)] := by decide", "frame/ops_builtin.go hash64 (as BS.Hash.bytes64)"),
    ]
    vlib.t2_check(chk, wc, "C05", ["BS.Model.Part"], "\n".join(gen), ties)
