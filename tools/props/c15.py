"""C15 — task stores (memory and file) under injected file-operation failures, and the retrying reader
under every failure position / partial read size."""
import itertools

PID = "C15"
PARALLEL = {"C15": 4, "C15retry": 2}
TIMEOUT = {"quick": 1500, "thorough": 7000}
SUBS = ["C15", "C15retry"]
RULE = ("stores: the file store on the real local file system with the directory removed under live writers (directed); random create/write/commit/discard-writer/open(offset)/stat/discard sequences over 2 tasks x 2 partitions on the "
        "memory store and on the file store, the latter with a failure injected at the k-th underlying file operation "
        "(every k up to the number of operations of the failure-free run of the same sequence); retrying reader: streams of "
        "0..12 bytes, buffer sizes 1..5, scripts over {open fails, read fails (with 0..3 junk bytes), short read of n bytes, "
        "EOF reported later}; exhaustive: all scripts of length <= 3 over that alphabet for a fixed 5-byte stream (quick) / "
        "length <= 4 (thorough); non-trivial = a commit and an open / a script with a failure")
TRUST = ["grailbio/base/file local implementation publishes a created file only on a successful Close (temp file + rename)",
         "the harness's fault-injecting file.Implementation fails exactly one underlying operation per case"]
ASSUMPTIONS = ["offsets beyond the committed size are unspecified", "a writer whose Write failed is not expected to commit usable data"]


def seq(r):
    ops = []
    nw = 0
    keys = [("a", 0), ("a", 1), ("b", 0), ("a", 2)]
    live = []
    for _ in range(r.rng(3, 12)):
        k = r.below(100)
        t, p = r.choice(keys)
        if k < 20:
            ops.append("create %s %d" % (t, p))
            live.append(nw)
            nw += 1
        elif k < 45 and live:
            ops.append("write %d %s" % (r.choice(live), r.choice(["hello", "wor", "x", "abcdefgh", "12"])))
        elif k < 62 and live:
            w = r.choice(live)
            live.remove(w)
            ops.append("commit %d %d" % (w, r.rng(0, 9)))
        elif k < 66 and live:
            w = r.choice(live)
            live.remove(w)
            ops.append("discardw %d" % w)
        elif k < 84:
            ops.append("open %s %d %d" % (t, p, r.choice([0, 0, 1, 2, 5, 7])))
        elif k < 94:
            ops.append("stat %s %d" % (t, p))
        else:
            ops.append("discard %s %d" % (t, p))
    return " ; ".join(ops)


def directed():
    """Several writers for one (task, partition) created before any commits: exactly one commit wins, the others are refused
    and must leave the committed entry (bytes, size, record count) as it is."""
    out = []
    for order in ((0, 1), (1, 0)):
        for c0, c1 in ((3, 7), (0, 5), (4, 0)):
            for tail in ("stat a 0 ; open a 0 0", "open a 0 1 ; stat a 0", "stat a 0 ; discard a 0 ; stat a 0 ; create a 0 ; write 2 zz ; commit 2 9 ; stat a 0"):
                cs = {0: c0, 1: c1}
                out.append("create a 0 ; create a 0 ; write 0 hello ; write 1 xy ; commit %d %d ; commit %d %d ; %s"
                           % (order[0], cs[order[0]], order[1], cs[order[1]], tail))
    out.append("create a 0 ; create a 0 ; create a 0 ; write 0 a ; write 1 bb ; write 2 ccc ; commit 1 2 ; commit 2 3 ; stat a 0 ; commit 0 1 ; stat a 0 ; open a 0 0")
    out.append("create a 0 ; write 0 hello ; commit 0 3 ; create a 0 ; stat a 0 ; discard a 0 ; create a 0 ; create a 0 ; write 2 q ; commit 2 1 ; write 3 rr ; commit 3 2 ; stat a 0")
    return out


def directed_partitions():
    """three committed partitions of one task discarded in every order: after each discard the other partitions still
    return their bytes (from an offset) and their record count"""
    import itertools as it
    out = []
    pre = "create a 0 ; write 0 aa ; commit 0 1 ; create a 1 ; write 1 bbb ; commit 1 2 ; create a 2 ; write 2 c ; commit 2 3"
    look = " ; ".join("stat a %d ; open a %d %d" % (p, p, p % 2) for p in (0, 1, 2))
    for order in it.permutations((0, 1, 2)):
        out.append(pre + " ; " + " ; ".join("discard a %d ; %s" % (p, look) for p in order))
    # and partitions committed out of order, with a gap
    out.append("create a 2 ; write 0 zz ; commit 0 4 ; stat a 0 ; stat a 1 ; stat a 2 ; create a 0 ; write 1 q ; commit 1 1 ; "
               "discard a 2 ; stat a 0 ; open a 0 0 ; stat a 2")
    return out


def directed_local():
    """the file store on the real local file system: the directory removed under live writers"""
    out = []
    for pre in ("", "create b 0 ; write 0 keep ; commit 0 2 ; "):
        k = 1 if pre else 0
        out.append(pre + "create a 0 ; write %d hello ; breakdir ; commit %d 3 ; stat a 0 ; open a 0 0 ; stat b 0" % (k, k))
        out.append(pre + "create a 0 ; create a 1 ; write %d hello ; write %d xy ; breakdir ; commit %d 1 ; commit %d 3 ; stat a 0 ; stat a 1 ; "
                   "create a 0 ; write %d again ; commit %d 5 ; stat a 0 ; open a 0 2" % (k, k + 1, k + 1, k, k + 2, k + 2))
        out.append(pre + "create a 0 ; write %d hello ; commit %d 3 ; stat a 0 ; open a 0 1 ; discard a 0 ; stat a 0" % (k, k))
    return out


def gen(r, tier, sub):
    if sub == "C15":
        for s in directed_local():
            yield "lfile FAIL 0 ; " + s
        for s in directed() + directed_partitions():
            yield "mem FAIL 0 ; " + s
            yield "file FAIL 0 ; " + s
        n = 250 if tier == "quick" else 4000
        for _ in range(n):
            s = seq(r)
            yield "mem FAIL 0 ; " + s
            yield "file FAIL 0 ; " + s
            # a failure at every underlying operation (bounded by a generous count; extra ks are no-ops)
            for k in range(1, 5 * s.count(";") + 8, 1 if tier == "thorough" else 2):
                yield "file FAIL %d ; %s" % (k, s)
    else:
        alpha = ["of", "rf", "rp2", "s1", "s3", "eoflater"]
        maxlen = 3 if tier == "quick" else 4
        for n in range(0, maxlen + 1):
            for sc in itertools.product(alpha, repeat=n):
                for buf in (1, 2, 4):
                    yield "DATA hello BUF %d SCRIPT %s" % (buf, " ".join(sc))
        for _ in range(3000 if tier == "quick" else 60000):
            data = "".join(r.choice("abcdefghij") for _ in range(r.rng(0, 12))) or "-"
            sc = []
            for _ in range(r.rng(0, 14)):
                k = r.below(10)
                sc.append("of" if k < 2 else "rf" if k < 4 else "rp%d" % r.rng(0, 3) if k < 5 else
                          "s%d" % r.rng(0, 4) if k < 8 else "eoflater" if k < 9 else "full")
            yield "DATA %s BUF %d SCRIPT %s" % (data, r.rng(1, 5), " ".join(sc))


def nontrivial(case, obs):
    if case.startswith("DATA"):
        return any(t in case for t in ("of", "rf", "rp"))
    return "commit" in case and "open" in case


def shrink_candidates(case):
    parts = case.split(" ; ")
    if len(parts) > 2:
        for i in range(len(parts) - 1, 0, -1):
            if not parts[i].startswith(("create",)):
                yield " ; ".join(parts[:i] + parts[i + 1:])
    elif case.startswith("DATA"):
        toks = case.split()
        for i in range(len(toks) - 1, 5, -1):
            yield " ".join(toks[:i] + toks[i + 1:])


def t2(chk, wc, tier, seed):
    """retryReader: the byte count advances exactly by the bytes delivered, only on the delivering path;
    the retry budget literal."""
    import re
    import vlib
    src = open(wc.repo + "/exec/bigmachine.go").read()
    m = re.search(r"retryPolicy\s*=\s*retry\.MaxRetries\(.*,\s*(\d+)\)", src)
    body = src[src.index("func (r *retryReader) Read("):]
    body = body[:body.index("\nfunc ", 10)]
    assigns = re.findall(r"r\.bytes\s*(\+=|-=|=)\s*([^\n]+)", body)
    succ = body[body.index("if err == nil || err == io.EOF {"):] if "if err == nil || err == io.EOF {" in body else ""
    succ = succ[:succ.index("}")] if succ else ""
    opens = re.findall(r"OpenAt\(r\.ctx,\s*([^)]+)\)", body)
    gen = [
        "def retryBudgetG : Nat := %s" % (m.group(1) if m else "0"),
        'def bytesAssignsG : List (String × String) := [%s]' % ", ".join('("%s", "%s")' % (a, b.strip()) for a, b in assigns),
        "def bytesInSuccessBranchG : Bool := %s" % ("true" if "r.bytes += int64(n)" in succ else "false"),
        'def reopenOffsetG : List String := [%s]' % ", ".join('"%s"' % o.strip() for o in opens),
    ]
    ties = [
        ("budget_tie", "theorem budget_tie : retryBudgetG = BS.Store.budget := by decide", "exec/bigmachine.go retryPolicy"),
        ("bytes_tie", 'theorem bytes_tie : bytesAssignsG = [("+=", "int64(n)")] ∧ bytesInSuccessBranchG = true ∧ reopenOffsetG = ["r.bytes"] := by decide',
         "exec/bigmachine.go retryReader.Read: r.bytes advances by n on the delivering path only; reopen at r.bytes"),
    ]
    vlib.t2_check(chk, wc, "C15", ["BS.Model.Store"], "\n".join(gen), ties)
