"""C06 — failure injection into every user-function site; Run must return an error (or succeed with the right rows)."""
PID = "C06"
EXTRA_TARGETS = ("BS.Properties.C06r",)
SUBS = ["C06sev", "C06"]
PARALLEL = {"C06": 8}
TIMEOUT = {"quick": 1500, "thorough": 7000}
RULE = ("sweep: the combine function of a Reduce with recurring keys failing at every call position 0..95 (persistent and one-shot) on two clusters; matrix: site {ReaderFunc, the stream of a ScanReader, WriterFunc, Scan callback, Map, Filter, Flatmap, Fold, Reduce combiner, Repartition partitioner} "
        "x mode {error, temporary error, panic, partition out of range (n and -1)} (as applicable to the site) x {persistent, one-shot} "
        "x failing call index k in {0,1,2,3,5,8,13,40} (first row, vector boundaries of CH 1/2/4, last rows, never) x downstream "
        "{nothing, reduce, reshuffle+map, head 2, head 4} x configuration {local with parallelism 4 and 1, bigmachine testsystem 2x2, 1x1, 1x4 with machine combiners} x vector size "
        "{1,2,4,128}; after the faulty program a healthy program runs in the same session; thorough = the whole matrix, quick = a "
        "seeded 1/8 sample; non-trivial = the failure actually fired")
TRUST = ["the harness counts the failing calls of the injected function (fired=) in-process; bigmachine workers are testsystem "
         "machines in the same process"]
ASSUMPTIONS = ["a one-shot non-temporary failure may either fail the run or be absorbed; if the run succeeds its rows must be complete",
               "crash = the harness process dies (recorded by the runner as CRASH); hang = Run or the result scan exceeds 45 s"]

ROWS = "1:1 2:2 1:3 4:4 2:5 7:6 1:7 3:8 2:9 1:10 4:11 1:12"
SITES = [
    # (name, statements (fault node is N1 unless stated), fault node, modes)
    ("reader", "N1=reader 2 2 " + ROWS, "N1", ["err", "tmp", "panic"]),
    # many distinct keys: a task that combines its own output has flushed rows into its combiners before the failing call
    # (a retried attempt must not find them there)
    ("reader", "N1=reader 2 2 " + " ".join("%d:%d" % ((i * 5) % 31, i) for i in range(70)), "N1", ["tmp", "err"]),
    # ScanReader over a user stream that fails before its first line or between two lines
    ("reader", "N1=lines 2 9", "N1", ["err", "tmp", "panic"]),
    ("writer", "N0=const 2 " + ROWS + " ; N1=writer N0", "N1", ["err", "tmp", "panic"]),
    ("scan", "N0=const 2 " + ROWS + " ; N1=scan N0", "N1", ["err", "tmp", "panic"]),
    ("map", "N0=const 2 " + ROWS + " ; N1=map N0 inc", "N1", ["panic"]),
    ("filter", "N0=const 2 " + ROWS + " ; N1=filter N0 vodd", "N1", ["panic"]),
    ("flatmap", "N0=const 2 " + ROWS + " ; N1=flatmap N0 two", "N1", ["panic"]),
    ("fold", "N0=const 2 " + ROWS + " ; N1=fold N0", "N1", ["panic"]),
    ("combiner", "N0=const 3 " + ROWS + " ; N1=reduce N0 add", "N1", ["panic"]),
    # many distinct recurring keys: the task-local table overflows into the per-partition combine buffer, where the
    # combine function meets keys again (the third combiner call site)
    ("combiner", "N0=const 2 " + " ".join("%d:%d" % ((i * 7) % 23, i) for i in range(92)) + " ; N1=reduce N0 add", "N1", ["panic"]),
    ("partitioner", "N0=const 2 " + ROWS + " ; N1=repartition N0 byval", "N1", ["panic", "oob", "neg"]),
]
DOWN = ["", " ; N2=reduce N1 add", " ; N2=reshuffle N1 ; N3=map N2 inc"]
CONFIGS = ["local", "local P1", "bm M2 P2", "bm M1 P1", "bm M4 P4 MC"]
KS = [0, 1, 2, 3, 5, 8, 13, 40]
HEALTHY = "N0=const 2 1:1 2:2 3:3 ; N1=reduce N0 add ; OUT N1"


def matrix():
    for site, stmts, node, modes in SITES:
        for mode in modes:
            for once in ("always", "once"):
                for k in KS:
                    # a Head downstream (only where the row order is fixed): the failure may arrive together with the rows that
                    # complete the head
                    downs = DOWN + ([" ; N2=head N1 2", " ; N2=head N1 4"] if site in ("reader", "writer", "map", "filter", "flatmap") else [])
                    for d in downs:
                        if site == "scan" and d:
                            continue
                        for cfg in CONFIGS:
                            for ch in (1, 2, 4, 128):
                                last = "N3" if "N3=" in d else "N2" if "N2=" in d else "N1"
                                yield site, "%s CH%d ;; FAULT %s %s %d %s ; %s%s ; OUT %s ;; %s" % (
                                    cfg, ch, node, mode, k, once, stmts, d, last, HEALTHY)


def gen(r, tier, sub):
    if sub == "C06sev":
        # exhaustive: reviseSeverity on {application, other} x 4 severities; the reader/writer wrappers on 5 error shapes
        for app in (0, 1):
            for s in (-2, -1, 0, 1):
                yield "revise %d %d" % (app, s)
        for w in ("reader", "writer"):
            for s in ("plain", "-2", "-1", "0", "1"):
                yield "%s %s" % (w, s)
        return
    # machine combiners whose shared combine buffer has spilled: the keys of the second task meet those of the first only when
    # the worker merges the spilled runs to write the buffer out (CommitCombiner, in a goroutine of its own)
    A = list(range(1000))
    B = list(range(50)) + list(range(100000, 100950))
    inter = " ".join("%d:1 %d:1" % (a, b) for a, b in zip(A, B))
    for k, once in ((0, "always"), (0, "once"), (7, "always"), (30, "once")):
        for cfg in ("bm M1 P1 MC", "bm M2 P1 MC", "bm M1 P1"):
            yield "%s CH1 ;; FAULT N1 panic %d %s ; N0=reader 2 5 %s ; N1=reduce N0 add ; OUT N1 ;; %s" % (cfg, k, once, inter, HEALTHY)
    # the combine function failing at *every* call position of one Reduce whose keys recur (task-local table, its overflow into
    # the per-partition buffer, the flush at end-of-stream, the consumer's merge): a sweep instead of the sampled positions
    sweep_rows = " ".join("%d:%d" % ((i * 7) % 23, i) for i in range(92))
    for k in range(0, 96):
        for once in ("always", "once"):
            for cfg in ("bm M2 P2", "bm M1 P1", "local P1"):
                if tier == "quick" and cfg == "local P1" and k % 4:
                    continue
                yield "%s CH128 ;; FAULT N1 panic %d %s ; N0=const 2 %s ; N1=reduce N0 add ; OUT N1 ;; %s" % (cfg, k, once, sweep_rows, HEALTHY)
    allc = list(matrix())
    if tier == "quick":
        for site, c in allc:
            if r.below(8) == 0:
                yield c
    else:
        for _, c in allc:
            yield c


def nontrivial(case, obs):
    return "fired=0 ##" not in obs and not obs.startswith("ok | ") or "fired=0" not in obs.split("##")[0]


def shrink_candidates(case):
    return []


def t2(chk, wc, tier, seed):
    """the protection table: in every function that runs user code of a task, a deferred recover is installed before
    the first call that can reach user code; and the hand-back of the shared combiner is deferred. Regenerated from the source."""
    import re
    import vlib
    def body(path, sig):
        src = open(wc.repo + "/" + path).read()
        i = src.index(sig)
        j = src.index("\n}\n", i)
        return src[i:j]
    rows = []
    def protected(name, path, sig, first_user_calls):
        try:
            b = body(path, sig)
        except ValueError:
            rows.append((name, False)); return
        rec = b.find("recover()")
        calls = [b.find(c) for c in first_user_calls if b.find(c) >= 0]
        rows.append((name, rec >= 0 and bool(calls) and rec < min(calls)))
    protected("local.bufferOutput", "exec/local.go", "func bufferOutput(", ["out.Read("])
    protected("local.depReaders", "exec/local.go", "func (l *localExecutor) depReaders(", ["combiner.Combine(", "reader.Read("])
    protected("worker.Run", "exec/bigmachine.go", "func (w *worker) Run(", ["task.Do(", "w.runCombine("])
    # (D29) writing a machine combiner out merges its spilled runs with the user's combine function, in goroutines of its own
    protected("worker.writeCombiner", "exec/bigmachine.go", "func (w *worker) writeCombiner(", ["combiner.WriteTo("])
    try:
        b = body("exec/bigmachine.go", "func (w *worker) runCombine(")
        # every `combiner.Combine(` call sits in a function literal that defers the hand-back
        lits = re.findall(r"func\(combiner \*combiner, p int, f frame\.Frame\) error \{\s*defer func\(\) \{ combiners\[p\] <- combiner \}\(\)\s*return combiner\.Combine\(ctx, f\)\s*\}", b)
        rows.append(("runCombine.handback", len(lits) == 1 and b.count("combiner.Combine(") == 1))
        rows.append(("runCombine.recover", "recover()" in b))
    except ValueError:
        rows += [("runCombine.handback", False), ("runCombine.recover", False)]
    # (D26) a failed task-private combine discards the combiners: in runCombine a deferred function that returns early only
    # for success or a shared (machine) combiner, then forgets the combiners and sets the state back to combinerNone
    try:
        b = body("exec/bigmachine.go", "func (w *worker) runCombine(")
        m = re.search(r"defer func\(\) \{\s*if err == nil \|\| task\.CombineKey != \"\" \{\s*return\s*\}(.*?)\n\t\}\(\)", b, re.S)
        blk = m.group(1) if m else ""
        reset = ("delete(w.combiners, combineKey)" in blk and "w.combinerStates[combineKey] = combinerNone" in blk
                 and ".Discard()" in blk and "w.combinerStates[combineKey] != combinerIdle" in blk)
        # registered before the deferred function that decrements the reference count (so that it runs after it)
        order = m is not None and b.find("w.combinerStates[combineKey]--") > m.start()
    except ValueError:
        reset, order = False, False
    gen2 = "\ndef combinerResetOnFailureG : Bool := %s\ndef combinerResetRunsAfterDecrementG : Bool := %s" % (
        "true" if reset else "false", "true" if order else "false")
    gen = "def protectionG : List (String × Bool) := [%s]" % ", ".join('("%s", %s)' % (n, "true" if v else "false") for n, v in rows)
    ties = [("all_sites_protected", "theorem all_sites_protected : protectionG.length = 6 ∧ ∀ s ∈ protectionG, s.2 = true := by decide",
             "exec/local.go bufferOutput, depReaders; exec/bigmachine.go worker.Run, runCombine: recover before user code, deferred combiner hand-back")]
    ties.append(("combiner_reset_on_failure",
                 "theorem combiner_reset_on_failure : combinerResetOnFailureG = true ∧ combinerResetRunsAfterDecrementG = true := by decide",
                 "exec/bigmachine.go (*worker).runCombine: a failed task-private combine discards the task's combiners and returns their state "
                 "to combinerNone (BS.Combine.step with fixed := true; BS.Combine.retry_commits_exactly_one_attempt)"))
    vlib.t2_check(chk, wc, "C06", ["BS.Model.Fault", "BS.Model.Combine"], gen + gen2, ties)


def finding_key(case, obs, model, oracle):
    # D27: with machine combiners a retried task combines its rows into the shared, machine-wide combiner a second time
    # (the documentation of exec.MachineCombiners: "error recovery is currently not implemented for such tasks"):
    # a one-shot temporary failure in a task feeding a Reduce then yields over-counted values with a nil error
    cfg = case.split(";;")[0]
    if " MC" in cfg and " tmp " in case and " once " in case and "reduce" in case \
            and oracle.startswith("faulty run: Run succeeded with rows"):
        return "machine-combiner-retry-counts-rows-twice"
    return None
