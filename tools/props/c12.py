"""C12 — histories of run / scan / run-with-result / discard in one session vs the reference (BS.History)."""
import sys, os, re
sys.path.insert(0, os.path.dirname(os.path.dirname(os.path.abspath(__file__))))
import progen

PID = "C12"
SUBS = ["C12", "C12wk"]
PARALLEL = {"C12": 8, "C12wk": 8}
CASE_LIMIT = {"C12wk": 60}
EXTRA_TARGETS = ("BS.Properties.C12b", "BS.Properties.C12w")
RETRY_FLAKY = ("C12wk",)   # the harness recognises "the worker is at rest" by a quiet period
TIMEOUT = {"quick": 1500, "thorough": 7000}
RULE = ("random histories of 3..8 operations in one session — run (programs of 1..5 nodes, half of them consuming one or two "
        "earlier results through pipelined and shuffling operators), scan, two concurrent scans, discard, run racing with a "
        "discard of its argument — on the local executor and on bigmachine testsystem clusters (1x4, 2x2, machine combiners), "
        "vector sizes {1,2,128}; every run is judged like C01 with the earlier results' first values as inputs, every scan "
        "against the first value (an error is accepted only after a discard); non-trivial = a result is consumed after a discard "
        "or by a shuffling operator")
TRUST = ["as C01"]
ASSUMPTIONS = ["failure-free (machine loss is C02)", "an evaluation racing with the discard of its own arguments may fail with an "
               "error; it must not hang nor return other rows", "at most two distinct results per program (the harness registers "
               "Funcs of 0, 1 and 2 slice arguments)"]
CONFIGS = ["local", "local", "bm M4 P4", "bm M2 P4", "bm M2 P4 MC", "bm M1 P3"]


def gen_prog(r, shards, ordered, avail):
    """avail: indices of usable results.  Returns (text with global R names, nshard, ordered)."""
    for _ in range(50):
        use = []
        if avail and r.chance(2, 3):
            use = [avail[r.below(len(avail))]]
            if len(avail) > 1 and r.chance(1, 3):
                k2 = avail[r.below(len(avail))]
                if k2 != use[0]:
                    use.append(k2)
        p, sh, od, isscan = progen.gen_program(r, 5, results=[shards[k] for k in use], e2e=True,
                                               result_ordered=[ordered[k] for k in use])
        if isscan:
            continue
        if use and not re.search(r"\bR\d", p):
            continue
        p = re.sub(r"\bR(\d+)\b", lambda m: "R%d" % use[int(m.group(1))] if int(m.group(1)) < len(use) else m.group(0), p)
        return p, sh, od
    return "N0=const 1 1:1 ; OUT N0", 1, True


def directed():
    """results whose invocations depend on each other along paths of different lengths, consumed together by a program
    whose tasks land on machines that have compiled none of them (workers compile an invocation's dependencies first)"""
    rows = "1:1 2:2 3:3 4:4 5:5"
    for cfg in ("bm M1 P2", "bm M1 P3", "bm M2 P4", "local"):
        for depth in (2, 3, 4):
            for nsh in (1, 2):
                ops = ["run N0=const %d %s ; OUT N0" % (nsh, rows)]
                for d in range(depth):
                    ops.append("run N0=map R%d inc ; OUT N0" % d)
                for other in range(0, depth):
                    for final in ("N0=map R%d id ; N1=map R%d id ; N2=cogroup N0 N1 ; OUT N2" % (depth, other),
                                  "N0=reshard R%d 3 ; N1=reshard R%d 3 ; N2=cogroup N0 N1 ; OUT N2" % (depth, other),
                                  "N0=cogroup R%d R%d ; N1=reduce N0 add ; OUT N1" % (other, depth)):
                        yield "%s ;; %s ;; run %s" % (cfg, " ;; ".join(ops), final)


def directed_prefixed():
    """a result consumed directly as Prefixed(result, 2): by a shuffle (rows are placed by both columns) and by a pipelined
    operator (the result's tasks are reused, its operators — here a counting one — are not run again)"""
    rows = "1:1 2:2 3:3 4:4 5:5 1:7 2:9 6:1 7:2 8:3 9:9 10:4 11:0"
    for cfg in ("local", "bm M2 P4", "bm M1 P3"):
        for nsh in (1, 2, 3):
            first = "run N0=const %d %s ; N1=count N0 0 ; OUT N1" % (nsh, rows)
            for second in ("N0=reshuffle2 R0 ; OUT N0", "N0=reshuffle2 R0 ; N1=map N0 inc ; OUT N1", "N0=map R0 pid ; OUT N0",
                           "N0=map R0 pinc ; N1=reshuffle2 N0 ; OUT N1", "N0=mapm R0 pid ; N1=filter N0 vodd ; OUT N1"):
                yield "%s ;; %s ;; run %s" % (cfg, first, second)
                yield "%s ;; %s ;; run %s ;; discard 0 ;; scan 1" % (cfg, first, second)


def directed_kill_discard():
    """a result is discarded right after a machine holding part of it died (the Worker.Discard call fails): the discarded
    tasks must still end up lost, so that the next use recomputes them"""
    rows = "1:1 2:2 3:3 4:4 5:5 6:6 7:7 8:8"
    for cfg in ("bm M1 P2 KA", "bm M2 P4 KA", "bm M1 P3 KA"):
        for first in ("N0=const 2 %s ; N1=map N0 inc ; OUT N1" % rows, "N0=const 3 %s ; N1=reduce N0 add ; OUT N1" % rows):
            yield "%s ;; run %s ;; kill ;; discard 0 ;; run N0=map R0 id ; OUT N0 ;; scan 1" % (cfg, first)
            yield "%s ;; run %s ;; run N0=map R0 inc ; OUT N0 ;; kill ;; discard 1 ;; run N0=reshuffle R1 ; OUT N0" % (cfg, first)


def gen_main(r, tier):
    for c in directed_kill_discard():
        yield c
    for c in directed_prefixed():
        yield c
    alld = list(directed())
    if tier == "quick":
        alld = [c for c in alld if r.below(5) == 0]
    for c in alld:
        yield c
    n = 250 if tier == "quick" else 6000
    for i in range(n):
        cfg = "%s CH%d" % (r.choice(CONFIGS), r.choice([1, 2, 128, 128]))
        shards, ordered = [], []
        ops = []
        p, sh, od = gen_prog(r, shards, ordered, [])
        ops.append("run " + p); shards.append(sh); ordered.append(od)
        for _ in range(r.rng(2, 7)):
            k = r.below(len(shards))
            c = r.below(100)
            if c < 35:
                p, sh, od = gen_prog(r, shards, ordered, list(range(len(shards))))
                if r.chance(1, 6):
                    p = "EXCLUSIVE ; " + p     # an exclusive Func (machines of its own) consuming results computed elsewhere
                ops.append("run " + p); shards.append(sh); ordered.append(od)
            elif c < 55:
                ops.append("scan %d" % k)
            elif c < 65:
                ops.append("scan2 %d" % k)
            elif c < 88:
                ops.append("discard %d" % k)
            else:
                p, sh, od = gen_prog(r, shards, ordered, [k])
                ops.append("rundiscard %d %s" % (k, p)); shards.append(sh); ordered.append(od)
        yield cfg + " ;; " + " ;; ".join(ops)


def gen_wk(r, tier):
    """one task on one in-process worker: sequences of 2..12 ops over up to 6 calls — Run calls that overlap (the original of a
    retried RPC still executing), Discard calls held in the store while Run calls arrive, executions that succeed or fail —
    compared op by op with BS.WorkerTask"""
    directed = [
        "run a ; fin ok ; discard b ; run c ; dfin ; run d ; fin ok",
        "run a ; run b ; run c ; fin ok ; discard d ; discard e ; dfin ; run f ; fin ok",
        "run a ; run b ; fin err ; run c ; fin ok ; discard d ; run e ; run f ; dfin ; run g ; fin err ; run h ; fin ok",
        "discard a ; run b ; discard c ; fin ok ; discard d ; dfin ; discard e ; run f ; fin ok ; run g",
        "run a ; fin ok ; run b ; discard c ; dfin ; dfin ; run d ; run e ; fin ok",
        # the context of a waiting call is cancelled (BS.WorkerTask.cancel_breaks_one_holder: outside the theorems, inside the model)
        "run a ; run b ; cancel b ; fin ok ; run c",
        "run a ; fin ok ; discard b ; run c ; cancel c ; dfin ; run d ; fin ok",
        "run a ; run b ; run c ; cancel c ; fin err ; run d ; fin ok",
    ]
    for c in directed:
        yield c
    n = 250 if tier == "quick" else 6000
    for _ in range(n):
        ops, k = [], 0
        execing, discarding, st_ok = False, False, False
        waiting = []
        for _ in range(r.rng(2, 12)):
            x = r.below(100)
            if waiting and x < 6 and (execing or discarding):
                # cancel a waiting call; the cases stop there (what a second, concurrent execution does is the scheduler's choice)
                ops.append("cancel " + waiting[r.below(len(waiting))])
                break
            name = "abcdefghijklmnop"[k % 16]
            if execing and x < 40:
                o = r.choice(["ok", "ok", "err"])
                ops.append("fin " + o); execing = False; st_ok = o == "ok"; waiting = []
            elif discarding and x < 40:
                ops.append("dfin"); discarding = False; st_ok = False; waiting = []
            elif x < 70:
                ops.append("run " + name); k += 1
                if not execing and not discarding and not st_ok:
                    execing = True
                elif execing or discarding:
                    waiting.append(name)
            elif x < 92:
                ops.append("discard " + name); k += 1
                if st_ok and not execing and not discarding:
                    discarding, st_ok = True, False
            elif x < 96:
                ops.append("dfin")
                if discarding:
                    discarding = False
            else:
                ops.append("fin " + r.choice(["ok", "err"]))
                if execing:
                    execing = False
        if k <= 16:
            yield " ; ".join(ops)


def gen(r, tier, sub):
    return gen_wk(r, tier) if sub == "C12wk" else gen_main(r, tier)


def nontrivial(case, obs):
    if " ;; " not in case:
        return "discard" in case and case.count("run") >= 2
    ops = case.split(" ;; ")[1:]
    seen_discard = False
    for o in ops:
        if o.startswith("discard") or o.startswith("rundiscard"):
            seen_discard = True
        if o.startswith("run") and re.search(r"\bR\d", o) and (seen_discard or any(w in o for w in ("reduce", "cogroup", "reshuffle", "reshard", "fold"))):
            return True
    return False


def shrink_candidates(case):
    if " ;; " not in case:
        ops = case.split(" ; ")
        if len(ops) > 1:
            yield " ; ".join(ops[:-1])
        return
    parts = case.split(" ;; ")
    # drop the last op
    if len(parts) > 2:
        yield " ;; ".join(parts[:-1])
    # drop a scan/discard op in the middle
    for i in range(1, len(parts)):
        if parts[i].split()[0] in ("scan", "scan2", "discard"):
            yield " ;; ".join(parts[:i] + parts[i + 1:])


def t2(chk, wc, tier, seed):
    """the order of the two actions of (*sliceMachine).Discard, regenerated from exec/slicemachine.go, tied to the
    order for which BS.Discard.discard_safe is proved; and the per-invocation name of the re-shuffle tasks."""
    import re
    import vlib
    src = open(wc.repo + "/exec/slicemachine.go").read()
    try:
        i = src.index("func (s *sliceMachine) Discard(")
        body = src[i:src.index("\n}\n", i)]
        rpc, lost = body.find('"Worker.Discard"'), body.find("task.Set(TaskLost)")
        rpc_first = rpc >= 0 and lost >= 0 and rpc < lost
    except ValueError:
        rpc_first = False
    comp = open(wc.repo + "/exec/compile.go").read()
    m = re.search(r'shuffleOpName := c\.namer\.New\(fmt\.Sprintf\("([^"]*)"((?:, [^)]*)?)\)\)', comp)
    fmtstr, args = (m.group(1), m.group(2)) if m else ("?", "")
    gen = "def discardRpcFirstG : Bool := %s\n" % ("true" if rpc_first else "false")
    gen += 'def reshuffleNameFormatG : String := "%s"\ndef reshuffleNameArgsG : String := "%s"' % (fmtstr, args.replace('"', "'"))
    ties = [
        ("discard_order_tie", "theorem discard_order_tie : discardRpcFirstG = true := by decide",
         "exec/slicemachine.go (*sliceMachine).Discard: Worker.Discard before task.Set(TaskLost) (the order BS.Discard.discard_safe assumes)"),
        ("reshuffle_name_tie",
         'theorem reshuffle_name_tie : reshuffleNameFormatG = "inv%d_%s_shuffle" ∧ reshuffleNameArgsG = ", c.inv.Index, result.tasks[0].Name.Op" := by decide',
         "exec/compile.go: the tasks re-shuffling a Result are named after the consuming invocation (task outputs are stored by name)"),
    ]
    # the local executor treats a dependency output that cannot be read (discarded meanwhile) as *loss* of the consumer — so
    # that the evaluator recomputes — and only combine/combiner set-up failures as fatal (exec/local.go depReaders, Run)
    loc = open(wc.repo + "/exec/local.go").read()
    try:
        dr = loc[loc.index("func (l *localExecutor) depReaders("):]
        dr = dr[:dr.index("\n}\n")]
    except ValueError:
        dr = ""
    read_errs = re.findall(r'errors\.E\(([^\n]*?)"error reading %v"', dr)
    read_nonfatal = len(read_errs) >= 1 and all("Fatal" not in a for a in read_errs)
    nodata = re.findall(r'errors\.E\(([^\n]*?)fmt\.Sprintf\("no data for|errors\.E\(([^\n]*?)"no data', dr)
    try:
        rn = loc[loc.index("func (l *localExecutor) Run("):]
        rn = rn[:rn.index("\n}\n")]
    except ValueError:
        rn = ""
    lost_unless_fatal = re.search(r"in, err := l\.depReaders\(ctx, task\)\s*if err != nil \{\s*if errors\.Match\(fatalErr, err\) \{\s*task\.Error\(err\)\s*\} else \{\s*task\.Set\(TaskLost\)", rn) is not None
    gen += "\ndef localDepReadErrorNotFatalG : Bool := %s\ndef localLostUnlessFatalG : Bool := %s" % (
        "true" if read_nonfatal else "false", "true" if lost_unless_fatal else "false")
    ties.append(("local_missing_dep_is_loss",
                 "theorem local_missing_dep_is_loss : localDepReadErrorNotFatalG = true ∧ localLostUnlessFatalG = true := by decide",
                 "exec/local.go: an unreadable dependency output leaves the consumer LOST (recomputed by the evaluator), not failed"))
    # the worker's half (BS.WorkerTask): the statements of (*worker).Discard in order, the arms of (*worker).Run's entry switch,
    # its wait loop, and what Task.Err reports for a LOST task
    import json
    bm = open(wc.repo + "/exec/bigmachine.go").read()
    rc, out, err = vlib.gofacts(wc, "stmts", "exec/bigmachine.go", "worker.Discard")
    if rc == 0:
        st = [s["text"] for s in json.loads(out)]
        def pos(sub):
            for i, s in enumerate(st):
                if sub in s:
                    return i
            return -1
        guard, mark, store, lost = pos("if task.state != TaskOk {"), pos("task.state = TaskRunning"), pos("w.store.Discard("), pos("task.Set(TaskLost)")
        disc_order = 0 <= guard < mark < store < lost and "return nil" in st[guard]
    else:
        disc_order = False
    try:
        wr = bm[bm.index("func (w *worker) Run("):]
        wr = wr[:wr.index("\n}\n")]
    except ValueError:
        wr = ""
    m = re.search(r"task\.Lock\(\)\n\tswitch task\.state \{\n((?:.|\n)*?)\n\tdefault:\n((?:.|\n)*?)\n\t\}\n\ttask\.state = TaskRunning\n\ttask\.Unlock\(\)", wr)
    arms = sorted(re.findall(r"case (Task\w+):", m.group(1))) if m else []
    dflt = m.group(2) if m else ""
    waits = re.search(r"for task\.state <= TaskRunning \{", dflt) is not None
    reports = re.search(r"if e := task\.Err\(\); e != nil \{\n\t+err = e\n\t+\}\n\t+return err", dflt) is not None
    deferred_ok = re.search(r"if task != nil \{\n\t\t\ttask\.Set\(TaskOk\)", wr) is not None
    tk = open(wc.repo + "/exec/task.go").read()
    lost_err = re.search(r"func \(t \*Task\) Err\(\) error \{(?:.|\n)*?case TaskLost:\n\t\treturn ErrTaskLost\n", tk) is not None
    gen += "\ndef workerDiscardOrderG : Bool := %s\ndef workerRunTakesG : List String := [%s]\ndef workerRunWaitsG : Bool := %s" % (
        "true" if disc_order else "false", ", ".join('"%s"' % a for a in arms), "true" if waits and reports and deferred_ok else "false")
    gen += "\ndef lostReportedAsErrorG : Bool := %s" % ("true" if lost_err else "false")
    ties.append(("worker_protocol_tie",
                 'theorem worker_protocol_tie : workerDiscardOrderG = true ∧ workerRunTakesG = ["TaskErr", "TaskInit", "TaskLost"] ∧ '
                 "workerRunWaitsG = true ∧ lostReportedAsErrorG = true := by decide",
                 "exec/bigmachine.go (*worker).Run / (*worker).Discard, exec/task.go Task.Err: Discard acts only on an OK task, marks it RUNNING, "
                 "deletes the output, then marks it LOST; Run takes a LOST, failed or fresh task and otherwise waits while the state is at most "
                 "RUNNING and reports task.Err(), which is ErrTaskLost for a LOST task (BS.WorkerTask.step with lostIsError = true)"))
    vlib.t2_check(chk, wc, "C12", ["BS.Model.Discard"], gen, ties)
