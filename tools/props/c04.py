"""C04 — the same program under the cross product of execution strategies; every run is judged against the
reference evaluation (so all runs agree with each other), including user metric counters."""
import sys, os, re
sys.path.insert(0, os.path.dirname(os.path.dirname(os.path.abspath(__file__))))
import progen

PID = "C04"
PARALLEL = {"C04": 8}
TIMEOUT = {"quick": 1500, "thorough": 7000}
RULE = ("each generated program (as in C01, 1..7 nodes) is run under 5 (quick) / 12 (thorough) sampled configurations from "
        "{local, bigmachine testsystem with machine procs 1,2,4} x parallelism 1..8 x max-load {30,50,95,100}% x machine "
        "combiners on/off x vector size {1,2,8,128} x sort canary {1,4,256} x spill batch {1,4,128} x reader shuffling on/off, "
        "and with its Map pragmas re-drawn among none/Materialize/Procs(n)/Exclusive; every run's shards, scan, effects "
        "and counters are compared with the reference; non-trivial = bigmachine configuration or a shuffle")
TRUST = ["bigmachine testsystem runs workers in-process (shared Func registry and effect logs)"]
ASSUMPTIONS = ["failure-free runs", "goroutine scheduling is sampled, not enumerated"]


def config(r):
    if r.chance(1, 4):
        return "local CH%d P%d CA%d SB%d%s" % (r.choice([1, 2, 8, 128]), r.rng(1, 8), r.choice([1, 4, 256]), r.choice([1, 4, 128, 200]),
                                             " MC" if r.chance(1, 3) else "")
    toks = ["bm", "M%d" % r.choice([1, 2, 4]), "P%d" % r.rng(1, 8), "L%d" % r.choice([30, 50, 95, 100]),
            "CH%d" % r.choice([1, 2, 8, 128]), "CA%d" % r.choice([1, 4, 256]), "SB%d" % r.choice([1, 4, 128, 200])]
    if r.chance(1, 2):
        toks.append("MC")
    if r.chance(1, 3):
        toks.append("NOSHUF")
    return " ".join(toks)


def repragma(r, prog):
    def sub(m):
        kind = r.choice(["map", "map", "mapm", "mapp", "mapx"])
        if kind == "mapp":
            return "=mapp %s %s %d" % (m.group(2), m.group(3), r.rng(1, 3))
        return "=%s %s %s" % (kind, m.group(2), m.group(3))
    return re.sub(r"=(map|mapm|mapx) (\S+) (\S+)", sub, re.sub(r"=mapp (\S+) (\S+) \d+", r"=map \1 \2", prog))


def gen(r, tier):
    import props.c01 as c01
    ss = list(c01.shared_shuffles())
    ss = [c for c in ss if r.below(6 if tier == "quick" else 1) == 0]
    for p in ss + list(c01.direct_and_shuffled()) + list(c01.two_repartitions()) + list(c01.wide_keyed()):
        yield "%s ;; %s" % (config(r), p)
    # machine combiners shared by concurrent tasks of one machine: many rows, a handful of keys per partition
    for cfg in ("bm M2 P4 MC", "bm M4 P8 MC", "bm M8 P8 MC", "bm M4 P8", "local P4"):
        for nsh in (4, 8):
            for nrows in (400, 4000):
                for m in (12, 64):
                    if tier == "quick" and r.below(2):
                        continue
                    yield "%s CH%d ;; N0=lines %d %d ; N1=map N0 mod%d ; N2=reduce N1 add ; OUT N2" % (cfg, r.choice([8, 128]), nsh, nrows, m)
    n = 120 if tier == "quick" else 1500
    k = 5 if tier == "quick" else 12
    for i in range(n):
        p, sh, ordr, isscan = progen.gen_program(r, 7, e2e=True, big=(i % 9 == 0))
        for j in range(k):
            q = repragma(r, p) if j % 2 else p
            if j == 3:
                q = "EXCLUSIVE ; " + q      # run through an exclusive Func: the invocation gets machines of its own
            yield "%s ;; %s" % (config(r), q)


def nontrivial(case, obs):
    return case.startswith("bm") or any(w in case for w in ("reduce", "cogroup", "reshuffle", "reshard", "fold"))


def shrink_candidates(case):
    cfg, _, main = case.partition(" ;; ")
    stmts = [s.strip() for s in main.split(" ; ") if s.strip()]
    body = [s for s in stmts if not s.startswith("OUT")]
    if len(body) > 1:
        nb = body[:-1]
        yield cfg + " ;; " + " ; ".join(nb) + " ; OUT " + nb[-1].split("=")[0]


def finding_key(case, obs, model, oracle):
    # D16: a counting Map pipelined into a Head is pulled only as far as the Head reads
    if "depend on pipelining: a counting Map feeds a Head" in oracle:
        return "counters-depend-on-pipelining-under-head"
    # D23: a WriterFunc pipelined into a Head observes only what the Head pulls
    if "is pipelined into a Head and observed only what the Head pulled" in oracle:
        return "writer-under-head-observes-prefix"
    return None
