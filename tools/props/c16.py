"""C16 — FuncLocationsDiff laws (all list pairs) and invocation argument transport."""
import itertools

PID = "C16"
CASE_LIMIT = {"C16": 45, "C16inv": 45}   # seconds: these cases are function calls, not sessions
SUBS = ["C16", "C16inv", "C16e2e", "C16res"]
PARALLEL = {"C16e2e": 6, "C16res": 6}
RULE = ("end to end (exhaustive): Funcs taking a pointer, a map and a slice, each as value / typed nil / untyped nil, and Funcs "
        "taking a func and a chan, run in real sessions (local, bigmachine): encodable arguments build the same slice on every "
        "executor, unencodable ones (incl. an argument only the receiving worker cannot decode) make Run fail promptly on bigmachine with the cause, "
        "not after retries as a lost task, nothing crashes or hangs; diff: every pair of location lists of length <= 4 over a 3-letter alphabet (exhaustive in the thorough tier, "
        "length <= 3 in quick) plus random longer pairs; transport: random well-typed and ill-typed argument lists "
        "over 6 registered Funcs (scalars, strings, slices, maps, structs, pointers, interface parameters holding "
        "registered concrete types, nil, *Result); non-trivial = lists differ / at least one non-scalar argument")
TRUST = ["encoding/gob round-trips encodable values (contract `dec (enc v) = v`; BS.Inv takes it as given)"]
ASSUMPTIONS = ["gob value encoding is not modelled"]
LEVEL_NOTE = ("diff laws proved for all lists (BS.Diff.diff_nil_iff_eq, diff_transforms); argument transport proved only "
              "for the dispatch (BS.Inv.args_roundtrip) with gob trusted; tie by differential testing")


def gen(r, tier, sub):
    if sub == "C16res":
        # Result arguments: invocations that depend on each other along paths of different lengths, consumed together on
        # clusters where a worker has compiled none of them (the worker must receive the dependencies first)
        import sys, os
        sys.path.insert(0, os.path.dirname(os.path.dirname(os.path.abspath(__file__))))
        import props.c12 as c12
        alld = [c for c in c12.directed() if c.startswith("bm")]
        if tier == "quick":
            alld = [c for c in alld if r.below(4) == 0]
        for c in alld:
            yield c
        return
    if sub == "C16e2e":
        # exhaustive: every combination of pointer / map / slice argument shapes (value, typed nil, untyped nil) and the
        # two never-encodable parameter types, on the local executor and two bigmachine configurations
        for cfg in ("local", "bm M2 P2", "bm M1 P2 MC"):
            for p in ("pst:5", "nilpst", "nil"):
                for m in ("map:1,2", "map:", "nilmap", "nil"):
                    for xs in ("ints:1,2,3", "ints:", "nilints", "nil"):
                        yield "%s ;; E0 %s %s %s" % (cfg, p, m, xs)
            yield "%s ;; E1 fn" % cfg
            yield "%s ;; E2 ch" % cfg
            # an argument that encodes on the driver and cannot be decoded by a worker
            yield "%s ;; E3 ver:1" % cfg
            yield "%s ;; E3 ver:2" % cfg
        # a cluster that is out of capacity (no machine is ever delivered): an argument that cannot be encoded must still fail
        # at once, with its cause — not wait for a machine
        for cfg in ("bm M2 P2 NOMACH", "bm M1 P2 MC NOMACH"):
            yield "%s ;; E1 fn" % cfg
            yield "%s ;; E2 ch" % cfg
        return
    if sub == "C16":
        maxlen = 3 if tier == "quick" else 4
        alpha = ["a.go:1", "b.go:2", "c.go:3"]
        lists = [()]
        for n in range(1, maxlen + 1):
            lists += list(itertools.product(alpha, repeat=n))
        for l in lists:
            for rr in lists:
                yield "L %s R %s" % (",".join(l) or "-", ",".join(rr) or "-")
        n = 2000 if tier == "quick" else 30000
        alpha2 = ["f%d.go:%d" % (i, i) for i in range(6)]
        for _ in range(n):
            l = [r.choice(alpha2) for _ in range(r.rng(0, 9))]
            if r.chance(1, 2):
                rr = list(l)
                for _ in range(r.rng(0, 3)):
                    k = r.below(3)
                    if k == 0 and rr:
                        del rr[r.below(len(rr))]
                    elif k == 1:
                        rr.insert(r.rng(0, len(rr)), r.choice(alpha2))
                    elif rr:
                        rr[r.below(len(rr))] = r.choice(alpha2)
            else:
                rr = [r.choice(alpha2) for _ in range(r.rng(0, 9))]
            yield "L %s R %s" % (",".join(l) or "-", ",".join(rr) or "-")
    else:
        n = 1500 if tier == "quick" else 20000
        sigs = [
            [["int"], ["str"]],
            [["ints", "nilints", "nil"], ["map", "nilmap", "nil"]],
            [["st"], ["pst", "nil"]],
            [["int", "i64", "str", "ints", "nilints", "map", "nilmap", "st", "impl", "nil", "f64", "bool", "u8", "bytes", "res"], ["impl", "nil"]],
            [["res", "nil"], ["res", "nil"], ["i64"]],
            [["f64"], ["bool"], ["u8"], ["bytes", "nil"]],
            [["ints", "nilints", "nil"]] * 3,
            [["st"], ["st"], ["map", "nilmap", "nil"], ["map", "nilmap", "nil"]],
            [["pst", "nil"], ["pst", "nil"], ["bytes", "nil"], ["bytes", "nil"]],
        ]
        allk = sigs[3][0] + ["pst"]

        def val(k):
            if k in ("st", "pst") and r.chance(1, 3):
                return "%s:0" % k          # a zero field: gob omits it, the decoder must not keep an older value
            if k in ("int", "i64", "st", "pst", "impl", "res", "f64"):
                return "%s:%d" % (k, r.rng(0, 99))
            if k == "str":
                return "str:" + r.choice(["x", "hello", "a-b", "z9"])
            if k == "bytes":
                return "bytes:" + r.choice(["x", "xyz", "q"])
            if k == "ints":
                return "ints:" + ",".join(str(r.rng(0, 9)) for _ in range(r.choice([0, 1, 2, 3, 5])))
            if k == "map":
                ks = sorted(set(r.rng(0, 9) for _ in range(r.rng(0, 3))))
                return "map:" + ",".join(map(str, ks))
            if k == "bool":
                return "bool:%d" % r.below(2)
            if k == "u8":
                return "u8:%d" % r.rng(0, 255)
            return k
        for _ in range(n):
            f = r.below(len(sigs))
            args = []
            bad = r.chance(1, 10)
            for allowed in sigs[f]:
                k = r.choice(allk if bad and r.chance(1, 2) else allowed)
                if k == "pst" and "pst" not in allowed:
                    k = "st" if "st" in allowed else allowed[0]  # pointers inside interfaces are gob's business
                args.append(val(k))
            if bad and r.chance(1, 3) and args:
                args.pop()
            yield "F %d %s" % (f, " ".join(args))


def nontrivial(case, obs):
    if case.startswith("L"):
        p = case.split()
        return p[1] != p[3]
    return any(k in case for k in ("ints", "map", "st:", "impl", "res", "nil"))


def shrink_candidates(case):
    p = case.split()
    if p[0] == "L":
        for side in (1, 3):
            xs = [] if p[side] == "-" else p[side].split(",")
            for i in range(len(xs)):
                ys = xs[:i] + xs[i + 1:]
                q = list(p)
                q[side] = ",".join(ys) or "-"
                yield " ".join(q)
